#!/bin/bash
# builds the OCaml model driver from the extracted model (ocaml/extracted/model.ml)
set -e
cd "$(dirname "$0")"
mkdir -p _build
cp extracted/model.ml extracted/model.mli driver.ml _build/
cd _build
ocamlfind ocamlopt -O3 -unboxed-types 2>/dev/null >/dev/null || true
ocamlfind ocamlopt -w -a -o driver model.mli model.ml driver.ml
