#!/bin/bash
# builds the OCaml model driver: extracted model + drv_util + every drv_<family>.ml (dependency order) + drv_main last.
# A family file that does not compile (work in progress) is left out with a warning instead of breaking every check.
cd "$(dirname "$0")"
rm -rf _build.tmp && mkdir -p _build.tmp
cp extracted/model.ml extracted/model.mli drv_*.ml _build.tmp/
cd _build.tmp
for attempt in 1 2 3 4 5 6 7 8; do
  FAMS=$(ls drv_*.ml | grep -v drv_main.ml)
  ORDER="$(ocamlfind ocamldep -sort model.mli model.ml $FAMS) drv_main.ml"
  if ocamlfind ocamlopt -w -a -o driver $ORDER 2>err.log; then
    cd .. && rm -rf _build && mv _build.tmp _build && exit 0
  fi
  BAD=$(grep -o 'File "drv_[a-z0-9_]*\.ml"' err.log | head -1 | sed 's/File "//; s/"//')
  if [ -z "$BAD" ] || [ "$BAD" = "drv_util.ml" ] || [ "$BAD" = "drv_main.ml" ] || [ "$BAD" = "drv_tx.ml" ]; then cat err.log; exit 1; fi
  echo "WARNING: leaving out $BAD (does not compile):" >&2; head -5 err.log >&2
  rm -f "$BAD" *.cm* *.o
done
cat err.log; exit 1
