#!/bin/bash
# builds the OCaml model driver: extracted model + drv_util + every drv_<family>.ml + drv_main
set -e
cd "$(dirname "$0")"
mkdir -p _build
rm -f _build/*.ml _build/*.mli
cp extracted/model.ml extracted/model.mli drv_*.ml _build/
cd _build
FAMS=$(ls drv_*.ml | grep -v -e drv_util.ml -e drv_main.ml | sort)
ocamlfind ocamlopt -w -a -o driver model.mli model.ml drv_util.ml $FAMS drv_main.ml
