#!/usr/bin/env python3
"""difflines.py cases impl_out model_out -> prints mismatching cases field by field (key=value tokens)"""
import sys
cases=open(sys.argv[1]).read().splitlines()
a=open(sys.argv[2]).read().splitlines()
b=open(sys.argv[3]).read().splitlines()
lim=int(sys.argv[4]) if len(sys.argv)>4 else 5
n=0
for i,(x,y) in enumerate(zip(a,b)):
    if x!=y:
        n+=1
        if n<=lim:
            print("case",i+1,cases[i][:150])
            fx=dict(t.split('=',1) if '=' in t else (t,'') for t in x.split(' '))
            fy=dict(t.split('=',1) if '=' in t else (t,'') for t in y.split(' '))
            for k in sorted(set(fx)|set(fy)):
                if fx.get(k)!=fy.get(k):
                    print("  ",k,"impl =",str(fx.get(k))[:300]); print("  ",k,"model=",str(fy.get(k))[:300])
print(n,"mismatches of",len(a),len(b))
