"""Per-property configuration of bin/check: generator families (quick count, thorough count),
which result keys K compares (None = the whole canonical line), trusted base, notes."""

TRUSTED_COMMON = [
    'Coq 8.16.1 kernel (coqc; coqchk as independent re-check in the thorough tier); vm_compute used inside some proofs; native_compute not used',
    'no axioms declared by the development; Print Assumptions of each property theorem is recorded in coverage.print_assumptions',
    'translator tools/genconsts (Go constants and literal tables -> coq/Gen/*.v, regenerated on every run)',
    'extraction: Require Extraction + ExtrOcamlBasic only (its Extract Inductive for bool, option, unit, list, prod, sumbool, sumor); no Extract Constant; N, Z, positive, nat, byte stay Coq inductives; OCaml 4.13.1',
    'ocaml/driver.ml (hex/number/line parsing) and harness/*.go (generators, canonical printing), bin/check (diff)',
    'Go toolchain, cgo and the libraries below the repository (btcd, btcutil, btcec, go-secp256k1-zkp, fastsha256)',
]

PROPS = {
    'C01': dict(
        families=[('tx', 250, 4000), ('raw', 250, 4000)],
        compare=None,
        trusted=['modelled by hand: transaction/transaction.go serialize/NewTxFromBuffer, internal/bufferutil (varint, slices, vectors, Elements value/asset/nonce readers), block/serialize.go, block/deserialize.go'],
        explanation='theorems: parse(ser t ++ rest) = (norm t, rest) for all wf t; ser(parse bs) ++ rest = bs for all accepted bs with canonical flag; same for headers/blocks. '
                    'K: model vs implementation on generated transaction/block values (3/4 inside the wf domain) and on a malformed byte stream.',
    ),
    'C19': dict(
        families=[('tx', 400, 6000)],
        compare=['ser', 'sz0', 'sz1', 'w', 'vs', 'dw', 'dvs', 'hasw'],
        trusted=['modelled by hand: SerializeSize, baseSize, Weight, VirtualSize, DiscountWeight, DiscountVirtualSize, TxInput/TxOutput/TxWitness.SerializeSize, VarIntSerializeSize, VarSliceSerializeSize'],
        explanation='theorems: size_tx aw = length(ser_tx aw) for every transaction whose fixed-width fields have their fixed widths; weight/vsize definitions; discount bounds and rule.',
    ),
}
