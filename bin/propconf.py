"""Per-property configuration of bin/check, assembled from bin/props/Cxx.py.
Each bin/props/Cxx.py defines CONF (generator families as (family, quick count, thorough count), which result
keys K compares (None = the whole canonical line), trusted base, notes) and TEXT (MANIFEST texts)."""
import os, glob, importlib.util, sys
sys.path.insert(0, os.path.dirname(__file__))

TRUSTED_COMMON = [
    'Coq 8.16.1 kernel (coqc; coqchk as independent re-check in the thorough tier); vm_compute used inside some proofs; native_compute not used',
    'no axioms declared by the development; Print Assumptions of each property theorem is recorded in coverage.print_assumptions',
    'translator tools/genconsts (Go constants and literal tables -> coq/Gen/*.v, regenerated on every run)',
    'extraction: Require Extraction + ExtrOcamlBasic only (its Extract Inductive for bool, option, unit, list, prod, sumbool, sumor); no Extract Constant; N, Z, positive, nat, byte stay Coq inductives; OCaml 4.13.1',
    'ocaml/drv_*.ml (hex/number/line parsing) and harness/*.go (generators, canonical printing), bin/check (diff)',
    'Go toolchain, cgo and the libraries below the repository (btcd, btcutil, btcec, go-secp256k1-zkp, fastsha256)',
]

PROPS, TEXT = {}, {}
for _p in sorted(glob.glob(os.path.join(os.path.dirname(__file__), 'props', 'C*.py'))):
    _id = os.path.basename(_p)[:-3]
    _spec = importlib.util.spec_from_file_location('props_' + _id, _p)
    _m = importlib.util.module_from_spec(_spec)
    _spec.loader.exec_module(_m)
    PROPS[_id] = _m.CONF
    TEXT[_id] = _m.TEXT
