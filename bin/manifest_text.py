NOT_YET = {}
COMMON_NOTE = ("Trusted: Coq 8.16.1 kernel (+coqchk in thorough tier), no axioms (Print Assumptions recorded in evidence), translator tools/genconsts, "
               "extraction (ExtrOcamlBasic only, no Extract Constant) + OCaml driver, the Go harness and diff. The theorem is about the hand-written Gallina model; "
               "the tie to /repo is the per-run correspondence check on generated cases and the regenerated constants. ")
TEXT = {
 'C01': dict(
   text="Machine-checked proof (Coq) over an executable model of the transaction wire codec: for every well-formed transaction parse(serialize t ++ rest) = (t, rest), and every accepted byte string with a canonical flag re-serializes to exactly the bytes consumed; varint round-trip and canonicity for all 64-bit values. Unbounded in counts and lengths. The model is tied to the code by differential runs (model vs implementation on structured and malformed inputs) and by regenerated constants.",
   note=COMMON_NOTE + "Modelled by hand: transaction.serialize/NewTxFromBuffer, bufferutil readers/writers (after fix 23c9d1b). Block header/body codec is covered by the correspondence check only until its theorems land.",
   technique="Coq proof of codec round-trip (both directions) + model/implementation differential check"),
 'C19': dict(
   text="Machine-checked proof (Coq): size_tx = length of the corresponding serialization for every transaction with 32-byte hashes/issuance fields, weight = 3*base+total, vsize = ceil(weight/4), discount bounds and the explicit-output rule under stated side conditions; model tied to the code by differential runs over boundary-length transactions.",
   note=COMMON_NOTE + "Modelled by hand: SerializeSize family, Weight, VirtualSize, DiscountWeight/VirtualSize.",
   technique="Coq proof (size = length of encoding, arithmetic lemmas) + differential check"),
 'C04': dict(
   text="Machine-checked proof (Coq): the serialization hashed by TxHash is unchanged by any change confined to witness fields (frame, unconditional) and changes with every covered field (codec injectivity; ids differ under an ideal-hash hypothesis); WitnessHash likewise for witness fields; equals TxHash without witness data. SHA-256 is executable Gallina, compared bit for bit with the implementation.",
   note=COMMON_NOTE + "Ideal hash (injective H) is a Section hypothesis of the sensitivity theorems, not an axiom.",
   technique="Coq proof (frame + injectivity of the hashed serialization) + differential check incl. executable SHA-256"),
}
