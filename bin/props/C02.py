"""bin/props/C02.py — configuration of the C02 check (read by bin/propconf.py)."""
from props_common import COMMON_NOTE

CONF = dict(
    families=[('sh', 260, 5000)],
    compare=None,
    trusted=['modelled by hand: HashForSignature, HashForWitnessV0, HashForWitnessV1 and the calc*Hash helpers (after fixes 2a4f33d and 05e944e); '
             'SHA-256 / tagged hash executable in Gallina, digests compared bit for bit'],
    assumptions=['frame theorems hold for every hash function (H is universally quantified); the sensitivity direction (covered field changes => digest changes) '
                 'is decided on the implementation by the exhaustive perturbation matrix S and, for the serialization layer, by the codec injectivity theorems of C01/C04; '
                 'a digest-level sensitivity theorem under an ideal-hash hypothesis is not yet proved (stated as partial)'],
    explanation='theorems (partial: frame half in full, sensitivity half via S): for legacy, segwit v0 and taproot the pre-image is a function of an explicit covered view of '
                '(transaction, index, hash type, spent data); the matrix rows of the property statement are corollaries. K: digests of all three algorithms vs the executable '
                'model. S: for each generated (tx, algorithm, index, hash type) every field class x position is perturbed on the implementation and the digest must change iff covered.',
    nontrivial_rule='distinct (transaction, algorithm, index, hash type) cases whose digest is not the constant One / panic',
)

TEXT = dict(
    text='Machine-checked proof (Coq), partial: for each of the three signature-hash algorithms, all transactions, indexes and hash types, the pre-image is proved to depend only on an explicit covered view (so fields outside the coverage never change the digest, for any hash function); the rows named in the property (ANYONECANPAY, NONE, SINGLE, other sequences, output proofs without the RANGEPROOF bit) are corollaries. The converse (a covered field always changes the digest) is established on the implementation by enumerating the complete perturbation matrix for every generated case, and the model is tied to the code by bit-exact digests.',
    note=COMMON_NOTE + 'Partial: digest-level sensitivity under an ideal hash is not a theorem yet. One recorded finding (legacy SINGLE|RANGEPROOF covers proofs of earlier outputs).',
    technique='Coq proof (pre-image is a function of the covered view) + bit-exact differential check + exhaustive perturbation matrix on the implementation',
)
