"""bin/props/C02.py — configuration of the C02 check (read by bin/propconf.py)."""
from props_common import COMMON_NOTE

CONF = dict(
    families=[('sh', 260, 5000)],
    compare=None,
    trusted=['modelled by hand: HashForSignature, HashForWitnessV0, HashForWitnessV1 and the calc*Hash helpers (after fixes 2a4f33d and 05e944e); '
             'SHA-256 / tagged hash executable in Gallina, digests compared bit for bit'],
    assumptions=['frame theorems hold for every hash function (H is universally quantified)',
                 'sensitivity theorems (segwit v0: pre-image and digest; taproot: pre-image; legacy, with or without RANGEPROOF: pre-image, no hash hypothesis needed) take an ideal hash as hypothesis: injective, 32-byte output, and for v0 never the all-zero word',
                 'segwit v0 hashes the issuance list as 0x00-or-issuance without a delimiter: injective only for lists with the same presence pattern or different total length (hypothesis iss_compatible, which every single-field perturbation meets)',
                 'legacy SINGLE with index > 0: the blanked earlier outputs are not wire-representable, so the sensitivity theorem asks well-formedness of the hashed copy without them (legacy_core); the blanks are equal on both sides and cancel'],
    explanation='theorems (frame half in full for all three algorithms; sensitivity half proved for segwit v0, taproot and legacy with or without RANGEPROOF): for legacy, segwit v0 and taproot the pre-image is a function of an explicit covered view of '
                '(transaction, index, hash type, spent data); the matrix rows of the property statement are corollaries. K: digests of all three algorithms vs the executable '
                'model. S: for each generated (tx, algorithm, index, hash type) every field class x position is perturbed on the implementation and the digest must change iff covered.',
    nontrivial_rule='distinct (transaction, algorithm, index, hash type) cases whose digest is not the constant One / panic',
)

TEXT = dict(
    text='Machine-checked proof (Coq): for each of the three signature-hash algorithms, all transactions, indexes and hash types, the pre-image is proved to depend only on an explicit covered view (so fields outside the coverage never change the digest, for any hash function); the rows named in the property (ANYONECANPAY, NONE, SINGLE, other sequences, output proofs without the RANGEPROOF bit) are corollaries. The converse (equal digests force equal covered views, i.e. a covered field always changes the digest) is proved for segwit v0, taproot and legacy (every hash type and input index, SIGHASH_SINGLE above index 0 included) under an ideal-hash hypothesis, and is established for all three algorithms on the implementation by enumerating the complete perturbation matrix for every generated case; and the model is tied to the code by bit-exact digests.',
    note=COMMON_NOTE + 'The sensitivity half is stated on pre-images for legacy and taproot and on digests for segwit v0; it is additionally enumerated on the implementation by the perturbation matrix.',
    technique='Coq proof (pre-image is a function of the covered view) + bit-exact differential check + exhaustive perturbation matrix on the implementation',
)
