"""bin/props/C03.py — configuration of the C03 check (read by bin/propconf.py)."""
from props_common import COMMON_NOTE

CONF = dict(
    families=[('shd', 260, 5000), ('sha', 60, 800)],
    coq_eval=[dict(family='sha', key='sha', imports='Lib.Sha256', quick=30, thorough=200, fn='sha256')],
    compare=None,
    k_is_property=True,
    gen_obligations=0,
    trusted=['modelled by hand: HashForSignature, HashForWitnessV0, HashForWitnessV1; coq/Spec/ElementsSighash.v is the independent statement of the three layouts; '
             'tools/genvectors.py regenerates the published vectors of transaction/data/tx_valid.json into coq/Gen/SighashVectors.v on every run'],
    assumptions=['the specification file is my reading of the Elements layouts; it is anchored to ground truth by the 20 published vectors evaluated through it inside the Coq kernel'],
    explanation='theorems: on the domain (legacy ALL/NONE and first-input SINGLE, each with or without ANYONECANPAY; v0 without RANGEPROOF; taproot key/script path with or without annex) the coded pre-image equals the '
                'specification layout for all transactions, indexes, hash types and spent data; the specification reproduces the published vectors (vm_compute); the transaction read back from its own serialization has the same three pre-images as the object that was serialized (C03_reparsed_has_same_preimages, from the codec theorem of C01 and the fact that no pre-image reads the witness flag). '
                'K: the digest returned by the implementation vs the digest of the extracted SPECIFICATION on generated cases of the domain; the implementation side computes every digest on the object built field by field and again on the transaction read back from its own serialization (NewTxFromBuffer, on the domain where C01 proves that reading gives the fields back), a difference between the two is the answer reported for the case.',
    nontrivial_rule='distinct (transaction, algorithm, index, hash type) cases of the domain',
)

TEXT = dict(
    text='Machine-checked proof (Coq): refinement of the three coded pre-image builders to an independently written specification of the Elements layouts, for all transactions (issuance, reissuance, peg-in inputs, confidential outputs), input indexes, hash types of the domain, spent-output data, leaf hashes and annexes; the specification is evaluated on the 20 published vectors inside the kernel. The implementation is compared bit for bit with the extracted specification on generated cases.',
    note=COMMON_NOTE + 'The specification (coq/Spec/ElementsSighash.v) is hand-written from the Elements/BIP-143/BIP-341 texts and anchored by the published vectors.',
    technique='Coq refinement proof (coded layout = specification layout) + vectors by vm_compute + implementation-vs-specification differential check',
)
