"""bin/props/C16.py — configuration of the C16 check (read by bin/propconf.py)."""
from props_common import COMMON_NOTE

CONF = dict(
    families=[('taptree', 48, 1500), ('tapcb', 50, 2000), ('taptweak', 150, 5000), ('tapbig', 8, 64), ('tapkeys', 24, 600)],
    compare=None,
    trusted=[
        'modelled by hand: TapElementsLeaf.TapHash, tapElementsBranchHash, AssembleTaprootScriptTree, leafDescendants, ControlBlock.RootHash, ToControlBlock, VerifyTaprootLeafCommitment, TweakTaprootPrivKey, ComputeTaprootOutputKey (taproot/taproot.go), txscript.ControlBlock.ToBytes / ParseControlBlock (btcd, called by the wrapper), the InputTapLeafScript key pair of psetv2/input.go',
        'tagged SHA-256 is executable Gallina (Lib/Sha256.v; the per-tag mid-state form is proved equal to tagged_hash); tag strings and the base leaf version are regenerated from taproot.go into Gen/TaprootConsts.v on every run',
        'curve arithmetic is not modelled: in K the x-only output key / public key and their parities are computed with btcec by the generator and passed to the model as oracle values; the x-coordinate validity test of ParseControlBlock (x < p, x^3+7 a square) IS executable in the model',
    ],
    assumptions=[
        'digest length: every_leaf_proves_root over abstract hashes assumes 32-byte digests (proved for the SHA-256 instance, which needs no hypothesis)',
        'ideal hash: leaf hash and branch hash injective (other_script_or_version_fails, altered_node_fails)',
        'tweak commitment: root |-> H_tweak(key, root)*G collision free; group cancellation; a point is determined by x and the parity of y (negative theorems)',
        'abelian group: mulG is a homomorphism from Z/n, lift_x(x(P)) is the even-y point of {P, -P}, negation keeps x (tweaked_priv_matches_output_key)',
        'not proved: a control block whose internal-key bytes are altered fails (needs a random-oracle argument, not injectivity); searched by S only',
    ],
    explanation='theorems: the ordered branch hash is commutative (proved from bytes.Compare); for every leaf list with distinct leaf hashes AssembleTaprootScriptTree does not panic, terminates, commits to exactly the leaves and the proof accumulated for every leaf recomputes the root (induction over the pairing pass and the FIFO merge queue, through the hash-keyed index); ToBytes/ParseControlBlock and the PSET key pair round-trip; every control block verifies against the one output key with the right parity; other script / leaf version / single altered node / flipped parity / other output key fail under injective hashes; (tweaked d)*G = output key for both parities of d*G; tweaking leaves the caller\'s key unchanged (the model follows fix fefe606: the scalar is copied before Negate/Add; on the pre-fix tree K and S report it). K: root, every control block, parse results, root hashes and verdicts, tweaked keys and the caller\'s key afterwards, bit for bit. K also: trees with a script around the compact-size boundaries (0xfc/0xfd, 0xffff/0x10000/0x10001, 70000 bytes) and histories of ONE assembled tree used with 2..4 internal keys of both output-key parities (every leaf, every key, several orders). S: every clause on the implementation, incl. all positions of single-byte corruptions, p2tr payment and PSET round trip.',
)

TEXT = dict(
    text='Machine-checked proof (Coq): for every list of tapscript leaves with distinct leaf hashes (any count, any shape the assembler produces) AssembleTaprootScriptTree neither panics nor runs out of steps, the tree commits to exactly those leaves, and the inclusion proof accumulated for each leaf through the hash-keyed index recomputes the root, also after ControlBlock.ToBytes / ParseControlBlock; each control block verifies against the single output key with the correct parity bit; under injective leaf/branch hashes and an ideal tweak commitment another script, leaf version, a single altered proof node, the flipped parity bit or another output key fail; the private key tweaked for a root corresponds to the output key of the public key and that root for both parities of d*G (abstract abelian group). Tweaking leaves the caller\'s key unchanged (proved of the model of the fixed code, /repo commit fefe606; the pre-fix code overwrote the caller\'s scalar with the tweaked key, which the check reports as a violation). Tagged SHA-256, control-block layout, x-coordinate validity and scalar arithmetic mod n are executable Gallina compared bit for bit with the implementation; curve points enter the model as oracle values computed by btcec.',
    note=COMMON_NOTE + 'Hash injectivity, 32-byte digests (abstract version only), group laws and the tweak-commitment injectivity are Section hypotheses, each with a satisfiability Example; no axioms. Not covered by a theorem: failure after altering the internal-key bytes of a control block (random-oracle argument) — searched by S.',
    technique='Coq proof (queue-invariant induction over the assembler, codec round trip, injectivity, abstract-group algebra) + differential check with executable tagged SHA-256 + implementation-side perturbation search',
)
