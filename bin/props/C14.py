"""bin/props/C14.py — configuration of the C14 check (read by bin/propconf.py)."""
from props_common import COMMON_NOTE

CONF = dict(
    families=[('adrform', 45, 600), ('b32cb', 100, 1500), ('adrdec', 260, 4000), ('adrenc', 150, 2000), ('adrpay', 60, 800), ('adrscr', 40, 500), ('adrhist', 90, 1500)],
    compare=None,
    trusted=['modelled by hand: address/address.go (all exported functions), the address methods of payment/payment.go and payment/p2tr.go, txscript push encoding for data up to 75 bytes; '
             'network parameters and the address-type enumeration are regenerated from network/network.go and address/address.go on every run (Gen/NetConsts.v, Gen/AddressConsts.v); '
             'blech32 is the model of C15; the external codecs are executable re-implementations (Model/AddrCodecs.v: btcutil base58check, bech32) used only to run the model in the differential check, and compared with the real libraries there'],
    assumptions=['ext_laws (btcutil, outside the repository): base58 CheckDecode(CheckEncode(d,v)) = (d,v) and CheckEncode(CheckDecode s) = s; base58check strings of the nine version bytes with 20/54-byte payloads never begin with a segwit prefix; '
                 'bech32 Encode/EncodeM produce lower(hrp) ++ "1" ++ alphabet characters, are total on 5-bit data, DecodeGeneric returns hrp, data and the constant used, and Encode of what DecodeGeneric returned is the lower-case spelling; bech32.ConvertBits 8->5 (padded) then 5->8 is the identity and 5->8 accepts only images of 8->5',
                 '(none about the repository\'s own code: regroup_law and regroup_back_law of blech32.ConvertBits, formerly premises, are proved for all byte lists in Proofs/Regroup.v via a bit-list specification; the only finite step is the single-byte relation between the uint8 accumulator loop and the specification, 7936 + 8160 cases checked in the kernel)'],
    explanation='theorems (for all three networks, all payloads, all 33-byte keys): base58 / confidential base58 decode(encode) and encode(decode) with the prefix|key|hash layout; bech32 and blech32 forms encode, decode back to the same prefix/version/key/program, are attributed to exactly their network, get the right type and confidentiality flag, and ToOutputScript equals the payment builder script; '
                'ToConfidential/FromConfidential preserve address, key and script; version bytes and prefixes of the networks are pairwise disjoint (vm_compute over regenerated constants); payment address methods are these encoders. '
                'after fix e7c9f3c the former refutations are positive theorems: the other checksum constant is rejected, and every string FromBech32 (version 0/1) or FromBlech32 accepts, in either case, re-encodes to its lower-case spelling (blech32 side via C15 decode_encode: the twelve checksum symbols are determined by the rest). '
                'K: every exported function of package address and the payment address methods against the model on valid, mutated and malformed strings. '
                'S: 5 script types x confidential or not x 3 networks on random payloads through the real API (all clauses), every recognised string re-encoded, case and checksum-constant clauses as separate cases; histories (adrhist): decode, overwrite every returned slice over its full capacity, interleave with a sibling address, decode again -- the answers and the re-encoding must not change (K: the model is a pure function of the string, so the last answers of a history must equal it).',
)

TEXT = dict(
    text='Machine-checked proof (Coq) over an executable model of address.go and the payment address methods: for every network, script type, payload and 33-byte blinding key the address encodes, decodes back to the same payload/type/network/key, '
         'ToOutputScript equals the payment builder script, confidential<->unconfidential conversion preserves address, key and script, and network attribution is exclusive (prefix/version disjointness proved over regenerated constants). '
         'btcutil base58check/bech32 are abstract codecs whose round-trip laws are hypotheses; blech32 is the fully modelled C15 codec, including its ConvertBits regrouping (8->5 padded, 5->8 unpadded, incomplete group must be zero), whose two round-trip laws are proved for all byte lists. '
         'Recognised segwit strings re-encode to themselves up to case and the checksum constant is bound to the witness version (both were defects found by this check and repaired by commit e7c9f3c; the model follows the fixed code).',
    note=COMMON_NOTE + 'Hypotheses: laws of btcutil base58check/bech32/ConvertBits (ext_laws) only; each is exercised on the real code by the differential check. The statements carrying the former regroup premises are kept next to their premise-free versions (_closed).',
    technique='Coq proof over a layout model with abstract external codecs + model/implementation differential check on every exported address function + full-form oracle on the implementation',
)
