"""bin/props/C05.py — configuration of the C05 check (read by bin/propconf.py)."""
from props_common import COMMON_NOTE

CONF = dict(
    families=[('bv2', 56, 600), ('bv0', 34, 400)],
    compare=None,
    trusted=['modelled by hand: psetv2 Blinder (NewBlinder, blind, validateBlindingArgs ownership part, calculateInputScalar / calculateOutputScalar / calculateLastValueBlinder, write-back, SanityCheck), pset v0 Blinder (random draw order, generateOutputBlindingFactors, createBlindedOutputs arrays and write-back, blindInputs), the three scalar helpers and libsecp blind_generator_blind_sum as executable arithmetic modulo n; tag lists of BlindOutputs / validateBlindingArgs',
             'K inputs: the blinders are read back from the blinding arguments the bundled generator produced (v2) or replayed through the rng argument (v0); the verdicts of the library\'s own validator / prover (all validator calls true, surjection proof generated) are input bits of the model',
             'S: curve arithmetic of btcec and the proof verification of libsecp256k1-zkp (VerifyRangeProof, SurjectionProofVerify, GeneratorGenerate)'],
    assumptions=['commitments are modelled as formal linear combinations over Z_n (asset coefficients + G coefficient): the asset generators and G are treated as independent (discrete-log hardness)',
                 'surjection proofs: completeness (a generated proof verifies against the same tag list) is a Section hypothesis',
                 'range proofs: completeness (a proof signed for value, blinder, tag, script verifies against the commitment made from them) is a Section hypothesis',
                 'the hypothesis of the balance theorems that the parties\' input scalars account for the blinders of what is spent and issued (ownership is a partition with the true openings) and per-asset conservation of the amounts'],
    explanation='theorems: scalar helpers = v*abf+vbf mod n; per-blinder specs; ledger invariant by induction over any party list; balance of the final transaction for any number and order of parties; v0 final blinder balances the per-output arrays (_partial: up to the arrays); exactly-requested for both blinders and any selection; proof-argument consistency (_partial + two _refuted). K: every published scalar, the last value blinder, the blinded set and the balance verdict bit for bit on 1-4 parties (3- and 4-party exchanges with confidential inputs owned by different parties are generated on purpose); v0 includes blinded (re)issuances, also of an asset spent in the same transaction. S: balance with btcec points, every range and surjection proof, blinded-set equality on the final transaction.',
    nontrivial_rule='distinct case lines on which at least the first blinder succeeded',
)

TEXT = dict(
    text='Machine-checked proof (Coq) over an executable model of the scalar bookkeeping of both blinders: for any list of parties in any order the G-coefficient ledger invariant holds, the final transaction balances under per-asset conservation when the input scalars of the parties account for every spent/issued blinder (full statement, any number and order of parties), the v0 final blinding factor balances the per-output arrays, exactly the requested outputs are written for any selection (contiguous or not), and proofs verify by the completeness laws when prover and verifier tag lists coincide (refuted for parties not owning every input and for issuances not on the last input). Range/surjection proof completeness are hypotheses.',
    note=COMMON_NOTE + 'Two defects found by this check are repaired in /repo (db58bba non-last input scalar, 65fe84b v0 write-back by position) and the model follows the fixed code; three recorded findings remain (known_findings.txt): v2 surjection tags of unowned inputs, issuance tag order in v2 and v0 (need API-level changes).',
    technique='Coq proof (modular-arithmetic specs + induction over party lists + refutation witnesses) + differential check of every scalar/blinder + implementation oracle with independent curve arithmetic',
)
