"""bin/props/C19.py — configuration of the C19 check (read by bin/propconf.py)."""
from props_common import COMMON_NOTE

CONF = dict(
    families=[('tx', 400, 6000)],
    compare=['ser', 'sz0', 'sz1', 'w', 'vs', 'dw', 'dvs', 'hasw'],
    trusted=['modelled by hand: SerializeSize, baseSize, Weight, VirtualSize, DiscountWeight, DiscountVirtualSize, TxInput/TxOutput/TxWitness.SerializeSize, VarIntSerializeSize, VarSliceSerializeSize'],
    explanation='theorems: size_tx aw = length(ser_tx aw) for every transaction whose fixed-width fields have their fixed widths; weight/vsize definitions; discount bounds and rule.',
)

TEXT = dict(
    text='Machine-checked proof (Coq): size_tx = length of the corresponding serialization for every transaction with 32-byte hashes/issuance fields, weight = 3*base+total, vsize = ceil(weight/4), discount bounds and the explicit-output rule under stated side conditions; model tied to the code by differential runs over boundary-length transactions.',
    note=COMMON_NOTE + 'Modelled by hand: SerializeSize family, Weight, VirtualSize, DiscountWeight/VirtualSize.',
    technique='Coq proof (size = length of encoding, arithmetic lemmas) + differential check',
)
