"""bin/props/C19.py — configuration of the C19 check (read by bin/propconf.py)."""
from props_common import COMMON_NOTE

CONF = dict(
    families=[('tx', 400, 6000)],
    compare=['ser', 'sz0', 'sz1', 'w', 'vs', 'dw', 'dvs', 'hasw'],
    trusted=['modelled by hand: SerializeSize, baseSize, Weight, VirtualSize, DiscountWeight, DiscountVirtualSize, TxInput/TxOutput/TxWitness.SerializeSize, VarIntSerializeSize, VarSliceSerializeSize'],
    explanation='theorems: size_tx aw = length(ser_tx aw) for every transaction whose fixed-width fields have their fixed widths; weight/vsize definitions; discount bounds and rule for the weight and for the virtual size (rounded-up quotient; the truncating division of Go gives the same number on the domain of the rule).',
)

TEXT = dict(
    text='Machine-checked proof (Coq): size_tx = length of the corresponding serialization for every transaction with 32-byte hashes/issuance fields, weight = 3*base+total, vsize = ceil(weight/4), discount bounds and the explicit-output rule under stated side conditions, for the discounted weight and for the discounted virtual size (ceiling of a quarter of the discounted weight, equal to the undiscounted one without confidential outputs, equal to the virtual size of the explicitised transaction, also with the truncating division Go performs); model tied to the code by differential runs over boundary-length transactions.',
    note=COMMON_NOTE + 'Modelled by hand: SerializeSize family, Weight, VirtualSize, DiscountWeight/VirtualSize.',
    technique='Coq proof (size = length of encoding, arithmetic lemmas) + differential check',
)
