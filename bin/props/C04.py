"""bin/props/C04.py — configuration of the C04 check (read by bin/propconf.py)."""
from props_common import COMMON_NOTE

CONF = dict(
    families=[('tx', 300, 5000), ('sha', 60, 800)],
    coq_eval=[dict(family='sha', key='sha', imports='Lib.Sha256', quick=30, thorough=200, fn='sha256')],
    compare=['ser', 'txid', 'wtxid', 'hasw', 'sha', 'dsha', 'mid'],
    trusted=['modelled by hand: TxHash, WitnessHash, HasWitness, serialize; SHA-256 is executable Gallina (Lib/Sha256.v), collision freedom enters only as a hypothesis (injective H) of the digest theorems'],
    assumptions=['ideal hash: the two digest-level sensitivity theorems take an injective H as hypothesis; frame theorems and serialization-level sensitivity need none'],
    explanation='theorems: witness-only changes leave the hashed serialization unchanged; equal hashed serializations force equal covered fields (codec injectivity); wtxid = txid without witness data; the same per named field and list position (Proofs/TxIdFields.v). K: bit-exact txid/wtxid (executable SHA-256). S: the whole single-field perturbation matrix on the implementation.',
)

TEXT = dict(
    text='Machine-checked proof (Coq): the serialization hashed by TxHash is unchanged by any change confined to witness fields (frame, unconditional) and changes with every covered field (codec injectivity; ids differ under an ideal-hash hypothesis); WitnessHash likewise for witness fields; equals TxHash without witness data. SHA-256 is executable Gallina, compared bit for bit with the implementation.',
    note=COMMON_NOTE + 'Ideal hash (injective H) is a Section hypothesis of the sensitivity theorems, not an axiom.',
    technique='Coq proof (frame + injectivity of the hashed serialization) + differential check incl. executable SHA-256',
)
