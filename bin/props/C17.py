"""bin/props/C17.py — configuration of the C17 check (read by bin/propconf.py)."""
from props_common import COMMON_NOTE

CONF = dict(
    families=[('scal', 900, 30000)],
    compare=None,
    trusted=['modelled by hand: CalculateScalarOffset, SubtractScalars, ComputeAndAddToScalarOffset (confidential/confidential.go) and the three go-secp256k1-zkp calls they use (EcPrivKeyNegate, EcPrivKeyTweakAdd, EcPrivKeyTweakMul: length checks of the Go wrapper, reduction modulo n, refusal of an overflowing tweak, of a zero factor and of a zero sum, key zeroed on failure) as read from secp256k1-zkp/src/secp256k1.c; K compares them bit for bit with the cgo library',
             'the group order n is a literal in Model/Scalar.v; the harness compares its own copy with btcec.S256().N and K exercises n-1, n, n+1 against libsecp',
             'buffer ownership model (caller / package-level Zero / fresh local) instead of a full heap: argument immutability is the statement that no in-place libsecp call targets a buffer that is not a fresh copy'],
    assumptions=[],
    explanation='theorems: for all 64-bit values and all scalars that are absent or 32 bytes below n each helper answers and the answer is value*ab+vb, scalar+value*ab+vb, a-b modulo n (nil = 0; equal operands and results wrapping to zero give 32 zero bytes) — full totality statements since the repair 9f323e4; what is still refused lies outside the domain and is characterised exactly over all byte strings for SubtractScalars and CalculateScalarOffset (wrong lengths not caught by the equal-operands branch, different byte strings congruent modulo n, a value blinder >= n with a non-zero sum); no helper writes to an argument, for every input. K: whole result line (outcome class, result bytes incl. nil vs 32 bytes, whether the package-level Zero slice is returned, argument contents after the call) on generated triples biased to 0, 1, 2, n-1, n-2, (n+-1)/2, equal / negated / cancelling operands, structured scalars (single bit 2^i for every i, single byte, single 64-bit limb, their complements), nil vs 32 zero bytes vs empty, wrong lengths, values >= n. S: arithmetic against math/big in the property domain (any error there is a failure), guard bytes in front of and behind every argument (spare capacity), package-level Zero unchanged, zkpGenerator methods agree with the package functions.',
)

TEXT = dict(
    text='Machine-checked proof (Coq) over a model of the three scalar helpers and of the libsecp private-key negate / tweak-add / tweak-mul calls they use: for every 64-bit value and all scalars that are absent or 32 bytes below the group order the helpers answer exactly value*ab+vb, scalar+value*ab+vb, a-b modulo n (absent operand = 0, equal operands and results that wrap to zero included), and they never write to an argument. The inputs still refused (outside that domain) are characterised exactly for SubtractScalars and CalculateScalarOffset.',
    note=COMMON_NOTE + 'No cryptographic idealisation: this property is pure arithmetic modulo n. The total statements hold since the repair 9f323e4 (reverting it makes the proofs and the oracle fail).',
    technique='Coq proof (closed forms modulo n, error-region characterisation, ownership/write-log frame) + differential check against cgo libsecp256k1-zkp',
)
