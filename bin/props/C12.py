"""bin/props/C12.py — configuration of the C12 check (read by bin/propconf.py)."""
from props_common import COMMON_NOTE

CONF = dict(
    families=[('raw', 250, 4000), ('rawblk', 200, 3000), ('proof', 200, 3000), ('dec', 1800, 40000)],
    s_only_families=['dec'],
    compare=None,
    trusted=['modelled by hand (theorems): the transaction, block-header, block and merkle-block decoders (merkle: Model/Merkle.v parser + Model/MerkleIx.v, ExtractMatches with index cursors and explicit index-out-of-range outcomes, proved equal to the model that C20 compares with the implementation; btcd wire.MsgMerkleBlock.BtcDecode layout, caps and allocation order are written out by hand); every other decoder (PSET v0/v2 binary/hex/base64, addresses, blech32, '
             'control blocks, descriptors) is exercised on the implementation by the oracle S here and modelled in its own property (C20, C08, C07, C14, C15, C16)',
             'allocation is measured with runtime.MemStats.TotalAlloc around each decode (bound: 400 x input length + 16 MiB of constant overhead (regexp compilation, key parsing)) under a 24 GB address-space limit; the Go allocator itself is not modelled'],
    assumptions=['external decoders below the repository (btcd wire/txscript, btcutil base58/bech32, encoding/hex, encoding/base64, regexp) are assumed total'],
    explanation='theorems (partial: tx/header/block decoders): acceptance is stable under extension of the input, hence no strict prefix of a valid encoding is accepted; every slice length is '
                'checked against the bytes present; an accepted value is exactly as large as the bytes consumed. K: model vs implementation on the malformed transaction and block streams and on corrupted/malformed merkle blocks (family proof: parse + ExtractMatches, an implementation panic is a mismatch). merkle blocks: C12_merkle_* (stability, trailing bytes ignored, strict prefixes rejected, accepted = complete encoding, counts capped before reservation, allocation <= constant + 9 x input and <= 9 x input when accepted; proportionality refuted for rejected inputs: btcd reserves 16 MB for an 89-byte blob; ExtractMatches never indexes out of range, and does with the weaker guard of the seeded change). '
                'S: for all twelve decoder entry points, on valid encodings with single mutations/truncations/huge counts and noise: no panic, bounded allocation, every strict prefix of an '
                'unmodified valid encoding rejected, and the accepted value survives re-serialization, sanity check, hashing, signature validation, finalization and extraction.',
    nontrivial_rule='distinct inputs that the decoder accepted or that made the oracle fail (bare rejections are trivial)',
)

TEXT = dict(
    text='Machine-checked proof (Coq), partial: for the transaction, header and block decoders the model is proved extension-stable (so no strict prefix of a valid encoding is accepted), every length field is checked against the remaining input before use, and accepted values occupy exactly the consumed bytes; totality is by construction (the model is a total function whose only outcomes are value/reject, and the implementation is compared with it on a malformed stream). The remaining decoders are decided here by an implementation-side oracle over mutated valid encodings (panic, allocation, prefix, follow-up operations) and have their codec theorems under C07/C08/C14/C15/C16/C20. PSET v2 (C12_psetv2_*, model Model/PsetV2.v): the decoder is a stream reader that leaves the bytes after the last output section unread (NewPsetFromBuffer / NewPsetFromBase64 do not test for the end of the input, like the PSET v0 and transaction decoders), so "valid encoding" means a serializer output: proved are extension-stability, dependence on the consumed bytes only, rejection (an error, never a panic) of every strict prefix of the serialization of a well-formed packet and of every prefix that stops short of the consumed bytes, and exact consumption of serializations; an accepted input followed by anything stays accepted with the same packet.',
    note=COMMON_NOTE + 'Partial: the Go allocator and the external decoders are not modelled; allocation is measured, not proved. Control blocks are not prefix-free by format (a cut at a node boundary is a complete control block), such prefixes are not counted.',
    technique='Coq proof (extension-stability => prefix rejection, bounded slices) + malformed-stream differential check + implementation-side decoder oracle',
)
