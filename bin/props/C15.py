"""bin/props/C15.py — configuration of the C15 check (read by bin/propconf.py)."""
from props_common import COMMON_NOTE

CONF = dict(
    families=[('b32dec', 260, 4000), ('b32bad', 200, 3000), ('b32enc', 150, 2000), ('b32cb', 150, 2000), ('b32sub2', 16, 512)],
    compare=None,
    trusted=['modelled by hand: blech32/blech32.go (polymod, hrp expansion, createChecksum, verifyChecksum, DecodeGeneric, Decode, Encode, toBytes, toChars, ConvertBits); '
             'the generator constants, BLECH32, BLECH32M and the character set are NOT hand-copied: the theorems are proved over coq/Gen/Blech32Consts.v, regenerated from the Go source on every run; '
             'masks and shift amounts inside polymod (55, 5, 0x7fffffffffffff, 12 symbols) are literals of the hand-written model, tied by the differential check'],
    assumptions=[],
    explanation='theorems: polymod is GF(2)-linear (one step and fold) and never leaves 60 bits; verify(data ++ create_checksum) for all hrp/data/constants; '
                'kernel-checked syndrome table (31 x 1000 single-symbol syndromes non-zero and pairwise distinct, version flips never give BLECH32 xor BLECH32M) lifted by forallb_forall; '
                'hence every accepted string of ANY hrp and ANY admitted length with 1 or 2 substituted data-part symbols is rejected; wrong constant rejected; mixed case rejected; upper/lower decode alike; accepted strings have the canonical shape. '
                'K: Decode/DecodeGeneric/Encode/ConvertBits against the model on valid, mutated, mixed-case, boundary and malformed strings (outcome classes ok/err/panic; the 14-character string that used to panic is an error since fix 4672273 and the model follows). '
                'S: all 1-position substitutions of every accepted string, exhaustive 2-position substitution of sampled addresses (sliced over 16 case lines each), sampled pairs elsewhere, one-letter case flips, other-constant checksums; '
                'for the standard shapes (lq/tlq/el, 86/105 symbols) S also substitutes inside the human-readable part and the separator (now theorems too: C15_detects_hrp_one / _two / _and_data, C15_no_separator_rejected); 3-/4-position patterns are exploration only. Every string is presented twice in a row to Decode (a rejected string must stay rejected, a valid one must answer the same data again), and the mixed-case, wrong-constant and a sample of the substitution clauses are also judged on the address decoders built on Decode (FromBlech32 twice, DecodeType, ToOutputScript, FromConfidential), with single-letter flips at every position of both base spellings and the two block patterns (upper prefix + lower data, lower prefix + upper data). '
                'HRP theorems: a changed prefix xors one word G(hrp,hrp\') into the polymod before the data part; polymod_step(.,0) is injective on 60-bit words (C15_shift_injective, from a 32-case check of the generator low bits), so G<>0 (62+93+62 single and 961+2883+961 double substitutions enumerated) suffices for HRP-only errors at every length; HRP+data reduces to two kernel-enumerated tables (217 x 1000 entries each).',
)

TEXT = dict(
    text='Machine-checked proof (Coq) over an executable model of blech32.go whose generator constants, checksum constants and alphabet are regenerated from the Go source on every run: '
         'the checksum is GF(2)-linear, so error detection reduces to a finite syndrome table which the Coq kernel enumerates (vm_compute) for all 1000 positions the decoder admits; '
         'consequently, for every accepted string of any human-readable part and any length, replacing one or two data-part characters (version symbol, payload, checksum) by other alphabet characters is rejected, '
         'a checksum made with the constant of the other witness version is rejected, mixed case is rejected, and upper/lower spellings decode alike. '
         'The same holds for substitutions inside the human-readable part of the three network prefixes (lq, tlq, el, taken from the regenerated network constants): one or two substituted prefix characters, or one prefix character together with one data-part character, are rejected by Decode\'s checksum at every admitted length, and a string whose separator was replaced is rejected outright. DecodeGeneric does not look at the checksum (it returns whatever prefix is spelled); a foreign prefix that happened to pass would still be refused at the address layer (DecodeType/NetworkForAddress match the three known prefixes only).',
    note=COMMON_NOTE + 'Modelled by hand: blech32/blech32.go. No idealised primitives. 3- and 4-position error patterns are explored by S but not claimed.',
    technique='Coq proof (linearity + kernel-enumerated syndrome table over regenerated constants) + model/implementation differential check + exhaustive substitution search on the implementation',
)
