"""bin/props/C20.py — configuration of the C20 check (read by bin/propconf.py)."""
from props_common import COMMON_NOTE

CONF = dict(
    # mk: exhaustive n <= 9 x all match subsets (n <= 14 thorough) + that many random larger blocks;
    # mhist: one MerkleBlock object over time (extract, edit count/flags/hashes in place, extract again);
    # mkdense: every n in 1..72 with all / even / odd / all-but-one transactions matched (proofs that visit nearly every node: more than 2n-1 flag bits);
    # mkdbig: the same match sets for n in 127..130, 255..258, 511..514, 1023..1026 (oracle only: the extracted SHA-256 is too slow for K here);
    # mkc: literal reading of the corruption clause; proof: corrupted / malformed raw merkle blocks; claim: pegin.Claim
    families=[('mk', 24, 400), ('mkdense', 288, 288), ('mkdbig', 64, 400), ('mkc', 60, 400), ('proof', 520, 8000), ('mhist', 270, 4000), ('claim', 240, 4000)],
    s_only_families=['mkdbig'],
    compare=None,
    trusted=[
        'modelled by hand: block/merkle_block.go (calcTreeWidth, traverseAndExtract, ExtractMatches, serializeVBits), pegin/pegin.go (Claim, createPeginInput, output search, createPeginWitness, SerializeValue); cursors into VBits/TxHashes are modelled as unread suffixes',
        'external, written out in the model and compared in K only: btcd wire.MsgMerkleBlock.BtcDecode layout and limits (400001 hashes, 50000 flag bytes), blockchain.HashMerkleBranches = double SHA-256 (executable Gallina)',
        'external, inputs of the claim model (computed in the generator with btcd/btcutil, not with /repo): bitcoin txid, witness-stripped serialization, outputs, main-chain script; float64 fee product (exact dyadic rates in K, arbitrary fee function in the theorems)',
        'constants maxBlockWeight / minTransactionWeight regenerated into Gen/MerkleConsts.v',
    ],
    assumptions=[
        'ideal hash: C20_extract_build, C20_matches_are_leaves and C20_altered_hash_changes_root_or_rejects take an injective node hash H (H a b = H c d -> a = c /\\ b = d) as hypothesis; C20_extract_build_sha256 needs none but assumes no two sibling subtrees of the block hash alike',
        'soundness is stated for a proof whose transaction count equals the block size (the count is not committed to by the root: C20_altered_count_refuted)',
    ],
    explanation='theorems: Bitcoin partial merkle tree (spec: tree datatype, builder, level-by-level root) is accepted by the modelled extractor with the block root and exactly the matched ids in block order, for every count 1..16666 and every subset (induction on tree height, odd widths via Node1); tree hash = level-by-level root; soundness, altered-hash, surplus-hash/flag-byte, out-of-range-count theorems; refutations for in-range count, padding bit, leaf bit; claim shape, peg-in flag bit, fee/value split (full: claim succeeds iff fee <= amount, and then the outputs sum to the amount). K: independent Go builder vs spec builder (blob bytes), implementation parser+ExtractMatches vs model on valid, corrupted and malformed blobs, pegin.Claim serialization vs model. Histories (family mhist): ExtractMatches keeps nothing between calls but FBad; with FBad clear a call returns the fresh verdict of the present fields (theorem), K and S replay extract / in-place edit / extract sequences (count, flag bits, hash bytes, and the LENGTH of a TxHashes entry: a non-32-byte entry makes chainhash.NewHash fail, theorem C20_history_bad_length_refused) and compare with a freshly decoded proof; FBad is an exported field of the value and is never cleared: an object carrying FBad = true is refused (theorem C20_history_sticky_fbad, example C20_history_sticky_fbad_example); S expects exactly that. S: the statement on the implementation incl. the full single-corruption matrix, the repeated-tail forgery, bitcoin transactions in non-canonical encodings (extended with empty witnesses, trailing bytes) and several peg-in outputs.',
)

TEXT = dict(
    text='Machine-checked proof (Coq): for every block size 1..16666 and every match subset (distinct ids, injective node hash) Bitcoin\'s partial merkle tree is accepted by the model of ExtractMatches and yields the block\'s merkle root (proved equal to the level-by-level root) and exactly the matched ids in block order; accepted proofs with the block root report only block ids in order; altered hashes change the root or are rejected; surplus hashes / flag bytes and out-of-range counts are rejected. The clauses that do not hold of the format (in-range altered count, padding bit, height-0 flag bit) are proved refuted and listed as known findings. Claim: outpoint with peg-in flag, six witness elements in order, outputs sum to the amount for every successful claim and a fee above the amount is refused (after fix 858a1b0 in /repo; the former uint64 wrap is reported as a violation when the fix is reverted).',
    note=COMMON_NOTE + 'Ideal hash (injective H) is a Section hypothesis. btcd/btcutil decoding of the bitcoin transaction and header, and the float64 fee product, are inputs of the model. SHA-256 is executable Gallina, compared bit for bit.',
    technique='Coq proof (structural induction over the merkle tree against a positional model of the Go walker) + differential check with an independent proof builder + corruption-matrix oracle',
)
