"""bin/props/C01.py — configuration of the C01 check (read by bin/propconf.py)."""
from props_common import COMMON_NOTE

CONF = dict(
    families=[('tx', 220, 4000), ('raw', 220, 4000), ('blk', 120, 2000), ('rawblk', 160, 2500)],
    compare=None,
    coq_eval=[dict(family='raw', key='reser', imports='Model.Tx', quick=40, thorough=400,
                   fn='(fun i => match parse_tx i with Some (t, _) => ser_full t | None => nil end)'),
              dict(family='rawblk', key='reser', imports='Model.Tx Model.Block', quick=20, thorough=200,
                   fn='(fun i => match parse_block i with Some (b, _) => ser_block b | None => nil end)')],
    trusted=['modelled by hand: transaction/transaction.go serialize/NewTxFromBuffer, internal/bufferutil (varint, slices, vectors, Elements value/asset/nonce readers), block/serialize.go, block/deserialize.go'],
    explanation='theorems: parse(ser t ++ rest) = (norm t, rest) for all wf t; ser(parse bs) ++ rest = bs for all accepted bs with canonical flag; same for headers/blocks. K: model vs implementation on generated transaction/block values (3/4 inside the wf domain) and on a malformed byte stream.',
)

TEXT = dict(
    text='Machine-checked proof (Coq) over an executable model of the transaction wire codec: for every well-formed transaction parse(serialize t ++ rest) = (t, rest), and every accepted byte string with a canonical flag re-serializes to exactly the bytes consumed; varint round-trip and canonicity for all 64-bit values. Unbounded in counts and lengths. The model is tied to the code by differential runs (model vs implementation on structured and malformed inputs) and by regenerated constants.',
    note=COMMON_NOTE + 'Modelled by hand: transaction.serialize/NewTxFromBuffer, bufferutil readers/writers (after fix 23c9d1b), block/serialize.go and block/deserialize.go (after fix 246dd82); Go struct values the wire cannot express (both or neither of Compact/Full, nil ExtData) are outside the types of the model.',
    technique='Coq proof of codec round-trip (both directions) + model/implementation differential check',
)
