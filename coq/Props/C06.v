(* Props/C06.v — property theorems only.
   P ranges over ALL primitives satisfying [laws] (Proofs/Unblind.v): ECDH symmetry and
   key-injective nonces, canonical 33-byte generator / commitment serialisation,
   H(a)+0*G = H(a), range-proof rewind completeness and exclusiveness, Pedersen binding.
   [blinded_for ...] says the amount was ub_blinded by the library's own sequence
   (AssetCommitment, ValueCommitment, NonceHash, RangeProof) for recipient key pair
   (rsk, R) with ephemeral pair (esk, E), for any value the range proof supports
   (RangeProof returned a proof), any script class, any Exp / MinBits. *)
From GE Require Import Lib.Bytes Model.Tx Model.Unblind Proofs.Unblind.
Open Scope N_scope.

(* unblinding with the recipient's private key returns exactly value, asset and both factors *)
Theorem C06_unblind_blind_key :
  forall G C (P : prims G C) pk, laws P pk ->
  forall value asset abf vbf script rsk esk R E exp mb bl,
  blinded_for P pk value asset abf vbf script rsk esk R E exp mb bl ->
  forall sp, unblind_with_key P (out_of_blinded bl script E sp) rsk = UOk (mk_unb value asset vbf abf).
Proof. exact @x_unblind_blind_key. Qed.
Print Assumptions C06_unblind_blind_key.

(* ... and so does unblinding with the ECDH nonce *)
Theorem C06_unblind_blind_nonce :
  forall G C (P : prims G C) pk, laws P pk ->
  forall value asset abf vbf script rsk esk R E exp mb bl,
  blinded_for P pk value asset abf vbf script rsk esk R E exp mb bl ->
  forall sp, unblind_with_nonce P (out_of_blinded bl script E sp) (bl_nonce bl) = UOk (mk_unb value asset vbf abf).
Proof. exact @x_unblind_blind_nonce. Qed.
Print Assumptions C06_unblind_blind_nonce.

(* the revealed data re-creates the output's commitments through AssetCommitment / ValueCommitment *)
Theorem C06_revealed_recreates_commitments :
  forall G C (P : prims G C) pk, laws P pk ->
  forall value asset abf vbf script rsk esk R E exp mb bl,
  blinded_for P pk value asset abf vbf script rsk esk R E exp mb bl ->
  forall sp u, unblind_with_key P (out_of_blinded bl script E sp) rsk = UOk u ->
  u = mk_unb value asset vbf abf /\
  asset_commitment P (u_asset u) (u_abf u) = Some (bl_asset bl) /\
  value_commitment P (u_value u) (bl_asset bl) (u_vbf u) = Some (bl_value bl).
Proof. exact @x_revealed_recreates_commitments. Qed.
Print Assumptions C06_revealed_recreates_commitments.

(* every other private key fails (an error: no amounts, no panic) *)
Theorem C06_wrong_key_fails :
  forall G C (P : prims G C) pk, laws P pk ->
  forall value asset abf vbf script rsk esk R E exp mb bl,
  blinded_for P pk value asset abf vbf script rsk esk R E exp mb bl ->
  forall sp k, k <> rsk -> unblind_with_key P (out_of_blinded bl script E sp) k = UErr.
Proof. exact @x_wrong_key_fails. Qed.
Print Assumptions C06_wrong_key_fails.

(* every other nonce fails *)
Theorem C06_wrong_nonce_fails :
  forall G C (P : prims G C) pk, laws P pk ->
  forall value asset abf vbf script rsk esk R E exp mb bl,
  blinded_for P pk value asset abf vbf script rsk esk R E exp mb bl ->
  forall sp n, ub_fit 32 n <> bl_nonce bl -> unblind_with_nonce P (out_of_blinded bl script E sp) n = UErr.
Proof. exact @x_wrong_nonce_fails. Qed.
Print Assumptions C06_wrong_nonce_fails.

(* after the script was altered every key and every nonce fail *)
Theorem C06_tampered_script_fails :
  forall G C (P : prims G C) pk, laws P pk ->
  forall value asset abf vbf script rsk esk R E exp mb bl,
  blinded_for P pk value asset abf vbf script rsk esk R E exp mb bl ->
  forall script' sp k n, script' <> script ->
  let o' := mk_out (bl_asset bl) (bl_value bl) script' E (bl_proof bl) sp in
  unblind_with_key P o' k = UErr /\ unblind_with_nonce P o' n = UErr.
Proof. exact @x_tampered_script_fails. Qed.
Print Assumptions C06_tampered_script_fails.

(* after the value commitment was altered *)
Theorem C06_tampered_value_commitment_fails :
  forall G C (P : prims G C) pk, laws P pk ->
  forall value asset abf vbf script rsk esk R E exp mb bl,
  blinded_for P pk value asset abf vbf script rsk esk R E exp mb bl ->
  forall vc' sp k n, vc' <> bl_value bl ->
  let o' := mk_out (bl_asset bl) vc' script E (bl_proof bl) sp in
  unblind_with_key P o' k = UErr /\ unblind_with_nonce P o' n = UErr.
Proof. exact @x_tampered_value_commitment_fails. Qed.
Print Assumptions C06_tampered_value_commitment_fails.

(* after the (33-byte) asset commitment was altered *)
Theorem C06_tampered_asset_commitment_fails :
  forall G C (P : prims G C) pk, laws P pk ->
  forall value asset abf vbf script rsk esk R E exp mb bl,
  blinded_for P pk value asset abf vbf script rsk esk R E exp mb bl ->
  forall ac' sp k n, length ac' = 33%nat -> ac' <> bl_asset bl ->
  let o' := mk_out ac' (bl_value bl) script E (bl_proof bl) sp in
  unblind_with_key P o' k = UErr /\ unblind_with_nonce P o' n = UErr.
Proof. exact @x_tampered_asset_commitment_fails. Qed.
Print Assumptions C06_tampered_asset_commitment_fails.

(* general form: any confidential output carrying this range proof, all other fields arbitrary
   (asset field of any length, any nonce field, any key): failure or exactly the original amounts *)
Theorem C06_never_other_amounts :
  forall G C (P : prims G C) pk, laws P pk ->
  forall value asset abf vbf script rsk esk R E exp mb bl,
  blinded_for P pk value asset abf vbf script rsk esk R E exp mb bl ->
  forall o' k u, o_rp o' = bl_proof bl -> is_conf_out o' = true ->
  unblind_with_key P o' k = UOk u -> u = mk_unb value asset vbf abf.
Proof. exact @x_never_other_amounts. Qed.
Print Assumptions C06_never_other_amounts.

(* whatever replaces the proof bytes, a result still carries the committed value and factor *)
Theorem C06_tampered_proof_never_other_value :
  forall G C (P : prims G C) pk, laws P pk ->
  forall value asset abf vbf script rsk esk R E exp mb bl,
  blinded_for P pk value asset abf vbf script rsk esk R E exp mb bl ->
  forall p' sp k u,
  unblind_with_key P (mk_out (bl_asset bl) (bl_value bl) script E p' sp) k = UOk u ->
  u_value u = value /\ u_vbf u = vbf.
Proof. exact @x_tampered_proof_never_other_value. Qed.
Print Assumptions C06_tampered_proof_never_other_value.

(* the fresh proof verifies against the written commitments and script *)
Theorem C06_fresh_proof_verifies :
  forall G C (P : prims G C) pk, laws P pk ->
  forall value asset abf vbf script rsk esk R E exp mb bl,
  blinded_for P pk value asset abf vbf script rsk esk R E exp mb bl ->
  verify_range_proof P (bl_value bl) (bl_asset bl) script (bl_proof bl) = true.
Proof. exact @x_fresh_proof_verifies. Qed.
Print Assumptions C06_fresh_proof_verifies.

(* explicit outputs: no key needed, zero blinders *)
Theorem C06_explicit_output :
  forall G C (P : prims G C) a s n sp k value,
  (length n <= 1)%nat -> value < two64 ->
  let o := mk_out (b8 1 :: a) (b8 1 :: be_enc 8 value) s n [] sp in
  unblind_with_key P o k = UOk (mk_unb value a ub_zero32 ub_zero32) /\
  unblind_with_nonce P o k = UOk (mk_unb value a ub_zero32 ub_zero32).
Proof. exact @unblind_explicit_output. Qed.
Print Assumptions C06_explicit_output.

(* ---- issuance amounts (BlindIssuances / UnblindIssuance): ids from the issuance, zero asset
   blinder, raw 32-byte id as generator seed, the blinding key itself as nonce ---- *)
Theorem C06_unblind_issuance_blind :
  forall G C (P : prims G C) pk, laws P pk ->
  forall i s aid va vbfa ka ba,
  in_iss i = Some s -> calc_asset_hash i s = Some aid -> length vbfa = 32%nat ->
  blind_issuance_amount P va aid vbfa ka = Some ba ->
  iss_amount s = bl_value ba -> in_irp i = bl_proof ba ->
  forall tid vt vbft kt bt,
  calc_token_hash i s = Some tid -> length vbft = 32%nat ->
  blind_issuance_amount P vt tid vbft kt = Some bt ->
  iss_token s = bl_value bt -> in_inrp i = bl_proof bt ->
  forall rest,
  unblind_issuance P i (ka :: kt :: rest) =
    UOk (mk_unb va aid vbfa ub_zero32, Some (mk_unb vt tid vbft ub_zero32)).
Proof. exact @unblind_issuance_blind. Qed.
Print Assumptions C06_unblind_issuance_blind.

Theorem C06_unblind_issuance_blind_asset_only :
  forall G C (P : prims G C) pk, laws P pk ->
  forall i s aid va vbfa ka ba,
  in_iss i = Some s -> calc_asset_hash i s = Some aid -> length vbfa = 32%nat ->
  blind_issuance_amount P va aid vbfa ka = Some ba ->
  iss_amount s = bl_value ba -> in_irp i = bl_proof ba ->
  forall k1 rest, has_token_amount s = false ->
  unblind_issuance P i (ka :: k1 :: rest) = UOk (mk_unb va aid vbfa ub_zero32, None).
Proof. exact @unblind_issuance_blind_asset_only. Qed.
Print Assumptions C06_unblind_issuance_blind_asset_only.

Theorem C06_issuance_recreates_commitment :
  forall G C (P : prims G C) pk, laws P pk ->
  forall s aid va vbfa ka ba,
  length vbfa = 32%nat ->
  blind_issuance_amount P va aid vbfa ka = Some ba -> iss_amount s = bl_value ba ->
  asset_commitment P aid ub_zero32 = Some (bl_asset ba) /\
  value_commitment P va (bl_asset ba) vbfa = Some (iss_amount s).
Proof. exact @issuance_recreates_commitment. Qed.
Print Assumptions C06_issuance_recreates_commitment.

Theorem C06_issuance_wrong_asset_key_fails :
  forall G C (P : prims G C) pk, laws P pk ->
  forall i s aid va vbfa ka ba,
  in_iss i = Some s -> calc_asset_hash i s = Some aid -> length vbfa = 32%nat ->
  blind_issuance_amount P va aid vbfa ka = Some ba -> in_irp i = bl_proof ba ->
  forall k0 keys, ub_fit 32 k0 <> ub_fit 32 ka -> unblind_issuance P i (k0 :: keys) = UErr.
Proof. exact @issuance_wrong_asset_key_fails. Qed.
Print Assumptions C06_issuance_wrong_asset_key_fails.

Theorem C06_issuance_wrong_token_key_fails :
  forall G C (P : prims G C) pk, laws P pk ->
  forall i s aid va vbfa ka ba,
  in_iss i = Some s -> calc_asset_hash i s = Some aid -> length vbfa = 32%nat ->
  blind_issuance_amount P va aid vbfa ka = Some ba ->
  iss_amount s = bl_value ba -> in_irp i = bl_proof ba ->
  forall tid vt vbft kt bt,
  calc_token_hash i s = Some tid -> length vbft = 32%nat ->
  blind_issuance_amount P vt tid vbft kt = Some bt ->
  iss_token s = bl_value bt -> in_inrp i = bl_proof bt ->
  forall k1 rest, ub_fit 32 k1 <> ub_fit 32 kt -> unblind_issuance P i (ka :: k1 :: rest) = UErr.
Proof. exact @issuance_wrong_token_key_fails. Qed.
Print Assumptions C06_issuance_wrong_token_key_fails.

Theorem C06_issuance_tampered_amount_fails :
  forall G C (P : prims G C) pk, laws P pk ->
  forall i s aid va vbfa ka ba,
  calc_asset_hash i s = Some aid -> length vbfa = 32%nat ->
  blind_issuance_amount P va aid vbfa ka = Some ba ->
  forall i' s' keys,
  in_iss i' = Some s' -> in_irp i' = bl_proof ba -> iss_amount s' <> bl_value ba ->
  unblind_issuance P i' keys = UErr.
Proof. exact @issuance_tampered_amount_fails. Qed.
Print Assumptions C06_issuance_tampered_amount_fails.

(* any input carrying this issuance range proof (other prevout, entropy, amounts, keys):
   failure or the original value and factor *)
Theorem C06_issuance_never_other_amount :
  forall G C (P : prims G C) pk, laws P pk ->
  forall aid va vbfa ka ba i' keys ua' ut',
  length aid = 32%nat -> length vbfa = 32%nat ->
  blind_issuance_amount P va aid vbfa ka = Some ba ->
  in_irp i' = bl_proof ba ->
  unblind_issuance P i' keys = UOk (ua', ut') -> u_value ua' = va /\ u_vbf ua' = vbfa.
Proof. exact @issuance_never_other_amount. Qed.
Print Assumptions C06_issuance_never_other_amount.

(* ---- one generator instance, any history of UnblindInputs calls (zkp_generator.go) ----
   A generator keeps no memory of packets: the k-th answer is the function of the k-th packet
   and of the keys the constructor stored. *)
Theorem C06_generator_history_pointwise :
  forall G C (P : prims G C) st h,
  gen_run P st h = (st, map (fun p => unblind_inputs P st (fst p) (snd p)) h).
Proof. exact @gen_run_pointwise. Qed.
Print Assumptions C06_generator_history_pointwise.

(* after ANY history (same outpoint or not), a packet whose prevout is a library-blinded output
   is unblinded to exactly what that prevout holds (blinding-keys generator: the recipient key
   is the first of the list that is the recipient's; master-key generator: the key derived from
   the script is the recipient's) *)
Theorem C06_history_then_honest :
  forall G C (P : prims G C) pk, laws P pk ->
  forall value asset abf vbf script rsk esk R E exp mb bl,
  blinded_for P pk value asset abf vbf script rsk esk R E exp mb bl ->
  forall gk h sp idxs, reaches gk script rsk -> idxs = [] \/ idxs = [0] ->
  snd (gen_step P (fst (gen_run P gk h)) ([out_of_blinded bl script E sp], idxs)) =
    UOk [mk_owned 0 value asset vbf abf].
Proof. exact @history_then_honest. Qed.
Print Assumptions C06_history_then_honest.

(* after ANY history, a prevout with an altered script or value commitment fails, whatever keys *)
Theorem C06_history_then_tampered_script :
  forall G C (P : prims G C) pk, laws P pk ->
  forall value asset abf vbf script rsk esk R E exp mb bl,
  blinded_for P pk value asset abf vbf script rsk esk R E exp mb bl ->
  forall gk h script' sp idxs, script' <> script -> idxs = [] \/ idxs = [0] ->
  snd (gen_step P (fst (gen_run P gk h))
         ([mk_out (bl_asset bl) (bl_value bl) script' E (bl_proof bl) sp], idxs)) = UErr.
Proof. exact @history_then_tampered_script. Qed.
Print Assumptions C06_history_then_tampered_script.

Theorem C06_history_then_tampered_value_commitment :
  forall G C (P : prims G C) pk, laws P pk ->
  forall value asset abf vbf script rsk esk R E exp mb bl,
  blinded_for P pk value asset abf vbf script rsk esk R E exp mb bl ->
  forall gk h vc' sp idxs, vc' <> bl_value bl -> idxs = [] \/ idxs = [0] ->
  snd (gen_step P (fst (gen_run P gk h))
         ([mk_out (bl_asset bl) vc' script E (bl_proof bl) sp], idxs)) = UErr.
Proof. exact @history_then_tampered_value_commitment. Qed.
Print Assumptions C06_history_then_tampered_value_commitment.

(* the laws are satisfiable (and the theorems' hypotheses too: ex_* Examples in Proofs/Unblind.v) *)
Theorem C06_laws_satisfiable : laws toy toy_pk.
Proof. exact toy_laws. Qed.
Print Assumptions C06_laws_satisfiable.
