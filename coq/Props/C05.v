(* Props/C05.v — property theorems only. *)
From GE Require Import Lib.Bytes Model.Blind Proofs.Blind.
Open Scope Z_scope.

(* psetv2, full statement: for every list of parties in every order, if every party's BlindNonLast /
   BlindLast succeeds, no output is blinded twice, the amounts are conserved per asset and the parties'
   input scalars account for the blinders of everything spent and issued (ownership is a partition of the
   confidential inputs with their true openings), then the value commitments of the final transaction
   balance.  (Before /repo db58bba a non-last blinder dropped its input scalar and this was false.) *)
Theorem C05_v2_balance : forall ps p0 pf ws wos,
  wf_pset p0 -> ps <> [] ->
  bl_run p0 ps = BOk pf -> run_fresh p0 ps ->
  map bwo_value wos = map bpo_value (bps_outs pf) ->
  (forall a, bl_coef (fst (bl_lin_sum (bl_tx_in 0%N ws (bps_ins pf)))) a =
             bl_coef (fst (bl_lin_sum (bl_tx_out wos (bps_outs pf)))) a) ->
  eqn (ledger_D p0 + run_contrib p0 ps) (in_g 0%N ws (bps_ins pf)) ->
  bl_balanced ws wos pf = true.
Proof. exact v2_balance. Qed.
Print Assumptions C05_v2_balance.

(* the ledger behind it: after any exchange, what is committed on the outputs equals the sum of the parties' input scalars *)
Theorem C05_v2_ledger : forall ps p pf, wf_pset p ->
  bl_run p ps = BOk pf -> run_fresh p ps ->
  eqn (ledger_D pf) (ledger_D p + run_contrib p ps) /\ (ps <> [] -> bps_scalars pf = []).
Proof. exact run_ledger. Qed.
Print Assumptions C05_v2_ledger.

(* pset v0.  FULL STATEMENT: whenever Blind succeeds the transaction balances and exactly the selected
   outputs are blinded, for every selection.  Balance is proved up to the per-output arrays (_partial: the
   final value blinding factor makes the arrays balance against inputs and pseudo inputs; that the arrays
   land on the right outputs is the next theorem plus K).  Exactly-requested is proved in full for any
   selection, contiguous or not (before /repo 65fe84b a selection other than 0..k-1 panicked). *)
Theorem C05_v0_balance_partial : forall inV outV inG outG inF outF fv,
  length inG = length inV -> length inF = length inV ->
  b0_final_vbf inV outV inG outG inF outF = Some fv ->
  eqn (sum3 inV inG inF) (sum3 outV outG (outF ++ [fv])).
Proof. exact v0_final_vbf_balances. Qed.
Print Assumptions C05_v0_balance_partial.

Theorem C05_v0_blinded_exactly_requested : forall ins outs sel keys tokkey sok rng r j,
  b0_blind ins outs sel keys tokkey sok rng = BOk r -> (j < length outs)%nat ->
  marked_at (br0_outs r) j = existsb (fun i => has_script outs i && (N.to_nat i =? j)%nat) sel.
Proof. exact v0_blinded_exactly_requested. Qed.
Print Assumptions C05_v0_blinded_exactly_requested.

Theorem C05_v2_blinded_exactly_requested : forall ps p pf j,
  bl_run p ps = BOk pf -> (j < length (bps_outs p))%nat ->
  blinded_at (bps_outs pf) j = blinded_at (bps_outs p) j || existsb (fun pa => asked_at (bl_sort (bpa_outs pa)) j) ps.
Proof. exact v2_blinded_exactly_requested. Qed.
Print Assumptions C05_v2_blinded_exactly_requested.

(* proofs verify: completeness laws of libsecp's proofs are hypotheses; what is proved is argument consistency.
   FULL STATEMENT: every surjection proof verifies against the spent and issued tags.  Proved when the list
   handed to the prover equals the verifier's (_partial: one party owning every input, issuance on the last
   input only); refuted for a party that does not own every input and for an issuance elsewhere. *)
Theorem C05_surjection_verifies_partial : forall (sproof : Type)
  (surj_prove : list bl_tag -> bl_tag -> option sproof) (surj_verify : list bl_tag -> bl_tag -> sproof -> bool),
  (forall tags out pf, surj_prove tags out = Some pf -> surj_verify tags out pf = true) ->
  forall pre l out pf, Forall no_issuance pre -> iss_consistent l ->
  surj_prove (bl_tags_gen (all_owned (pre ++ [l])) (pre ++ [l])) out = Some pf ->
  surj_verify (bl_tags_true (pre ++ [l])) out pf = true.
Proof. exact surjection_verifies_single_party. Qed.
Print Assumptions C05_surjection_verifies_partial.

Theorem C05_surjection_refuted_unowned :
  exists own ins, bl_tags_gen own ins <> bl_tags_true ins /\ bl_tags_val own ins = bl_tags_gen own ins.
Proof. exact surjection_args_refuted_unowned. Qed.
Print Assumptions C05_surjection_refuted_unowned.

Theorem C05_surjection_refuted_issuance_order :
  exists ins, Forall iss_consistent ins /\ bl_tags_gen (all_owned ins) ins <> bl_tags_true ins.
Proof. exact surjection_args_refuted_issuance_order. Qed.
Print Assumptions C05_surjection_refuted_issuance_order.

Theorem C05_surjection_refuted_null_amount :
  exists i, bl_tags_gen [true] [i] = bl_tags_val [true] [i] /\ bl_tags_gen [true] [i] <> bl_tags_true [i].
Proof. exact surjection_args_refuted_null_amount. Qed.
Print Assumptions C05_surjection_refuted_null_amount.

Theorem C05_range_proof_verifies : forall (rproof : Type)
  (range_sign : Z -> bytes -> bl_tag -> bytes -> bytes -> option rproof)
  (range_verify : bl_lin -> bl_tag -> bytes -> rproof -> bool),
  (forall asset v abf vbf script nonce pf, range_sign v vbf (bmk_tag asset abf) script nonce = Some pf ->
     range_verify (bl_commit (be_dec asset) v (bl_sc abf) (bl_sc vbf)) (bmk_tag asset abf) script pf = true) ->
  forall asset v abf vbf script nonce pf, range_sign v vbf (bmk_tag asset abf) script nonce = Some pf ->
  range_verify (bl_commit (be_dec asset) v (bl_sc abf) (bl_sc vbf)) (bmk_tag asset abf) script pf = true.
Proof. exact range_proof_verifies. Qed.
Print Assumptions C05_range_proof_verifies.

(* the scalar helpers compute value*assetBlinder + valueBlinder modulo n whenever they succeed *)
Theorem C05_add_offset : forall s v ab vb r, 0 <= v ->
  bl_add_offset s v ab vb = Some r -> eqn (bl_v r) (bl_v s + (v * bl_v ab + bl_v vb)).
Proof. exact add_offset_spec. Qed.
Print Assumptions C05_add_offset.
