(* Props/C08.v — property theorems only. *)
From GE Require Import Lib.Bytes Lib.Varint Model.Tx Model.PsetV0 Proofs.PsetV0.
From Coq Require Import Permutation.
Open Scope N_scope.

(* clause 1: for every packet inside the wire domain, what ToHex/ToBase64 write is accepted by the
   parsers (whatever follows it) and yields the packet up to v0_norm; valid_pk / valid_sig are the
   external btcec predicates, arbitrary here *)
Theorem C08_v0_parse_ser : forall valid_pk valid_sig p extra,
  v0_wf valid_pk valid_sig p = true ->
  exists bs, v0_ser p = Some bs /\ v0_parse valid_pk valid_sig (bs ++ extra) = Some (v0_norm p).
Proof. exact v0_parse_ser. Qed.
Print Assumptions C08_v0_parse_ser.

(* the hop is the identity on packets in canonical form (sorted signatures and derivations, derived
   tx flags, finalized inputs cleared, proofs only on confidential-nonce UTXOs) *)
Theorem C08_v0_canon_identity : forall p, v0_canon p = true -> v0_norm p = p.
Proof. exact v0_canon_norm. Qed.
Print Assumptions C08_v0_canon_identity.

(* per-field preservation: unsigned tx, UTXOs with proofs, partial signatures, sighash type (any
   uint32, so including the Elements 0x40 bit), scripts, derivations, final scripts, unknowns *)
Theorem C08_v0_fields_preserved : forall valid_pk valid_sig p,
  v0_wf valid_pk valid_sig p = true ->
  exists bs q, v0_ser p = Some bs /\ v0_parse valid_pk valid_sig bs = Some q /\
    v0_tx_kept (vp_tx p) (vp_tx q) /\ Forall2 v0_in_kept (vp_ins p) (vp_ins q) /\
    Forall2 v0_out_kept (vp_outs p) (vp_outs q).
Proof. exact v0_fields_preserved. Qed.
Print Assumptions C08_v0_fields_preserved.

(* clause 1 for what the roles build: creator, then updater/signer operations on non-finalized inputs
   with arguments inside the wire domain, then finalizer: the round trip loses nothing (only the
   order of signatures/derivations and the derived transaction flag may change) *)
Theorem C08_v0_reach_roundtrip : forall valid_pk valid_sig p,
  v0_reach valid_pk valid_sig p ->
  exists bs q, v0_ser p = Some bs /\ v0_parse valid_pk valid_sig bs = Some q /\
    v0_tx_kept (vp_tx p) (vp_tx q) /\ Forall2 v0_in_same (vp_ins p) (vp_ins q) /\
    Forall2 v0_out_kept (vp_outs p) (vp_outs q) /\ vp_unk q = vp_unk p.
Proof. exact v0_reach_roundtrip. Qed.
Print Assumptions C08_v0_reach_roundtrip.

(* every accepted encoding decodes into the wire domain *)
Theorem C08_v0_parse_wf : forall valid_pk valid_sig bs p,
  v0_parse valid_pk valid_sig bs = Some p -> v0_wf_core valid_pk valid_sig p = true.
Proof. exact v0_parse_wf. Qed.
Print Assumptions C08_v0_parse_wf.

(* clause 2 as far as the code satisfies it: parse, serialize, parse lands on the v0_norm image.
   The one hypothesis left is the 44-byte floor of readTxOut on what is re-serialized; it holds for
   every witness UTXO whose value is not the one-byte null value (C08_v0_floor_only_null_value) *)
Theorem C08_v0_parse_ser_parse_partial : forall valid_pk valid_sig bs p,
  v0_parse valid_pk valid_sig bs = Some p -> v0_wufloor_all p = true ->
  exists bs', v0_ser p = Some bs' /\ v0_parse valid_pk valid_sig bs' = Some (v0_norm p).
Proof. exact v0_parse_ser_parse. Qed.
Print Assumptions C08_v0_parse_ser_parse_partial.

(* ... and it is the identity when the first parse is canonical *)
Theorem C08_v0_parse_ser_parse_identity : forall valid_pk valid_sig bs p,
  v0_parse valid_pk valid_sig bs = Some p -> v0_wufloor_all p = true -> v0_canon p = true ->
  exists bs', v0_ser p = Some bs' /\ v0_parse valid_pk valid_sig bs' = Some p.
Proof. exact v0_parse_ser_parse_id. Qed.
Print Assumptions C08_v0_parse_ser_parse_identity.

Theorem C08_v0_floor_only_null_value : forall o, wf_out o = true ->
  match o_value o with v :: _ => negb (n8 v =? 0) | [] => false end = true -> v0_wufloor o = true.
Proof. exact v0_wufloor_nonnull. Qed.
Print Assumptions C08_v0_floor_only_null_value.

(* repaired in /repo (88a2d94, 2b1b006), now positive: global unknowns, 44-byte witness UTXO,
   fingerprint-only derivation *)
Theorem C08_v0_psp_global_unknown :
  v0_psp_holds (v0_stream [[([x00], ser_full ex_tx0); ([xfc; x01], [x02])]]).
Proof. exact v0_psp_global_unknown. Qed.
Print Assumptions C08_v0_psp_global_unknown.

Theorem C08_v0_psp_wu44 :
  v0_psp_holds (v0_stream [[([x00], ser_full ex_tx1)];
                           [([x01], (x01 :: ex_h32) ++ (x01 :: repeat x00 8) ++ [x00; x00] ++ [xff])]]).
Proof. exact v0_psp_wu44. Qed.
Print Assumptions C08_v0_psp_wu44.

Theorem C08_v0_roundtrip_empty_path :
  v0_wf ex_yes ex_yes ex_p_emptypath = true /\
  exists bs, v0_ser ex_p_emptypath = Some bs /\ v0_parse ex_yes ex_yes bs = Some ex_p_emptypath.
Proof. exact v0_roundtrip_empty_path. Qed.
Print Assumptions C08_v0_roundtrip_empty_path.

Theorem C08_v0_roundtrip_global_unknowns :
  v0_wf ex_yes ex_yes ex_p_gunk = true /\
  exists bs, v0_ser ex_p_gunk = Some bs /\ v0_parse ex_yes ex_yes bs = Some ex_p_gunk.
Proof. exact v0_roundtrip_global_unknowns. Qed.
Print Assumptions C08_v0_roundtrip_global_unknowns.

(* where the identity still fails on the code as it is (known findings / stated exclusion) *)
Theorem C08_v0_psp_refuted_finalized :
  v0_psp_fails (v0_stream [[([x00], ser_full ex_tx1)]; [([x04], [x51]); ([x07], [x00])]]).
Proof. exact v0_psp_refuted_finalized. Qed.
Print Assumptions C08_v0_psp_refuted_finalized.

Theorem C08_v0_roundtrip_refuted_null_nonce_proofs :
  v0_wf ex_yes ex_yes ex_p_nullnonce = true /\
  exists bs q, v0_ser ex_p_nullnonce = Some bs /\ v0_parse ex_yes ex_yes bs = Some q /\
    option_map o_rp (vi_wu (hd v0_in_empty (vp_ins q))) = Some [] /\
    option_map o_rp (vi_wu (hd v0_in_empty (vp_ins ex_p_nullnonce))) = Some [x01; x02; x03].
Proof. exact v0_roundtrip_refuted_null_nonce_proofs. Qed.
Print Assumptions C08_v0_roundtrip_refuted_null_nonce_proofs.

Theorem C08_v0_psp_refuted_null_value_floor :
  v0_psp_fails (v0_stream [[([x00], ser_full ex_tx1)];
                           [([x01], (x01 :: ex_h32) ++ [x00; x00; x00] ++ repeat xff 8)]]).
Proof. exact v0_psp_refuted_null_value_floor. Qed.
Print Assumptions C08_v0_psp_refuted_null_value_floor.

(* the section loop's fuel is never exhausted *)
Theorem C08_v0_section_fuel : forall (St : Type) (step : St -> bytes -> bytes -> option St) f1 f2 st bs,
  (length bs < f1)%nat -> (length bs < f2)%nat ->
  v0_p_section step f1 st bs = v0_p_section step f2 st bs.
Proof. intros St step f1. exact (v0_p_section_fuel step f1). Qed.
Print Assumptions C08_v0_section_fuel.

(* the magic bytes of the model are those of today's Go source *)
Theorem C08_v0_constants_tied : v0_consts_tied.
Proof. exact v0_consts_tied_holds. Qed.
Print Assumptions C08_v0_constants_tied.
