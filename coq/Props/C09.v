(* Props/C09.v — property theorems only. *)
From Coq Require Import Sorting.Sorted Sorting.Permutation.
From GE Require Import Lib.Bytes Lib.Varint Lib.Sha256 Model.Ripemd160 Model.Tx Model.TxHash Model.Spend Proofs.Spend.
Open Scope N_scope.

(* P2PKH: the scriptSig built from the single partial signature satisfies the spent script (v0 and v2, every hash type, any signature checker) *)
Theorem C09_finalized_satisfies_p2pkh :
  forall (chk : salgo -> bytes -> bytes -> bytes -> bool) (commit : bytes -> bytes -> bytes -> bool)
    (v2 : bool) (i : pin) (pk sg : bytes),
    pi_sigs i = [(pk, sg)] ->
    has_f v2 (pi_redeem i) = false ->
    sig_typed (expected_sht i) sg ->
    wf_key pk ->
    pushable sg ->
    chk ALegacy (p2pkh_script (hash160 pk)) pk sg = true ->
    exists ss : bytes,
    legacy_sigscript v2 i = OcOk ss /\ satisfies chk commit (p2pkh_script (hash160 pk)) ss [] = true.
Proof. exact p2pkh_final. Qed.
Print Assumptions C09_finalized_satisfies_p2pkh.

(* P2WPKH *)
Theorem C09_finalized_satisfies_p2wpkh :
  forall (chk : salgo -> bytes -> bytes -> bytes -> bool) (commit : bytes -> bytes -> bytes -> bool)
    (v2 : bool) (i : pin) (pk sg : bytes),
    pi_sigs i = [(pk, sg)] ->
    has_f v2 (pi_redeem i) = false ->
    has_f v2 (pi_wscript i) = false ->
    sig_typed (expected_sht i) sg ->
    wf_key pk ->
    pushable sg ->
    chk AWitV0 (p2pkh_script (hash160 pk)) pk sg = true ->
    witness_final v2 i = OcOk ([], ser_witness [sg; pk]) /\
    read_witness (ser_witness [sg; pk]) = Some [sg; pk] /\
    satisfies chk commit (p2wpkh_script (hash160 pk)) [] [sg; pk] = true.
Proof. exact p2wpkh_final. Qed.
Print Assumptions C09_finalized_satisfies_p2wpkh.

(* P2SH-P2WPKH *)
Theorem C09_finalized_satisfies_p2sh_p2wpkh :
  forall (chk : salgo -> bytes -> bytes -> bytes -> bool) (commit : bytes -> bytes -> bytes -> bool)
    (v2 : bool) (i : pin) (pk sg : bytes),
    pi_sigs i = [(pk, sg)] ->
    pi_redeem i = Some (p2wpkh_script (hash160 pk)) ->
    has_f v2 (pi_wscript i) = false ->
    sig_typed (expected_sht i) sg ->
    wf_key pk ->
    pushable sg ->
    chk AWitV0 (p2pkh_script (hash160 pk)) pk sg = true ->
    exists ss : bytes,
    witness_final v2 i = OcOk (ss, ser_witness [sg; pk]) /\
    nonempty ss = true /\
    read_witness (ser_witness [sg; pk]) = Some [sg; pk] /\
    satisfies chk commit (p2sh_script (hash160 (p2wpkh_script (hash160 pk)))) ss [sg; pk] = true.
Proof. exact p2sh_p2wpkh_final. Qed.
Print Assumptions C09_finalized_satisfies_p2sh_p2wpkh.

(* P2SH m-of-n multisig: every duplicate-free key set (ms_ok asks NoDup keys only, after fix a3dd5d3), every m, every signing order (pks is any duplicate-free list of m signing keys, in the order they signed) *)
Theorem C09_finalized_satisfies_p2sh_multisig :
  forall (chk : salgo -> bytes -> bytes -> bytes -> bool) (commit : bytes -> bytes -> bytes -> bool)
    (v2 : bool) (i : pin) (m : N) (keys pks : list bytes) (sgf : bytes -> bytes),
    ms_ok m keys pks sgf ->
    pi_sigs i = ms_pairs sgf pks ->
    pi_redeem i = Some (multisig_script m keys) ->
    lenN (multisig_script m keys) <= 520 ->
    (forall k : bytes, In k pks -> sig_typed (expected_sht i) (sgf k)) ->
    (forall k : bytes, In k pks -> chk ALegacy (multisig_script m keys) k (sgf k) = true) ->
    (forall k k' : bytes,
    In k keys -> In k' keys -> chk ALegacy (multisig_script m keys) k (sgf k') = true -> k = k') ->
    exists ss : bytes,
    legacy_sigscript v2 i = OcOk ss /\
    satisfies chk commit (p2sh_script (hash160 (multisig_script m keys))) ss [] = true.
Proof. exact p2sh_ms_final. Qed.
Print Assumptions C09_finalized_satisfies_p2sh_multisig.

(* P2WSH m-of-n multisig *)
Theorem C09_finalized_satisfies_p2wsh_multisig :
  forall (chk : salgo -> bytes -> bytes -> bytes -> bool) (commit : bytes -> bytes -> bytes -> bool)
    (v2 : bool) (i : pin) (m : N) (keys pks : list bytes) (sgf : bytes -> bytes),
    ms_ok m keys pks sgf ->
    pi_sigs i = ms_pairs sgf pks ->
    has_f v2 (pi_redeem i) = false ->
    pi_wscript i = Some (multisig_script m keys) ->
    (forall k : bytes, In k pks -> sig_typed (expected_sht i) (sgf k)) ->
    (forall k : bytes, In k pks -> chk AWitV0 (multisig_script m keys) k (sgf k) = true) ->
    (forall k k' : bytes,
    In k keys -> In k' keys -> chk AWitV0 (multisig_script m keys) k (sgf k') = true -> k = k') ->
    let w := [] :: ms_ordered sgf keys pks ++ [multisig_script m keys] in
    witness_final v2 i = OcOk ([], ser_witness w) /\
    read_witness (ser_witness w) = Some w /\
    satisfies chk commit (p2wsh_script (sha256 (multisig_script m keys))) [] w = true.
Proof. exact p2wsh_ms_final. Qed.
Print Assumptions C09_finalized_satisfies_p2wsh_multisig.

(* P2SH-P2WSH m-of-n multisig *)
Theorem C09_finalized_satisfies_p2sh_p2wsh_multisig :
  forall (chk : salgo -> bytes -> bytes -> bytes -> bool) (commit : bytes -> bytes -> bytes -> bool)
    (v2 : bool) (i : pin) (m : N) (keys pks : list bytes) (sgf : bytes -> bytes),
    ms_ok m keys pks sgf ->
    pi_sigs i = ms_pairs sgf pks ->
    pi_redeem i = Some (p2wsh_script (sha256 (multisig_script m keys))) ->
    pi_wscript i = Some (multisig_script m keys) ->
    (forall k : bytes, In k pks -> sig_typed (expected_sht i) (sgf k)) ->
    (forall k : bytes, In k pks -> chk AWitV0 (multisig_script m keys) k (sgf k) = true) ->
    (forall k k' : bytes,
    In k keys -> In k' keys -> chk AWitV0 (multisig_script m keys) k (sgf k') = true -> k = k') ->
    let w := [] :: ms_ordered sgf keys pks ++ [multisig_script m keys] in
    exists ss : bytes,
    witness_final v2 i = OcOk (ss, ser_witness w) /\
    nonempty ss = true /\
    read_witness (ser_witness w) = Some w /\
    satisfies chk commit (p2sh_script (hash160 (p2wsh_script (sha256 (multisig_script m keys))))) ss w =
    true.
Proof. exact p2sh_p2wsh_ms_final. Qed.
Print Assumptions C09_finalized_satisfies_p2sh_p2wsh_multisig.

(* taproot key path (psetv2, after fix 509b4c2: the signature carries the declared hash type, DEFAULT = ALL) *)
Theorem C09_finalized_satisfies_taproot_key :
  forall (chk : salgo -> bytes -> bytes -> bytes -> bool) (commit : bytes -> bytes -> bytes -> bool)
    (i : pin2) (q : list byte),
    is_final2 i = false ->
    nonempty (q_tapkeysig i) = true ->
    lenN (q_tapkeysig i) <= 65 ->
    tap_sig_ok (pi_sht (q_base i)) (q_tapkeysig i) = true ->
    length q = 32%nat ->
    chk ATapKey [] q (q_tapkeysig i) = true ->
    taproot_final i = OcOk (vector [q_tapkeysig i]) /\
    read_witness (vector [q_tapkeysig i]) = Some [q_tapkeysig i] /\
    satisfies chk commit (p2tr_script q) [] [q_tapkeysig i] = true.
Proof. exact tap_key_final. Qed.
Print Assumptions C09_finalized_satisfies_taproot_key.

(* taproot single-leaf script path (psetv2) *)
Theorem C09_finalized_satisfies_taproot_leaf :
  forall (chk : salgo -> bytes -> bytes -> bytes -> bool) (commit : bytes -> bytes -> bytes -> bool)
    (i : pin2) (q : list byte) (l : tleaf) (pk sg : bytes),
    is_final2 i = false ->
    q_tapkeysig i = [] ->
    q_tapleafs i = [l] ->
    tl_script l = tapleaf_checksig_script pk ->
    length pk = 32%nat ->
    q_tapsigs i = [{| ts_pk := pk; ts_sig := sg; ts_leaf := tapleaf_hash l |}] ->
    tap_sig_ok (pi_sht (q_base i)) sg = true ->
    lenN sg <= 65 ->
    lenN (tl_cb l) <= 10000 ->
    length q = 32%nat ->
    commit (tl_cb l) (tl_script l) q = true ->
    chk ATapLeaf (tl_script l) pk sg = true ->
    let w := [sg; tl_script l; tl_cb l] in
    taproot_final i = OcOk (vector w) /\
    read_witness (vector w) = Some w /\ satisfies chk commit (p2tr_script q) [] w = true.
Proof. exact tap_leaf_final. Qed.
Print Assumptions C09_finalized_satisfies_taproot_leaf.

(* a successful taproot finalization used a key signature, or at least one signature made for the finalized leaf, all of the declared hash type: too few signatures / a contradictory hash type never finalize (after fix 509b4c2) *)
Theorem C09_taproot_finalize_requires :
  forall (p : pset2) (k : nat) (p' : pset2) (i : pin2),
    finalize2 p k = (p', StOk) ->
    nth_error (q_ins p) k = Some i ->
    osome (pi_wu (q_base i)) && is_taproot i = true -> taproot_requires i.
Proof. exact finalize2_taproot_requires. Qed.
Print Assumptions C09_taproot_finalize_requires.

(* any permutation of the signing order gives the same ordered signatures *)
Theorem C09_signing_order_irrelevant :
  forall (m : N) (keys pks pks' : list bytes) (sgf : bytes -> bytes),
    Permutation pks pks' ->
    ms_ok m keys pks sgf ->
    extract_key_order (multisig_script m keys) (ms_pairs sgf pks') =
    extract_key_order (multisig_script m keys) (ms_pairs sgf pks).
Proof. exact extract_key_order_perm. Qed.
Print Assumptions C09_signing_order_irrelevant.

(* the v0 serialize/parse hop only permutes the partial signatures *)
Theorem C09_hop_is_a_permutation :
  forall l : list (bytes * bytes), Permutation (sort_pk l) l.
Proof. exact hop_sorts_a_permutation. Qed.
Print Assumptions C09_hop_is_a_permutation.

(* a successful v0 Finalize had exactly the required signatures, all of the declared hash type *)
Theorem C09_finalize_requires_v0 :
  forall (p : pset0) (k : nat) (p' : pset0) (i : pin),
    finalize0 p k = (p', StOk) ->
    nth_error (p0_ins p) k = Some i ->
    enough_sigs (deciding_script i) false (pi_sigs i) /\
    (forall pk sg : bytes, In (pk, sg) (pi_sigs i) -> sig_typed (expected_sht i) sg).
Proof. exact finalize0_refuses. Qed.
Print Assumptions C09_finalize_requires_v0.

(* same for psetv2 (ECDSA templates) *)
Theorem C09_finalize_requires_v2 :
  forall (p : pset2) (k : nat) (p' : pset2) (i : pin2),
    finalize2 p k = (p', StOk) ->
    nth_error (q_ins p) k = Some i ->
    osome (pi_wu (q_base i)) && is_taproot i = false ->
    enough_sigs (deciding_script (q_base i)) true (pi_sigs (q_base i)) /\
    (forall pk sg : bytes, In (pk, sg) (pi_sigs (q_base i)) -> sig_typed (expected_sht (q_base i)) sg).
Proof. exact finalize2_refuses. Qed.
Print Assumptions C09_finalize_requires_v2.

Theorem C09_too_few_sigs_never_finalize_v0 :
  forall (p : pset0) (k : nat) (i : pin) (n m : N),
    nth_error (p0_ins p) k = Some i ->
    has_f false (deciding_script i) = true ->
    ms_stats (obytes (deciding_script i)) = Some (n, m) ->
    lenL (pi_sigs i) < m -> snd (finalize0 p k) <> StOk.
Proof. exact too_few_sigs_never_finalize0. Qed.
Print Assumptions C09_too_few_sigs_never_finalize_v0.

Theorem C09_no_sigs_never_finalize_v0 :
  forall (p : pset0) (k : nat) (i : pin),
    nth_error (p0_ins p) k = Some i ->
    pi_sigs i = [] -> has_f false (deciding_script i) = false -> snd (finalize0 p k) <> StOk.
Proof. exact no_sigs_never_finalize0. Qed.
Print Assumptions C09_no_sigs_never_finalize_v0.

(* the whole byte is compared: a difference in the 0x80 or 0x40 bit alone refuses *)
Theorem C09_sighash_mismatch_never_finalizes_v0 :
  forall (p : pset0) (k : nat) (i : pin) (pk sg : bytes) (b : byte),
    nth_error (p0_ins p) k = Some i ->
    In (pk, sg) (pi_sigs i) ->
    last_byte sg = Some b -> n8 b <> expected_sht i -> snd (finalize0 p k) <> StOk.
Proof. exact sighash_mismatch_never_finalizes0. Qed.
Print Assumptions C09_sighash_mismatch_never_finalizes_v0.

Theorem C09_too_few_sigs_never_finalize_v2 :
  forall (p : pset2) (k : nat) (i : pin2) (n m : N),
    nth_error (q_ins p) k = Some i ->
    osome (pi_wu (q_base i)) && is_taproot i = false ->
    has_f true (deciding_script (q_base i)) = true ->
    ms_stats (obytes (deciding_script (q_base i))) = Some (n, m) ->
    lenL (pi_sigs (q_base i)) < m -> snd (finalize2 p k) <> StOk.
Proof. exact too_few_sigs_never_finalize2. Qed.
Print Assumptions C09_too_few_sigs_never_finalize_v2.

Theorem C09_sighash_mismatch_never_finalizes_v2 :
  forall (p : pset2) (k : nat) (i : pin2) (pk sg : bytes) (b : byte),
    nth_error (q_ins p) k = Some i ->
    osome (pi_wu (q_base i)) && is_taproot i = false ->
    In (pk, sg) (pi_sigs (q_base i)) ->
    last_byte sg = Some b -> n8 b <> expected_sht (q_base i) -> snd (finalize2 p k) <> StOk.
Proof. exact sighash_mismatch_never_finalizes2. Qed.
Print Assumptions C09_sighash_mismatch_never_finalizes_v2.

(* v0: no hypothesis *)
Theorem C09_extract_eq_unsigned_modulo_scripts_v0 :
  forall (p : pset0) (t : tx), extract0 p = OcOk t -> strip_tx t = strip_tx (p0_tx p).
Proof. exact extract0_eq_unsigned. Qed.
Print Assumptions C09_extract_eq_unsigned_modulo_scripts_v0.

(* input k of the extracted transaction carries the final script and decoded final witness of section k *)
Theorem C09_extract_input_v0 :
  forall (p : pset0) (t : tx) (k : nat) (ti : txin) (i : pin),
    extract0 p = OcOk t ->
    nth_error (t_ins (p0_tx p)) k = Some ti ->
    nth_error (p0_ins p) k = Some i ->
    exists ti' : txin, nth_error (t_ins t) k = Some ti' /\ set_in_final ti i = Some ti'.
Proof. exact extract0_input. Qed.
Print Assumptions C09_extract_input_v0.

(* the signature checks over the extracted transaction are those over the unsigned transaction (digest frame hypothesis) *)
Theorem C09_extracted_checks_as_signed_v0 :
  forall (verify : bytes -> bytes -> bytes -> bool)
    (digest : tx -> salgo -> N -> nat -> bytes -> bytes -> bytes),
    (forall t t' : tx, strip_tx t = strip_tx t' -> digest t = digest t') ->
    forall (p : pset0) (t : tx) (k : nat) (amount : bytes),
    extract0 p = OcOk t -> chk_dig verify digest t k amount = chk_dig verify digest (p0_tx p) k amount.
Proof. exact extracted_checks_as_signed0. Qed.
Print Assumptions C09_extracted_checks_as_signed_v0.

(* v2 (code after fix 0eaca09): Extract equals UnsignedTx, the transaction the signatures are
   computed over, in every field other than input scripts and witness data, for every packet
   whose previous-output indices are outpoint indices (0xffffffff or at most 0x3fffffff; the
   range of wf_in in Model/Tx.v: UnsignedTx masks other values, Extract copies them) *)
Theorem C09_extract_eq_unsigned_modulo_scripts_v2 :
  forall (p : pset2) (t : tx),
    Forall outpoint_index_ok (q_ins p) ->
    extract2 p = OcOk t -> strip_tx t = strip_tx (unsigned_tx2 p).
Proof. exact extract2_eq_unsigned. Qed.
Print Assumptions C09_extract_eq_unsigned_modulo_scripts_v2.

Theorem C09_extracted_checks_as_signed_v2 :
  forall (verify : bytes -> bytes -> bytes -> bool)
    (digest : tx -> salgo -> N -> nat -> bytes -> bytes -> bytes),
    (forall t t' : tx, strip_tx t = strip_tx t' -> digest t = digest t') ->
    forall (p : pset2) (t : tx) (k : nat) (amount : bytes),
    Forall outpoint_index_ok (q_ins p) ->
    extract2 p = OcOk t -> chk_dig verify digest t k amount = chk_dig verify digest (unsigned_tx2 p) k amount.
Proof. exact extracted_checks_as_signed2. Qed.
Print Assumptions C09_extracted_checks_as_signed_v2.

(* every sequence of distinct signers is admitted by addPartialSignature (v0) and the packet then
   holds their signatures in signing order; add_sigs0 folds add_partial_sig0 over the list *)
Theorem C09_signing_admitted_v0 :
  forall (ops : list (bytes * bytes)) (p : pset0) (k : nat) (i : pin),
    nth_error (p0_ins p) k = Some i -> sanity0 p = true ->
    NoDup (map fst ops) ->
    (forall pk : bytes, In pk (map fst ops) -> has_sig_for i pk = false) ->
    (forall pk sg : bytes, In (pk, sg) ops ->
       admit_checks i pk (osome (nth_error (t_ins (p0_tx p)) k))
         (match nth_error (t_ins (p0_tx p)) k with Some x => in_hash x | None => [] end)
         (match nth_error (t_ins (p0_tx p)) k with Some x => in_index x | None => 0 end) = OcOk tt) ->
    add_sigs0 p k ops = (with_in0 p k (fun i0 : pin => set_sigs (pi_sigs i0 ++ ops) i0), StOk).
Proof. exact signing_admitted0. Qed.
Print Assumptions C09_signing_admitted_v0.
