(* Props/C09.v — property theorems only. *)
From Coq Require Import Sorting.Sorted Sorting.Permutation.
From GE Require Import Lib.Bytes Lib.Varint Lib.Sha256 Model.Ripemd160 Model.Tx Model.TxHash Model.Spend Proofs.Spend.
Open Scope N_scope.

(* P2PKH: the scriptSig built from the single partial signature satisfies the spent script (v0 and v2, every hash type, any signature checker) *)
Theorem C09_finalized_satisfies_p2pkh :
  forall (chk : salgo -> bytes -> bytes -> bytes -> bool) (commit : bytes -> bytes -> bytes -> bool)
    (v2 : bool) (i : pin) (pk sg : bytes),
    pi_sigs i = [(pk, sg)] ->
    has_f v2 (pi_redeem i) = false ->
    sig_typed (expected_sht i) sg ->
    wf_key pk ->
    pushable sg ->
    chk ALegacy (p2pkh_script (hash160 pk)) pk sg = true ->
    exists ss : bytes,
    legacy_sigscript v2 i = OcOk ss /\ satisfies chk commit (p2pkh_script (hash160 pk)) ss [] = true.
Proof. exact p2pkh_final. Qed.
Print Assumptions C09_finalized_satisfies_p2pkh.

(* P2WPKH *)
Theorem C09_finalized_satisfies_p2wpkh :
  forall (chk : salgo -> bytes -> bytes -> bytes -> bool) (commit : bytes -> bytes -> bytes -> bool)
    (v2 : bool) (i : pin) (pk sg : bytes),
    pi_sigs i = [(pk, sg)] ->
    has_f v2 (pi_redeem i) = false ->
    has_f v2 (pi_wscript i) = false ->
    sig_typed (expected_sht i) sg ->
    wf_key pk ->
    pushable sg ->
    chk AWitV0 (p2pkh_script (hash160 pk)) pk sg = true ->
    witness_final v2 i = OcOk ([], ser_witness [sg; pk]) /\
    read_witness (ser_witness [sg; pk]) = Some [sg; pk] /\
    satisfies chk commit (p2wpkh_script (hash160 pk)) [] [sg; pk] = true.
Proof. exact p2wpkh_final. Qed.
Print Assumptions C09_finalized_satisfies_p2wpkh.

(* P2SH-P2WPKH *)
Theorem C09_finalized_satisfies_p2sh_p2wpkh :
  forall (chk : salgo -> bytes -> bytes -> bytes -> bool) (commit : bytes -> bytes -> bytes -> bool)
    (v2 : bool) (i : pin) (pk sg : bytes),
    pi_sigs i = [(pk, sg)] ->
    pi_redeem i = Some (p2wpkh_script (hash160 pk)) ->
    has_f v2 (pi_wscript i) = false ->
    sig_typed (expected_sht i) sg ->
    wf_key pk ->
    pushable sg ->
    chk AWitV0 (p2pkh_script (hash160 pk)) pk sg = true ->
    exists ss : bytes,
    witness_final v2 i = OcOk (ss, ser_witness [sg; pk]) /\
    nonempty ss = true /\
    read_witness (ser_witness [sg; pk]) = Some [sg; pk] /\
    satisfies chk commit (p2sh_script (hash160 (p2wpkh_script (hash160 pk)))) ss [sg; pk] = true.
Proof. exact p2sh_p2wpkh_final. Qed.
Print Assumptions C09_finalized_satisfies_p2sh_p2wpkh.

(* P2SH m-of-n multisig: every key set, every m, every signing order (pks is any duplicate-free list of m signing keys, in the order they signed) *)
Theorem C09_finalized_satisfies_p2sh_multisig :
  forall (chk : salgo -> bytes -> bytes -> bytes -> bool) (commit : bytes -> bytes -> bytes -> bool)
    (v2 : bool) (i : pin) (m : N) (keys pks : list bytes) (sgf : bytes -> bytes),
    ms_ok m keys pks sgf ->
    pi_sigs i = ms_pairs sgf pks ->
    pi_redeem i = Some (multisig_script m keys) ->
    lenN (multisig_script m keys) <= 520 ->
    (forall k : bytes, In k pks -> sig_typed (expected_sht i) (sgf k)) ->
    (forall k : bytes, In k pks -> chk ALegacy (multisig_script m keys) k (sgf k) = true) ->
    (forall k k' : bytes,
    In k keys -> In k' keys -> chk ALegacy (multisig_script m keys) k (sgf k') = true -> k = k') ->
    exists ss : bytes,
    legacy_sigscript v2 i = OcOk ss /\
    satisfies chk commit (p2sh_script (hash160 (multisig_script m keys))) ss [] = true.
Proof. exact p2sh_ms_final. Qed.
Print Assumptions C09_finalized_satisfies_p2sh_multisig.

(* P2WSH m-of-n multisig *)
Theorem C09_finalized_satisfies_p2wsh_multisig :
  forall (chk : salgo -> bytes -> bytes -> bytes -> bool) (commit : bytes -> bytes -> bytes -> bool)
    (v2 : bool) (i : pin) (m : N) (keys pks : list bytes) (sgf : bytes -> bytes),
    ms_ok m keys pks sgf ->
    pi_sigs i = ms_pairs sgf pks ->
    has_f v2 (pi_redeem i) = false ->
    pi_wscript i = Some (multisig_script m keys) ->
    (forall k : bytes, In k pks -> sig_typed (expected_sht i) (sgf k)) ->
    (forall k : bytes, In k pks -> chk AWitV0 (multisig_script m keys) k (sgf k) = true) ->
    (forall k k' : bytes,
    In k keys -> In k' keys -> chk AWitV0 (multisig_script m keys) k (sgf k') = true -> k = k') ->
    let w := [] :: ms_ordered sgf keys pks ++ [multisig_script m keys] in
    witness_final v2 i = OcOk ([], ser_witness w) /\
    read_witness (ser_witness w) = Some w /\
    satisfies chk commit (p2wsh_script (sha256 (multisig_script m keys))) [] w = true.
Proof. exact p2wsh_ms_final. Qed.
Print Assumptions C09_finalized_satisfies_p2wsh_multisig.

(* P2SH-P2WSH m-of-n multisig *)
Theorem C09_finalized_satisfies_p2sh_p2wsh_multisig :
  forall (chk : salgo -> bytes -> bytes -> bytes -> bool) (commit : bytes -> bytes -> bytes -> bool)
    (v2 : bool) (i : pin) (m : N) (keys pks : list bytes) (sgf : bytes -> bytes),
    ms_ok m keys pks sgf ->
    pi_sigs i = ms_pairs sgf pks ->
    pi_redeem i = Some (p2wsh_script (sha256 (multisig_script m keys))) ->
    pi_wscript i = Some (multisig_script m keys) ->
    (forall k : bytes, In k pks -> sig_typed (expected_sht i) (sgf k)) ->
    (forall k : bytes, In k pks -> chk AWitV0 (multisig_script m keys) k (sgf k) = true) ->
    (forall k k' : bytes,
    In k keys -> In k' keys -> chk AWitV0 (multisig_script m keys) k (sgf k') = true -> k = k') ->
    let w := [] :: ms_ordered sgf keys pks ++ [multisig_script m keys] in
    exists ss : bytes,
    witness_final v2 i = OcOk (ss, ser_witness w) /\
    nonempty ss = true /\
    read_witness (ser_witness w) = Some w /\
    satisfies chk commit (p2sh_script (hash160 (p2wsh_script (sha256 (multisig_script m keys))))) ss w =
    true.
Proof. exact p2sh_p2wsh_ms_final. Qed.
Print Assumptions C09_finalized_satisfies_p2sh_p2wsh_multisig.

(* taproot key path (psetv2) *)
Theorem C09_finalized_satisfies_taproot_key :
  forall (chk : salgo -> bytes -> bytes -> bytes -> bool) (commit : bytes -> bytes -> bytes -> bool)
    (i : pin2) (q : list byte),
    is_final2 i = false ->
    nonempty (q_tapkeysig i) = true ->
    lenN (q_tapkeysig i) <= 65 ->
    length q = 32%nat ->
    chk ATapKey [] q (q_tapkeysig i) = true ->
    taproot_final i = OcOk (vector [q_tapkeysig i]) /\
    read_witness (vector [q_tapkeysig i]) = Some [q_tapkeysig i] /\
    satisfies chk commit (p2tr_script q) [] [q_tapkeysig i] = true.
Proof. exact tap_key_final. Qed.
Print Assumptions C09_finalized_satisfies_taproot_key.

(* taproot single-leaf script path (psetv2) *)
Theorem C09_finalized_satisfies_taproot_leaf :
  forall (chk : salgo -> bytes -> bytes -> bytes -> bool) (commit : bytes -> bytes -> bytes -> bool)
    (i : pin2) (q : list byte) (l : tleaf) (pk sg : bytes),
    is_final2 i = false ->
    q_tapkeysig i = [] ->
    q_tapleafs i = [l] ->
    tl_script l = tapleaf_checksig_script pk ->
    length pk = 32%nat ->
    q_tapsigs i = [{| ts_pk := pk; ts_sig := sg; ts_leaf := tapleaf_hash l |}] ->
    lenN sg <= 65 ->
    lenN (tl_cb l) <= 10000 ->
    length q = 32%nat ->
    commit (tl_cb l) (tl_script l) q = true ->
    chk ATapLeaf (tl_script l) pk sg = true ->
    let w := [sg; tl_script l; tl_cb l] in
    taproot_final i = OcOk (vector w) /\
    read_witness (vector w) = Some w /\ satisfies chk commit (p2tr_script q) [] w = true.
Proof. exact tap_leaf_final. Qed.
Print Assumptions C09_finalized_satisfies_taproot_leaf.

(* any permutation of the signing order gives the same ordered signatures *)
Theorem C09_signing_order_irrelevant :
  forall (m : N) (keys pks pks' : list bytes) (sgf : bytes -> bytes),
    Permutation pks pks' ->
    ms_ok m keys pks sgf ->
    extract_key_order (multisig_script m keys) (ms_pairs sgf pks') =
    extract_key_order (multisig_script m keys) (ms_pairs sgf pks).
Proof. exact extract_key_order_perm. Qed.
Print Assumptions C09_signing_order_irrelevant.

(* the v0 serialize/parse hop only permutes the partial signatures *)
Theorem C09_hop_is_a_permutation :
  forall l : list (bytes * bytes), Permutation (sort_pk l) l.
Proof. exact hop_sorts_a_permutation. Qed.
Print Assumptions C09_hop_is_a_permutation.

(* a successful v0 Finalize had exactly the required signatures, all of the declared hash type *)
Theorem C09_finalize_requires_v0 :
  forall (p : pset0) (k : nat) (p' : pset0) (i : pin),
    finalize0 p k = (p', StOk) ->
    nth_error (p0_ins p) k = Some i ->
    enough_sigs (deciding_script i) false (pi_sigs i) /\
    (forall pk sg : bytes, In (pk, sg) (pi_sigs i) -> sig_typed (expected_sht i) sg).
Proof. exact finalize0_refuses. Qed.
Print Assumptions C09_finalize_requires_v0.

(* same for psetv2 (ECDSA templates) *)
Theorem C09_finalize_requires_v2 :
  forall (p : pset2) (k : nat) (p' : pset2) (i : pin2),
    finalize2 p k = (p', StOk) ->
    nth_error (q_ins p) k = Some i ->
    osome (pi_wu (q_base i)) && is_taproot i = false ->
    enough_sigs (deciding_script (q_base i)) true (pi_sigs (q_base i)) /\
    (forall pk sg : bytes, In (pk, sg) (pi_sigs (q_base i)) -> sig_typed (expected_sht (q_base i)) sg).
Proof. exact finalize2_refuses. Qed.
Print Assumptions C09_finalize_requires_v2.

Theorem C09_too_few_sigs_never_finalize_v0 :
  forall (p : pset0) (k : nat) (i : pin) (n m : N),
    nth_error (p0_ins p) k = Some i ->
    has_f false (deciding_script i) = true ->
    ms_stats (obytes (deciding_script i)) = Some (n, m) ->
    lenL (pi_sigs i) < m -> snd (finalize0 p k) <> StOk.
Proof. exact too_few_sigs_never_finalize0. Qed.
Print Assumptions C09_too_few_sigs_never_finalize_v0.

Theorem C09_no_sigs_never_finalize_v0 :
  forall (p : pset0) (k : nat) (i : pin),
    nth_error (p0_ins p) k = Some i ->
    pi_sigs i = [] -> has_f false (deciding_script i) = false -> snd (finalize0 p k) <> StOk.
Proof. exact no_sigs_never_finalize0. Qed.
Print Assumptions C09_no_sigs_never_finalize_v0.

(* the whole byte is compared: a difference in the 0x80 or 0x40 bit alone refuses *)
Theorem C09_sighash_mismatch_never_finalizes_v0 :
  forall (p : pset0) (k : nat) (i : pin) (pk sg : bytes) (b : byte),
    nth_error (p0_ins p) k = Some i ->
    In (pk, sg) (pi_sigs i) ->
    last_byte sg = Some b -> n8 b <> expected_sht i -> snd (finalize0 p k) <> StOk.
Proof. exact sighash_mismatch_never_finalizes0. Qed.
Print Assumptions C09_sighash_mismatch_never_finalizes_v0.

Theorem C09_too_few_sigs_never_finalize_v2 :
  forall (p : pset2) (k : nat) (i : pin2) (n m : N),
    nth_error (q_ins p) k = Some i ->
    osome (pi_wu (q_base i)) && is_taproot i = false ->
    has_f true (deciding_script (q_base i)) = true ->
    ms_stats (obytes (deciding_script (q_base i))) = Some (n, m) ->
    lenL (pi_sigs (q_base i)) < m -> snd (finalize2 p k) <> StOk.
Proof. exact too_few_sigs_never_finalize2. Qed.
Print Assumptions C09_too_few_sigs_never_finalize_v2.

Theorem C09_sighash_mismatch_never_finalizes_v2 :
  forall (p : pset2) (k : nat) (i : pin2) (pk sg : bytes) (b : byte),
    nth_error (q_ins p) k = Some i ->
    osome (pi_wu (q_base i)) && is_taproot i = false ->
    In (pk, sg) (pi_sigs (q_base i)) ->
    last_byte sg = Some b -> n8 b <> expected_sht (q_base i) -> snd (finalize2 p k) <> StOk.
Proof. exact sighash_mismatch_never_finalizes2. Qed.
Print Assumptions C09_sighash_mismatch_never_finalizes_v2.

(* v0: no hypothesis *)
Theorem C09_extract_eq_unsigned_modulo_scripts_v0 :
  forall (p : pset0) (t : tx), extract0 p = OcOk t -> strip_tx t = strip_tx (p0_tx p).
Proof. exact extract0_eq_unsigned. Qed.
Print Assumptions C09_extract_eq_unsigned_modulo_scripts_v0.

(* input k of the extracted transaction carries the final script and decoded final witness of section k *)
Theorem C09_extract_input_v0 :
  forall (p : pset0) (t : tx) (k : nat) (ti : txin) (i : pin),
    extract0 p = OcOk t ->
    nth_error (t_ins (p0_tx p)) k = Some ti ->
    nth_error (p0_ins p) k = Some i ->
    exists ti' : txin, nth_error (t_ins t) k = Some ti' /\ set_in_final ti i = Some ti'.
Proof. exact extract0_input. Qed.
Print Assumptions C09_extract_input_v0.

(* v2: holds when every input has a non-zero sequence, agreeing issuance tests, no peg-in witness, an index without flag bits. Full statement (no agree_in2 hypothesis) is refuted below *)
Theorem C09_extract_eq_unsigned_modulo_scripts_v2_partial :
  forall (p : pset2) (t : tx),
    Forall agree_in2 (q_ins p) -> extract2 p = OcOk t -> strip_tx t = strip_tx (unsigned_tx2 p).
Proof. exact extract2_eq_unsigned_partial. Qed.
Print Assumptions C09_extract_eq_unsigned_modulo_scripts_v2_partial.

Theorem C09_extract_eq_unsigned_modulo_scripts_v2_refuted :
  exists (p : pset2) (t : tx), extract2 p = OcOk t /\ strip_tx t <> strip_tx (unsigned_tx2 p).
Proof. exact extract2_eq_unsigned_refuted. Qed.
Print Assumptions C09_extract_eq_unsigned_modulo_scripts_v2_refuted.

(* sequence 0 is extracted as 0 but signed as 0xffffffff *)
Theorem C09_extract_v2_sequence_refuted :
  exists (p : pset2) (t : tx),
    extract2 p = OcOk t /\
    strip_tx t <> strip_tx (unsigned_tx2 p) /\
    map in_seq (t_ins t) = [0] /\ map in_seq (t_ins (unsigned_tx2 p)) = [u32max].
Proof. exact extract2_sequence_refuted. Qed.
Print Assumptions C09_extract_v2_sequence_refuted.

(* different issuance presence tests *)
Theorem C09_extract_v2_issuance_refuted :
  exists (p : pset2) (t : tx),
    extract2 p = OcOk t /\
    strip_tx t <> strip_tx (unsigned_tx2 p) /\
    map (fun i : txin => osome (in_iss i)) (t_ins t) = [true] /\
    map (fun i : txin => osome (in_iss i)) (t_ins (unsigned_tx2 p)) = [false].
Proof. exact extract2_issuance_refuted. Qed.
Print Assumptions C09_extract_v2_issuance_refuted.

(* peg-in flag only in the extracted transaction *)
Theorem C09_extract_v2_pegin_refuted :
  exists (p : pset2) (t : tx),
    extract2 p = OcOk t /\
    strip_tx t <> strip_tx (unsigned_tx2 p) /\
    map in_pegin (t_ins t) = [true] /\ map in_pegin (t_ins (unsigned_tx2 p)) = [false].
Proof. exact extract2_pegin_refuted. Qed.
Print Assumptions C09_extract_v2_pegin_refuted.

(* the signature checks over the extracted transaction are those over the unsigned transaction (digest frame hypothesis) *)
Theorem C09_extracted_checks_as_signed_v0 :
  forall (verify : bytes -> bytes -> bytes -> bool)
    (digest : tx -> salgo -> N -> nat -> bytes -> bytes -> bytes),
    (forall t t' : tx, strip_tx t = strip_tx t' -> digest t = digest t') ->
    forall (p : pset0) (t : tx) (k : nat) (amount : bytes),
    extract0 p = OcOk t -> chk_dig verify digest t k amount = chk_dig verify digest (p0_tx p) k amount.
Proof. exact extracted_checks_as_signed0. Qed.
Print Assumptions C09_extracted_checks_as_signed_v0.

Theorem C09_extracted_checks_as_signed_v2_partial :
  forall (verify : bytes -> bytes -> bytes -> bool)
    (digest : tx -> salgo -> N -> nat -> bytes -> bytes -> bytes),
    (forall t t' : tx, strip_tx t = strip_tx t' -> digest t = digest t') ->
    forall (p : pset2) (t : tx) (k : nat) (amount : bytes),
    Forall agree_in2 (q_ins p) ->
    extract2 p = OcOk t ->
    chk_dig verify digest t k amount = chk_dig verify digest (unsigned_tx2 p) k amount.
Proof. exact extracted_checks_as_signed2_partial. Qed.
Print Assumptions C09_extracted_checks_as_signed_v2_partial.

(* psetv2 taproot script path finalizes with no signature for the leaf *)
Theorem C09_taproot_too_few_sigs_refuted :
  exists (p p' : pset2) (i' : pin2),
    finalize2 p 0 = (p', StOk) /\
    nth_error (q_ins p') 0 = Some i' /\
    pi_fwit (q_base i') = Some (vector [tl_script rf_leaf; tl_cb rf_leaf]).
Proof. exact taproot_too_few_refuted. Qed.
Print Assumptions C09_taproot_too_few_sigs_refuted.

(* psetv2 taproot finalization does not compare hash types *)
Theorem C09_taproot_sighash_mismatch_refuted :
  exists p p' : pset2,
    pi_sht (q_base (rf_tap_in 3 (repeat "004"%byte 64 ++ ["129"%byte]) [] [])) = 3 /\
    finalize2 p 0 = (p', StOk) /\ q_ins p = [rf_tap_in 3 (repeat "004"%byte 64 ++ ["129"%byte]) [] []].
Proof. exact taproot_sighash_mismatch_refuted. Qed.
Print Assumptions C09_taproot_sighash_mismatch_refuted.

(* the `unambiguous` hypothesis of the multisig theorems is needed: ordering by first occurrence misorders this key set *)
Theorem C09_ambiguous_key_set_refuted :
  exists ss : bytes,
    legacy_sigscript false amb_in = OcOk ss /\
    (forall k : bytes,
    In k [amb_k2; amb_k3] -> amb_chk ALegacy (multisig_script 2 amb_keys) k (amb_sgf k) = true) /\
    satisfies amb_chk (fun _ _ _ : bytes => true) (p2sh_script (hash160 (multisig_script 2 amb_keys)))
    ss [] = false.
Proof. exact ambiguous_keys_refuted. Qed.
Print Assumptions C09_ambiguous_key_set_refuted.
