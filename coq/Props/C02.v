(* Props/C02.v — property theorems only. *)
From GE Require Import Lib.Bytes Model.Tx Model.Sighash Proofs.Sighash.
Open Scope N_scope.

(* For each algorithm the pre-image (hence the digest, whatever the hash function) is a function of an
   explicit covered view: two transactions that agree on the view have equal pre-images, for every
   transaction, signing index and hash type. The view is the coverage matrix: it lists exactly which
   fields enter under which hash-type bits. *)
Theorem C02_v0_frame : forall (H2 : bytes -> bytes) t t' idx script value ht,
  view_v0 t idx ht = view_v0 t' idx ht ->
  preimage_v0 H2 t idx script value ht = preimage_v0 H2 t' idx script value ht.
Proof. exact v0_frame. Qed.
Print Assumptions C02_v0_frame.

Theorem C02_v1_frame : forall (H1 : bytes -> bytes) t t' idx a a' ht,
  view_v1 t idx a ht = view_v1 t' idx a' ht ->
  preimage_v1 H1 t idx a ht = preimage_v1 H1 t' idx a' ht.
Proof. exact v1_frame. Qed.
Print Assumptions C02_v1_frame.

Theorem C02_legacy_frame : forall t t' idx script ht,
  view_legacy t idx script ht = view_legacy t' idx script ht ->
  preimage_legacy t idx script ht = preimage_legacy t' idx script ht.
Proof. exact legacy_frame. Qed.
Print Assumptions C02_legacy_frame.

(* rows of the matrix named in the property statement *)
Theorem C02_v0_anyonecanpay_ignores_other_inputs : forall H2 t t' idx script value ht,
  ht_acp ht = true -> same_own t t' idx ->
  t_version t = t_version t' -> t_locktime t = t_locktime t' -> t_outs t = t_outs t' ->
  preimage_v0 H2 t idx script value ht = preimage_v0 H2 t' idx script value ht.
Proof. exact v0_anyonecanpay_ignores_other_inputs. Qed.
Print Assumptions C02_v0_anyonecanpay_ignores_other_inputs.

Theorem C02_v0_none_ignores_outputs : forall H2 t t' idx script value ht,
  ht_none ht = true -> ht_single ht = false ->
  t_version t = t_version t' -> t_locktime t = t_locktime t' -> t_ins t = t_ins t' ->
  preimage_v0 H2 t idx script value ht = preimage_v0 H2 t' idx script value ht.
Proof. exact v0_none_ignores_outputs. Qed.
Print Assumptions C02_v0_none_ignores_outputs.

Theorem C02_v0_single_ignores_other_outputs : forall H2 t t' idx script value ht,
  ht_single ht = true ->
  t_version t = t_version t' -> t_locktime t = t_locktime t' -> t_ins t = t_ins t' ->
  nth_error (t_outs t) idx = nth_error (t_outs t') idx ->
  preimage_v0 H2 t idx script value ht = preimage_v0 H2 t' idx script value ht.
Proof. exact v0_single_ignores_other_outputs. Qed.
Print Assumptions C02_v0_single_ignores_other_outputs.

Theorem C02_v0_none_single_ignore_other_sequences : forall H2 t t' idx script value ht,
  ht_single ht || ht_none ht = true -> same_own t t' idx ->
  t_version t = t_version t' -> t_locktime t = t_locktime t' -> t_outs t = t_outs t' ->
  map in_outpoint (t_ins t) = map in_outpoint (t_ins t') -> map in_iss (t_ins t) = map in_iss (t_ins t') ->
  preimage_v0 H2 t idx script value ht = preimage_v0 H2 t' idx script value ht.
Proof. exact v0_none_single_ignore_other_sequences. Qed.
Print Assumptions C02_v0_none_single_ignore_other_sequences.

Theorem C02_v0_ignores_output_proofs_without_flag : forall H2 t t' idx script value ht,
  ht_rp ht = false ->
  t_version t = t_version t' -> t_locktime t = t_locktime t' -> t_ins t = t_ins t' ->
  map out_base (t_outs t) = map out_base (t_outs t') ->
  preimage_v0 H2 t idx script value ht = preimage_v0 H2 t' idx script value ht.
Proof. exact v0_ignores_output_proofs_without_flag. Qed.
Print Assumptions C02_v0_ignores_output_proofs_without_flag.

Theorem C02_v1_anyonecanpay_ignores_other_inputs : forall H1 t t' idx a ht,
  v1_acp ht = true ->
  (exists own own', nth_error (t_ins t) idx = Some own /\ nth_error (t_ins t') idx = Some own' /\
     input_flag own = input_flag own' /\ in_hash own = in_hash own' /\ in_index own = in_index own' /\
     in_seq own = in_seq own' /\ in_iss own = in_iss own' /\ in_proofs own = in_proofs own') ->
  t_version t = t_version t' -> t_locktime t = t_locktime t' -> t_outs t = t_outs t' ->
  preimage_v1 H1 t idx a ht = preimage_v1 H1 t' idx a ht.
Proof. exact v1_anyonecanpay_ignores_other_inputs. Qed.
Print Assumptions C02_v1_anyonecanpay_ignores_other_inputs.

Theorem C02_v1_none_ignores_outputs : forall H1 t t' idx a ht,
  v1_out_type ht = 2 ->
  t_version t = t_version t' -> t_locktime t = t_locktime t' -> t_ins t = t_ins t' ->
  preimage_v1 H1 t idx a ht = preimage_v1 H1 t' idx a ht.
Proof. exact v1_none_ignores_outputs. Qed.
Print Assumptions C02_v1_none_ignores_outputs.

Theorem C02_v1_single_ignores_other_outputs : forall H1 t t' idx a ht,
  v1_out_type ht = 3 ->
  t_version t = t_version t' -> t_locktime t = t_locktime t' -> t_ins t = t_ins t' ->
  nth_error (t_outs t) idx = nth_error (t_outs t') idx ->
  preimage_v1 H1 t idx a ht = preimage_v1 H1 t' idx a ht.
Proof. exact v1_single_ignores_other_outputs. Qed.
Print Assumptions C02_v1_single_ignores_other_outputs.

Theorem C02_legacy_anyonecanpay_ignores_other_inputs : forall t t' idx script ht,
  ht_acp ht = true ->
  nth_error (t_ins t) idx = nth_error (t_ins t') idx -> nth_error (t_ins t) idx <> None ->
  t_version t = t_version t' -> t_locktime t = t_locktime t' -> t_outs t = t_outs t' ->
  preimage_legacy t idx script ht = preimage_legacy t' idx script ht.
Proof. exact legacy_anyonecanpay_ignores_other_inputs. Qed.
Print Assumptions C02_legacy_anyonecanpay_ignores_other_inputs.

Theorem C02_legacy_none_ignores_outputs : forall t t' idx script ht,
  ht_none ht = true ->
  t_version t = t_version t' -> t_locktime t = t_locktime t' -> t_flag t = t_flag t' -> t_ins t = t_ins t' ->
  preimage_legacy t idx script ht = preimage_legacy t' idx script ht.
Proof. exact legacy_none_ignores_outputs. Qed.
Print Assumptions C02_legacy_none_ignores_outputs.

Theorem C02_legacy_ignores_output_proofs_without_flag : forall t t' idx script ht,
  ht_rp ht = false ->
  t_version t = t_version t' -> t_locktime t = t_locktime t' -> t_ins t = t_ins t' ->
  map out_base (t_outs t) = map out_base (t_outs t') ->
  preimage_legacy t idx script ht = preimage_legacy t' idx script ht.
Proof. exact legacy_ignores_output_proofs_without_flag. Qed.
Print Assumptions C02_legacy_ignores_output_proofs_without_flag.

(* ---- the converse: covered fields change the pre-image and, under an ideal hash, the digest ---- *)
From GE Require Import Proofs.SighashSens.

(* segwit v0: equal pre-images (or equal digests) force equal covered views, equal script code and equal amount *)
Theorem C02_v0_sensitive : forall (H2 : bytes -> bytes),
  (forall a b, H2 a = H2 b -> a = b) -> (forall a, length (H2 a) = 32%nat) -> (forall a, H2 a <> zero32) ->
  forall t t' idx script script' value value' ht p,
  wf_tx t = true -> wf_tx t' = true -> iss_compatible t t' ->
  lenN script < two64 -> lenN script' < two64 -> is_value value = true -> is_value value' = true ->
  preimage_v0 H2 t idx script value ht = Some p -> preimage_v0 H2 t' idx script' value' ht = Some p ->
  view_v0 t idx ht = view_v0 t' idx ht /\ script = script' /\ value = value'.
Proof. exact v0_sensitive. Qed.
Print Assumptions C02_v0_sensitive.

Theorem C02_v0_digest_sensitive : forall (H2 : bytes -> bytes),
  (forall a b, H2 a = H2 b -> a = b) -> (forall a, length (H2 a) = 32%nat) -> (forall a, H2 a <> zero32) ->
  forall t t' idx script script' value value' ht d,
  wf_tx t = true -> wf_tx t' = true -> iss_compatible t t' ->
  lenN script < two64 -> lenN script' < two64 -> is_value value = true -> is_value value' = true ->
  digest_v0 H2 t idx script value ht = Some d -> digest_v0 H2 t' idx script' value' ht = Some d ->
  view_v0 t idx ht = view_v0 t' idx ht /\ script = script' /\ value = value'.
Proof. exact v0_digest_sensitive. Qed.
Print Assumptions C02_v0_digest_sensitive.

(* legacy (without the RANGEPROOF bit): equal pre-images force equal covered views of the hashed copies *)
Theorem C02_legacy_sensitive : forall t t' idx script script' ht c c' p,
  ht_rp ht = false ->
  legacy_tx t idx script ht = Some c -> legacy_tx t' idx script' ht = Some c' ->
  wf_tx c = true -> wf_tx c' = true ->
  preimage_legacy t idx script ht = Some p -> preimage_legacy t' idx script' ht = Some p ->
  sig_view false c = sig_view false c'.
Proof. exact legacy_sensitive. Qed.
Print Assumptions C02_legacy_sensitive.

(* legacy with the RANGEPROOF bit: the covered view then includes the range and surjection proofs of the outputs *)
Theorem C02_legacy_rp_sensitive : forall t t' idx script script' ht c c' p,
  ht_rp ht = true ->
  legacy_tx t idx script ht = Some c -> legacy_tx t' idx script' ht = Some c' ->
  wf_tx c = true -> wf_tx c' = true ->
  preimage_legacy t idx script ht = Some p -> preimage_legacy t' idx script' ht = Some p ->
  sig_view true c = sig_view true c'.
Proof. exact legacy_rp_sensitive. Qed.
Print Assumptions C02_legacy_rp_sensitive.

(* legacy, every hash type *)
Theorem C02_legacy_sensitive_any : forall t t' idx script script' ht c c' p,
  legacy_tx t idx script ht = Some c -> legacy_tx t' idx script' ht = Some c' ->
  wf_tx c = true -> wf_tx c' = true ->
  preimage_legacy t idx script ht = Some p -> preimage_legacy t' idx script' ht = Some p ->
  sig_view (ht_rp ht) c = sig_view (ht_rp ht) c'.
Proof. exact legacy_sensitive_any. Qed.
Print Assumptions C02_legacy_sensitive_any.

(* legacy, every hash type and every input index, SIGHASH_SINGLE above index 0 included: the hashed copy then carries
   blanked outputs that the wire format cannot represent, so well-formedness is asked of the copy without them *)
Theorem C02_legacy_sensitive_full : forall t t' idx script script' ht c c' p,
  legacy_tx t idx script ht = Some c -> legacy_tx t' idx script' ht = Some c' ->
  wf_tx (legacy_core ht idx c) = true -> wf_tx (legacy_core ht idx c') = true ->
  preimage_legacy t idx script ht = Some p -> preimage_legacy t' idx script' ht = Some p ->
  sig_view (ht_rp ht) c = sig_view (ht_rp ht) c'.
Proof. exact legacy_sensitive_full. Qed.
Print Assumptions C02_legacy_sensitive_full.

(* taproot: equal pre-images force equal covered views (all hash types, key and script path, with or without annex) *)
Theorem C02_v1_sensitive : forall (H1 : bytes -> bytes),
  (forall a b, H1 a = H1 b -> a = b) -> (forall a, length (H1 a) = 32%nat) ->
  forall t t' idx a a' ht p,
  wf_tx t = true -> wf_tx t' = true ->
  (same_iss_pattern (t_ins t) (t_ins t') \/ length (ser_issuances (t_ins t)) <> length (ser_issuances (t_ins t'))) ->
  v1_args_wf t a -> v1_args_wf t' a' ->
  preimage_v1 H1 t idx a ht = Some p -> preimage_v1 H1 t' idx a' ht = Some p ->
  view_v1 t idx a ht = view_v1 t' idx a' ht.
Proof. exact v1_sensitive. Qed.
Print Assumptions C02_v1_sensitive.
