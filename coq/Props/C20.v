(* Props/C20.v — property theorems only. *)
From GE Require Import Lib.Bytes Lib.Varint Lib.Sha256 Spec.PartialMerkle Model.Tx Model.Merkle Model.Pegin
  Proofs.Merkle Proofs.Pegin.
Open Scope N_scope.

(* completeness: every count 1..limit (odd widths at every level), every match subset, distinct ids,
   collision-free node hash: Bitcoin's partial tree is accepted with the block's root and exactly
   the matched ids in block order *)
Theorem C20_extract_build : forall (A : Type) (H : A -> A -> A) (eqA : A -> A -> bool),
  (forall a b, eqA a b = true <-> a = b) ->
  (forall a b c d, H a b = H c d -> a = c /\ b = d) ->
  forall l : list (A * bool),
  l <> [] -> lenL l <= max_txs -> NoDup (map fst l) ->
  exists t bits hashes,
    tree_of A l = Some t /\ build A H l = Some (bits, hashes) /\
    extract A H eqA (lenL l) hashes bits = Some (thash A H t, matched A l).
Proof. exact extract_build. Qed.
Print Assumptions C20_extract_build.

(* the same for the executable instance (double SHA-256 over 32-byte ids), no hash assumption:
   holds whenever no two sibling subtrees of the block's tree have the same hash *)
Theorem C20_extract_build_sha256 : forall (l : list (bytes * bool)) t bits hashes,
  l <> [] -> lenL l <= max_txs -> tree_of bytes l = Some t -> sib_ok bytes node_hash t ->
  build bytes node_hash l = Some (bits, hashes) ->
  extract bytes node_hash bytes_eqb (lenL l) hashes bits = Some (thash bytes node_hash t, matched bytes l).
Proof. exact extract_mb_build. Qed.
Print Assumptions C20_extract_build_sha256.

(* byte level: the serialized merkle block (Bitcoin's builder, flag bits packed into bytes, wire layout)
   goes through NewMerkleBlockFromBuffer + ExtractMatches; trailing bytes are ignored *)
Theorem C20_run_proof_build : forall (header : bytes) (l : list (bytes * bool)) t bits hashes rest,
  l <> [] -> lenL l <= max_txs -> tree_of bytes l = Some t -> sib_ok bytes node_hash t ->
  build bytes node_hash l = Some (bits, hashes) ->
  length header = 80%nat -> Forall (fun h => length h = 32%nat) hashes ->
  lenN (flags_of_bits bits) <= wire_max_flags ->
  let m := mk_mb header (lenL l) hashes (flags_of_bits bits) in
  run_proof (ser_merkle_block m ++ rest) = POk m (thash bytes node_hash t) (matched bytes l).
Proof. exact run_proof_build. Qed.
Print Assumptions C20_run_proof_build.

(* the tree hash is the block's merkle root computed level by level *)
Theorem C20_tree_hash_is_merkle_root : forall (A : Type) (H : A -> A -> A) (l : list (A * bool)) t,
  l <> [] -> tree_of A l = Some t -> merkle_root A H (map fst l) = Some (thash A H t).
Proof. exact merkle_root_is_tree_hash. Qed.
Print Assumptions C20_tree_hash_is_merkle_root.

(* soundness: an accepted proof whose root is the block's root reports only block ids, in block order *)
Theorem C20_matches_are_leaves : forall (A : Type) (H : A -> A -> A) (eqA : A -> A -> bool),
  (forall a b, eqA a b = true <-> a = b) ->
  (forall a b c d, H a b = H c d -> a = c /\ b = d) ->
  forall n hashes bits root ms (l : list (A * bool)) t,
  extract A H eqA n hashes bits = Some (root, ms) ->
  lenL l = n -> tree_of A l = Some t -> root = thash A H t ->
  subseq A ms (map fst l).
Proof. exact matches_are_leaves. Qed.
Print Assumptions C20_matches_are_leaves.

(* altered hashes: rejected or a different root *)
Theorem C20_altered_hash_changes_root_or_rejects : forall (A : Type) (H : A -> A -> A) (eqA : A -> A -> bool),
  (forall a b c d, H a b = H c d -> a = c /\ b = d) ->
  forall n hs1 hs2 bits root m1 m2,
  extract A H eqA n hs1 bits = Some (root, m1) -> extract A H eqA n hs2 bits = Some (root, m2) -> hs1 = hs2.
Proof. exact altered_hash_changes_root_or_rejects. Qed.
Print Assumptions C20_altered_hash_changes_root_or_rejects.

(* surplus hashes / surplus flag bytes: rejected *)
Theorem C20_surplus_hashes_rejected : forall (A : Type) (H : A -> A -> A) (eqA : A -> A -> bool) n hs bits res eh,
  extract A H eqA n hs bits = Some res -> eh <> [] -> extract A H eqA n (hs ++ eh) bits = None.
Proof. exact surplus_hashes_rejected. Qed.
Print Assumptions C20_surplus_hashes_rejected.

Theorem C20_surplus_bits_rejected : forall (A : Type) (H : A -> A -> A) (eqA : A -> A -> bool) n hs bits res eb,
  extract A H eqA n hs bits = Some res -> (8 <= length eb)%nat -> extract A H eqA n hs (bits ++ eb) = None.
Proof. exact surplus_bits_rejected. Qed.
Print Assumptions C20_surplus_bits_rejected.

Theorem C20_count_out_of_range_rejected : forall (A : Type) (H : A -> A -> A) (eqA : A -> A -> bool) n hs bits,
  n = 0 \/ max_txs < n -> extract A H eqA n hs bits = None.
Proof. exact count_out_of_range_rejected. Qed.
Print Assumptions C20_count_out_of_range_rejected.

(* clauses of the statement that do not hold of the format (nor of this code):
   an in-range altered count, a padding bit, a height-0 flag bit can leave the root unchanged *)
Theorem C20_altered_count_refuted :
  exists n n' hashes bits root ms,
    n <> n' /\ extract term Hn term_eqb n hashes bits = Some (root, ms) /\
    extract term Hn term_eqb n' hashes bits = Some (root, ms).
Proof. exact altered_count_refuted. Qed.
Print Assumptions C20_altered_count_refuted.

Theorem C20_altered_padding_bit_refuted :
  exists n hashes bits bits' root ms,
    bits <> bits' /\ length bits = length bits' /\
    extract term Hn term_eqb n hashes bits = Some (root, ms) /\
    extract term Hn term_eqb n hashes bits' = Some (root, ms).
Proof. exact altered_padding_bit_refuted. Qed.
Print Assumptions C20_altered_padding_bit_refuted.

Theorem C20_altered_leaf_bit_refuted :
  exists n hashes bits bits' root ms ms',
    bits <> bits' /\ length bits = length bits' /\ ms <> ms' /\
    extract term Hn term_eqb n hashes bits = Some (root, ms) /\
    extract term Hn term_eqb n hashes bits' = Some (root, ms').
Proof. exact altered_leaf_bit_refuted. Qed.
Print Assumptions C20_altered_leaf_bit_refuted.

(* peg-in claim: proven outpoint with the peg-in flag, six witness elements in order *)
Theorem C20_claim_shape : forall asset genesis cs proof bv fee_of t,
  claim asset genesis cs proof bv fee_of = PgOk t ->
  exists mb rest v idx amount a0 tail i,
    parse_merkle_block proof = Some (mb, rest) /\
    extract_mb mb = Some (header_root (mb_header mb), [bv_txid v]) /\
    bv = Some v /\
    nth_error (bv_outs v) i = Some (amount, bv_main_script v) /\ idx = N.of_nat i mod two32 /\
    asset = a0 :: tail /\
    t_version t = 2 /\ t_locktime t = 0 /\
    t_ins t = [pegin_input (bv_txid v) idx
                 [le_enc 8 amount; tail; rev genesis; cs; bv_stripped v; proof]] /\
    (exists v0 v1, t_outs t = [claim_out0 asset cs v0; claim_out1 asset v1]) /\
    t = claim_tx (pegin_input (bv_txid v) idx [le_enc 8 amount; tail; rev genesis; cs; bv_stripped v; proof])
                 asset cs amount fee_of.
Proof. exact claim_shape. Qed.
Print Assumptions C20_claim_shape.

Theorem C20_pegin_flag_on_wire : forall hash idx wit,
  in_pegin (pegin_input hash idx wit) = true /\ N.testbit (raw_index (pegin_input hash idx wit)) 30 = true.
Proof. exact pegin_input_flag. Qed.
Print Assumptions C20_pegin_flag_on_wire.

(* the outputs of every accepted claim sum to the pegged amount *)
Theorem C20_claim_outputs_sum : forall asset genesis cs proof bv fee_of t,
  claim asset genesis cs proof bv fee_of = PgOk t ->
  exists input amount,
    create_pegin_input asset genesis cs proof bv = PgOk (input, amount) /\ outs_sum t = amount.
Proof. exact claim_outputs_sum. Qed.
Print Assumptions C20_claim_outputs_sum.

(* ... and a claim is produced exactly when the amount is a non-negative int64 and the fee does not exceed it *)
Theorem C20_claim_succeeds_iff : forall asset genesis cs proof bv fee_of input amount,
  create_pegin_input asset genesis cs proof bv = PgOk (input, amount) ->
  (exists t, claim asset genesis cs proof bv fee_of = PgOk t) <->
  (amount < 0x8000000000000000 /\ claim_fee input asset cs amount fee_of <= amount).
Proof. exact claim_succeeds_iff. Qed.
Print Assumptions C20_claim_succeeds_iff.

Theorem C20_claim_refuses_excess_fee : forall asset genesis cs proof bv fee_of input amount,
  create_pegin_input asset genesis cs proof bv = PgOk (input, amount) ->
  amount < claim_fee input asset cs amount fee_of ->
  claim asset genesis cs proof bv fee_of = PgErr.
Proof. exact claim_refuses_excess_fee. Qed.
Print Assumptions C20_claim_refuses_excess_fee.

(* one MerkleBlock object over time (fields edited in place between calls of ExtractMatches): with FBad
   clear, a call returns what a freshly decoded proof with the present count / hashes / flag bits returns *)
From GE Require Import Model.MerkleHist Proofs.MerkleHist.
Theorem C20_history_verdict_is_fresh_verdict : forall o o' res,
  h_bad o = false -> Forall (fun h => hash32 h = true) (h_hashes o) -> hstep o HExtract = Some (o', Some res) ->
  res = extract bytes node_hash bytes_eqb (h_count o) (h_hashes o) (h_bits o).
Proof. exact history_verdict_is_fresh_verdict. Qed.
Print Assumptions C20_history_verdict_is_fresh_verdict.

Theorem C20_history_success_keeps_fresh : forall o o' r,
  hstep o HExtract = Some (o', Some (Some r)) -> h_bad o' = false.
Proof. exact history_success_keeps_fresh. Qed.
Print Assumptions C20_history_success_keeps_fresh.

(* FBad is a field of the value and ExtractMatches never clears it: an object carrying FBad = true is
   refused whatever its other fields are (shown on the fields of a genuine proof in the example) *)
Theorem C20_history_sticky_fbad : forall (A : Type) (H : A -> A -> A) (eqA : A -> A -> bool) (okA : A -> bool) n hashes bits,
  extract_hist A H eqA okA true n hashes bits = (None, true).
Proof. exact extract_hist_sticky. Qed.
Print Assumptions C20_history_sticky_fbad.

Theorem C20_history_sticky_fbad_example :
  exists n hashes bits r,
    extract term Hn term_eqb n hashes bits = Some r /\
    fst (extract_hist term Hn term_eqb (fun _ => true) true n hashes bits) = None.
Proof. exact history_sticky_fbad_example. Qed.
Print Assumptions C20_history_sticky_fbad_example.

(* altered hash LENGTH (only reachable through the exported TxHashes field; the wire decoder yields 32-byte
   entries): chainhash.NewHash fails on an entry that is not 32 bytes long, so such an object is refused *)
Theorem C20_history_bad_length_refused : forall o o' res,
  ~ Forall (fun h => hash32 h = true) (h_hashes o) -> hstep o HExtract = Some (o', Some res) -> res = None.
Proof. exact history_bad_length_refused. Qed.
Print Assumptions C20_history_bad_length_refused.

Theorem C20_extract_accepts_only_valid_entries : forall (A : Type) (H : A -> A -> A) (eqA : A -> A -> bool) (okA : A -> bool)
  bad n hashes bits r bad',
  extract_hist A H eqA okA bad n hashes bits = (Some r, bad') -> Forall (fun x => okA x = true) hashes.
Proof. exact extract_hist_accepts_only_valid_entries. Qed.
Print Assumptions C20_extract_accepts_only_valid_entries.
