(* Props/C14.v — property theorems only.  `ext_laws` bundles the round-trip laws of the
   EXTERNAL codecs (btcutil base58check, bech32, bech32.ConvertBits); `regroup_law` /
   `regroup_back_law` are the regrouping laws of the repository's blech32.ConvertBits: they were premises
   and are now theorems (C14_regroup_law, C14_regroup_back_law); the statements with the premise are kept,
   followed by the premise-free ones. *)
From GE Require Import Lib.Bytes Model.Blech32 Proofs.Blech32 Proofs.Regroup Model.Address Proofs.Address Proofs.AddressRegroup.
Import B32 Addr.
Open Scope N_scope.

(* network constants of today's source: version bytes and prefixes never collide *)
Theorem C14_version_bytes_disjoint : forall n1 n2 v, In n1 nets -> In n2 nets ->
  In v (versions n1) -> In v (versions n2) -> n1 = n2.
Proof. exact version_bytes_disjoint. Qed.
Print Assumptions C14_version_bytes_disjoint.

Theorem C14_hrps_disjoint :
  forallb (fun a => forallb (fun b => bytes_eqb a b || differ_within a b) all_hrps) all_hrps = true /\
  forallb (fun a => (2 <=? length a)%nat && forallb char_ok a && bytes_eqb (map to_lower a) a &&
                    forallb (fun c => negb (beqb c sep)) a) all_hrps = true /\
  NoDup all_hrps.
Proof. exact hrps_disjoint. Qed.
Print Assumptions C14_hrps_disjoint.

Section WithCodecs.
Variables (b58enc : bytes -> byte -> bytes) (b58dec : bytes -> option (bytes * byte))
  (bech_dec : bytes -> option (bytes * bytes * bool)) (bech_enc : bool -> bytes -> bytes -> option bytes)
  (bcb : bytes -> N -> N -> bool -> option bytes).
Hypothesis L : ext_laws b58enc b58dec bech_dec bech_enc bcb.

(* base58 and confidential base58: decode(encode) and encode(decode), layout prefix | key | hash *)
Theorem C14_base58_roundtrip : forall v d, length d = 20%nat ->
  from_base58 b58dec (to_base58 b58enc v d) = Ok (v, d).
Proof. exact (base58_roundtrip_l _ _ _ _ _ L). Qed.
Theorem C14_base58_reencode : forall s v d, from_base58 b58dec s = Ok (v, d) -> to_base58 b58enc v d = s.
Proof. exact (base58_reencode_l _ _ _ _ _ L). Qed.
Theorem C14_base58_conf_roundtrip : forall cv v key d, length key = 33%nat -> length d = 20%nat ->
  from_base58_conf b58dec (to_base58_conf b58enc cv v key d) = Ok (cv, v, key, d).
Proof. exact (base58_conf_roundtrip_l _ _ _ _ _ L). Qed.
Theorem C14_base58_conf_reencode : forall s cv v key d,
  from_base58_conf b58dec s = Ok (cv, v, key, d) -> to_base58_conf b58enc cv v key d = s.
Proof. exact (base58_conf_reencode_l _ _ _ _ _ L). Qed.

(* every network x {P2PKH, P2SH} x payload: network, type, confidentiality flag and script *)
Theorem C14_base58_forms : forall n pkh d, In n nets -> length d = 20%nat ->
  let s := to_base58 b58enc (ver_of n pkh) d in
  network_for_address b58dec s = Ok n /\ decode_type b58dec bech_dec bcb s = Ok (is_pkh_type pkh) /\
  is_confidential b58dec bech_dec bcb s = Ok false /\
  to_output_script b58dec bech_dec bcb s = of_opt (script_of pkh d).
Proof. exact (base58_forms_l _ _ _ _ _ L). Qed.
Theorem C14_base58_conf_forms : forall n pkh key d, In n nets -> length key = 33%nat -> length d = 20%nat ->
  let s := to_base58_conf b58enc (n_conf n) (ver_of n pkh) key d in
  network_for_address b58dec s = Ok n /\ decode_type b58dec bech_dec bcb s = Ok (is_cpkh_type pkh) /\
  is_confidential b58dec bech_dec bcb s = Ok true /\
  to_output_script b58dec bech_dec bcb s = of_opt (script_of pkh d).
Proof. exact (base58_conf_forms_l _ _ _ _ _ L). Qed.

(* every network x {P2WPKH, P2WSH, P2TR} x program: encode, decode back, network, type, script *)
Theorem C14_bech32_forms : forall n tr prog, In n nets -> seg_ok tr prog ->
  exists s, to_bech32 bech_enc bcb (n_bech32 n) (seg_ver tr) prog = Ok s /\
    from_bech32 bech_dec bcb s = Ok (n_bech32 n, seg_ver tr, prog) /\
    network_for_address b58dec s = Ok n /\ decode_type b58dec bech_dec bcb s = Ok (seg_type tr prog) /\
    is_confidential b58dec bech_dec bcb s = Ok false /\
    to_output_script b58dec bech_dec bcb s = of_opt (script_segwit (seg_ver tr) prog).
Proof. exact (bech32_forms_l _ _ _ _ _ L). Qed.

(* ... and their confidential (blech32 / blech32m) forms with a 33-byte blinding key *)
Theorem C14_blech32_forms : regroup_law -> forall n tr key prog, In n nets -> seg_ok tr prog -> length key = 33%nat ->
  exists s, to_blech32 (n_blech32 n) (seg_ver tr) key prog = Ok s /\
    from_blech32 s = Ok (n_blech32 n, seg_ver tr, key, prog) /\
    network_for_address b58dec s = Ok n /\ decode_type b58dec bech_dec bcb s = Ok (cseg_type tr prog) /\
    is_confidential b58dec bech_dec bcb s = Ok true /\
    to_output_script b58dec bech_dec bcb s = of_opt (script_segwit (seg_ver tr) prog).
Proof. exact (blech32_forms_l _ _ _ _ _ L). Qed.

(* confidential <-> unconfidential preserves address, key and script (= the payment builder's script) *)
Theorem C14_conf_unconf_base58 : forall n pkh key d scr, In n nets -> length key = 33%nat -> length d = 20%nat ->
  script_of pkh d = Some scr ->
  let u := to_base58 b58enc (ver_of n pkh) d in
  let c := to_base58_conf b58enc (n_conf n) (ver_of n pkh) key d in
  to_confidential b58enc b58dec bech_dec bcb u key = Ok c /\
  from_confidential b58enc b58dec bech_dec bech_enc bcb c = Ok (u, key, scr).
Proof. exact (conf_unconf_base58_l _ _ _ _ _ L). Qed.
Theorem C14_conf_unconf_segwit : regroup_law -> forall n tr key prog, In n nets -> seg_ok tr prog -> length key = 33%nat ->
  exists u c scr, to_bech32 bech_enc bcb (n_bech32 n) (seg_ver tr) prog = Ok u /\
    to_blech32 (n_blech32 n) (seg_ver tr) key prog = Ok c /\
    script_segwit (seg_ver tr) prog = Some scr /\
    to_output_script b58dec bech_dec bcb u = Ok scr /\ to_output_script b58dec bech_dec bcb c = Ok scr /\
    to_confidential b58enc b58dec bech_dec bcb u key = Ok c /\
    from_confidential b58enc b58dec bech_dec bech_enc bcb c = Ok (u, key, scr).
Proof. exact (conf_unconf_segwit_l _ _ _ _ _ L). Qed.

(* the same two theorems without the regrouping premise *)
Theorem C14_blech32_forms_closed : forall n tr key prog, In n nets -> seg_ok tr prog -> length key = 33%nat ->
  exists s, to_blech32 (n_blech32 n) (seg_ver tr) key prog = Ok s /\
    from_blech32 s = Ok (n_blech32 n, seg_ver tr, key, prog) /\
    network_for_address b58dec s = Ok n /\ decode_type b58dec bech_dec bcb s = Ok (cseg_type tr prog) /\
    is_confidential b58dec bech_dec bcb s = Ok true /\
    to_output_script b58dec bech_dec bcb s = of_opt (script_segwit (seg_ver tr) prog).
Proof. exact (blech32_forms_l _ _ _ _ _ L regroup_law_holds). Qed.
Theorem C14_conf_unconf_segwit_closed : forall n tr key prog, In n nets -> seg_ok tr prog -> length key = 33%nat ->
  exists u c scr, to_bech32 bech_enc bcb (n_bech32 n) (seg_ver tr) prog = Ok u /\
    to_blech32 (n_blech32 n) (seg_ver tr) key prog = Ok c /\
    script_segwit (seg_ver tr) prog = Some scr /\
    to_output_script b58dec bech_dec bcb u = Ok scr /\ to_output_script b58dec bech_dec bcb c = Ok scr /\
    to_confidential b58enc b58dec bech_dec bcb u key = Ok c /\
    from_confidential b58enc b58dec bech_dec bech_enc bcb c = Ok (u, key, scr).
Proof. exact (conf_unconf_segwit_l _ _ _ _ _ L regroup_law_holds). Qed.

(* version-0 programs only with the bech32 constant, version-1 programs only with bech32m:
   the same program under the constant of the other version is rejected (fix e7c9f3c) *)
Theorem C14_other_constant_rejected : forall n tr prog s', In n nets -> seg_ok tr prog ->
  (forall c, bcb prog 8 5 true = Some c -> bech_enc (negb tr) (n_bech32 n) (seg_ver tr :: c) = Some s') ->
  from_bech32 bech_dec bcb s' = Err /\ decode_type b58dec bech_dec bcb s' = Err.
Proof. exact (other_constant_rejected_l _ _ _ _ _ L). Qed.

(* any string FromBech32 accepts with version 0 or 1 (all that DecodeType recognises), in either case
   spelling, re-encodes to its lower-case spelling *)
Theorem C14_bech32_recognised_reencodes : forall s p v prog,
  from_bech32 bech_dec bcb s = Ok (p, v, prog) -> n8 v <= 1 ->
  to_bech32 bech_enc bcb p v prog = Ok (map to_lower s).
Proof. exact (bech32_recognised_reencodes_l _ _ _ _ _ L). Qed.
Theorem C14_recognised_bech32_versions : forall s t, decode_bech32 bech_dec bcb s = Ok t ->
  exists p v prog, from_bech32 bech_dec bcb s = Ok (p, v, prog) /\ n8 v <= 1.
Proof. exact (recognised_bech32_versions_l _ _ _ _ _ L). Qed.

(* the payment builder's address methods are these encoders *)
Theorem C14_payment_addresses : forall n hash whash tap key, hash <> [] -> whash <> [] -> length tap = 32%nat ->
  pay_address b58enc bech_enc bcb 0 n hash whash tap key = Ok (to_base58 b58enc (n_pkh n) hash) /\
  pay_address b58enc bech_enc bcb 1 n hash whash tap key = Ok (to_base58_conf b58enc (n_conf n) (n_pkh n) key hash) /\
  pay_address b58enc bech_enc bcb 2 n hash whash tap key = Ok (to_base58 b58enc (n_sh n) hash) /\
  pay_address b58enc bech_enc bcb 3 n hash whash tap key = Ok (to_base58_conf b58enc (n_conf n) (n_sh n) key hash) /\
  pay_address b58enc bech_enc bcb 4 n hash whash tap key = swallow (to_bech32 bech_enc bcb (n_bech32 n) x00 whash) /\
  pay_address b58enc bech_enc bcb 5 n hash whash tap key = to_blech32 (n_blech32 n) x00 key whash /\
  pay_address b58enc bech_enc bcb 6 n hash whash tap key = to_bech32 bech_enc bcb (n_bech32 n) x00 whash /\
  pay_address b58enc bech_enc bcb 7 n hash whash tap key = swallow (to_blech32 (n_blech32 n) x00 key whash) /\
  pay_address b58enc bech_enc bcb 8 n hash whash tap key = to_bech32 bech_enc bcb (n_bech32 n) x01 tap /\
  pay_address b58enc bech_enc bcb 9 n hash whash tap key = swallow (to_blech32 (n_blech32 n) x01 key tap).
Proof. exact (payment_addresses b58enc bech_enc bcb). Qed.
End WithCodecs.

Print Assumptions C14_base58_roundtrip.
Print Assumptions C14_base58_reencode.
Print Assumptions C14_base58_conf_roundtrip.
Print Assumptions C14_base58_conf_reencode.
Print Assumptions C14_base58_forms.
Print Assumptions C14_base58_conf_forms.
Print Assumptions C14_bech32_forms.
Print Assumptions C14_blech32_forms.
Print Assumptions C14_conf_unconf_base58.
Print Assumptions C14_conf_unconf_segwit.
Print Assumptions C14_blech32_forms_closed.
Print Assumptions C14_conf_unconf_segwit_closed.
Print Assumptions C14_other_constant_rejected.
Print Assumptions C14_bech32_recognised_reencodes.
Print Assumptions C14_recognised_bech32_versions.
Print Assumptions C14_payment_addresses.

(* any string FromBlech32 accepts, in either case spelling, re-encodes to its lower-case spelling
   (blech32 Decode/Encode of C15; the 5->8->5 regrouping of blech32.ConvertBits is a premise) *)
Theorem C14_blech32_recognised_reencodes : forall s p v k pr, regroup_back_law ->
  from_blech32 s = Ok (p, v, k, pr) -> to_blech32 p v k pr = Ok (map to_lower s).
Proof. exact blech32_recognised_reencodes. Qed.
Print Assumptions C14_blech32_recognised_reencodes.

(* ---- the regrouping laws of blech32.ConvertBits, for all byte lists (Proofs/Regroup.v) ---- *)
Theorem C14_regroup_law : forall d, exists c, convert_bits d 8 5 true = Some c /\
  Forall (fun b => n8 b < 32) c /\ convert_bits c 5 8 false = Some d /\ (length c <= 2 * length d)%nat.
Proof. exact regroup_roundtrip. Qed.
Print Assumptions C14_regroup_law.

Theorem C14_regroup_back_law : forall c d, Forall (fun b => n8 b < 32) c ->
  convert_bits c 5 8 false = Some d -> convert_bits d 8 5 true = Some c.
Proof. exact regroup_back. Qed.
Print Assumptions C14_regroup_back_law.

(* ... hence, without premise: whatever FromBlech32 accepts re-encodes to its lower-case spelling *)
Theorem C14_blech32_recognised_reencodes_closed : forall s p v k pr,
  from_blech32 s = Ok (p, v, k, pr) -> to_blech32 p v k pr = Ok (map to_lower s).
Proof. exact (fun s p v k pr => blech32_recognised_reencodes s p v k pr regroup_back_law_holds). Qed.
Print Assumptions C14_blech32_recognised_reencodes_closed.

(* ---- network attribution is exclusive for EVERY string (after fix 233bf85 the whole human-readable
   part is compared): the network NetworkForAddress names is the only one whose prefix / version fits ---- *)
Theorem C14_attribution_exclusive : forall (b58dec : bytes -> option (bytes * byte)) s n,
  network_for_address b58dec s = Ok n ->
  In n nets /\
  ((In (segwit_prefix s) (hrps n) /\ forall n', In n' nets -> In (segwit_prefix s) (hrps n') -> n' = n) \/
   (net_by_hrp s = None /\ exists d v, b58dec s = Some (d, v) /\ In v (versions n) /\
      forall n', In n' nets -> In v (versions n') -> n' = n)).
Proof. exact attribution_exclusive. Qed.
Print Assumptions C14_attribution_exclusive.

(* a confidential segwit string recognised under network n IS the canonical encoding of
   (n, version, blinding key, program): same prefix, and ToBlech32 gives back the very string *)
Theorem C14_blech32_recognised_canonical : forall s n p v k pr, In n nets ->
  is_hrp s (n_blech32 n) = true -> from_blech32 s = Ok (p, v, k, pr) ->
  p = n_blech32 n /\ to_blech32 (n_blech32 n) v k pr = Ok s.
Proof. exact blech32_recognised_canonical. Qed.
Print Assumptions C14_blech32_recognised_canonical.

(* a confidential base58 address is recognised only when the inner address prefix (p2pkh / p2sh) belongs to
   the network of the outer confidential prefix: hybrids of two networks are never recognised *)
Theorem C14_conf_base58_inner_prefix : forall (b58dec : bytes -> option (bytes * byte))
  (bech_dec : bytes -> option (bytes * bytes * bool)) (bcb : bytes -> N -> N -> bool -> option bytes) s t,
  decode_type b58dec bech_dec bcb s = Ok t -> t = ConfidentialP2Pkh \/ t = ConfidentialP2Sh ->
  exists n p rest, network_for_address b58dec s = Ok n /\ In n nets /\
    b58dec s = Some (p :: rest, n_conf n) /\ length (p :: rest) = 54%nat /\
    ((p = n_pkh n /\ t = ConfidentialP2Pkh) \/ (p = n_sh n /\ t = ConfidentialP2Sh)).
Proof. exact conf_base58_inner_prefix. Qed.
Print Assumptions C14_conf_base58_inner_prefix.
