(* Props/C10.v — property theorems only (model follows /repo after fixes a910e27, 9415d49, 1acccfe, 2d9b577). *)
From GE Require Import Lib.Bytes Lib.Sha256 Model.Tx Model.TxHash Model.SigValidate Proofs.SigValidate.
Open Scope N_scope.

(* valid_only_if, the full DESIGN statement, for every packet (v0 and v2): a valid verdict
   implies the input carries signatures, every partial signature verifies under its key the
   digest computed from the script and amount of the output actually spent (redeem / witness
   scripts being the committed pre-images), the key or its HASH160 is a data push of the
   script being satisfied, and a supplied previous transaction hashes to the outpoint txid.
   Hypotheses: only the sizes of the byte strings the key test compares. *)
Theorem C10_valid_only_if :
  forall digest parse_pk der_ok verify hash160,
    (forall pub ck, parse_pk pub = Some ck -> length ck = 33%nat) ->
    (forall b, length (hash160 b) = 20%nat) ->
    forall v p i, vs_validate_input digest parse_pk der_ok verify hash160 v p i = VOk true ->
      exists inp, nth_error (svp_ins p) i = Some inp /\ svi_sigs inp <> [] /\
        (forall s, In s (svi_sigs inp) -> sig_genuine digest parse_pk der_ok verify hash160 v p i inp s) /\
        prev_tx_matches v p i inp.
Proof. exact valid_only_if. Qed.
Print Assumptions C10_valid_only_if.

(* the key test is byte-exact: it holds iff some data push is the compressed key or the
   HASH160 of the key bytes, and then those bytes occur contiguously in the script *)
Theorem C10_key_test_exact :
  forall hash160 ck pub ts,
    vs_key_in_pushes hash160 ck pub ts = true <->
    exists op d, In (op, Some d) ts /\ (d = ck \/ d = hash160 pub).
Proof. exact key_test_exact. Qed.
Print Assumptions C10_key_test_exact.

Theorem C10_key_test_bytewise :
  forall hash160 script ts ck pub,
    vs_script_tokens script = Some ts -> vs_key_in_pushes hash160 ck pub ts = true ->
    exists k pre post, (k = ck \/ k = hash160 pub) /\ script = pre ++ k ++ post.
Proof. exact key_test_bytewise. Qed.
Print Assumptions C10_key_test_bytewise.

(* the same with no assumption on key / hash sizes, but a hypothesis on the packet: the
   classified script is not a malformed OP_0 program (address.GetScriptType does not look at
   script[1]) *)
Theorem C10_valid_only_if_partial :
  forall digest parse_pk der_ok verify hash160 v p i,
    vs_validate_input digest parse_pk der_ok verify hash160 v p i = VOk true ->
    exists inp, nth_error (svp_ins p) i = Some inp /\ svi_sigs inp <> [] /\
      prev_tx_matches v p i inp /\
      ((forall o, spent_output v p i inp = Some o -> wf_program (used_script inp o)) ->
       forall s, In s (svi_sigs inp) -> sig_genuine digest parse_pk der_ok verify hash160 v p i inp s).
Proof. exact valid_only_if_partial. Qed.
Print Assumptions C10_valid_only_if_partial.

(* with no hypothesis at all: the digest verified is the one vs_hash_and_script selects *)
Theorem C10_valid_only_if_checked :
  forall digest parse_pk der_ok verify hash160 v p i,
    vs_validate_input digest parse_pk der_ok verify hash160 v p i = VOk true ->
    exists inp, nth_error (svp_ins p) i = Some inp /\ svi_sigs inp <> [] /\
      (forall s, In s (svi_sigs inp) -> sig_checked digest parse_pk der_ok verify hash160 v p i inp s) /\
      prev_tx_matches v p i inp.
Proof. exact valid_only_if_checked. Qed.
Print Assumptions C10_valid_only_if_checked.

Theorem C10_prev_tx_matches :
  forall digest parse_pk der_ok verify hash160 v p i,
    vs_validate_input digest parse_pk der_ok verify hash160 v p i = VOk true ->
    exists inp, nth_error (svp_ins p) i = Some inp /\ prev_tx_matches v p i inp.
Proof. exact prev_tx_matches_always. Qed.
Print Assumptions C10_prev_tx_matches.

(* with neither the size hypotheses nor wf_program the abstract statement fails (toy 1-byte key) *)
Theorem C10_valid_only_if_refuted :
  ~ valid_only_if_statement toy_digest toy_parse_pk toy_der_ok toy_verify toy_hash160.
Proof. exact valid_only_if_refuted. Qed.
Print Assumptions C10_valid_only_if_refuted.

Theorem C10_valid_only_if_refuted_malformed_program :
  vs_validate_input toy_digest toy_parse_pk toy_der_ok toy_verify toy_hash160 VsV0 pktM 0 = VOk true /\
  vs_validate_input toy_digest toy_parse_pk toy_der_ok toy_verify toy_hash160 VsV2 pktM 0 = VOk true /\
  exists inp s, nth_error (svp_ins pktM) 0 = Some inp /\ In s (svi_sigs inp) /\
    ~ sig_genuine toy_digest toy_parse_pk toy_der_ok toy_verify toy_hash160 VsV2 pktM 0 inp s.
Proof. exact valid_only_if_refuted_malformed_program. Qed.
Print Assumptions C10_valid_only_if_refuted_malformed_program.

(* the packets that refuted the statement before the fixes are rejected *)
Theorem C10_former_witnesses_rejected :
  vs_validate_input toy_digest toy_parse_pk toy_der_ok toy_verify toy_hash160 VsV0 pkt1 0 = VErr /\
  vs_validate_input toy_digest toy_parse_pk toy_der_ok toy_verify toy_hash160 VsV0 pkt2 0 = VOk false /\
  vs_validate_input toy_digest toy_parse_pk toy_der_ok toy_verify toy_hash160 VsV2 pkt2 0 = VOk false /\
  vs_validate_input toy_digest toy_parse_pk toy_der_ok toy_verify toy_hash160 VsV0 pkt3 0 = VErr /\
  vs_validate_input toy_digest toy_parse_pk toy_der_ok toy_verify toy_hash160 VsV2 pkt3 0 = VErr /\
  vs_validate_input toy_digest toy_parse_pk toy_der_ok toy_verify toy_hash160 VsV0 pkt4 0 = VErr /\
  vs_validate_input toy_digest toy_parse_pk toy_der_ok toy_verify toy_hash160 VsV2 pkt4 0 = VErr.
Proof. exact former_witnesses_rejected. Qed.
Print Assumptions C10_former_witnesses_rejected.

(* ideal signatures: a signature produced for d0 only never validates once any other digest is selected *)
Theorem C10_corruption_rejected :
  forall digest parse_pk der_ok verify hash160 (signed : bytes -> bytes -> bytes -> Prop),
    (forall k m s, verify k m s = true -> signed k m s) ->
    forall v p i inp pub sg ck last rder d0,
      nth_error (svp_ins p) i = Some inp ->
      In (Some (mk_vsig (Some pub) sg)) (svi_sigs inp) ->
      parse_pk pub = Some ck -> rev sg = last :: rder ->
      (forall m, signed ck m (rev rder) -> m = d0) ->
      (forall d scr, vs_hash_and_script digest hash160 v p i inp (n8 last) = VOk (d, scr) -> d <> d0) ->
      vs_validate_input digest parse_pk der_ok verify hash160 v p i <> VOk true.
Proof. exact corruption_rejected. Qed.
Print Assumptions C10_corruption_rejected.

Theorem C10_corruption_rejected_fields :
  forall digest parse_pk der_ok verify hash160 (signed : bytes -> bytes -> bytes -> Prop),
    (forall k m s, verify k m s = true -> signed k m s) ->
    forall (same_covered : valgo -> N -> nat -> tx -> tx -> Prop),
    (forall a t i c am ht a' t' i' c' am' ht',
        digest a t i c am ht = digest a' t' i' c' am' ht' ->
        a = a' /\ i = i' /\ c = c' /\ am = am' /\ ht = ht' /\ same_covered a ht i t t') ->
    forall v p i inp pub sg ck last rder a0 t0 i0 c0 am0 ht0,
      nth_error (svp_ins p) i = Some inp ->
      In (Some (mk_vsig (Some pub) sg)) (svi_sigs inp) ->
      parse_pk pub = Some ck -> rev sg = last :: rder ->
      (forall m, signed ck m (rev rder) -> m = digest a0 t0 i0 c0 am0 ht0) ->
      vs_validate_input digest parse_pk der_ok verify hash160 v p i = VOk true ->
      exists scr, vs_hash_and_script digest hash160 v p i inp (n8 last) = VOk (digest a0 t0 i0 c0 am0 ht0, scr) /\
        i = i0 /\ n8 last = ht0 /\ same_covered a0 ht0 i0 t0 (svp_tx p) /\
        digest a0 t0 i0 c0 am0 ht0 = digest a0 (svp_tx p) i c0 am0 (n8 last).
Proof. exact corruption_rejected_fields. Qed.
Print Assumptions C10_corruption_rejected_fields.

(* a substituted previous transaction with another id, lower or higher, is rejected (v0 and v2) *)
Theorem C10_substituted_prev_rejected :
  forall digest parse_pk der_ok verify hash160 v p i inp prev h idx,
    nth_error (svp_ins p) i = Some inp -> svi_nonwit inp = Some prev ->
    outpoint_of v p i inp = Some (h, idx) -> txid prev <> h ->
    vs_validate_input digest parse_pk der_ok verify hash160 v p i <> VOk true.
Proof. exact substituted_prev_rejected. Qed.
Print Assumptions C10_substituted_prev_rejected.

Theorem C10_validate_all_only_if :
  forall digest parse_pk der_ok verify hash160 v p,
    vs_validate_all digest parse_pk der_ok verify hash160 v p = VOk true ->
    forall j, (j < length (svp_ins p))%nat ->
      vs_validate_input digest parse_pk der_ok verify hash160 v p j = VOk true.
Proof. exact validate_all_only_if. Qed.
Print Assumptions C10_validate_all_only_if.

(* no panic on parser-shaped packets, in full *)
Theorem C10_no_panic_on_accepted_packets :
  forall digest parse_pk der_ok verify hash160 v p i,
    accepted p -> (i < length (svp_ins p))%nat ->
    forall site, vs_validate_input digest parse_pk der_ok verify hash160 v p i <> VPanic site.
Proof. exact no_panic_on_accepted_packets. Qed.
Print Assumptions C10_no_panic_on_accepted_packets.

Theorem C10_former_panics_are_errors :
  vs_validate_input toy_digest toy_parse_pk toy_der_ok toy_verify toy_hash160 VsV0 pkt5 0 = VErr /\
  vs_validate_input toy_digest toy_parse_pk toy_der_ok toy_verify toy_hash160 VsV2 pkt5 0 = VErr /\
  vs_validate_input toy_digest toy_parse_pk toy_der_ok toy_verify toy_hash160 VsV0 pkt6 0 = VOk false /\
  vs_validate_input toy_digest toy_parse_pk toy_der_ok toy_verify toy_hash160 VsV2 pkt6 0 = VOk false /\
  vs_validate_input toy_digest toy_parse_pk toy_der_ok toy_verify toy_hash160 VsV2
    (mk_vpacket (tx_of [in_of [] 0] []) [mk_vinput None None None None [Some (mk_vsig (Some kA) [])] [] 0]) 0 = VErr /\
  vs_validate_input toy_digest toy_parse_pk toy_der_ok toy_verify toy_hash160 VsV0 (pkt7 []) 0 = VErr /\
  vs_validate_input toy_digest toy_parse_pk toy_der_ok toy_verify toy_hash160 VsV2 (pkt7 []) 0 = VErr /\
  vs_validate_input toy_digest toy_parse_pk toy_der_ok toy_verify toy_hash160 VsV0 (pkt7 [x00]) 0 = VErr /\
  vs_validate_input toy_digest toy_parse_pk toy_der_ok toy_verify toy_hash160 VsV2 (pkt7 [x00]) 0 = VErr.
Proof. exact former_panics_are_errors. Qed.
Print Assumptions C10_former_panics_are_errors.
