(* Props/C10.v — property theorems only. *)
From GE Require Import Lib.Bytes Lib.Sha256 Model.Tx Model.TxHash Model.SigValidate Proofs.SigValidate.
Open Scope N_scope.

(* what a valid verdict guarantees on every packet: each partial signature verifies, under its
   key, the digest selected by vs_hash_and_script; the key's hex occurs in the disassembly of
   the script returned with it; the previous transaction passed the coded id test *)
Theorem C10_valid_only_if_partial :
  forall digest parse_pk der_ok verify hash160 v p i,
    vs_validate_input digest parse_pk der_ok verify hash160 v p i = VOk true ->
    exists inp, nth_error (svp_ins p) i = Some inp /\ svi_sigs inp <> [] /\
      (forall s, In s (svi_sigs inp) -> sig_checked digest parse_pk der_ok verify hash160 v p i inp s) /\
      prev_tx_checked v p i inp.
Proof. exact valid_only_if_partial. Qed.
Print Assumptions C10_valid_only_if_partial.

(* the full statement, for packets consistent at input i *)
Theorem C10_valid_only_if_consistent :
  forall digest parse_pk der_ok verify hash160 v p i,
    vs_validate_input digest parse_pk der_ok verify hash160 v p i = VOk true ->
    forall inp, nth_error (svp_ins p) i = Some inp -> consistent hash160 v p i inp ->
      svi_sigs inp <> [] /\
      (forall s, In s (svi_sigs inp) -> sig_genuine digest parse_pk der_ok verify hash160 v p i inp s) /\
      prev_tx_matches v p i inp.
Proof. exact valid_only_if_consistent. Qed.
Print Assumptions C10_valid_only_if_consistent.

Theorem C10_v2_prev_tx_matches :
  forall digest parse_pk der_ok verify hash160 p i,
    vs_validate_input digest parse_pk der_ok verify hash160 VsV2 p i = VOk true ->
    exists inp, nth_error (svp_ins p) i = Some inp /\ prev_tx_matches VsV2 p i inp.
Proof. exact v2_prev_tx_matches. Qed.
Print Assumptions C10_v2_prev_tx_matches.

(* the full statement is false of the code as written: four independent witnesses *)
Theorem C10_valid_only_if_refuted :
  ~ valid_only_if_statement toy_digest toy_parse_pk toy_der_ok toy_verify toy_hash160.
Proof. exact valid_only_if_refuted. Qed.
Print Assumptions C10_valid_only_if_refuted.

Theorem C10_valid_only_if_refuted_prev_tx_v0 :
  vs_validate_input toy_digest toy_parse_pk toy_der_ok toy_verify toy_hash160 VsV0 pkt1 0 = VOk true /\
  forall inp, nth_error (svp_ins pkt1) 0 = Some inp -> ~ prev_tx_matches VsV0 pkt1 0 inp.
Proof. exact valid_only_if_refuted_prev_tx_v0. Qed.
Print Assumptions C10_valid_only_if_refuted_prev_tx_v0.

Theorem C10_valid_only_if_refuted_amount :
  vs_validate_input toy_digest toy_parse_pk toy_der_ok toy_verify toy_hash160 VsV2 pkt2 0 = VOk true /\
  exists inp s, nth_error (svp_ins pkt2) 0 = Some inp /\ In s (svi_sigs inp) /\
    prev_tx_matches VsV2 pkt2 0 inp /\
    ~ sig_genuine toy_digest toy_parse_pk toy_der_ok toy_verify toy_hash160 VsV2 pkt2 0 inp s.
Proof. exact valid_only_if_refuted_amount. Qed.
Print Assumptions C10_valid_only_if_refuted_amount.

Theorem C10_valid_only_if_refuted_redeem_script :
  vs_validate_input toy_digest toy_parse_pk toy_der_ok toy_verify toy_hash160 VsV2 pkt3 0 = VOk true /\
  exists inp s, nth_error (svp_ins pkt3) 0 = Some inp /\ In s (svi_sigs inp) /\
    prev_tx_matches VsV2 pkt3 0 inp /\
    ~ sig_genuine toy_digest toy_parse_pk toy_der_ok toy_verify toy_hash160 VsV2 pkt3 0 inp s.
Proof. exact valid_only_if_refuted_redeem_script. Qed.
Print Assumptions C10_valid_only_if_refuted_redeem_script.

Theorem C10_valid_only_if_refuted_witness_script :
  vs_validate_input toy_digest toy_parse_pk toy_der_ok toy_verify toy_hash160 VsV0 pkt4 0 = VOk true /\
  vs_validate_input toy_digest toy_parse_pk toy_der_ok toy_verify toy_hash160 VsV2 pkt4 0 = VOk true /\
  exists inp s, nth_error (svp_ins pkt4) 0 = Some inp /\ In s (svi_sigs inp) /\
    ~ sig_genuine toy_digest toy_parse_pk toy_der_ok toy_verify toy_hash160 VsV2 pkt4 0 inp s.
Proof. exact valid_only_if_refuted_witness_script. Qed.
Print Assumptions C10_valid_only_if_refuted_witness_script.

Theorem C10_key_hex_match_not_bytewise :
  exists script asm ck, vs_disasm script = Some asm /\
    vs_is_infix (to_hex ck) asm = true /\ vs_is_infix ck script = false.
Proof. exact key_hex_match_not_bytewise. Qed.
Print Assumptions C10_key_hex_match_not_bytewise.

(* ideal signatures: a signature produced for d0 only never validates once any other digest is selected *)
Theorem C10_corruption_rejected :
  forall digest parse_pk der_ok verify hash160 (signed : bytes -> bytes -> bytes -> Prop),
    (forall k m s, verify k m s = true -> signed k m s) ->
    forall v p i inp pub sg ck last rder d0,
      nth_error (svp_ins p) i = Some inp ->
      In (Some (mk_vsig (Some pub) sg)) (svi_sigs inp) ->
      parse_pk pub = Some ck -> rev sg = last :: rder ->
      (forall m, signed ck m (rev rder) -> m = d0) ->
      (forall d scr, vs_hash_and_script digest v p i inp (n8 last) = VOk (d, scr) -> d <> d0) ->
      vs_validate_input digest parse_pk der_ok verify hash160 v p i <> VOk true.
Proof. exact corruption_rejected. Qed.
Print Assumptions C10_corruption_rejected.

Theorem C10_v2_substituted_prev_rejected :
  forall digest parse_pk der_ok verify hash160 p i inp prev,
    nth_error (svp_ins p) i = Some inp -> svi_nonwit inp = Some prev ->
    txid prev <> svi_prev_txid inp ->
    vs_validate_input digest parse_pk der_ok verify hash160 VsV2 p i <> VOk true.
Proof. exact v2_substituted_prev_rejected. Qed.
Print Assumptions C10_v2_substituted_prev_rejected.

Theorem C10_v0_prev_below_outpoint_rejected :
  forall digest parse_pk der_ok verify hash160 p i inp prev ti,
    nth_error (svp_ins p) i = Some inp -> svi_nonwit inp = Some prev ->
    nth_error (t_ins (svp_tx p)) i = Some ti -> vs_compare (in_hash ti) (txid prev) = Gt ->
    vs_validate_input digest parse_pk der_ok verify hash160 VsV0 p i <> VOk true.
Proof. exact v0_prev_below_outpoint_rejected. Qed.
Print Assumptions C10_v0_prev_below_outpoint_rejected.

(* panics *)
Theorem C10_no_panic_partial :
  forall digest parse_pk der_ok verify hash160 v p i,
    accepted parse_pk p -> (i < length (svp_ins p))%nat ->
    (forall inp, nth_error (svp_ins p) i = Some inp -> panic_guards v p i inp) ->
    forall site, vs_validate_input digest parse_pk der_ok verify hash160 v p i <> VPanic site.
Proof. exact no_panic_partial. Qed.
Print Assumptions C10_no_panic_partial.

Theorem C10_no_panic_on_accepted_packets_refuted :
  ~ no_panic_statement toy_digest toy_parse_pk toy_der_ok toy_verify toy_hash160.
Proof. exact no_panic_statement_refuted. Qed.
Print Assumptions C10_no_panic_on_accepted_packets_refuted.
