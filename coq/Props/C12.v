(* Props/C12.v — property theorems only (transaction / header / block decoders; the other decoders'
   theorems live with their own properties: C07, C08, C14, C15, C16, C20). *)
From GE Require Import Lib.Bytes Lib.Varint Model.Tx Model.Block Proofs.TxCodec Proofs.BlockCodec Proofs.Decoders.
Open Scope N_scope.

(* acceptance is stable under extension of the input *)
Theorem C12_tx_decoder_stable : forall bs t r s, parse_tx bs = Some (t, r) -> parse_tx (bs ++ s) = Some (t, r ++ s).
Proof. exact stable_parse_tx. Qed.
Print Assumptions C12_tx_decoder_stable.

Theorem C12_block_decoder_stable : forall bs b r s, parse_block bs = Some (b, r) -> parse_block (bs ++ s) = Some (b, r ++ s).
Proof. exact stable_parse_block. Qed.
Print Assumptions C12_block_decoder_stable.

(* no strict prefix of a valid encoding is accepted *)
Theorem C12_tx_strict_prefix_rejected : forall t pre suf, wf_tx t = true ->
  ser_full t = pre ++ suf -> suf <> [] -> parse_tx pre = None.
Proof. exact tx_strict_prefix_rejected. Qed.
Print Assumptions C12_tx_strict_prefix_rejected.

Theorem C12_tx_no_strict_prefix_of_accepted : forall bs t pre suf,
  parse_tx bs = Some (t, []) -> bs = pre ++ suf -> suf <> [] -> forall t', parse_tx pre <> Some (t', []).
Proof. exact tx_no_strict_prefix. Qed.
Print Assumptions C12_tx_no_strict_prefix_of_accepted.

Theorem C12_header_strict_prefix_rejected : forall h pre suf, wf_header h = true ->
  ser_header false h = pre ++ suf -> suf <> [] -> parse_header pre = None.
Proof. exact header_strict_prefix_rejected. Qed.
Print Assumptions C12_header_strict_prefix_rejected.

Theorem C12_block_strict_prefix_rejected : forall b pre suf, wf_block b = true ->
  ser_block b = pre ++ suf -> suf <> [] -> parse_block pre = None.
Proof. exact block_strict_prefix_rejected. Qed.
Print Assumptions C12_block_strict_prefix_rejected.

(* every slice handed out was checked against the bytes present, and an accepted value is as large as the bytes consumed *)
Theorem C12_slice_bounded : forall n bs x r, takeN n bs = Some (x, r) -> n <= lenN bs /\ lenN x = n.
Proof. exact takeN_bounded. Qed.
Print Assumptions C12_slice_bounded.

Theorem C12_tx_accepted_size : forall bs t rest, parse_tx bs = Some (t, rest) -> canonical_flag t = true ->
  lenN (ser_full t) + lenN rest = lenN bs.
Proof. exact tx_accepted_size. Qed.
Print Assumptions C12_tx_accepted_size.

Theorem C12_header_accepted_size : forall bs h rest, parse_header bs = Some (h, rest) ->
  lenN (ser_header false h) + lenN rest = lenN bs.
Proof. exact header_accepted_size. Qed.
Print Assumptions C12_header_accepted_size.
