(* Props/C12.v — property theorems only (transaction / header / block decoders; the other decoders'
   theorems live with their own properties: C07, C08, C14, C15, C16, C20). *)
From GE Require Import Lib.Bytes Lib.Varint Model.Tx Model.Block Proofs.TxCodec Proofs.BlockCodec Proofs.Decoders.
Open Scope N_scope.

(* acceptance is stable under extension of the input *)
Theorem C12_tx_decoder_stable : forall bs t r s, parse_tx bs = Some (t, r) -> parse_tx (bs ++ s) = Some (t, r ++ s).
Proof. exact stable_parse_tx. Qed.
Print Assumptions C12_tx_decoder_stable.

Theorem C12_block_decoder_stable : forall bs b r s, parse_block bs = Some (b, r) -> parse_block (bs ++ s) = Some (b, r ++ s).
Proof. exact stable_parse_block. Qed.
Print Assumptions C12_block_decoder_stable.

(* no strict prefix of a valid encoding is accepted *)
Theorem C12_tx_strict_prefix_rejected : forall t pre suf, wf_tx t = true ->
  ser_full t = pre ++ suf -> suf <> [] -> parse_tx pre = None.
Proof. exact tx_strict_prefix_rejected. Qed.
Print Assumptions C12_tx_strict_prefix_rejected.

Theorem C12_tx_no_strict_prefix_of_accepted : forall bs t pre suf,
  parse_tx bs = Some (t, []) -> bs = pre ++ suf -> suf <> [] -> forall t', parse_tx pre <> Some (t', []).
Proof. exact tx_no_strict_prefix. Qed.
Print Assumptions C12_tx_no_strict_prefix_of_accepted.

Theorem C12_header_strict_prefix_rejected : forall h pre suf, wf_header h = true ->
  ser_header false h = pre ++ suf -> suf <> [] -> parse_header pre = None.
Proof. exact header_strict_prefix_rejected. Qed.
Print Assumptions C12_header_strict_prefix_rejected.

Theorem C12_block_strict_prefix_rejected : forall b pre suf, wf_block b = true ->
  ser_block b = pre ++ suf -> suf <> [] -> parse_block pre = None.
Proof. exact block_strict_prefix_rejected. Qed.
Print Assumptions C12_block_strict_prefix_rejected.

(* every slice handed out was checked against the bytes present, and an accepted value is as large as the bytes consumed *)
Theorem C12_slice_bounded : forall n bs x r, takeN n bs = Some (x, r) -> n <= lenN bs /\ lenN x = n.
Proof. exact takeN_bounded. Qed.
Print Assumptions C12_slice_bounded.

Theorem C12_tx_accepted_size : forall bs t rest, parse_tx bs = Some (t, rest) -> canonical_flag t = true ->
  lenN (ser_full t) + lenN rest = lenN bs.
Proof. exact tx_accepted_size. Qed.
Print Assumptions C12_tx_accepted_size.

Theorem C12_header_accepted_size : forall bs h rest, parse_header bs = Some (h, rest) ->
  lenN (ser_header false h) + lenN rest = lenN bs.
Proof. exact header_accepted_size. Qed.
Print Assumptions C12_header_accepted_size.

(* ---------- PSET v0 decoder (model: Model/PsetV0.v, proofs: Proofs/PsetV0Dec.v) ----------
   v0_parse_rest is deserialize(r io.Reader) as a stream parser (packet, unread bytes); v0_parse is
   NewPsetFromHex / NewPsetFromBase64, which never look at the bytes left in the reader;
   valid_pk / valid_sig are the external btcec predicates, arbitrary here. *)
From GE Require Import Model.PsetV0 Proofs.PsetV0Dec.

(* acceptance is stable under extension of the input (the section loop's fuel included) *)
Theorem C12_psetv0_decoder_stable : forall valid_pk valid_sig bs p rest ext,
  v0_parse_rest valid_pk valid_sig bs = Some (p, rest) ->
  v0_parse_rest valid_pk valid_sig (bs ++ ext) = Some (p, rest ++ ext).
Proof. exact psetv0_decoder_stable. Qed.
Print Assumptions C12_psetv0_decoder_stable.

Theorem C12_psetv0_whole_input_ignores_tail : forall valid_pk valid_sig bs p ext,
  v0_parse valid_pk valid_sig bs = Some p -> v0_parse valid_pk valid_sig (bs ++ ext) = Some p.
Proof. exact psetv0_whole_input_ignores_tail. Qed.
Print Assumptions C12_psetv0_whole_input_ignores_tail.

(* no strict prefix of what ToHex / ToBase64 write is accepted by the whole-input decoder *)
Theorem C12_psetv0_strict_prefix_rejected : forall valid_pk valid_sig p bs pre suf,
  v0_wf valid_pk valid_sig p = true -> v0_ser p = Some bs -> bs = pre ++ suf -> suf <> [] ->
  v0_parse valid_pk valid_sig pre = None.
Proof. exact psetv0_strict_prefix_rejected. Qed.
Print Assumptions C12_psetv0_strict_prefix_rejected.

(* more generally, an input that the stream decoder consumes entirely has no accepted strict prefix *)
Theorem C12_psetv0_no_strict_prefix_of_complete : forall valid_pk valid_sig bs p pre suf,
  v0_parse_rest valid_pk valid_sig bs = Some (p, []) -> bs = pre ++ suf -> suf <> [] ->
  v0_parse_rest valid_pk valid_sig pre = None /\ v0_parse valid_pk valid_sig pre = None.
Proof. exact psetv0_no_strict_prefix_of_complete. Qed.
Print Assumptions C12_psetv0_no_strict_prefix_of_complete.

Theorem C12_psetv0_valid_encoding_consumed : forall valid_pk valid_sig p bs,
  v0_wf valid_pk valid_sig p = true -> v0_ser p = Some bs ->
  v0_parse_rest valid_pk valid_sig bs = Some (v0_norm p, []).
Proof. exact psetv0_valid_encoding_consumed. Qed.
Print Assumptions C12_psetv0_valid_encoding_consumed.

(* every length field is compared with its cap and with the remaining input before bytes are taken *)
Theorem C12_psetv0_key_bounded : forall bs k r, v0_p_key bs = Some (Some k, r) ->
  1 <= lenN k /\ lenN k <= v0_MaxKeyLen /\ lenN k < lenN bs /\
  exists n r0, p_varint bs = Some (n, r0) /\ n = lenN k /\ n <= lenN r0.
Proof. exact psetv0_key_bounded. Qed.
Print Assumptions C12_psetv0_key_bounded.

Theorem C12_psetv0_value_bounded : forall bs v r, v0_p_val bs = Some (v, r) ->
  lenN v <= v0_MaxValLen /\ lenN v < lenN bs /\
  exists n r0, p_varint bs = Some (n, r0) /\ n = lenN v /\ n <= lenN r0.
Proof. exact psetv0_value_bounded. Qed.
Print Assumptions C12_psetv0_value_bounded.

Theorem C12_psetv0_key_length_checked : forall n r, n < two64 ->
  v0_MaxKeyLen < n \/ lenN r < n -> v0_p_key (varint n ++ r) = None.
Proof. exact psetv0_key_length_checked. Qed.
Print Assumptions C12_psetv0_key_length_checked.

Theorem C12_psetv0_value_length_checked : forall n r, n < two64 ->
  v0_MaxValLen < n \/ lenN r < n -> v0_p_val (varint n ++ r) = None.
Proof. exact psetv0_value_length_checked. Qed.
Print Assumptions C12_psetv0_value_length_checked.

(* what is accepted was consumed from the front of the input; the unread bytes are a proper suffix *)
Theorem C12_psetv0_consumed_prefix : forall valid_pk valid_sig bs p rest,
  v0_parse_rest valid_pk valid_sig bs = Some (p, rest) -> exists used, bs = used ++ rest /\ lenN rest < lenN bs.
Proof. exact psetv0_consumed_prefix. Qed.
Print Assumptions C12_psetv0_consumed_prefix.

(* ---------- PSET v2 (model: Model/PsetV2.v; parse_pset_rest also returns the bytes left unread in the
   bytes.Buffer; parse_pset = NewPsetFromBuffer / NewPsetFromBase64 after base64 decoding, which drop them) ---------- *)
From GE Require Import Model.PsetV2 Proofs.PsetV2 Proofs.PsetV2Ex Proofs.PsetV2Inv Proofs.PsetV2Dec.

Theorem C12_psetv2_whole_input_decoder : forall pk der xo canon bs p,
  parse_pset pk der xo canon bs = ROk p <-> exists rest, parse_pset_rest pk der xo canon bs = ROk (p, rest).
Proof. exact parse_pset_accepts. Qed.
Print Assumptions C12_psetv2_whole_input_decoder.

(* (a) acceptance is stable under extension of the input *)
Theorem C12_psetv2_decoder_stable : forall pk der xo canon bs p r ext,
  parse_pset_rest pk der xo canon bs = ROk (p, r) -> parse_pset_rest pk der xo canon (bs ++ ext) = ROk (p, r ++ ext).
Proof. exact psetv2_parse_stable. Qed.
Print Assumptions C12_psetv2_decoder_stable.

(* ... and depends on the consumed bytes only *)
Theorem C12_psetv2_consumed_exact : forall pk der xo canon bs p rest,
  parse_pset_rest pk der xo canon bs = ROk (p, rest) ->
  exists c, bs = c ++ rest /\ forall r', parse_pset_rest pk der xo canon (c ++ r') = ROk (p, r').
Proof. exact psetv2_consumed_exact. Qed.
Print Assumptions C12_psetv2_consumed_exact.

(* (b) the whole-input decoder never looks at what follows the last output section (pset.go deserialize
   has no end-of-buffer test): an accepted input stays accepted with the same packet whatever is appended.
   So the literal "accepts bs => rejects every strict prefix of bs" is false of it (witness below); what
   holds is: no prefix that stops short of the consumed bytes is accepted, in particular an input consumed
   completely has no accepted strict prefix, and no strict prefix of the serialization of a well-formed
   packet is accepted.  The parser never panics, so "not accepted" is "rejected with an error". *)
Theorem C12_psetv2_trailing_ignored : forall pk der xo canon bs p ext,
  parse_pset pk der xo canon bs = ROk p -> parse_pset pk der xo canon (bs ++ ext) = ROk p.
Proof. exact psetv2_trailing_ignored. Qed.
Print Assumptions C12_psetv2_trailing_ignored.

Theorem C12_psetv2_strict_prefix_literal_refuted :
  exists bs pre suf p, parse_pset o_true o_true o_true o_id bs = ROk p /\ bs = pre ++ suf /\ suf <> [] /\
                       parse_pset o_true o_true o_true o_id pre = ROk p.
Proof. exact psetv2_strict_prefix_literal_refuted. Qed.
Print Assumptions C12_psetv2_strict_prefix_literal_refuted.

Theorem C12_psetv2_short_prefix_rejected : forall pk der xo canon bs p rest pre suf,
  parse_pset_rest pk der xo canon bs = ROk (p, rest) -> bs = pre ++ suf -> (length rest < length suf)%nat ->
  parse_pset pk der xo canon pre = RErr.
Proof. exact psetv2_short_prefix_rejected. Qed.
Print Assumptions C12_psetv2_short_prefix_rejected.

Theorem C12_psetv2_strict_prefix_rejected : forall pk der xo canon bs p pre suf,
  parse_pset_rest pk der xo canon bs = ROk (p, []) -> bs = pre ++ suf -> suf <> [] ->
  parse_pset pk der xo canon pre = RErr.
Proof. exact psetv2_strict_prefix_rejected. Qed.
Print Assumptions C12_psetv2_strict_prefix_rejected.

Theorem C12_psetv2_ser_strict_prefix_rejected : forall pk der xo canon p bs pre suf,
  wf_pset pk der xo canon p = true -> ser_pset p = ROk bs -> bs = pre ++ suf -> suf <> [] ->
  parse_pset pk der xo canon pre = RErr.
Proof. exact psetv2_ser_strict_prefix_rejected. Qed.
Print Assumptions C12_psetv2_ser_strict_prefix_rejected.

Theorem C12_psetv2_no_panic : forall pk der xo canon bs, parse_pset pk der xo canon bs <> RPanic.
Proof. exact parse_pset_no_panic. Qed.
Print Assumptions C12_psetv2_no_panic.

(* (c) sizes: the serialization of a well-formed packet is consumed exactly; for an arbitrary accepted
   input the re-serialization of the packet is consumed exactly (premise pset_ext of C07); bytes consumed
   and length of the re-serialization differ in general, in both directions (always-written fields that
   the input omitted; zero values and ignored key data that the input carried) *)
Theorem C12_psetv2_accepted_size : forall pk der xo canon p bs rest,
  wf_pset pk der xo canon p = true -> ser_pset p = ROk bs ->
  parse_pset_rest pk der xo canon (bs ++ rest) = ROk (norm_pset p, rest).
Proof. exact psetv2_accepted_size. Qed.
Print Assumptions C12_psetv2_accepted_size.

Theorem C12_psetv2_reser_size : forall pk der xo canon bs p rest,
  parse_pset_rest pk der xo canon bs = ROk (p, rest) -> pset_ext pk canon p ->
  exists bs', ser_pset p = ROk bs' /\ forall r', parse_pset_rest pk der xo canon (bs' ++ r') = ROk (norm_pset p, r').
Proof. exact psetv2_reser_size. Qed.
Print Assumptions C12_psetv2_reser_size.

Theorem C12_psetv2_size_not_preserved :
  size_check (ex_stream_sparse []) true = true /\
  exists extra, size_check (ex_stream_sparse extra) false = true.
Proof. split; [exact ex_reser_longer | eexists; exact ex_reser_shorter]. Qed.
Print Assumptions C12_psetv2_size_not_preserved.

(* every key pair handed to a section decoder was checked against the bytes present and the key-length limit *)
Theorem C12_psetv2_keypair_bounded : forall bs k r, read_kp bs = KGot k r -> bs = ser_kp k ++ r /\ frame_ok k = true.
Proof. exact read_kp_got. Qed.
Print Assumptions C12_psetv2_keypair_bounded.

(* ---------- merkle blocks (block.NewMerkleBlockFromBuffer / FromHex, MerkleBlock.ExtractMatches) ---------- *)
From GE Require Import Lib.Sha256 Model.Merkle Model.MerkleIx Proofs.MerkleDecoder.

(* acceptance of the blob parser is stable under extension of the input *)
Theorem C12_merkle_decoder_stable : forall bs m r s,
  parse_merkle_block bs = Some (m, r) -> parse_merkle_block (bs ++ s) = Some (m, r ++ s).
Proof. exact stable_parse_merkle_block. Qed.
Print Assumptions C12_merkle_decoder_stable.

(* the whole-input decoder leaves trailing bytes in the buffer, unlooked at ... *)
Theorem C12_merkle_decode_ignores_trailing : forall m rest,
  wf_mb m -> decode_merkle_block (ser_merkle_block m ++ rest) = Some m.
Proof. exact decode_ignores_trailing. Qed.
Print Assumptions C12_merkle_decode_ignores_trailing.

(* ... accepts only inputs that start with the complete encoding of what it returns ... *)
Theorem C12_merkle_accepted_is_complete : forall bs m,
  decode_merkle_block bs = Some m -> exists rest, bs = ser_merkle_block m ++ rest /\ wf_mb m.
Proof. exact decode_accepts_complete. Qed.
Print Assumptions C12_merkle_accepted_is_complete.

(* ... and so rejects every strict prefix of a valid encoding *)
Theorem C12_merkleblock_strict_prefix_rejected : forall m pre suf,
  wf_mb m -> ser_merkle_block m = pre ++ suf -> suf <> [] -> decode_merkle_block pre = None.
Proof. exact merkleblock_strict_prefix_rejected. Qed.
Print Assumptions C12_merkleblock_strict_prefix_rejected.

(* an accepted value occupies exactly the bytes consumed: both counts are backed by input *)
Theorem C12_merkle_accepted_size : forall bs m r,
  parse_merkle_block bs = Some (m, r) ->
  84 + varint_size (lenL (mb_hashes m)) + 32 * lenL (mb_hashes m) +
  varint_size (lenN (mb_flags m)) + lenN (mb_flags m) + lenN r = lenN bs.
Proof. exact merkleblock_accepted_size. Qed.
Print Assumptions C12_merkle_accepted_size.

(* counts are compared with their caps before anything is reserved *)
Theorem C12_merkle_hash_count_checked : forall hd cnt nh r,
  length hd = 80%nat -> cnt < two32 -> nh < two64 -> wire_max_hashes < nh ->
  parse_merkle_block (hd ++ le_enc 4 cnt ++ varint nh ++ r) = None /\
  alloc_merkle_block (hd ++ le_enc 4 cnt ++ varint nh ++ r) = 0.
Proof. exact merkle_hash_count_checked. Qed.
Print Assumptions C12_merkle_hash_count_checked.

Theorem C12_merkle_flag_count_checked : forall m nf r,
  wf_mb m -> nf < two64 -> wire_max_flags < nf ->
  let bs := mb_header m ++ le_enc 4 (mb_count m) ++ varint (lenL (mb_hashes m)) ++ concat (mb_hashes m) ++ varint nf ++ r in
  parse_merkle_block bs = None /\ alloc_merkle_block bs = 40 * lenL (mb_hashes m).
Proof. exact merkle_flag_count_checked. Qed.
Print Assumptions C12_merkle_flag_count_checked.

(* the count check of fix c4c5793 (hash count against the bytes behind it, before btcd is called) refuses
   nothing the decoder would accept ... *)
Theorem C12_merkle_count_check_keeps_acceptance : forall bs,
  decode_merkle_block bs = match parse_merkle_block bs with Some (m, _) => Some m | None => None end.
Proof. exact decode_eq_parse. Qed.
Print Assumptions C12_merkle_count_check_keeps_acceptance.

(* ... and refuses, without reserving anything, every count the remaining input cannot hold *)
Theorem C12_merkle_hash_count_vs_input : forall hd cnt nh r,
  length hd = 80%nat -> nh < two64 -> lenN r / 32 < nh ->
  decode_merkle_block (hd ++ le_enc 4 cnt ++ varint nh ++ r) = None /\
  alloc_merkle_block (hd ++ le_enc 4 cnt ++ varint nh ++ r) = 0.
Proof. exact merkle_hash_count_vs_input. Qed.
Print Assumptions C12_merkle_hash_count_vs_input.

(* memory requested: proportional to the input when accepted; for every input at most the flag-byte cap
   (alloc_const_bound = wire_max_flags = 50000 bytes, the one reservation btcd makes against a constant
   rather than the input; within the oracle's allowance) plus nine times the input *)
Theorem C12_merkle_alloc_accepted : forall bs m r,
  parse_merkle_block bs = Some (m, r) ->
  alloc_merkle_block bs = 96 * lenL (mb_hashes m) + 9 * lenN (mb_flags m) /\
  alloc_merkle_block bs <= 9 * lenN bs.
Proof. exact alloc_accepted_proportional. Qed.
Print Assumptions C12_merkle_alloc_accepted.

Theorem C12_merkle_alloc_bounded : forall bs, alloc_merkle_block bs <= wire_max_flags + 9 * lenN bs.
Proof. exact alloc_bounded. Qed.
Print Assumptions C12_merkle_alloc_bounded.

Theorem C12_merkle_alloc_rejected_bounded : forall bs,
  decode_merkle_block bs = None -> alloc_merkle_block bs <= wire_max_flags + 2 * lenN bs.
Proof. exact alloc_rejected_bounded. Qed.
Print Assumptions C12_merkle_alloc_rejected_bounded.

(* ExtractMatches with its cursors as indices and every index expression partial: it computes what the
   model of C20 computes, so it ends in a value or an error, never in an index out of range *)
Theorem C12_merkle_extract_ix_refines : forall (A : Type) (H : A -> A -> A) (eqA : A -> A -> bool) n hashes vbits,
  extract_ix A H eqA n hashes vbits =
  match extract A H eqA n hashes vbits with Some r => IxOk r | None => IxErr end.
Proof. exact extract_ix_refines. Qed.
Print Assumptions C12_merkle_extract_ix_refines.

Theorem C12_merkleblock_extract_no_panic : forall bs, decode_extract_ix bs <> IxPanic.
Proof. exact decode_extract_no_panic. Qed.
Print Assumptions C12_merkleblock_extract_no_panic.

Theorem C12_merkle_extract_no_panic_any_tree : forall (A : Type) (H : A -> A -> A) (eqA : A -> A -> bool) n hashes vbits,
  extract_ix A H eqA n hashes vbits <> IxPanic.
Proof. exact extract_ix_no_panic. Qed.
Print Assumptions C12_merkle_extract_no_panic_any_tree.

(* the decoder of this file is the one the correspondence check of C20 runs against the implementation *)
Theorem C12_merkle_decode_extract_is_run_proof : forall bs,
  decode_extract_ix bs =
  match run_proof bs with PParseErr => IxErr | PExtractErr _ => IxErr | POk _ root ms => IxOk (root, ms) end.
Proof. exact decode_extract_is_run_proof. Qed.
Print Assumptions C12_merkle_decode_extract_is_run_proof.

(* the guard in front of TxHashes[hashUsed] is what the theorem rests on: weaken it (seeded change
   hashUsed > len) and the same walk indexes out of range *)
Theorem C12_merkle_weaker_guard_panics :
  extract_gen bytes node_hash bytes_eqb Nat.ltb 1 [] (bits_of_bytes [x00]) = IxPanic.
Proof. exact weaker_guard_panics. Qed.
Print Assumptions C12_merkle_weaker_guard_panics.

(* ---------- output descriptors (descriptor.Parse and the wallet it returns; model Model/Descriptor.v, compared
   with the implementation by the correspondence family desc).  Text is the list of bytes of the Go string; the
   answers of btcec.ParsePubKey, btcutil.DecodeWIF and hdkeychain are the record `o`, universally quantified.
   Names are qualified (Desc = model, DescP = Proofs/Descriptor.v) and the block is a module, so that nothing is
   shadowed for later blocks. ---------- *)
From GE Require Import Model.Descriptor Proofs.Descriptor.
Require Coq.Strings.String.
Module C12Desc.
Import Coq.Strings.String.   (* string literals for the example texts; local to this module *)

(* every index and slice expression of the parser is guarded: a wallet or an error, never a run-time panic *)
Theorem C12_descriptor_parse_no_panic : forall o d, Desc.parse o d <> Desc.PPanic.
Proof. exact DescP.descriptor_parse_no_panic. Qed.
Print Assumptions C12_descriptor_parse_no_panic.

(* ... which rests on the guard of commit a950a3e: with the slicing test it replaced, the same parser panics *)
Theorem C12_descriptor_parse_before_a950a3e_panics :
  Desc.parse_before_a950a3e DescP.o_none (DescP.txt "elwpkh(]x)") = Desc.PPanic.
Proof. exact DescP.DescEx1.parse_before_a950a3e_panics. Qed.
Print Assumptions C12_descriptor_parse_before_a950a3e_panics.

(* a value or an error, never neither *)
Theorem C12_descriptor_parse_value_or_error : forall o d, Desc.parse o d <> Desc.PNilNil.
Proof. exact DescP.descriptor_parse_value_or_error. Qed.
Print Assumptions C12_descriptor_parse_value_or_error.

(* ... the shape before commit 8813a4b: (nil, nil) for every name the switch knows but does not implement *)
Theorem C12_descriptor_parse_before_8813a4b_nilnil :
  forallb (fun name => match Desc.parse_before_8813a4b DescP.o_none (name ++ DescP.txt "(x)") with Desc.PNilNil => true | _ => false end)
          Desc.unsupported_names = true.
Proof. exact DescP.DescEx2.parse_before_8813a4b_nilnil. Qed.
Print Assumptions C12_descriptor_parse_before_8813a4b_nilnil.

(* white space in front of the checksum separator is irrelevant *)
Theorem C12_descriptor_whitespace_irrelevant : forall o a c b,
  Desc.is_space c = true -> DescP.cnt "#"%byte a = O -> Desc.parse o (a ++ c :: b) = Desc.parse o (a ++ b).
Proof. exact DescP.descriptor_whitespace_irrelevant. Qed.
Print Assumptions C12_descriptor_whitespace_irrelevant.

Theorem C12_descriptor_parse_stripped : forall o d,
  DescP.cnt "#"%byte d = O -> Desc.parse o (Desc.strip_spaces d) = Desc.parse o d.
Proof. exact DescP.descriptor_parse_stripped. Qed.
Print Assumptions C12_descriptor_parse_stripped.

(* ... but inside or behind the checksum it counts towards the length that is checked (before white space is removed) *)
Theorem C12_descriptor_whitespace_in_checksum_matters :
  DescP.is_ok (Desc.parse DescP.o_none (DescP.txt "elwpkh(xpub)#12345678")) = true /\
  DescP.is_err (Desc.parse DescP.o_none (DescP.txt "elwpkh(xpub)#12345678" ++ [x0a])) = true /\
  DescP.is_ok (Desc.parse DescP.o_none (DescP.txt "elwpkh(xpub)" ++ [x0a])) = true /\
  DescP.is_err (Desc.parse DescP.o_none (DescP.txt "elwpkh(xpub)#1234 5678")) = true /\
  DescP.is_ok (Desc.parse DescP.o_none (DescP.txt "elwpkh(xpub)#        ")) = true.
Proof. exact DescP.DescEx3.whitespace_in_checksum_matters. Qed.
Print Assumptions C12_descriptor_whitespace_in_checksum_matters.

(* what an accepted text looks like: an optional `#` + 8 characters; in front of it, after removal of white space,
   `elwpkh(` inner `)` where the closing parenthesis is the last one of the text, and inner is a key expression *)
Theorem C12_descriptor_accepted_shape : forall o d w, Desc.parse o d = Desc.POk w ->
  exists body inner pre post,
    (d = body \/ exists ck, d = body ++ "#"%byte :: ck /\ List.length ck = 8%nat /\ DescP.cnt "#"%byte ck = O) /\
    DescP.cnt "#"%byte body = O /\
    Desc.strip_spaces body = pre ++ Desc.Lit.elwpkh ++ "("%byte :: inner ++ ")"%byte :: post /\
    inner <> [] /\ DescP.cnt ")"%byte post = O /\
    Desc.parse_key_expression false o inner = Desc.Ok w.
Proof. exact DescP.descriptor_accepted_shape. Qed.
Print Assumptions C12_descriptor_accepted_shape.

(* exactly one of the three key fields of an accepted wallet is set, and it passed its test *)
Theorem C12_descriptor_accepted_one_key : forall o d w, Desc.parse o d = Desc.POk w -> DescP.one_key o w.
Proof. exact DescP.descriptor_accepted_one_key. Qed.
Print Assumptions C12_descriptor_accepted_one_key.

(* path components: the number written (math/big syntax, base prefixes, separators), plus 2^31 when marked hardened,
   checked against MaxUint32 - 2^31 resp. MaxUint32, so the uint32 addition does not wrap *)
Theorem C12_descriptor_path_component_exact : forall c v, Desc.parse_component c = Desc.Ok v ->
  exists base text z, (base = 0 \/ base = Desc.hardened_key_start) /\ Desc.int_set_string0 text = Some z /\
                      (0 <= z)%Z /\ v = base + Z.to_N z /\ v <= u32max.
Proof. exact DescP.parse_component_exact. Qed.
Print Assumptions C12_descriptor_path_component_exact.

(* strict prefixes.  Nothing without a closing parenthesis is accepted ... *)
Theorem C12_descriptor_no_close_paren_rejected : forall o d, DescP.cnt ")"%byte d = O -> Desc.parse o d = Desc.PErr.
Proof. exact DescP.descriptor_no_close_paren_rejected. Qed.
Print Assumptions C12_descriptor_no_close_paren_rejected.

(* ... so for a descriptor whose only closing parenthesis is its last character every strict prefix is refused; *)
Theorem C12_descriptor_strict_prefix_rejected : forall o b p,
  DescP.cnt ")"%byte b = O -> DescP.strict_prefix p (b ++ [")"%byte]) -> Desc.parse o p = Desc.PErr.
Proof. exact DescP.descriptor_strict_prefix_rejected. Qed.
Print Assumptions C12_descriptor_strict_prefix_rejected.

(* a cut inside the checksum is refused (any checksum part whose length is not 8 is, whatever stands in front); *)
Theorem C12_descriptor_bad_checksum_length_rejected : forall o body c,
  List.length c <> 8%nat -> Desc.parse o (body ++ "#"%byte :: c) = Desc.PErr.
Proof. exact DescP.descriptor_bad_checksum_length_rejected. Qed.
Print Assumptions C12_descriptor_bad_checksum_length_rejected.

(* the checksum is optional by format: cutting it off whole leaves the same answer ... *)
Theorem C12_descriptor_checksum_optional : forall o body ck,
  DescP.cnt "#"%byte body = O -> DescP.cnt "#"%byte ck = O -> List.length ck = 8%nat ->
  Desc.parse o (body ++ "#"%byte :: ck) = Desc.parse o body.
Proof. exact DescP.descriptor_checksum_optional. Qed.
Print Assumptions C12_descriptor_checksum_optional.

(* ... and that is the only strict prefix of `text)#checksum` that can be accepted *)
Theorem C12_descriptor_strict_prefixes_with_checksum : forall o b ck p,
  DescP.cnt ")"%byte b = O -> List.length ck = 8%nat ->
  DescP.strict_prefix p (b ++ ")"%byte :: "#"%byte :: ck) -> Desc.parse o p <> Desc.PErr -> p = b ++ [")"%byte].
Proof. exact DescP.descriptor_strict_prefixes_with_checksum. Qed.
Print Assumptions C12_descriptor_strict_prefixes_with_checksum.

(* hence the literal clause (no strict prefix of an accepted text is accepted) fails, by format *)
Theorem C12_descriptor_strict_prefix_literal_refuted :
  exists o s p, DescP.strict_prefix p s /\ DescP.accepted o s /\ DescP.accepted o p.
Proof. exact DescP.DescEx3.strict_prefix_literal_refuted. Qed.
Print Assumptions C12_descriptor_strict_prefix_literal_refuted.

(* the expression is searched for, not anchored (regexp FindStringSubmatch): text behind the last closing parenthesis
   and text without word characters in front are not looked at *)
Theorem C12_descriptor_trailing_text_ignored : forall o s t,
  DescP.cnt "#"%byte s = O -> DescP.cnt "#"%byte t = O -> DescP.cnt ")"%byte t = O ->
  Desc.parse o ((s ++ [")"%byte]) ++ t) = Desc.parse o (s ++ [")"%byte]).
Proof. exact DescP.descriptor_trailing_text_ignored. Qed.
Print Assumptions C12_descriptor_trailing_text_ignored.

Theorem C12_descriptor_leading_text_ignored : forall o t s,
  DescP.cnt "#"%byte t = O -> forallb (fun c => negb (Desc.is_word c)) t = true -> Desc.parse o (t ++ s) = Desc.parse o s.
Proof. exact DescP.descriptor_leading_text_ignored. Qed.
Print Assumptions C12_descriptor_leading_text_ignored.

(* the model of the regular expression reports a match exactly when the subject contains one *)
Theorem C12_descriptor_regexp_sound : forall s whole f inner, Desc.find_submatch s = Some [whole; f; inner] ->
  exists pre post, s = pre ++ f ++ "("%byte :: inner ++ ")"%byte :: post /\ f <> [] /\ forallb Desc.is_word f = true /\
                   inner <> [] /\ DescP.cnt ")"%byte post = O.
Proof. exact DescP.find_submatch_sound. Qed.
Print Assumptions C12_descriptor_regexp_sound.

Theorem C12_descriptor_regexp_complete : forall pre f inner post,
  f <> [] -> forallb Desc.is_word f = true -> inner <> [] ->
  Desc.find_submatch (pre ++ f ++ "("%byte :: inner ++ ")"%byte :: post) <> None.
Proof. exact DescP.find_submatch_complete. Qed.
Print Assumptions C12_descriptor_regexp_complete.

(* follow-up calls.  Script never panics: any wallet value, any options a caller can build (nil, WithIndex, WithRange,
   the zero value), any answer of hdkeychain *)
Theorem C12_descriptor_script_no_panic : forall o w opts, Desc.script o w opts <> Desc.Panic.
Proof. exact DescP.descriptor_script_no_panic. Qed.
Print Assumptions C12_descriptor_script_no_panic.

Theorem C12_descriptor_script_zero_options : forall o w, Desc.script o w Desc.OZero = Desc.script o w Desc.ONil.
Proof. exact DescP.descriptor_script_zero_options. Qed.
Print Assumptions C12_descriptor_script_zero_options.

(* ... before commit 84bb833 the zero value dereferenced a nil pointer on range descriptors *)
Theorem C12_descriptor_script_zero_options_before_84bb833 :
  exists w, Desc.parse DescP.o_none (DescP.txt "elwpkh(xpub/1/*)") = Desc.POk w /\
            Desc.script_before_84bb833 DescP.o_none w Desc.OZero = Desc.Panic /\ Desc.script DescP.o_none w Desc.OZero <> Desc.Panic.
Proof. exact DescP.DescEx3.script_zero_options_before_84bb833. Qed.
Print Assumptions C12_descriptor_script_zero_options_before_84bb833.

(* an accepted public-key or WIF wallet always yields its one script (the key passed the same test at parse time) *)
Theorem C12_descriptor_script_of_pubkey : forall o d w k opts, Desc.parse o d = Desc.POk w -> Desc.ki_pub w = Some k ->
  exists raw, Desc.hex_decode k = Some raw /\ Desc.script o w opts = Desc.Ok [([], Desc.wpkh_script raw)].
Proof. exact DescP.descriptor_script_of_pubkey. Qed.
Print Assumptions C12_descriptor_script_of_pubkey.

Theorem C12_descriptor_script_of_wif : forall o d w k opts, Desc.parse o d = Desc.POk w -> Desc.ki_wif w = Some k ->
  exists pub, Desc.o_wif o k = Some pub /\ Desc.script o w opts = Desc.Ok [([], Desc.wpkh_script pub)].
Proof. exact DescP.descriptor_script_of_wif. Qed.
Print Assumptions C12_descriptor_script_of_wif.

(* WithRange(n) on an accepted range wallet: n scripts or an error *)
Theorem C12_descriptor_script_range_count : forall o d w n l, Desc.parse o d = Desc.POk w -> Desc.is_range w = true ->
  Desc.script o w (Desc.ORange n) = Desc.Ok l  -> List.length l = Z.to_nat n.
Proof. exact DescP.descriptor_script_range_count. Qed.
Print Assumptions C12_descriptor_script_range_count.

(* laxities that are outside the clauses of the property, recorded as they are: text around the expression is ignored,
   the inner text runs to the last closing parenthesis, an extended key is recognised by its first four characters *)
Theorem C12_descriptor_unanchored_and_prefix_only :
  DescP.is_ok (Desc.parse DescP.o_none (DescP.txt "!!elwpkh(xpubgarbage)zz")) = true /\
  DescP.is_ok (Desc.parse DescP.o_none (DescP.txt "elwpkh(xpubAAA)/1)")) = true /\
  DescP.is_err (Desc.parse DescP.o_none (DescP.txt "a(b)elwpkh(xpub)")) = true /\
  DescP.is_err (Desc.parse DescP.o_none (DescP.txt "xelwpkh(xpub)")) = true.
Proof. exact DescP.DescEx3.unanchored_and_prefix_only. Qed.
Print Assumptions C12_descriptor_unanchored_and_prefix_only.

End C12Desc.

(* ---------- taproot control blocks (model Model/Taproot.v, parse_cb; codec theorems under C16) ---------- *)
Module C12ControlBlock.
From GE Require Import Model.Taproot Proofs.ControlBlockDec.

(* accepted byte strings are 33 + 32 k bytes long with k <= 128 *)
Theorem C12_controlblock_accepts_shape : forall liftable bs cb,
  GE.Model.Taproot.parse_cb liftable bs = Some cb -> exists k, (k <= 128)%nat /\ length bs = (33 + 32 * k)%nat.
Proof. exact parse_cb_accepts_shape. Qed.
Print Assumptions C12_controlblock_accepts_shape.

(* the format is not prefix-free: a strict prefix of an accepted control block is accepted only at a node boundary *)
Theorem C12_controlblock_prefix_only_at_node_boundary : forall liftable pre suf cb cb',
  GE.Model.Taproot.parse_cb liftable (pre ++ suf) = Some cb -> GE.Model.Taproot.parse_cb liftable pre = Some cb' ->
  (length suf mod 32 = 0)%nat.
Proof. exact controlblock_prefix_only_at_node_boundary. Qed.
Print Assumptions C12_controlblock_prefix_only_at_node_boundary.

(* every other cut is rejected *)
Theorem C12_controlblock_prefix_rejected : forall liftable pre suf cb,
  GE.Model.Taproot.parse_cb liftable (pre ++ suf) = Some cb -> (length suf mod 32 <> 0)%nat ->
  GE.Model.Taproot.parse_cb liftable pre = None.
Proof. exact controlblock_prefix_rejected. Qed.
Print Assumptions C12_controlblock_prefix_rejected.
End C12ControlBlock.
