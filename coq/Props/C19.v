(* Props/C19.v — property theorems only. *)
From GE Require Import Lib.Bytes Lib.Varint Model.Tx Proofs.TxSize.
Open Scope N_scope.

(* SerializeSize(allowWitness,false) = len of the serialization, with and without witness data *)
Theorem C19_size_eq_length : forall aw zf t,
  fixed_widths t = true -> size_tx aw false t = lenN (ser_tx aw zf false false t).
Proof. exact size_eq_length. Qed.
Print Assumptions C19_size_eq_length.

Theorem C19_size_eq_length_sig : forall zf wrp t,
  fixed_widths t = true -> wrp = false -> size_tx false true t = lenN (ser_tx false zf true wrp t).
Proof. exact size_eq_length_sig. Qed.
Print Assumptions C19_size_eq_length_sig.

Theorem C19_weight_def : forall t, weight t = 3 * size_tx false false t + size_tx true false t.
Proof. exact weight_def. Qed.
Print Assumptions C19_weight_def.

Theorem C19_weight_as_lengths : forall t, fixed_widths t = true ->
  weight t = 3 * lenN (ser_tx false false false false t) + lenN (ser_full t).
Proof. exact weight_as_lengths. Qed.
Print Assumptions C19_weight_as_lengths.

Theorem C19_vsize_ceil : forall t, 4 * vsize t >= weight t /\ 4 * vsize t < weight t + 4.
Proof. exact vsize_ceil. Qed.
Print Assumptions C19_vsize_ceil.

Theorem C19_discount_le : forall t, (discount_weight t <= Z.of_N (weight t))%Z.
Proof. exact discount_le. Qed.
Print Assumptions C19_discount_le.

Theorem C19_discount_vsize_le : forall t, (discount_vsize t <= Z.of_N (vsize t))%Z.
Proof. exact discount_vsize_le. Qed.
Print Assumptions C19_discount_vsize_le.

Theorem C19_discount_eq_when_no_confidential : forall t,
  forallb (fun o => negb (is_conf_out o)) (t_outs t) = true -> discount_weight t = Z.of_N (weight t).
Proof. exact discount_eq_when_no_confidential. Qed.
Print Assumptions C19_discount_eq_when_no_confidential.

(* each confidential output is charged like an explicit one *)
Theorem C19_discount_rule : forall t,
  forallb conf_shape (t_outs t) = true ->
  has_witness t = true -> has_witness (explicitise t) = true ->
  discount_weight t = Z.of_N (weight (explicitise t)).
Proof. exact discount_rule. Qed.
Print Assumptions C19_discount_rule.

(* the discounted virtual size is the discounted weight divided by four, rounded up *)
Theorem C19_discount_vsize_ceil : forall t,
  (4 * discount_vsize t >= discount_weight t /\ 4 * discount_vsize t < discount_weight t + 4)%Z.
Proof. exact discount_vsize_ceil. Qed.
Print Assumptions C19_discount_vsize_ceil.

(* it coincides with the undiscounted virtual size when no output is confidential *)
Theorem C19_discount_vsize_eq_when_no_confidential : forall t,
  forallb (fun o => negb (is_conf_out o)) (t_outs t) = true -> discount_vsize t = Z.of_N (vsize t).
Proof. exact discount_vsize_eq_when_no_confidential. Qed.
Print Assumptions C19_discount_vsize_eq_when_no_confidential.

(* and is the virtual size of the transaction with every confidential output made explicit *)
Theorem C19_discount_vsize_rule : forall t,
  forallb conf_shape (t_outs t) = true ->
  has_witness t = true -> has_witness (explicitise t) = true ->
  discount_vsize t = Z.of_N (vsize (explicitise t)).
Proof. exact discount_vsize_rule. Qed.
Print Assumptions C19_discount_vsize_rule.

(* the division as Go performs it (truncation towards zero) gives the same number there *)
Theorem C19_discount_vsize_go_rule : forall t,
  forallb conf_shape (t_outs t) = true ->
  has_witness t = true -> has_witness (explicitise t) = true ->
  discount_vsize_go t = Z.of_N (vsize (explicitise t)).
Proof. exact discount_vsize_go_rule. Qed.
Print Assumptions C19_discount_vsize_go_rule.
