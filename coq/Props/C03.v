(* Props/C03.v — property theorems only. *)
From GE Require Import Lib.Bytes Lib.Sha256 Model.Tx Model.Sighash Spec.ElementsSighash
  Proofs.SighashSpec Proofs.SighashVectors Gen.SighashVectors.
Open Scope N_scope.

(* On the domain fixed by the specifications, the coded pre-image equals the specification layout
   byte for byte, for every transaction, input index, hash type, spent data, leaf hash and annex. *)
Theorem C03_legacy_refines_spec : forall t idx script ht,
  legacy_domain t idx ht -> preimage_legacy t idx script ht = spec_legacy_preimage t idx script ht.
Proof. exact legacy_refines_spec. Qed.
Print Assumptions C03_legacy_refines_spec.

(* legacy with ANYONECANPAY (ALL/NONE at any input, SINGLE on input 0): the input vector is the signing input alone with
   its own sequence; the digest specification dispatches on the ANYONECANPAY bit *)
Theorem C03_legacy_acp_refines_spec : forall t idx script ht,
  legacy_acp_domain t idx ht -> preimage_legacy t idx script ht = spec_legacy_acp_preimage t idx script ht.
Proof. exact legacy_acp_refines_spec. Qed.
Print Assumptions C03_legacy_acp_refines_spec.

Theorem C03_v0_refines_spec : forall t idx script value ht,
  ht_rp ht = false -> preimage_v0 dsha256 t idx script value ht = spec_v0_preimage t idx script value ht.
Proof. exact v0_refines_spec. Qed.
Print Assumptions C03_v0_refines_spec.

Theorem C03_v1_refines_spec : forall t idx a ht,
  v1_args_ok t a ->
  preimage_v1 sha256 t idx a ht = spec_v1_preimage t idx (spents_of a) (v1_genesis a) (v1_leaf a) (v1_annex a) ht.
Proof. exact v1_refines_spec. Qed.
Print Assumptions C03_v1_refines_spec.

(* the specification layouts reproduce the published vectors (transaction/data/tx_valid.json, regenerated each run) *)
Theorem C03_published_vectors_legacy :
  forallb (fun v => negb (legacy_in_domain v) || check_legacy v) g_vec_legacy = true.
Proof. exact vectors_legacy_ok. Qed.
Print Assumptions C03_published_vectors_legacy.

Theorem C03_published_vectors_v0 : forallb check_v0 g_vec_v0 = true.
Proof. exact vectors_v0_ok. Qed.
Print Assumptions C03_published_vectors_v0.

Theorem C03_published_vectors_v1 : forallb check_v1 g_vec_v1 = true.
Proof. exact vectors_v1_ok. Qed.
Print Assumptions C03_published_vectors_v1.

(* the secondary entry point: the transaction NewTxFromBuffer returns for the bytes Serialize wrote has the
   pre-images of the transaction that was serialized (the pre-images never read the witness flag, the only
   field in which the two may differ), for every algorithm, index, hash type and spent data *)
From GE Require Import Proofs.TxCodec Proofs.SighashReparse.
Theorem C03_reparsed_has_same_preimages : forall t rest t' rest',
  wf_tx t = true -> parse_tx (ser_full t ++ rest) = Some (t', rest') ->
  rest' = rest /\
  (forall idx script ht, preimage_legacy t' idx script ht = preimage_legacy t idx script ht) /\
  (forall H2 idx script value ht, preimage_v0 H2 t' idx script value ht = preimage_v0 H2 t idx script value ht) /\
  (forall H1 idx a ht, preimage_v1 H1 t' idx a ht = preimage_v1 H1 t idx a ht).
Proof. exact reparsed_has_same_preimages. Qed.
Print Assumptions C03_reparsed_has_same_preimages.
