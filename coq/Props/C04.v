(* Props/C04.v — property theorems only. *)
From GE Require Import Lib.Bytes Lib.Sha256 Model.Tx Model.TxHash Proofs.TxCodec Proofs.TxId.
Open Scope N_scope.

(* the id ignores every witness field: no hypothesis *)
Theorem C04_txid_frame : forall t t', same_base t t' -> txid t = txid t'.
Proof. exact txid_frame_digest. Qed.
Print Assumptions C04_txid_frame.

(* the hashed serialization determines version, locktime and every non-witness field of every input and output *)
Theorem C04_txid_sensitive : forall t t', wf_tx t = true -> wf_tx t' = true ->
  ser_txid t = ser_txid t' -> same_base t t'.
Proof. exact txid_sensitive. Qed.
Print Assumptions C04_txid_sensitive.

Theorem C04_txid_digest_sensitive : forall (H : bytes -> bytes), (forall a b, H a = H b -> a = b) ->
  forall t t', wf_tx t = true -> wf_tx t' = true -> ~ same_base t t' -> txid_H H t <> txid_H H t'.
Proof. exact txid_H_sensitive. Qed.
Print Assumptions C04_txid_digest_sensitive.

(* the witness hash covers every field (all inputs and outputs with their witness data) *)
Theorem C04_wtxid_sensitive : forall t t', wf_tx t = true -> wf_tx t' = true ->
  ser_wtxid t = ser_wtxid t' -> same_all_but_flag t t'.
Proof. exact wtxid_sensitive. Qed.
Print Assumptions C04_wtxid_sensitive.

Theorem C04_wtxid_digest_sensitive : forall (H : bytes -> bytes), (forall a b, H a = H b -> a = b) ->
  forall t t', wf_tx t = true -> wf_tx t' = true -> ~ same_all_but_flag t t' -> wtxid_H H t <> wtxid_H H t'.
Proof. exact wtxid_H_sensitive. Qed.
Print Assumptions C04_wtxid_digest_sensitive.

Theorem C04_wtxid_eq_txid_without_witness : forall t, has_witness t = false -> wtxid t = txid t.
Proof. exact wtxid_eq_txid_without_witness. Qed.
Print Assumptions C04_wtxid_eq_txid_without_witness.
