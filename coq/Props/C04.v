(* Props/C04.v — property theorems only. *)
From GE Require Import Lib.Bytes Lib.Sha256 Model.Tx Model.TxHash Proofs.TxCodec Proofs.TxId Proofs.TxIdFields.
Open Scope N_scope.

(* the id ignores every witness field: no hypothesis *)
Theorem C04_txid_frame : forall t t', same_base t t' -> txid t = txid t'.
Proof. exact txid_frame_digest. Qed.
Print Assumptions C04_txid_frame.

(* the hashed serialization determines version, locktime and every non-witness field of every input and output *)
Theorem C04_txid_sensitive : forall t t', wf_tx t = true -> wf_tx t' = true ->
  ser_txid t = ser_txid t' -> same_base t t'.
Proof. exact txid_sensitive. Qed.
Print Assumptions C04_txid_sensitive.

Theorem C04_txid_digest_sensitive : forall (H : bytes -> bytes), (forall a b, H a = H b -> a = b) ->
  forall t t', wf_tx t = true -> wf_tx t' = true -> ~ same_base t t' -> txid_H H t <> txid_H H t'.
Proof. exact txid_H_sensitive. Qed.
Print Assumptions C04_txid_digest_sensitive.

(* the witness hash covers every field (all inputs and outputs with their witness data) *)
Theorem C04_wtxid_sensitive : forall t t', wf_tx t = true -> wf_tx t' = true ->
  ser_wtxid t = ser_wtxid t' -> same_all_but_flag t t'.
Proof. exact wtxid_sensitive. Qed.
Print Assumptions C04_wtxid_sensitive.

Theorem C04_wtxid_digest_sensitive : forall (H : bytes -> bytes), (forall a b, H a = H b -> a = b) ->
  forall t t', wf_tx t = true -> wf_tx t' = true -> ~ same_all_but_flag t t' -> wtxid_H H t <> wtxid_H H t'.
Proof. exact wtxid_H_sensitive. Qed.
Print Assumptions C04_wtxid_digest_sensitive.

Theorem C04_wtxid_eq_txid_without_witness : forall t, has_witness t = false -> wtxid t = txid t.
Proof. exact wtxid_eq_txid_without_witness. Qed.
Print Assumptions C04_wtxid_eq_txid_without_witness.

(* ---- field by field, on positions of the input and output lists (Proofs/TxIdFields.v) ---- *)

(* the witness-free part keeps exactly outpoint hash, index, sequence, script, peg-in flag and issuance of an input,
   and asset, value, script and nonce of an output *)
Theorem C04_base_input_fields : forall i i', strip_in i = strip_in i' <->
  in_hash i = in_hash i' /\ in_index i = in_index i' /\ in_seq i = in_seq i' /\ in_script i = in_script i' /\
  in_pegin i = in_pegin i' /\ in_iss i = in_iss i'.
Proof. exact strip_in_eq_iff. Qed.
Print Assumptions C04_base_input_fields.

Theorem C04_base_output_fields : forall o o', strip_out o = strip_out o' <->
  o_asset o = o_asset o' /\ o_value o = o_value o' /\ o_script o = o_script o' /\ o_nonce o = o_nonce o'.
Proof. exact strip_out_eq_iff. Qed.
Print Assumptions C04_base_output_fields.

(* equality of the hashed serialization is exactly equality of the witness-free parts *)
Theorem C04_txid_iff : forall t t', wf_tx t = true -> wf_tx t' = true ->
  (ser_txid t = ser_txid t' <-> same_base t t').
Proof. exact txid_iff. Qed.
Print Assumptions C04_txid_iff.

(* rewriting script witness, peg-in witness and both issuance range proofs of the input at any position (and
   the flag) leaves the id unchanged; likewise range and surjection proof of the output at any position *)
Theorem C04_txid_ignores_input_witness : forall t n w pw irp inrp flag,
  txid (mk_tx (t_version t) flag (t_locktime t) (upd_nth (t_ins t) n (set_in_witness_fields w pw irp inrp)) (t_outs t))
  = txid t.
Proof. exact txid_ignores_input_witness. Qed.
Print Assumptions C04_txid_ignores_input_witness.

Theorem C04_txid_ignores_output_proofs : forall t n rp sp flag,
  txid (mk_tx (t_version t) flag (t_locktime t) (t_ins t) (upd_nth (t_outs t) n (set_out_proofs rp sp)))
  = txid t.
Proof. exact txid_ignores_output_proofs. Qed.
Print Assumptions C04_txid_ignores_output_proofs.

Theorem C04_txid_covers_version_locktime : forall t t', wf_tx t = true -> wf_tx t' = true ->
  (t_version t <> t_version t' \/ t_locktime t <> t_locktime t') -> ser_txid t <> ser_txid t'.
Proof. exact txid_covers_version_locktime. Qed.
Print Assumptions C04_txid_covers_version_locktime.

Theorem C04_txid_covers_counts : forall t t', wf_tx t = true -> wf_tx t' = true ->
  (length (t_ins t) <> length (t_ins t') \/ length (t_outs t) <> length (t_outs t')) -> ser_txid t <> ser_txid t'.
Proof. exact txid_covers_counts. Qed.
Print Assumptions C04_txid_covers_counts.

Theorem C04_txid_covers_input_field : forall t t' n i i', wf_tx t = true -> wf_tx t' = true ->
  nth_error (t_ins t) n = Some i -> nth_error (t_ins t') n = Some i' ->
  (in_hash i <> in_hash i' \/ in_index i <> in_index i' \/ in_seq i <> in_seq i' \/ in_script i <> in_script i' \/
   in_pegin i <> in_pegin i' \/ in_iss i <> in_iss i') ->
  ser_txid t <> ser_txid t'.
Proof. exact txid_covers_input_field. Qed.
Print Assumptions C04_txid_covers_input_field.

Theorem C04_txid_covers_output_field : forall t t' n o o', wf_tx t = true -> wf_tx t' = true ->
  nth_error (t_outs t) n = Some o -> nth_error (t_outs t') n = Some o' ->
  (o_asset o <> o_asset o' \/ o_value o <> o_value o' \/ o_script o <> o_script o' \/ o_nonce o <> o_nonce o') ->
  ser_txid t <> ser_txid t'.
Proof. exact txid_covers_output_field. Qed.
Print Assumptions C04_txid_covers_output_field.

Theorem C04_wtxid_covers_witness_field : forall t t' n i i', wf_tx t = true -> wf_tx t' = true ->
  nth_error (t_ins t) n = Some i -> nth_error (t_ins t') n = Some i' ->
  (in_witness i <> in_witness i' \/ in_pegwit i <> in_pegwit i' \/ in_irp i <> in_irp i' \/ in_inrp i <> in_inrp i') ->
  ser_wtxid t <> ser_wtxid t'.
Proof. exact wtxid_covers_witness_field. Qed.
Print Assumptions C04_wtxid_covers_witness_field.

Theorem C04_wtxid_covers_output_proofs : forall t t' n o o', wf_tx t = true -> wf_tx t' = true ->
  nth_error (t_outs t) n = Some o -> nth_error (t_outs t') n = Some o' ->
  (o_rp o <> o_rp o' \/ o_sp o <> o_sp o') -> ser_wtxid t <> ser_wtxid t'.
Proof. exact wtxid_covers_output_proofs. Qed.
Print Assumptions C04_wtxid_covers_output_proofs.
