(* Props/C11.v — property theorems only. *)
From Coq Require Import List NArith ZArith Bool.
From GE Require Import Model.Roles Proofs.Roles.
Import ListNotations.
Import R11.
Open Scope N_scope.

(* after any operation history from any packet the creator builds: declared counts = actual numbers *)
Theorem C11_counts_match : forall ins outs fb p0 ops, init ins outs fb = IOk p0 ->
  let p := run p0 ops in
  g_nin p = N.of_nat (length (p_cores p)) /\ g_nout p = N.of_nat (length (p_outs p)).
Proof. exact counts_match. Qed.
Print Assumptions C11_counts_match.

(* ... no two inputs spend the same outpoint *)
Theorem C11_no_duplicate_outpoints : forall ins outs fb p0 ops, init ins outs fb = IOk p0 ->
  NoDup (map outpoint (p_cores (run p0 ops))).
Proof. exact no_duplicate_outpoints. Qed.
Print Assumptions C11_no_duplicate_outpoints.

(* from ANY packet, by ANY operation: nothing is added while the matching modifiable flag is clear *)
Theorem C11_modifiable_respected : forall p o,
  (inputs_modifiable p = false -> p_cores (fst (step p o)) = p_cores p)
  /\ (outputs_modifiable p = false -> length (p_outs (fst (step p o))) = length (p_outs p)).
Proof. exact modifiable_respected. Qed.
Print Assumptions C11_modifiable_respected.

(* the locktime kind is always selectable: never a time-only input next to a height-only one *)
Theorem C11_kinds_compatible : forall ins outs fb p0 ops, init ins outs fb = IOk p0 ->
  forall x y, In x (p_cores (run p0 ops)) -> In y (p_cores (run p0 ops)) ->
  time_only x = true -> height_only y = true -> False.
Proof. exact kinds_compatible. Qed.
Print Assumptions C11_kinds_compatible.

(* Locktime() is the largest required locktime of the kind BIP-370 selects, else the fallback: every packet *)
Theorem C11_locktime_is_max_of_selected_kind : forall p, locktime p = spec_locktime p.
Proof. exact locktime_is_max_of_selected_kind. Qed.
Print Assumptions C11_locktime_is_max_of_selected_kind.

(* all-or-nothing: a multi-part operation that returns an error leaves the packet unchanged (any packet; adding
   inputs/outputs, issuance, reissuance, the three signers, the blinder, finalize-all) *)
Theorem C11_multi_part_ops_atomic : forall p o,
  snd (step p o) = Err -> is_multi_part o = true -> fst (step p o) = p.
Proof. exact multi_part_ops_atomic. Qed.
Print Assumptions C11_multi_part_ops_atomic.

(* an already finalized input is never altered: any packet, every multi-part operation and every finalizer *)
Theorem C11_finalized_inputs_frozen : forall p o n a,
  frozen_scope o = true -> nth_error (p_auxs p) n = Some a -> finalized a = true ->
  nth_error (p_auxs (fst (step p o))) n = Some a.
Proof. exact finalized_inputs_frozen. Qed.
Print Assumptions C11_finalized_inputs_frozen.

(* after any operation history (the caller's TxModifiable values are three bits, the scalars the blinder's generator
   returns are fresh) the packet serialises and re-parses to itself *)
Theorem C11_reachable_roundtrips : forall ins outs fb p0 ops,
  init ins outs fb = IOk p0 -> good_run p0 ops -> rt (run p0 ops) = true.
Proof. exact reachable_roundtrips. Qed.
Print Assumptions C11_reachable_roundtrips.

(* the side condition on the flags is needed *)
Theorem C11_reachable_roundtrips_needs_three_bit_flags :
  exists p0, init [] [] None = IOk p0 /\ rt (fst (step p0 (OSetMod (Some 8)))) = false.
Proof. exact reachable_roundtrips_needs_three_bit_flags. Qed.
Print Assumptions C11_reachable_roundtrips_needs_three_bit_flags.

(* AddInputs never moves the locktime of a packet that carries partial signatures (any packet, any arguments) *)
Theorem C11_signed_locktime_fixed : forall p l, signed p = true -> locktime (fst (step p (OAddInputs l))) = locktime p.
Proof. exact signed_locktime_fixed. Qed.
Print Assumptions C11_signed_locktime_fixed.
