(* Props/C11.v — property theorems only. *)
From Coq Require Import List NArith ZArith Bool.
From GE Require Import Model.Roles Proofs.Roles.
Import ListNotations.
Import R11.
Open Scope N_scope.

(* after any operation history from any packet the creator builds: declared counts = actual numbers *)
Theorem C11_counts_match : forall ins outs fb p0 ops, init ins outs fb = IOk p0 ->
  let p := run p0 ops in
  g_nin p = N.of_nat (length (p_cores p)) /\ g_nout p = N.of_nat (length (p_outs p)).
Proof. exact counts_match. Qed.
Print Assumptions C11_counts_match.

(* ... no two inputs spend the same outpoint *)
Theorem C11_no_duplicate_outpoints : forall ins outs fb p0 ops, init ins outs fb = IOk p0 ->
  NoDup (map outpoint (p_cores (run p0 ops))).
Proof. exact no_duplicate_outpoints. Qed.
Print Assumptions C11_no_duplicate_outpoints.

(* from ANY packet, by ANY operation: nothing is added while the matching modifiable flag is clear *)
Theorem C11_modifiable_respected : forall p o,
  (inputs_modifiable p = false -> p_cores (fst (step p o)) = p_cores p)
  /\ (outputs_modifiable p = false -> length (p_outs (fst (step p o))) = length (p_outs p)).
Proof. exact modifiable_respected. Qed.
Print Assumptions C11_modifiable_respected.

(* the locktime kind is always selectable: never a time-only input next to a height-only one *)
Theorem C11_kinds_compatible : forall ins outs fb p0 ops, init ins outs fb = IOk p0 ->
  forall x y, In x (p_cores (run p0 ops)) -> In y (p_cores (run p0 ops)) ->
  time_only x = true -> height_only y = true -> False.
Proof. exact kinds_compatible. Qed.
Print Assumptions C11_kinds_compatible.

(* Locktime() is the largest required locktime of the BIP-370 kind (else the fallback) — outside the one
   shape where today's code is wrong (a time-only input next to an input that has a height) *)
Theorem C11_locktime_is_max_of_selected_kind_partial : forall p,
  kind_conflict p = false -> locktime p = spec_locktime p.
Proof. exact locktime_is_max_of_selected_kind_partial. Qed.
Print Assumptions C11_locktime_is_max_of_selected_kind_partial.

Theorem C11_locktime_is_max_of_selected_kind_refuted :
  exists ins outs fb p0 ops, init ins outs fb = IOk p0 /\
    locktime (run p0 ops) = 100 /\ spec_locktime (run p0 ops) = 600000000.
Proof. exact locktime_is_max_of_selected_kind_refuted. Qed.
Print Assumptions C11_locktime_is_max_of_selected_kind_refuted.

(* all-or-nothing: AddInputs/AddOutputs that fail change nothing, unless the failing check is the SanityCheck after publication *)
Theorem C11_multi_part_ops_atomic_partial : forall p o,
  snd (step p o) = Err -> is_add_io o = true -> sanity (fst (step p o)) = true -> fst (step p o) = p.
Proof. exact multi_part_ops_atomic_partial. Qed.
Print Assumptions C11_multi_part_ops_atomic_partial.

(* every failing multi-part operation keeps counts, outpoints, locktimes, flags and the number of outputs (same exception) *)
Theorem C11_multi_part_ops_skeleton_atomic_partial : forall p o,
  snd (step p o) = Err -> is_multi_part o = true -> sanity (fst (step p o)) = true -> same_skel p (fst (step p o)).
Proof. exact multi_part_ops_skeleton_atomic_partial. Qed.
Print Assumptions C11_multi_part_ops_skeleton_atomic_partial.

Theorem C11_multi_part_ops_atomic_refuted :
  exists ins outs fb p0 ops o, init ins outs fb = IOk p0 /\ is_multi_part o = true /\
    snd (step (run p0 ops) o) = Err /\ fst (step (run p0 ops) o) <> run p0 ops
    /\ sanity (fst (step (run p0 ops) o)) = true.
Proof. exact multi_part_ops_atomic_refuted. Qed.
Print Assumptions C11_multi_part_ops_atomic_refuted.

(* an already finalized input is not altered by AddInputs, AddOutputs, the three signers and the finalizers *)
Theorem C11_finalized_inputs_frozen_partial : forall p o n a,
  frozen_scope o = true -> nth_error (p_auxs p) n = Some a -> finalized a = true ->
  nth_error (p_auxs (fst (step p o))) n = Some a.
Proof. exact finalized_inputs_frozen_partial. Qed.
Print Assumptions C11_finalized_inputs_frozen_partial.

Theorem C11_finalized_inputs_frozen_refuted :
  exists ins outs fb p0 ops o a, init ins outs fb = IOk p0 /\ is_multi_part o = true /\
    nth_error (p_auxs (run p0 ops)) 0 = Some a /\ finalized a = true /\
    snd (step (run p0 ops) o) = Ok /\ nth_error (p_auxs (fst (step (run p0 ops) o))) 0 <> Some a.
Proof. exact finalized_inputs_frozen_refuted. Qed.
Print Assumptions C11_finalized_inputs_frozen_refuted.

(* serialises and re-parses to itself: what the creator builds from well-formed arguments *)
Theorem C11_reachable_roundtrips_partial : forall ins outs fb p0,
  init ins outs fb = IOk p0 -> Forall inarg_plain ins -> Forall outarg_plain outs ->
  (length ins < 253)%nat -> (length outs < 253)%nat -> rt p0 = true.
Proof. exact reachable_roundtrips_partial. Qed.
Print Assumptions C11_reachable_roundtrips_partial.

Theorem C11_reachable_roundtrips_refuted_failed_setter :
  exists ins outs fb p0 o, init ins outs fb = IOk p0 /\ rt p0 = true /\
    snd (step p0 o) = Err /\ rt (fst (step p0 o)) = false.
Proof. exact reachable_roundtrips_refuted_failed_setter. Qed.
Print Assumptions C11_reachable_roundtrips_refuted_failed_setter.

Theorem C11_reachable_roundtrips_refuted_both_locktimes :
  exists ins outs fb p0, init ins outs fb = IOk p0 /\ rt p0 = false.
Proof. exact reachable_roundtrips_refuted_both_locktimes. Qed.
Print Assumptions C11_reachable_roundtrips_refuted_both_locktimes.

Theorem C11_reachable_roundtrips_refuted_count_253 :
  exists ins outs fb p0 o, init ins outs fb = IOk p0 /\ snd (step p0 o) = Ok /\ rt (fst (step p0 o)) = false
    /\ g_nin (fst (step p0 o)) = 253.
Proof. exact reachable_roundtrips_refuted_count_253. Qed.
Print Assumptions C11_reachable_roundtrips_refuted_count_253.
