(* Props/C17.v — property theorems only. *)
From GE Require Import Lib.Bytes Model.Scalar Proofs.Scalar.
Open Scope Z_scope.

(* offset = value * assetBlinder + valueBlinder (mod n): every 64-bit value, every scalar that is
   absent or 32 bytes below n; the call always answers *)
Theorem C17_calc_offset_total : forall v ab vb, (v < 2 ^ 64)%N -> okscalar ab -> okscalar vb ->
  exists r, calc_offset v ab vb = SOOk r /\ okscalar r /\ sval r = modn (Z.of_N v * sval ab + sval vb).
Proof. exact calc_offset_total. Qed.
Print Assumptions C17_calc_offset_total.

(* accumulation = scalar + value * assetBlinder + valueBlinder (mod n) *)
Theorem C17_add_offset_total : forall s v ab vb, (v < 2 ^ 64)%N -> okscalar s -> okscalar ab -> okscalar vb ->
  exists r, add_offset s v ab vb = SOOk r /\ okscalar r /\
            sval r = modn (sval s + Z.of_N v * sval ab + sval vb).
Proof. exact add_offset_total. Qed.
Print Assumptions C17_add_offset_total.

(* subtraction = a - b (mod n), equal operands included *)
Theorem C17_sub_scalars_total : forall a b, okscalar a -> okscalar b ->
  exists r, sub_scalars a b = SOOk r /\ okscalar r /\ sval r = modn (sval a - sval b).
Proof. exact sub_scalars_total. Qed.
Print Assumptions C17_sub_scalars_total.

Theorem C17_never_refuse_in_domain : forall s v ab vb, (v < 2 ^ 64)%N -> okscalar s -> okscalar ab -> okscalar vb ->
  calc_offset v ab vb <> SOErr /\ sub_scalars ab vb <> SOErr /\ add_offset s v ab vb <> SOErr.
Proof. exact scalar_helpers_never_refuse_in_domain. Qed.
Print Assumptions C17_never_refuse_in_domain.

(* what is still refused lies outside the property's domain: exact regions over all byte strings *)
Theorem C17_sub_scalars_error_iff_general : forall a b,
  sub_scalars a b = SOErr <->
  exists y, b = Some y /\
    match a with
    | None => length y <> 32%nat
    | Some x => x <> y /\ (length y <> 32%nat \/ length x <> 32%nat \/ modn (sc x - sc y) = 0)
    end.
Proof. exact sub_scalars_error_iff_general. Qed.
Print Assumptions C17_sub_scalars_error_iff_general.

Theorem C17_calc_offset_error_iff_general : forall v ab vb, (v < 2 ^ 64)%N ->
  (calc_offset v ab vb = SOErr <->
   exists x, ab = Some x /\ (0 < v)%N /\
     (length x <> 32%nat \/
      exists y, vb = Some y /\
        (length y <> 32%nat \/ (secp_n <= sc y /\ modn (sc x * Z.of_N v + sc y) <> 0)))).
Proof. exact calc_offset_error_iff_general. Qed.
Print Assumptions C17_calc_offset_error_iff_general.

(* no helper ever writes to an argument (or to any memory it did not allocate): all inputs *)
Theorem C17_arguments_never_written :
  (forall v ab vb, snd (go_calc_offset v ab vb) = []) /\
  (forall a b, snd (go_sub_scalars a b) = []) /\
  (forall s v ab vb, snd (go_add_offset s v ab vb) = []).
Proof. exact scalar_helpers_leave_arguments_alone. Qed.
Print Assumptions C17_arguments_never_written.
