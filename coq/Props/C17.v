(* Props/C17.v — property theorems only. *)
From GE Require Import Lib.Bytes Model.Scalar Proofs.Scalar.
Open Scope Z_scope.

(* offset = value * assetBlinder + valueBlinder (mod n) whenever CalculateScalarOffset answers *)
Theorem C17_calc_offset_spec : forall v ab vb r, (v < 2 ^ 64)%N -> okscalar ab -> okscalar vb ->
  calc_offset v ab vb = SOOk r ->
  okscalar r /\ sval r = modn (Z.of_N v * sval ab + sval vb).
Proof. exact calc_offset_spec. Qed.
Print Assumptions C17_calc_offset_spec.

Theorem C17_calc_offset_error_iff : forall v ab vb, (v < 2 ^ 64)%N -> okscalar ab -> okscalar vb ->
  (calc_offset v ab vb = SOErr <-> (0 < v)%N /\ ab <> None /\ vb = None).
Proof. exact calc_offset_error_iff. Qed.
Print Assumptions C17_calc_offset_error_iff.

Theorem C17_calc_offset_total_partial : forall v ab vb, (v < 2 ^ 64)%N -> okscalar ab -> okscalar vb ->
  ~ ((0 < v)%N /\ ab <> None /\ vb = None) ->
  exists r, calc_offset v ab vb = SOOk r /\ okscalar r /\ sval r = modn (Z.of_N v * sval ab + sval vb).
Proof. exact calc_offset_total_partial. Qed.
Print Assumptions C17_calc_offset_total_partial.

Theorem C17_calc_offset_total_refuted :
  exists v ab vb, (v < 2 ^ 64)%N /\ okscalar ab /\ okscalar vb /\ calc_offset v ab vb = SOErr.
Proof. exact calc_offset_total_refuted. Qed.
Print Assumptions C17_calc_offset_total_refuted.

(* accumulation = scalar + value * assetBlinder + valueBlinder (mod n) *)
Theorem C17_add_offset_spec : forall s v ab vb r, (v < 2 ^ 64)%N -> okscalar s -> okscalar ab -> okscalar vb ->
  add_offset s v ab vb = SOOk r ->
  okscalar r /\ sval r = modn (sval s + Z.of_N v * sval ab + sval vb).
Proof. exact add_offset_spec. Qed.
Print Assumptions C17_add_offset_spec.

Theorem C17_add_offset_error_iff : forall s v ab vb, (v < 2 ^ 64)%N -> okscalar s -> okscalar ab -> okscalar vb ->
  (add_offset s v ab vb = SOErr <-> ab <> None /\ vb = None /\ ((0 < v)%N \/ s <> None)).
Proof. exact add_offset_error_iff. Qed.
Print Assumptions C17_add_offset_error_iff.

Theorem C17_add_offset_total_partial : forall s v ab vb, (v < 2 ^ 64)%N -> okscalar s -> okscalar ab -> okscalar vb ->
  ~ (ab <> None /\ vb = None /\ ((0 < v)%N \/ s <> None)) ->
  exists r, add_offset s v ab vb = SOOk r /\ okscalar r /\ sval r = modn (sval s + Z.of_N v * sval ab + sval vb).
Proof. exact add_offset_total_partial. Qed.
Print Assumptions C17_add_offset_total_partial.

Theorem C17_add_offset_total_refuted :
  exists s v ab vb, (v < 2 ^ 64)%N /\ okscalar s /\ okscalar ab /\ okscalar vb /\ add_offset s v ab vb = SOErr.
Proof. exact add_offset_total_refuted. Qed.
Print Assumptions C17_add_offset_total_refuted.

(* subtraction = a - b (mod n) *)
Theorem C17_sub_scalars_spec : forall a b r, okscalar a -> okscalar b ->
  sub_scalars a b = SOOk r -> okscalar r /\ sval r = modn (sval a - sval b).
Proof. exact sub_scalars_spec. Qed.
Print Assumptions C17_sub_scalars_spec.

Theorem C17_sub_scalars_error_iff : forall a b, okscalar a -> okscalar b ->
  (sub_scalars a b = SOErr <-> a <> None /\ b <> None /\ sval a = sval b).
Proof. exact sub_scalars_error_iff. Qed.
Print Assumptions C17_sub_scalars_error_iff.

Theorem C17_sub_scalars_total_partial : forall a b, okscalar a -> okscalar b ->
  ~ (a <> None /\ b <> None /\ sval a = sval b) ->
  exists r, sub_scalars a b = SOOk r /\ okscalar r /\ sval r = modn (sval a - sval b).
Proof. exact sub_scalars_total_partial. Qed.
Print Assumptions C17_sub_scalars_total_partial.

Theorem C17_sub_scalars_total_refuted :
  exists a b, okscalar a /\ okscalar b /\ sub_scalars a b = SOErr.
Proof. exact sub_scalars_total_refuted. Qed.
Print Assumptions C17_sub_scalars_total_refuted.

(* no helper ever writes to an argument (or to any memory it did not allocate): all inputs *)
Theorem C17_arguments_never_written :
  (forall v ab vb, snd (go_calc_offset v ab vb) = []) /\
  (forall a b, snd (go_sub_scalars a b) = []) /\
  (forall s v ab vb, snd (go_add_offset s v ab vb) = []).
Proof. exact scalar_helpers_leave_arguments_alone. Qed.
Print Assumptions C17_arguments_never_written.
