(* Props/C16.v — property theorems only. *)
From GE Require Import Lib.Bytes Lib.Sha256 Model.Taproot Proofs.Taproot.
From Coq Require Import Permutation.
Open Scope nat_scope.

(* the branch hash is commutative BECAUSE of the lexicographic ordering: no hypothesis *)
Theorem C16_branch_hash_commutative : forall (BHR : bytes -> bytes -> bytes) a b,
  branch BHR a b = branch BHR b a.
Proof. exact branch_comm. Qed.
Print Assumptions C16_branch_hash_commutative.

(* every leaf count, every shape the assembler builds: the proof accumulated for each leaf
   recomputes the root; no panic, the merge loop terminates; the tree holds exactly the leaves.
   Only hypothesis on the hashes: digests are 32 bytes (the proofs are flat byte strings). *)
Theorem C16_every_leaf_proves_root :
  forall (LH : tapleaf -> bytes) (BHR : bytes -> bytes -> bytes),
  (forall l, length (LH l) = 32) -> (forall a b, length (BHR a b) = 32) ->
  forall ls, NoDup (map LH ls) -> ls <> [] ->
  exists root st,
    assemble LH BHR ls = Done (Some root, st) /\
    tnode_hash root = tap_hash LH BHR root /\ Permutation (tleaves root) ls /\ length st = length ls /\
    forall i l, nth_error ls i = Some l ->
      exists e, nth_error st i = Some e /\ pe_leaf e = l /\
        (exists k, length (pe_proof e) = 32 * k) /\
        proof_root BHR (pe_proof e) (LH l) = tnode_hash root.
Proof. exact every_leaf_proves_root_full. Qed.
Print Assumptions C16_every_leaf_proves_root.

(* the same for the executable Elements tagged SHA-256 hashes: no hypothesis at all *)
Theorem C16_every_leaf_proves_root_sha256 :
  forall ls, NoDup (map leaf_hash ls) -> ls <> [] ->
  exists root st, assembled leaf_hash branch_hash_raw ls root st.
Proof. exact every_leaf_proves_root_sha. Qed.
Print Assumptions C16_every_leaf_proves_root_sha256.

(* each leaf's control block verifies against the one output key of the tree with the
   correct parity bit, and ParseControlBlock (ToBytes cb) = cb *)
Theorem C16_every_leaf_verifies :
  forall (point : Type) (padd : point -> point -> point) (mulG : Z -> point)
    (lift_x : bytes -> option point) (xonly : point -> bytes) (odd_y : point -> bool)
    (TS : bytes -> bytes -> Z) (LH : tapleaf -> bytes) (BHR : bytes -> bytes -> bytes),
  (forall l, length (LH l) = 32) -> (forall a b, length (BHR a b) = 32) ->
  forall (ls : list tapleaf) (p : point), NoDup (map LH ls) -> ls <> [] ->
  exists root st, assembled LH BHR ls root st /\
    forall q, output_key point padd mulG lift_x xonly TS p (tnode_hash root) = Some q ->
    forall i l, nth_error ls i = Some l ->
      exists e cb, nth_error st i = Some e /\ pe_leaf e = l /\
        to_control_block point padd mulG lift_x xonly odd_y TS e p (tnode_hash root) = Some cb /\
        cb_odd cb = odd_y q /\
        verify_commitment point padd mulG lift_x xonly odd_y TS LH BHR cb (xonly q) (tlf_script l) = Some true /\
        forall liftable, wf_cb liftable cb -> parse_cb liftable (ser_cb cb) = Some cb.
Proof. exact every_leaf_verifies. Qed.
Print Assumptions C16_every_leaf_verifies.

Theorem C16_parity_bit_correct :
  forall (point : Type) (padd : point -> point -> point) (mulG : Z -> point)
    (lift_x : bytes -> option point) (xonly : point -> bytes) (odd_y : point -> bool)
    (TS : bytes -> bytes -> Z) (LH : tapleaf -> bytes) (BHR : bytes -> bytes -> bytes)
    e p root q,
  proof_root BHR (pe_proof e) (LH (pe_leaf e)) = root ->
  output_key point padd mulG lift_x xonly TS p root = Some q ->
  exists cb, to_control_block point padd mulG lift_x xonly odd_y TS e p root = Some cb /\
    cb_odd cb = odd_y q /\ cb_key cb = xonly p /\
    verify_commitment point padd mulG lift_x xonly odd_y TS LH BHR cb (xonly q) (tlf_script (pe_leaf e)) = Some true.
Proof. exact parity_bit_correct. Qed.
Print Assumptions C16_parity_bit_correct.

(* control-block bytes round-trip (32-byte liftable key, leaf version with bit 0 clear,
   at most 128 proof nodes) *)
Theorem C16_control_block_roundtrip : forall liftable c,
  wf_cb liftable c -> parse_cb liftable (ser_cb c) = Some c.
Proof. exact parse_ser_cb. Qed.
Print Assumptions C16_control_block_roundtrip.

(* what the bytes do to an odd leaf version (fine in memory, see C16_every_leaf_verifies):
   bit 0 is the parity flag, the parsed block carries version & 0xfe and parity = true *)
Theorem C16_control_block_odd_version : forall liftable c,
  length (cb_key c) = 32 -> liftable (cb_key c) = true ->
  (exists k, length (cb_proof c) = 32 * k /\ k <= 128) ->
  N.testbit (n8 (cb_version c)) 0%N = true ->
  parse_cb liftable (ser_cb c) =
  Some (mk_cblock (cb_key c) true (b8 (N.land (n8 (cb_version c)) 0xfe%N)) (cb_proof c)).
Proof. exact parse_ser_cb_odd_version. Qed.
Print Assumptions C16_control_block_odd_version.

(* the depth bound: 128 nodes (4129 bytes) is accepted by the theorem above, anything longer
   is refused by ParseControlBlock *)
Theorem C16_control_block_max_size : forall liftable bs,
  cb_max_size < length bs -> parse_cb liftable bs = None.
Proof. exact parse_cb_rejects_long. Qed.
Print Assumptions C16_control_block_max_size.

(* the PSET input key pair of a tap leaf script round-trips *)
Theorem C16_pset_tapleaf_roundtrip : forall liftable l c,
  wf_cb liftable c -> cb_version c = tlf_version l ->
  parse_tapleaf_kv liftable (fst (tapleaf_kv l c)) (snd (tapleaf_kv l c)) = KvOk l c.
Proof. exact tapleaf_kv_roundtrip. Qed.
Print Assumptions C16_pset_tapleaf_roundtrip.

(* ---- anything else fails: ideal (injective) hashes, ideal group ---- *)
Theorem C16_other_script_or_version_fails :
  forall (point : Type) (padd : point -> point -> point) (mulG : Z -> point)
    (lift_x : bytes -> option point) (xonly : point -> bytes) (odd_y : point -> bool)
    (TS : bytes -> bytes -> Z) (LH : tapleaf -> bytes) (BHR : bytes -> bytes -> bytes),
  (forall a b, LH a = LH b -> a = b) ->
  (forall a b c d, BHR a b = BHR c d -> a = c /\ b = d) ->
  (forall k r r', mulG (TS k r) = mulG (TS k r') -> r = r') ->
  (forall p a b, padd p a = padd p b -> a = b) ->
  (forall a b, xonly a = xonly b -> odd_y a = odd_y b -> a = b) ->
  forall c prog s v' s',
  mk_tapleaf v' s' <> mk_tapleaf (cb_version c) s ->
  verify_commitment point padd mulG lift_x xonly odd_y TS LH BHR c prog s = Some true ->
  verify_commitment point padd mulG lift_x xonly odd_y TS LH BHR
    (mk_cblock (cb_key c) (cb_odd c) v' (cb_proof c)) prog s' <> Some true.
Proof. exact other_script_or_version_fails. Qed.
Print Assumptions C16_other_script_or_version_fails.

Theorem C16_altered_node_fails :
  forall (point : Type) (padd : point -> point -> point) (mulG : Z -> point)
    (lift_x : bytes -> option point) (xonly : point -> bytes) (odd_y : point -> bool)
    (TS : bytes -> bytes -> Z) (LH : tapleaf -> bytes) (BHR : bytes -> bytes -> bytes),
  (forall a b c d, BHR a b = BHR c d -> a = c /\ b = d) ->
  (forall k r r', mulG (TS k r) = mulG (TS k r') -> r = r') ->
  (forall p a b, padd p a = padd p b -> a = b) ->
  (forall a b, xonly a = xonly b -> odd_y a = odd_y b -> a = b) ->
  forall c prog s p1 x x' p2 j m,
  cb_proof c = p1 ++ x ++ p2 -> length p1 = 32 * j -> length x = 32 -> length x' = 32 ->
  length p2 = 32 * m -> x' <> x ->
  verify_commitment point padd mulG lift_x xonly odd_y TS LH BHR c prog s = Some true ->
  verify_commitment point padd mulG lift_x xonly odd_y TS LH BHR
    (mk_cblock (cb_key c) (cb_odd c) (cb_version c) (p1 ++ x' ++ p2)) prog s <> Some true.
Proof. exact altered_node_fails. Qed.
Print Assumptions C16_altered_node_fails.

Theorem C16_wrong_parity_fails :
  forall (point : Type) (padd : point -> point -> point) (mulG : Z -> point)
    (lift_x : bytes -> option point) (xonly : point -> bytes) (odd_y : point -> bool)
    (TS : bytes -> bytes -> Z) (LH : tapleaf -> bytes) (BHR : bytes -> bytes -> bytes) c prog s,
  verify_commitment point padd mulG lift_x xonly odd_y TS LH BHR c prog s = Some true ->
  verify_commitment point padd mulG lift_x xonly odd_y TS LH BHR
    (mk_cblock (cb_key c) (negb (cb_odd c)) (cb_version c) (cb_proof c)) prog s <> Some true.
Proof. exact wrong_parity_fails. Qed.
Print Assumptions C16_wrong_parity_fails.

Theorem C16_other_output_key_fails :
  forall (point : Type) (padd : point -> point -> point) (mulG : Z -> point)
    (lift_x : bytes -> option point) (xonly : point -> bytes) (odd_y : point -> bool)
    (TS : bytes -> bytes -> Z) (LH : tapleaf -> bytes) (BHR : bytes -> bytes -> bytes) c prog prog' s,
  prog' <> prog ->
  verify_commitment point padd mulG lift_x xonly odd_y TS LH BHR c prog s = Some true ->
  verify_commitment point padd mulG lift_x xonly odd_y TS LH BHR c prog' s <> Some true.
Proof. exact other_output_key_fails. Qed.
Print Assumptions C16_other_output_key_fails.

(* ---- key tweaks ---- *)
(* d*G of either parity: (tweaked private key)*G is the output key of d*G and the same root *)
Theorem C16_tweaked_priv_matches_output_key :
  forall (point : Type) (padd : point -> point -> point) (pneg : point -> point)
    (mulG : Z -> point) (lift_x : bytes -> option point) (xonly : point -> bytes)
    (odd_y : point -> bool) (TS : bytes -> bytes -> Z),
  (forall d, lift_x (xonly (mulG d)) = Some (if odd_y (mulG d) then pneg (mulG d) else mulG d)) ->
  (forall d, xonly (pneg (mulG d)) = xonly (mulG d)) ->
  (forall a b, mulG ((a + b) mod tap_n)%Z = padd (mulG a) (mulG b)) ->
  (forall a, mulG ((tap_n - a) mod tap_n)%Z = pneg (mulG a)) ->
  forall d root,
  output_key point padd mulG lift_x xonly TS (mulG d) root =
  Some (mulG (fst (tweak_priv_ec point mulG xonly odd_y TS d root))).
Proof. exact tweaked_priv_matches_output_key. Qed.
Print Assumptions C16_tweaked_priv_matches_output_key.

(* tweaking leaves the caller's key unchanged (second component = the caller's scalar after
   the call): every tweak function, either parity, every key and root; and at curve level *)
Theorem C16_tweak_preserves_caller_key : forall TS pk_odd pkx d root,
  snd (tweak_priv_with TS pk_odd pkx d root) = d.
Proof. exact tweak_preserves_caller_key. Qed.
Print Assumptions C16_tweak_preserves_caller_key.

Theorem C16_tweak_ec_preserves_caller_key :
  forall (point : Type) (mulG : Z -> point) (xonly : point -> bytes) (odd_y : point -> bool)
    (TS : bytes -> bytes -> Z) d root,
  snd (tweak_priv_ec point mulG xonly odd_y TS d root) = d.
Proof. exact tweak_ec_preserves_caller_key. Qed.
Print Assumptions C16_tweak_ec_preserves_caller_key.
