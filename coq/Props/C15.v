(* Props/C15.v — property theorems only. *)
From GE Require Import Lib.Bytes Model.Blech32 Proofs.Blech32 Proofs.Blech32Hrp.
Import B32.
Open Scope N_scope.

(* GF(2)-linearity of one polymod step and of the whole fold *)
Theorem C15_polymod_step_linear : forall c c' v v',
  polymod_step (N.lxor c c') (N.lxor v v') = N.lxor (polymod_step c v) (polymod_step c' v').
Proof. exact polymod_step_linear. Qed.
Print Assumptions C15_polymod_step_linear.

Theorem C15_polymod_linear : forall vs ws c d, length vs = length ws ->
  polymod_from (N.lxor c d) (xor_list vs ws) = N.lxor (polymod_from c vs) (polymod_from d ws).
Proof. exact polymod_linear. Qed.
Print Assumptions C15_polymod_linear.

(* int64 never overflows: the N model of the words is exact *)
Theorem C15_polymod_no_overflow : forall vs c, c < 2 ^ 60 -> Forall (fun v => v < 2 ^ 60) vs ->
  polymod_from c vs < 2 ^ 60.
Proof. exact polymod_from_bound. Qed.
Print Assumptions C15_polymod_no_overflow.

(* verify (data ++ create_checksum data) for every hrp, data and constant *)
Theorem C15_checksum_correct : forall hrp data enc, enc < 2 ^ 60 ->
  verify_checksum hrp (data ++ create_checksum hrp data enc) enc = true.
Proof. exact checksum_correct. Qed.
Print Assumptions C15_checksum_correct.

(* the finite core, checked in the kernel over the generator constants of today's source:
   all 31 x 1000 single-symbol syndromes are non-zero and pairwise distinct, and a version
   flip never produces BLECH32 xor BLECH32M, alone or with a second error *)
Theorem C15_syndromes_distinct : forall d1 v1 d2 v2,
  (d1 < NMAX)%nat -> (d2 < NMAX)%nat -> In v1 vals -> In v2 vals ->
  shift d1 v1 <> 0 /\ (shift d1 v1 = shift d2 v2 -> d1 = d2 /\ v1 = v2).
Proof. intros d1 v1 d2 v2 H1 H2 V1 V2. split; [apply syndrome_nonzero; assumption | apply syndromes_distinct; assumption]. Qed.
Print Assumptions C15_syndromes_distinct.

Theorem C15_version_flip_syndromes : forall d d2 v2, (d < NMAX)%nat -> (d2 < d)%nat -> In v2 vals ->
  shift d 1 <> BM /\ N.lxor (shift d 1) (shift d2 v2) <> BM.
Proof. intros d d2 v2 H1 H2 V. split; [apply flip_not_BM; assumption | apply flip_pair_not_BM; assumption]. Qed.
Print Assumptions C15_version_flip_syndromes.

(* every accepted string is, in lower case, hrp ++ "1" ++ chars(symbols) *)
Theorem C15_accepted_shape : forall s hrp data, decode s = DOk hrp data ->
  exists syms cs, to_chars syms = Some cs /\ map to_lower s = hrp ++ sep :: cs /\
                  map to_lower hrp = hrp /\ data = firstn (length syms - 12) syms.
Proof. exact accepted_shape. Qed.
Print Assumptions C15_accepted_shape.

(* MAIN: any accepted string (any hrp, any length) with ONE symbol of the data part
   (version, payload or checksum) replaced by a different symbol is rejected *)
Theorem C15_detects_one : forall hrp syms cs data i x y cs',
  map to_lower hrp = hrp -> to_chars syms = Some cs ->
  decode (hrp ++ sep :: cs) = DOk hrp data ->
  nth_error syms i = Some y -> x <> y -> to_chars (upd syms i x) = Some cs' ->
  decode (hrp ++ sep :: cs') = DErr.
Proof. exact detects_one. Qed.
Print Assumptions C15_detects_one.

(* MAIN: ... with TWO symbols at different positions replaced *)
Theorem C15_detects_two : forall hrp syms cs data i1 x1 y1 i2 x2 y2 cs',
  map to_lower hrp = hrp -> to_chars syms = Some cs ->
  decode (hrp ++ sep :: cs) = DOk hrp data ->
  i1 <> i2 ->
  nth_error syms i1 = Some y1 -> x1 <> y1 ->
  nth_error syms i2 = Some y2 -> x2 <> y2 ->
  to_chars (upd (upd syms i1 x1) i2 x2) = Some cs' ->
  decode (hrp ++ sep :: cs') = DErr.
Proof. exact detects_two. Qed.
Print Assumptions C15_detects_two.

(* ---- substitutions inside the human-readable part (the three network prefixes of Gen/NetConsts.v:
   lq, tlq, el), for every length the decoder admits; alphabet = the 32 characters of the charset ---- *)
Theorem C15_detects_hrp_one : forall h syms cs data p c0 c,
  In h std_hrps -> to_chars syms = Some cs -> decode (h ++ sep :: cs) = DOk h data ->
  nth_error h p = Some c0 -> In c charset -> c <> c0 ->
  decode (upd h p c ++ sep :: cs) = DErr.
Proof. exact detects_hrp_one. Qed.
Print Assumptions C15_detects_hrp_one.

Theorem C15_detects_hrp_two : forall h syms cs data p1 c01 c1 p2 c02 c2,
  In h std_hrps -> to_chars syms = Some cs -> decode (h ++ sep :: cs) = DOk h data ->
  p1 <> p2 ->
  nth_error h p1 = Some c01 -> In c1 charset -> c1 <> c01 ->
  nth_error h p2 = Some c02 -> In c2 charset -> c2 <> c02 ->
  decode (upd (upd h p1 c1) p2 c2 ++ sep :: cs) = DErr.
Proof. exact detects_hrp_two. Qed.
Print Assumptions C15_detects_hrp_two.

Theorem C15_detects_hrp_and_data : forall h syms cs data p c0 c i x y cs',
  In h std_hrps -> to_chars syms = Some cs -> decode (h ++ sep :: cs) = DOk h data ->
  nth_error h p = Some c0 -> In c charset -> c <> c0 ->
  nth_error syms i = Some y -> x <> y -> to_chars (upd syms i x) = Some cs' ->
  decode (upd h p c ++ sep :: cs') = DErr.
Proof. exact detects_hrp_and_data. Qed.
Print Assumptions C15_detects_hrp_and_data.

(* the separator replaced by a character of the alphabet (with any other changes that leave no "1") *)
Theorem C15_no_separator_rejected : forall s, Forall (fun c => beqb c sep = false) s -> decode s = DErr.
Proof. exact no_separator_rejected. Qed.
Print Assumptions C15_no_separator_rejected.

(* the structural fact behind the HRP theorems: one polymod step with input 0 is injective on 60-bit words *)
Theorem C15_shift_injective : forall j a b, a < 2 ^ 60 -> b < 2 ^ 60 -> shift j a = shift j b -> a = b.
Proof. exact shift_inj. Qed.
Print Assumptions C15_shift_injective.

(* DecodeGeneric does not look at the checksum: it returns whatever prefix is spelled *)
Theorem C15_decode_generic_ignores_checksum : forall hrp syms cs, to_chars syms = Some cs -> map to_lower hrp = hrp ->
  pre hrp (length syms) = true ->
  decode_generic (hrp ++ sep :: cs) = GOk hrp (firstn (length syms - 12) syms) (skipn (length syms - 12) syms).
Proof. exact decode_generic_ignores_checksum. Qed.
Print Assumptions C15_decode_generic_ignores_checksum.

(* the constant is selected by the witness version *)
Theorem C15_constant_selected_by_version : forall s hrp data, decode s = DOk hrp data ->
  exists v r chk, data = v :: r /\ length chk = 12%nat /\
    ((n8 v = 0 /\ polymod (hrp_expand hrp ++ ints (data ++ chk)) = BLECH32) \/
     (n8 v = 1 /\ polymod (hrp_expand hrp ++ ints (data ++ chk)) = BLECH32M)).
Proof. exact constant_selected_by_version. Qed.
Print Assumptions C15_constant_selected_by_version.

Theorem C15_wrong_constant_rejected : forall hrp v r e e' cs,
  map to_lower hrp = hrp ->
  encoding_of_version v = Some e -> (e' = BLECH32 \/ e' = BLECH32M) -> e' <> e ->
  to_chars ((v :: r) ++ create_checksum hrp (v :: r) e') = Some cs ->
  decode (hrp ++ sep :: cs) = DErr.
Proof. exact wrong_constant_rejected. Qed.
Print Assumptions C15_wrong_constant_rejected.

Theorem C15_encode_decode : forall hrp v r e,
  map to_lower hrp = hrp -> pre hrp (length (v :: r) + 12) = true ->
  Forall (fun b => n8 b < 32) (v :: r) -> encoding_of_version v = Some e ->
  exists s, encode hrp (v :: r) e = Some s /\ decode s = DOk hrp (v :: r).
Proof. exact encode_decode. Qed.
Print Assumptions C15_encode_decode.

(* Decode then Encode: an accepted string re-encodes to its lower-case spelling *)
Theorem C15_decode_encode : forall s hrp data, decode s = DOk hrp data ->
  exists v r e, data = v :: r /\ encoding_of_version v = Some e /\ encode hrp data e = Some (map to_lower s).
Proof. exact decode_encode. Qed.
Print Assumptions C15_decode_encode.

(* case rules *)
Theorem C15_mixed_case_rejected : forall s a b,
  In a s -> is_lower_letter a = true -> In b s -> is_upper_letter b = true -> decode s = DErr.
Proof. exact mixed_case_rejected. Qed.
Print Assumptions C15_mixed_case_rejected.

Theorem C15_case_insensitive : forall s, decode (map to_upper s) = decode (map to_lower s).
Proof. exact case_insensitive. Qed.
Print Assumptions C15_case_insensitive.

Theorem C15_accepted_case_spellings : forall s hrp data, decode s = DOk hrp data ->
  decode (map to_lower s) = DOk hrp data /\ decode (map to_upper s) = DOk hrp data.
Proof. exact accepted_case_spellings. Qed.
Print Assumptions C15_accepted_case_spellings.
