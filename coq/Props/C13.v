(* Props/C13.v — property theorems only. *)
From GE Require Import Lib.Bytes Lib.Sha256 Model.Tx Model.Issuance Spec.Issuance Proofs.Issuance Proofs.IssuanceJson.
From Coq Require Import Sorting.Permutation.
Open Scope N_scope.

(* the three id functions are the Elements derivation, for every outpoint, iss_contract hash, entropy, flag *)
Theorem C13_ids_refine_spec : forall hash n chash e confidential,
  length hash = 32%nat -> length chash = 32%nat -> length e = 32%nat ->
  compute_entropy hash n chash = Some (spec_entropy hash n chash) /\
  compute_asset e = Some (spec_asset e) /\
  compute_token e (iss_flag_of confidential) = Some (spec_token e confidential).
Proof. exact ids_refine_spec. Qed.
Print Assumptions C13_ids_refine_spec.

Theorem C13_compute_entropy_error_iff : forall hash n chash,
  compute_entropy hash n chash = None <-> length hash <> 32%nat \/ length chash <> 32%nat.
Proof. exact compute_entropy_error_iff. Qed.
Print Assumptions C13_compute_entropy_error_iff.

Theorem C13_compute_entropy_rejects_bad_contract_hash : forall hash n chash,
  length chash <> 32%nat -> compute_entropy hash n chash = None.
Proof. exact compute_entropy_rejects_bad_contract_hash. Qed.
Print Assumptions C13_compute_entropy_rejects_bad_contract_hash.

(* asset id and the two token ids are pairwise distinct (ideal compression function) *)
Theorem C13_ids_pairwise_distinct : forall (cmp : bytes -> bytes),
  (forall a b, length a = 64%nat -> length b = 64%nat -> cmp a = cmp b -> a = b) ->
  forall e, length e = 32%nat ->
    asset_of cmp e <> token_of cmp e false /\
    asset_of cmp e <> token_of cmp e true /\
    token_of cmp e false <> token_of cmp e true.
Proof. exact ids_pairwise_distinct. Qed.
Print Assumptions C13_ids_pairwise_distinct.

Theorem C13_token_id_flag_iff : forall (cmp : bytes -> bytes),
  (forall a b, length a = 64%nat -> length b = 64%nat -> cmp a = cmp b -> a = b) ->
  forall e c, length e = 32%nat -> (token_of cmp e c = token_of cmp e true <-> c = true).
Proof. exact token_id_flag_iff. Qed.
Print Assumptions C13_token_id_flag_iff.

Theorem C13_entropy_injective : forall (cmp : bytes -> bytes),
  (forall a b, length a = 64%nat -> length b = 64%nat -> cmp a = cmp b -> a = b) ->
  forall (H : bytes -> bytes) h n ch h' n' ch',
    (forall x, length (H x) = 32%nat) -> (forall x y, H x = H y -> x = y) ->
    length h = 32%nat -> length h' = 32%nat -> n < 2 ^ 32 -> n' < 2 ^ 32 -> length ch = 32%nat -> length ch' = 32%nat ->
    entropy_of cmp H h n ch = entropy_of cmp H h' n' ch' -> h = h' /\ n = n' /\ ch = ch'.
Proof. exact entropy_injective. Qed.
Print Assumptions C13_entropy_injective.

(* iss_contract hash: key-sorted JSON, independent of the order of the fields *)
Theorem C13_contract_json_key_order_partial : forall c k,
  ser_json 3 (JObj (iss_rotate k (contract_fields c))) = contract_json c /\
  ser_json 3 (JObj (rev (contract_fields c))) = contract_json c.
Proof. exact contract_json_key_order_partial. Qed.
Print Assumptions C13_contract_json_key_order_partial.

(* the full statement: every permutation of the six fields gives the same key-sorted JSON and the same hash *)
Theorem C13_contract_json_key_order : forall c l,
  Permutation l (contract_fields c) -> ser_json 3 (JObj l) = contract_json c.
Proof. exact contract_json_key_order. Qed.
Print Assumptions C13_contract_json_key_order.

Theorem C13_contract_hash_key_order : forall c l,
  Permutation l (contract_fields c) -> sha256 (ser_json 3 (JObj l)) = contract_hash c.
Proof. exact contract_hash_key_order. Qed.
Print Assumptions C13_contract_hash_key_order.

(* psetv2 AddInIssuance: outputs pay the ids derived from the target input's outpoint; token flag = BlindedIssuance *)
Theorem C13_v2_issuance_outputs_pay_derived_ids : forall p idx a p',
  v2_add_in_issuance p idx a = (true, p') ->
  exists input entropy asset token,
    let k := Z.to_nat idx in
    let bidx := Z.to_N idx mod 4294967296 in
    (0 <= idx)%Z /\ nth_error (v2_ins p) k = Some input /\ vi_entropy input = None /\
    compute_entropy (vi_txid input) (vi_index input) (chash_of (ia_contract a)) = Some entropy /\
    compute_asset entropy = Some asset /\
    compute_token entropy (iss_flag_of (ia_blinded a)) = Some token /\
    v2_outs p' = v2_outs p ++
                 v2_new_output asset (ia_asset a) (ia_aaddr a) bidx bidx ::
                 (if 0 <? ia_token a then [v2_new_output token (ia_token a) (ia_taddr a) bidx bidx] else []) /\
    v2_ins p' = iss_set_nth k (fun _ => v2_issued_input input a) (v2_ins p) /\
    nth_error (v2_ins p') k = Some (v2_issued_input input a) /\
    ia_precision a <= 8.
Proof. exact v2_issuance_outputs_pay_derived_ids. Qed.
Print Assumptions C13_v2_issuance_outputs_pay_derived_ids.

Theorem C13_v2_getters_agree_with_outputs : forall input a entropy asset token,
  compute_entropy (vi_txid input) (vi_index input) (chash_of (ia_contract a)) = Some entropy ->
  compute_asset entropy = Some asset ->
  compute_token entropy (iss_flag_of (ia_blinded a)) = Some token ->
  (0 < ia_asset a \/ 0 < ia_token a) ->
  get_issuance_asset_hash (v2_issued_input input a) = Some asset /\
  get_issuance_keys_hash (v2_issued_input input a) = Some token.
Proof. exact v2_getters_agree_with_outputs. Qed.
Print Assumptions C13_v2_getters_agree_with_outputs.

Theorem C13_v2_reissuance_outputs_pay_derived_ids : forall p idx a p',
  v2_add_in_reissuance p idx a = (true, p') ->
  exists input eh asset token,
    let k := Z.to_nat idx in
    let bidx := Z.to_N idx mod 4294967296 in
    let entropy := rev eh in
    (0 <= idx)%Z /\ nth_error (v2_ins p) k = Some input /\ vi_entropy input = None /\
    r2_entropy a = Some eh /\ length entropy = 32%nat /\
    length (r2_blinder a) = 32%nat /\ r2_blinder a <> zero32b /\ 0 < r2_asset a /\ 0 < r2_token a /\
    compute_asset entropy = Some asset /\
    compute_token entropy 1 = Some token /\
    v2_outs p' = v2_outs p ++ [v2_new_output asset (r2_asset a) (r2_aaddr a) 0 bidx;
                               v2_new_output token (r2_token a) (r2_taddr a) 0 bidx] /\
    v2_ins p' = iss_set_nth k (fun _ => v2_reissued_input input a entropy) (v2_ins p) /\
    nth_error (v2_ins p') k = Some (v2_reissued_input input a entropy).
Proof. exact v2_reissuance_outputs_pay_derived_ids. Qed.
Print Assumptions C13_v2_reissuance_outputs_pay_derived_ids.

(* issuance fields of UnsignedTx and Extract versus the packet: every input, zero amounts included *)
Theorem C13_tx_issuance_fields_agree_with_packet : forall i,
  vi_vcommit i = None -> vi_kcommit i = None ->
  unsigned_issuance i = expected_issuance i /\ extract_issuance i = expected_issuance i.
Proof. exact tx_issuance_fields_agree_with_packet. Qed.
Print Assumptions C13_tx_issuance_fields_agree_with_packet.

Theorem C13_unsigned_and_extract_agree : forall i, unsigned_issuance i = extract_issuance i.
Proof. exact unsigned_and_extract_agree. Qed.
Print Assumptions C13_unsigned_and_extract_agree.

Theorem C13_v2_new_issuance_tx_fields : forall input a,
  vi_vcommit input = None -> vi_kcommit input = None ->
  let want := Some (mk_iss zero32b (chash_of (ia_contract a)) (spec_amount (ia_asset a)) (spec_amount (ia_token a))) in
  expected_issuance (v2_issued_input input a) = want /\
  unsigned_issuance (v2_issued_input input a) = want /\
  extract_issuance (v2_issued_input input a) = want.
Proof. exact v2_new_issuance_tx_fields. Qed.
Print Assumptions C13_v2_new_issuance_tx_fields.

Theorem C13_v2_reissuance_tx_fields : forall input a entropy,
  vi_vcommit input = None -> vi_kcommit input = None -> vi_keys input = 0 -> 0 < r2_asset a ->
  let i := v2_reissued_input input a entropy in
  unsigned_issuance i = Some (mk_iss (r2_blinder a) entropy (spec_amount (r2_asset a)) [x00]) /\
  extract_issuance i = unsigned_issuance i /\ expected_issuance i = unsigned_issuance i.
Proof. exact v2_reissuance_tx_fields. Qed.
Print Assumptions C13_v2_reissuance_tx_fields.

(* pset v0 *)
Theorem C13_v0_issuance_outputs_pay_derived_ids : forall p a p',
  v0_add_issuance p a = (true, p') ->
  exists idx i entropy asset token,
    find_empty (t_ins (v0_tx p)) 0 = Some (idx, i) /\ nth_error (t_ins (v0_tx p)) idx = Some i /\
    compute_entropy (in_hash i) (in_index i) (chash_of (ia_contract a)) = Some entropy /\
    compute_asset entropy = Some asset /\
    compute_token entropy (iss_flag_of (ad_conf (ia_aaddr a))) = Some token /\
    t_outs (v0_tx p') = t_outs (v0_tx p) ++
      (if 0 <? ia_asset a then [new_tx_output (explicit_asset asset) (spec_amount (ia_asset a)) (ad_script (ia_aaddr a))] else []) ++
      (if 0 <? ia_token a then [new_tx_output (explicit_asset token) (spec_amount (ia_token a)) (ad_script (ia_taddr a))] else []) /\
    t_ins (v0_tx p') = iss_set_nth idx (fun x => set_in_iss x (v0_issued_issuance a)) (t_ins (v0_tx p)) /\
    nth_error (t_ins (v0_tx p')) idx = Some (set_in_iss i (v0_issued_issuance a)) /\
    option_map (fun ie => iss_entropy (ie_iss ie)) (new_from_input (in_hash i) (in_index i) (v0_issued_issuance a)) = Some entropy /\
    (0 < ia_token a -> ad_present (ia_aaddr a) = true -> ad_conf (ia_aaddr a) = ad_conf (ia_taddr a)).
Proof. exact v0_issuance_outputs_pay_derived_ids. Qed.
Print Assumptions C13_v0_issuance_outputs_pay_derived_ids.

Theorem C13_v0_reissuance_outputs_pay_derived_ids : forall p a p',
  v0_nin p = lenL (t_ins (v0_tx p)) ->
  v0_add_reissuance p a = (true, p') ->
  exists hh eh asset token,
    let entropy := rev eh in
    rva_hash a = Some hh /\ length hh = 32%nat /\ rva_entropy a = Some eh /\ length entropy = 32%nat /\
    0 < rva_asset a /\ 0 < rva_token a /\ length (rva_blinder a) = 32%nat /\
    compute_asset entropy = Some asset /\
    compute_token entropy 1 = Some token /\
    t_outs (v0_tx p') = t_outs (v0_tx p) ++
      [new_tx_output (explicit_asset asset) (spec_amount (rva_asset a)) (ad_script (rva_aaddr a));
       new_tx_output (explicit_asset token) (spec_amount (rva_token a)) (ad_script (rva_taddr a))] /\
    t_ins (v0_tx p') = t_ins (v0_tx p) ++
      [set_in_iss (new_tx_input (rev hh) (rva_index a))
                  (mk_iss (rva_blinder a) entropy (spec_amount (rva_asset a)) [x00])].
Proof. exact v0_reissuance_outputs_pay_derived_ids. Qed.
Print Assumptions C13_v0_reissuance_outputs_pay_derived_ids.

(* histories: over any sequence of calls on one updater, an issuance or reissuance once attached to an
   input is never replaced (so the outputs earlier calls added keep the input that issues them) *)
Theorem C13_v0_history_keeps_issuances : forall ops p, v0_inv p ->
  v0_keeps p (fold_left v0_step ops p) /\ v0_inv (fold_left v0_step ops p).
Proof. exact v0_history_keeps_issuances. Qed.
Print Assumptions C13_v0_history_keeps_issuances.

Theorem C13_v0_add_issuance_needs_a_free_input : forall p a,
  (forall x, In x (t_ins (v0_tx p)) -> in_iss x <> None) -> v0_add_issuance p a = (false, p).
Proof. exact v0_add_issuance_needs_a_free_input. Qed.
Print Assumptions C13_v0_add_issuance_needs_a_free_input.

Theorem C13_v2_history_keeps_issuances : forall ops p, v2_keeps p (fold_left v2_step ops p).
Proof. exact v2_history_keeps_issuances. Qed.
Print Assumptions C13_v2_history_keeps_issuances.

Theorem C13_v2_refused_calls_change_nothing : forall p idx,
  (forall a p', v2_add_in_issuance p idx a = (false, p') -> p' = p) /\
  (forall a p', v2_add_in_reissuance p idx a = (false, p') -> p' = p).
Proof. exact v2_refused_calls_change_nothing. Qed.
Print Assumptions C13_v2_refused_calls_change_nothing.

Theorem C13_pegin_input_keeps_its_issuance : forall i,
  vi_vcommit i = None -> vi_kcommit i = None ->
  unsigned_pegin i = vi_pegin i /\ extract_pegin i = vi_pegin i /\
  unsigned_issuance i = expected_issuance i /\ extract_issuance i = expected_issuance i.
Proof. exact pegin_input_keeps_its_issuance. Qed.
Print Assumptions C13_pegin_input_keeps_its_issuance.
