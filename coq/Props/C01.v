(* Props/C01.v — property theorems only. *)
From GE Require Import Lib.Bytes Lib.Varint Model.Tx Model.Block Proofs.TxCodec Proofs.BlockCodec Proofs.GenTie.
Open Scope N_scope.

(* every well-formed transaction: parse (serialize t) = t, consuming exactly what was written *)
Theorem C01_tx_parse_ser : forall t rest,
  wf_tx t = true -> parse_tx (ser_full t ++ rest) = Some (norm_tx t, rest).
Proof. exact tx_parse_ser. Qed.
Print Assumptions C01_tx_parse_ser.

(* every accepted byte string with a canonical flag re-serializes to the bytes consumed *)
Theorem C01_tx_ser_parse : forall bs t rest,
  parse_tx bs = Some (t, rest) -> canonical_flag t = true -> ser_full t ++ rest = bs.
Proof. exact tx_ser_parse. Qed.
Print Assumptions C01_tx_ser_parse.

Theorem C01_tx_parsed_is_wf : forall bs t rest,
  parse_tx bs = Some (t, rest) -> canonical_flag t = true -> wf_tx t = true.
Proof. exact parse_tx_wf. Qed.
Print Assumptions C01_tx_parsed_is_wf.

(* varints: every 64-bit value round-trips and only canonical encodings are accepted *)
Theorem C01_varint_roundtrip : forall v r, v < two64 -> p_varint (varint v ++ r) = Some (v, r).
Proof. exact p_varint_app. Qed.
Print Assumptions C01_varint_roundtrip.

Theorem C01_varint_canonical : forall bs v r, p_varint bs = Some (v, r) -> bs = varint v ++ r /\ v < two64.
Proof. exact p_varint_inv. Qed.
Print Assumptions C01_varint_canonical.

(* block headers: signed-block proof form and dynamic-federation form, compact and full parameters *)
Theorem C01_header_parse_ser : forall h rest,
  wf_header h = true -> parse_header (ser_header false h ++ rest) = Some (h, rest).
Proof. exact header_parse_ser. Qed.
Print Assumptions C01_header_parse_ser.

Theorem C01_header_ser_parse : forall bs h rest,
  parse_header bs = Some (h, rest) -> ser_header false h ++ rest = bs /\ wf_header h = true.
Proof. exact header_ser_parse. Qed.
Print Assumptions C01_header_ser_parse.

(* whole blocks *)
Theorem C01_block_parse_ser : forall b rest,
  wf_block b = true -> parse_block (ser_block b ++ rest) = Some (norm_block b, rest).
Proof. exact block_parse_ser. Qed.
Print Assumptions C01_block_parse_ser.

Theorem C01_block_ser_parse : forall bs b rest,
  parse_block bs = Some (b, rest) -> forallb canonical_flag (b_txs b) = true -> ser_block b ++ rest = bs.
Proof. exact block_ser_parse. Qed.
Print Assumptions C01_block_ser_parse.

(* the model's constants are the constants of today's Go source *)
Theorem C01_constants_tied : tx_consts_tied.
Proof. exact tx_consts_tied_holds. Qed.
Print Assumptions C01_constants_tied.
