(* Props/C07.v — property theorems only. *)
From GE Require Import Lib.Bytes Lib.Varint Model.Tx Model.PsetV2 Proofs.PsetV2 Proofs.PsetV2Ex Proofs.PsetV2Inv.
Open Scope N_scope.

(* every well-formed packet (every optional field independently present or absent, any number of
   inputs and outputs, pre-image maps of any size, proprietary entries of any identifier, whatever
   the external validators answer) serializes, and its bytes followed by anything parse back to the
   packet in normal form (maps in key order, empty Identifier = "pset", all-zero Modifiable = absent) *)
Theorem C07_pset_parse_ser : forall pk der xo canon p,
  wf_pset pk der xo canon p = true ->
  exists bs, ser_pset p = ROk bs /\ forall rest, parse_pset pk der xo canon (bs ++ rest) = ROk (norm_pset p).
Proof. exact pset_parse_ser. Qed.
Print Assumptions C07_pset_parse_ser.

(* the generic field-table lemma behind it: any table whose decode labels are distinct one-byte keys *)
Theorem C07_section_roundtrip : forall pk der xo canon tbl sanity s,
  tbl_ok tbl = true -> wf_sec pk der xo canon tbl sanity s = true ->
  exists bs, ser_section tbl s = ROk bs /\ bs <> [] /\
    forall rest, parse_section pk der xo canon tbl sanity (bs ++ rest) = ROk (norm_sec tbl s, rest).
Proof. exact section_roundtrip. Qed.
Print Assumptions C07_section_roundtrip.

(* the hypotheses are satisfiable: a packet using fields of every kind, and the packets that were
   refutation witnesses before the repairs (height locktime alone and with a time locktime, peg-in
   value, a two-entry pre-image map in either listing order, proprietary entries of a foreign, the
   pset and the empty identifier, 253 inputs, a derivation with an empty path, a 44-byte witness UTXO)
   are well formed and round-trip *)
Theorem C07_wf_nonvacuous : wf_pset o_true o_true o_true o_id ex_pset = true.
Proof. exact ex_pset_wf. Qed.
Print Assumptions C07_wf_nonvacuous.
Theorem C07_repaired_witnesses_roundtrip :
  rt_check ex_height = true /\ rt_check ex_both = true /\ rt_check ex_pegin = true /\
  rt_check ex_map12 = true /\ rt_check ex_map21 = true /\ rt_check ex_foreign = true /\
  count_check ex_stream_253 = true /\ foreign_kept_check = true /\
  rt_check ex_empty_path = true /\ rt_check ex_short_utxo = true.
Proof.
  exact (conj ex_height_rt (conj ex_both_rt (conj ex_pegin_rt (conj ex_map12_rt (conj ex_map21_rt
        (conj ex_foreign_rt (conj ex_count_253 (conj ex_foreign_kept (conj ex_empty_path_rt ex_short_utxo_rt))))))))). 
Qed.
Print Assumptions C07_repaired_witnesses_roundtrip.

(* serialization never fails, and it is a function of the abstract packet: packets that differ only
   in the order in which their pre-image maps are listed give the same bytes *)
Theorem C07_ser_total : forall p, exists bs, ser_pset p = ROk bs.
Proof. exact ser_pset_total. Qed.
Print Assumptions C07_ser_total.
Theorem C07_ser_deterministic : forall p q, pset_equiv p q -> maps_distinct p -> ser_pset p = ser_pset q.
Proof. exact ser_deterministic. Qed.
Print Assumptions C07_ser_deterministic.

(* kinds: unknown and proprietary entries (of any identifier) keep list, order, key and value *)
Theorem C07_kinds_preserved : forall pk der xo canon p, wf_pset pk der xo canon p = true ->
  exists bs p', ser_pset p = ROk bs /\ parse_pset pk der xo canon bs = ROk p' /\
    s_props (p_global p') = map norm_pd (s_props (p_global p)) /\ s_unks (p_global p') = s_unks (p_global p) /\
    map s_props (p_ins p') = map (fun s => map norm_pd (s_props s)) (p_ins p) /\ map s_unks (p_ins p') = map s_unks (p_ins p) /\
    map s_props (p_outs p') = map (fun s => map norm_pd (s_props s)) (p_outs p) /\ map s_unks (p_outs p') = map s_unks (p_outs p).
Proof. exact kinds_preserved. Qed.
Print Assumptions C07_kinds_preserved.

(* second clause: parse, serialize, parse is the identity (up to the normal form) on EVERY accepted
   encoding under the premise pset_ext, which asks only that in each input (i) a witness UTXO that is
   present has the 44 canonical bytes readTxOut asks for and (ii) the peg-in transaction (decoded by
   btcd wire.MsgTx, an oracle without laws here) re-decodes to itself; the non-witness UTXO needs no
   premise (C01 theorems, any flag byte).  Premise (i) cannot be dropped: a 36-byte witness UTXO (null
   value) followed by eight stray bytes is accepted and its re-serialization is rejected. *)
Theorem C07_parsed_wf : forall pk der xo canon bs p,
  parse_pset pk der xo canon bs = ROk p -> pset_ext pk canon p -> wf_pset pk der xo canon p = true.
Proof. exact parsed_wf. Qed.
Print Assumptions C07_parsed_wf.
Theorem C07_pset_parse_ser_parse : forall pk der xo canon bs p,
  parse_pset pk der xo canon bs = ROk p -> pset_ext pk canon p ->
  exists bs', ser_pset p = ROk bs' /\ parse_pset pk der xo canon bs' = ROk (norm_pset p).
Proof. exact pset_parse_ser_parse. Qed.
Print Assumptions C07_pset_parse_ser_parse.
Theorem C07_witness_utxo_trailing_refuted :
  exists p bs', parse_pset o_true o_true o_true o_id ex_stream_utxo_trailing = ROk p /\ ser_pset p = ROk bs' /\
                parse_pset o_true o_true o_true o_id bs' = RErr.
Proof. exact witness_utxo_trailing_refuted. Qed.
Print Assumptions C07_witness_utxo_trailing_refuted.
Theorem C07_nonwitness_utxo_stable : forall pk canon v t r,
  parse_tx v = Some (t, r) -> lenN v < two64 -> s_wf pk canon KTx false (ser_full t) = true.
Proof. intros pk canon. exact (tx_stable_any pk pk pk canon). Qed.
Print Assumptions C07_nonwitness_utxo_stable.
Theorem C07_witness_utxo_stable : forall pk canon v b,
  read_txout v = Some b -> (44 <= length b)%nat -> lenN v < two64 -> s_wf pk canon KTxOut false b = true.
Proof. intros pk canon. exact (txout_stable pk pk pk canon). Qed.
Print Assumptions C07_witness_utxo_stable.

(* the parser is total and never panics (after 78a1990) *)
Theorem C07_parse_no_panic : forall pk der xo canon bs, parse_pset pk der xo canon bs <> RPanic.
Proof. exact parse_pset_no_panic. Qed.
Print Assumptions C07_parse_no_panic.

(* the tables and constants of the model are those of today's Go source; emit and decode tables agree *)
Theorem C07_tables_tied : pset_tables_tied.
Proof. exact pset_tables_tied_holds. Qed.
Print Assumptions C07_tables_tied.
