(* Props/C18.v — property theorems only. *)
From GE Require Import Lib.Bytes Lib.Heap Lib.Sched Model.Tx Model.Alias Model.FreeList Proofs.Alias Proofs.FreeList.
Import Al.

(* ---- (1) Transaction.Copy: equal, identically serialized, fully independent ---- *)
Theorem C18_copy_eq : forall t, copy_tx t = t.
Proof. exact copy_eq. Qed.
Print Assumptions C18_copy_eq.

Theorem C18_ser_copy : forall t,
  ser_full (copy_tx t) = ser_full t /\ ser_txid (copy_tx t) = ser_txid t /\ ser_wtxid (copy_tx t) = ser_wtxid t.
Proof. exact ser_copy. Qed.
Print Assumptions C18_ser_copy.

(* heap level: every byte slice of the copy reads the same bytes ... *)
Theorem C18_copy_equal_contents : forall h l, Forall (wf_slice h) l ->
  read_all (fst (copy_all h l)) (snd (copy_all h l)) = read_all h l.
Proof. exact copy_equal. Qed.
Print Assumptions C18_copy_equal_contents.

(* ... lives in its own array, shared neither with the original nor with another copied slice ... *)
Theorem C18_copy_shares_no_array : forall h l, Forall (wf_slice h) l ->
  NoDup (map s_arr (snd (copy_all h l))) /\
  forall d s, In d (snd (copy_all h l)) -> In s l -> s_arr d <> s_arr s.
Proof. exact copy_shares_no_array. Qed.
Print Assumptions C18_copy_shares_no_array.

(* ... so no later write to either is visible in the other *)
Theorem C18_write_to_copy_invisible_in_original : forall h l a pos d, Forall (wf_slice h) l ->
  length h <= a -> read_all (wr (fst (copy_all h l)) a pos d) l = read_all h l.
Proof. exact write_to_copy_invisible_in_original. Qed.
Print Assumptions C18_write_to_copy_invisible_in_original.

Theorem C18_write_to_original_invisible_in_copy : forall h l a pos d, Forall (wf_slice h) l ->
  a < length h -> read_all (wr (fst (copy_all h l)) a pos d) (snd (copy_all h l)) = read_all h l.
Proof. exact write_to_original_invisible_in_copy. Qed.
Print Assumptions C18_write_to_original_invisible_in_copy.

(* ---- (2) read-only arguments, including the spare capacity behind a slice ---- *)
(* every modelled call site, every growth policy, every heap, every argument configuration,
   every SEQUENCE of calls: the heap that existed before is a prefix of the heap afterwards *)
Theorem C18_calls_only_allocate : forall g h cs, firstn (length h) (fold_left (run_call g) cs h) = h.
Proof. exact calls_only_allocate. Qed.
Print Assumptions C18_calls_only_allocate.

Theorem C18_args_and_spare_capacity_unchanged : forall g h c args,
  Forall (fun s => s_arr s < length h) args -> caller_view (run_call g h c) args = caller_view h args.
Proof. exact args_and_spare_capacity_unchanged. Qed.
Print Assumptions C18_args_and_spare_capacity_unchanged.

Theorem C18_spare_capacity_unchanged : forall g h c s, s_arr s < length h ->
  rd_cap (run_call g h c) s = rd_cap h s /\ rd (run_call g h c) s = rd h s.
Proof. exact spare_capacity_unchanged. Qed.
Print Assumptions C18_spare_capacity_unchanged.

(* the getter that used to write: the stored UTXO objects are untouched *)
Theorem C18_get_utxo_frame : forall os i, firstn (length os) (fst (get_utxo os i)) = os.
Proof. exact get_utxo_frame. Qed.
Print Assumptions C18_get_utxo_frame.

(* the append semantics the theorems above are about *)
Theorem C18_append_in_place_writes : forall g h s d, wf_slice h s -> s_len s + length d <= s_cap s ->
  arr (fst (go_append g h s d)) (s_arr s) =
  firstn (s_off s + s_len s) (arr h (s_arr s)) ++ d ++ skipn (s_off s + s_len s + length d) (arr h (s_arr s)).
Proof. exact append_in_place_writes. Qed.
Print Assumptions C18_append_in_place_writes.

(* the PSET v2 tap emitters produce pubkey ++ leaf hash for every pair, read after all were built *)
Theorem C18_tap_script_sigs_reads : forall g sigs h,
  Forall (fun p => wf_slice h (fst p) /\ wf_slice h (snd p)) sigs ->
  map (rd (fst (tap_script_sigs g h sigs))) (snd (tap_script_sigs g h sigs)) =
  map (fun p => rd h (fst p) ++ rd h (snd p)) sigs.
Proof. exact tap_script_sigs_reads. Qed.
Print Assumptions C18_tap_script_sigs_reads.

(* ---- (4) package-level values; repeat-call determinism ---- *)
Theorem C18_constants_never_written : forall g rest cs,
  firstn (length pkg_globals) (fold_left (run_call g) cs (pkg_globals ++ rest)) = pkg_globals.
Proof. exact constants_never_written. Qed.
Print Assumptions C18_constants_never_written.

Theorem C18_arguments_read_the_same_after_any_calls : forall g h cs s, s_arr s < length h ->
  rd (fold_left (run_call g) cs h) s = rd h s.
Proof. exact arguments_read_the_same_after_any_calls. Qed.
Print Assumptions C18_arguments_read_the_same_after_any_calls.

(* ---- (3) the shared free list under every goroutine schedule ---- *)
Theorem C18_exclusive_ownership : forall cap progs sch,
  let st := FL.run_sched false cap (FL.init progs) sch in
  NoDup (FL.chan st) /\
  (forall i t b, nth_error (FL.threads st) i = Some t -> FL.holds (FL.t_pc t) = Some b -> ~ In b (FL.chan st)) /\
  (forall i j ti tj b, i <> j -> nth_error (FL.threads st) i = Some ti -> nth_error (FL.threads st) j = Some tj ->
     FL.holds (FL.t_pc ti) = Some b -> FL.holds (FL.t_pc tj) = Some b -> False).
Proof. exact exclusive_ownership. Qed.
Print Assumptions C18_exclusive_ownership.

Theorem C18_free_list_bounded : forall cap progs sch,
  length (FL.chan (FL.run_sched false cap (FL.init progs) sch)) <= cap.
Proof. exact free_list_bounded. Qed.
Print Assumptions C18_free_list_bounded.

Theorem C18_each_write_emits_its_own_value : forall cap progs sch i t,
  nth_error (FL.threads (FL.run_sched false cap (FL.init progs) sch)) i = Some t ->
  (exists p, nth_error progs i = Some p /\ FL.t_done t ++ FL.t_todo t = fst p) /\
  (FL.t_out t = FL.spec_out (FL.t_done t) \/
   exists n v r, FL.t_todo t = FL.Put n v :: r /\ FL.t_out t = FL.spec_out (FL.t_done t ++ [FL.Put n v])) /\
  Forall res_ok (FL.t_res t).
Proof. exact each_write_emits_its_own_value. Qed.
Print Assumptions C18_each_write_emits_its_own_value.

(* returning the buffer before its last use is refuted by a schedule (the seeded-bug shape) *)
Theorem C18_early_return_refuted :
  exists sch,
    let st := FL.run_sched true FL.flist_cap (FL.init [([FL.Get 2], [x34; x12]); ([FL.Put 2 0xBEEF%N], [])]) sch in
    exists t, nth_error (FL.threads st) 0 = Some t /\ FL.t_res t = [([x34; x12], Some 0xBEEF%N)] /\
              le_dec [x34; x12] = 0x1234%N.
Proof. exact early_return_breaks_read_value. Qed.
Print Assumptions C18_early_return_refuted.
