(* Spec/ElementsSighash.v — the Elements signature-hash layouts written from the
   specifications (Elements legacy serializer, BIP-143 + Elements issuance hash,
   BIP-341 + Elements "TapSighash/elements"), independently of the Go code, on the
   domain where the layout is fixed by the specification and published vectors:
     legacy   : base type ALL or NONE without ANYONECANPAY/RANGEPROOF, and SINGLE on input 0;
     segwit v0: every base type, with and without ANYONECANPAY, without RANGEPROOF;
     taproot  : key path and script path, with and without annex, every hash type.
   Each layout is a list of named parts, concatenated. *)
From GE Require Export Lib.Bytes Lib.Varint Lib.Sha256 Model.Tx.
Open Scope N_scope.

Definition part := (list byte)%type.
Definition layout (ps : list part) : bytes := concat ps.

Definition u32 (v : N) : part := le_enc 4 v.
Definition u8 (v : N) : part := [b8 v].
Definition zero_hash : part := repeat x00 32.

(* serialization of transaction pieces as the Elements node writes them *)
Definition S_outpoint (i : txin) : part := in_hash i ++ u32 (in_index i).
Definition S_issuance (s : issuance) : part := iss_nonce s ++ iss_entropy s ++ iss_amount s ++ iss_token s.
Definition S_issuance_or_null (i : txin) : part := match in_iss i with Some s => S_issuance s | None => u8 0 end.
Definition S_txout (o : txout) : part := o_asset o ++ o_value o ++ o_nonce o ++ var_slice (o_script o).
Definition S_all {A} (f : A -> part) (l : list A) : part := concat (map f l).

Definition base_type (ht : N) : N := ht mod 32.
Definition anyonecanpay (ht : N) : bool := 128 <=? ht mod 256.

(* ---------------- segwit v0 (BIP-143 with the Elements additions) ---------------- *)
Definition spec_v0_preimage (t : tx) (idx : nat) (script_code amount : bytes) (ht : N) : option bytes :=
  match nth_error (t_ins t) idx with
  | None => None
  | Some txin =>
      let acp := anyonecanpay ht in
      let bt := base_type ht in
      let hashPrevouts := if acp then zero_hash else dsha256 (S_all S_outpoint (t_ins t)) in
      let hashSequence := if acp || (bt =? 3) || (bt =? 2) then zero_hash
                          else dsha256 (S_all (fun i => u32 (in_seq i)) (t_ins t)) in
      let hashIssuance := if acp then zero_hash else dsha256 (S_all S_issuance_or_null (t_ins t)) in
      let hashOutputs :=
        if (bt =? 3) then match nth_error (t_outs t) idx with Some o => dsha256 (S_txout o) | None => zero_hash end
        else if (bt =? 2) then zero_hash
        else dsha256 (S_all S_txout (t_outs t)) in
      Some (layout [
        u32 (t_version t); hashPrevouts; hashSequence; hashIssuance;
        S_outpoint txin; var_slice script_code; amount; u32 (in_seq txin);
        match in_iss txin with Some s => S_issuance s | None => [] end;
        hashOutputs; u32 (t_locktime t); u32 ht ])
  end.

Definition spec_v0_digest t idx script_code amount ht : option bytes :=
  option_map dsha256 (spec_v0_preimage t idx script_code amount ht).

(* ---------------- legacy ---------------- *)
Definition S_outpoint_flags (i : txin) : part :=
  in_hash i ++ u32 (in_index i + (match in_iss i with Some _ => 0x80000000 | None => 0 end)
                               + (if in_pegin i then 0x40000000 else 0)).

Fixpoint legacy_inputs (k idx : nat) (script_code : bytes) (zero_seq : bool) (l : list txin) : part :=
  match l with
  | [] => []
  | i :: r =>
      S_outpoint_flags i ++
      (if (k =? idx)%nat then var_slice script_code else u8 0) ++
      u32 (if (k =? idx)%nat then in_seq i else if zero_seq then 0 else in_seq i) ++
      match in_iss i with Some s => S_issuance s | None => [] end ++
      legacy_inputs (S k) idx script_code zero_seq r
  end.

(* domain: no ANYONECANPAY, no RANGEPROOF; SINGLE only for idx = 0 *)
Definition spec_legacy_preimage (t : tx) (idx : nat) (script_code : bytes) (ht : N) : option bytes :=
  let bt := base_type ht in
  if (length (t_ins t) <=? idx)%nat then None
  else if (bt =? 3) && (length (t_outs t) <=? idx)%nat then None
  else
    let outs := if bt =? 2 then [] else if bt =? 3 then firstn 1 (t_outs t) else t_outs t in
    Some (layout [
      u32 (t_version t);
      varint (lenL (t_ins t)); legacy_inputs 0 idx script_code ((bt =? 2) || (bt =? 3)) (t_ins t);
      varint (lenL outs); S_all S_txout outs;
      u32 (t_locktime t); u32 (ht mod 256) ]).

(* ANYONECANPAY (no RANGEPROOF; SINGLE only for idx = 0): the input vector holds the signing input alone, with the
   script code and its own sequence; outputs as for the base type *)
Definition spec_legacy_acp_preimage (t : tx) (idx : nat) (script_code : bytes) (ht : N) : option bytes :=
  let bt := base_type ht in
  match nth_error (t_ins t) idx with
  | None => None
  | Some own =>
      if (bt =? 3) && (length (t_outs t) <=? idx)%nat then None
      else
        let outs := if bt =? 2 then [] else if bt =? 3 then firstn 1 (t_outs t) else t_outs t in
        Some (layout [
          u32 (t_version t);
          varint 1; S_outpoint_flags own; var_slice script_code; u32 (in_seq own);
          match in_iss own with Some s => S_issuance s | None => [] end;
          varint (lenL outs); S_all S_txout outs;
          u32 (t_locktime t); u32 (ht mod 256) ])
  end.

Definition spec_legacy_digest t idx script_code ht : bytes :=
  match (if anyonecanpay ht then spec_legacy_acp_preimage t idx script_code ht
         else spec_legacy_preimage t idx script_code ht) with
  | Some p => dsha256 p
  | None => repeat x00 31 ++ [x01]
  end.

(* ---------------- taproot (BIP-341, Elements variant) ---------------- *)
Record spent := mk_spent { sp_script : bytes; sp_asset : bytes; sp_value : bytes }.

Definition outpoint_flag (i : txin) : N :=
  (match in_iss i with Some _ => 128 | None => 0 end) + (if in_pegin i then 64 else 0).
Definition S_issuance_proofs (i : txin) : part := var_slice (in_irp i) ++ var_slice (in_inrp i).
Definition S_out_witness (o : txout) : part := var_slice (o_sp o) ++ var_slice (o_rp o).

Definition spec_v1_preimage (t : tx) (idx : nat) (spents : list spent) (genesis : bytes)
           (leaf : option bytes) (annex : option bytes) (ht : N) : option bytes :=
  match nth_error (t_ins t) idx, nth_error spents idx with
  | Some txin, Some me =>
      let acp := anyonecanpay ht in
      let out_t := if ht =? 0 then 1 else ht mod 4 in
      let spend_type := (match leaf with Some _ => 2 | None => 0 end) + (match annex with Some _ => 1 | None => 0 end) in
      Some (layout [
        genesis; genesis; u8 ht; u32 (t_version t); u32 (t_locktime t);
        (if acp then [] else layout [
           sha256 (S_all (fun i => u8 (outpoint_flag i)) (t_ins t));
           sha256 (S_all S_outpoint (t_ins t));
           sha256 (S_all (fun s => sp_asset s ++ sp_value s) spents);
           sha256 (S_all (fun s => var_slice (sp_script s)) spents);
           sha256 (S_all (fun i => u32 (in_seq i)) (t_ins t));
           sha256 (S_all S_issuance_or_null (t_ins t));
           sha256 (S_all S_issuance_proofs (t_ins t)) ]);
        (if (out_t =? 2) || (out_t =? 3) then [] else layout [
           sha256 (S_all S_txout (t_outs t)); sha256 (S_all S_out_witness (t_outs t)) ]);
        u8 spend_type;
        (if acp then layout [
           u8 (outpoint_flag txin); S_outpoint txin; sp_asset me; sp_value me; var_slice (sp_script me); u32 (in_seq txin);
           match in_iss txin with
           | Some s => S_issuance s ++ sha256 (S_issuance_proofs txin)
           | None => u8 0 end ]
         else u32 (N.of_nat idx));
        match annex with Some a => sha256 (var_slice a) | None => [] end;
        (if out_t =? 3 then
           match nth_error (t_outs t) idx with
           | Some o => layout [ sha256 (S_txout o); sha256 (S_out_witness o) ]
           | None => [] end
         else []);
        match leaf with Some l => layout [ l; u8 0; u32 0xffffffff ] | None => [] end ])
  | _, _ => None
  end.

Definition spec_v1_digest t idx spents genesis leaf annex ht : option bytes :=
  option_map (tagged_hash (map b8 [84;97;112;83;105;103;104;97;115;104;47;101;108;101;109;101;110;116;115]))
             (spec_v1_preimage t idx spents genesis leaf annex ht).
