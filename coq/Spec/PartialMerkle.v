(* Spec/PartialMerkle.v — Bitcoin's merkle tree and partial merkle tree (BIP 37), as a
   specification that does not look at the Go code.

   A block's merkle tree over the transaction ids t_0 .. t_{n-1} has the ids as its
   leaves (height 0); a node at height h+1 hashes its two children, and where the
   right child does not exist (odd width at that level) the left child is hashed with
   itself.  [merkle_root] is the level-by-level computation of Bitcoin's
   ComputeMerkleRoot; [mtree] is the same tree as a datatype ([Node1] = "right child
   missing, left one duplicated"), [tree_of] builds it from the leaves, [thash] is
   CalcHash.  The partial merkle tree (CPartialMerkleTree::TraverseAndBuild) is a
   depth-first walk that emits one flag bit per visited node ("some leaf below is
   matched") and one hash per node where the walk stops (unmatched subtree, or leaf).
   Definitions only; generic in the node type A and the node hash H. *)
From GE Require Export Lib.Bytes.
Open Scope N_scope.

Section Spec.
Variable A : Type.
Variable H : A -> A -> A.

(* ---------- the block's merkle root, level by level ---------- *)
Fixpoint pair_up (l : list A) : list A :=
  match l with
  | [] => []
  | [a] => [H a a]
  | a :: b :: r => H a b :: pair_up r
  end.

Fixpoint root_levels (fuel : nat) (l : list A) : option A :=
  match l with
  | [] => None
  | [a] => Some a
  | _ => match fuel with O => None | S f => root_levels f (pair_up l) end
  end.

(* a list of n >= 1 ids needs fewer than n halvings *)
Definition merkle_root (l : list A) : option A := root_levels (length l) l.

(* ---------- the tree as a datatype ---------- *)
Inductive mtree : Type :=
| Leaf (a : A) (m : bool)          (* transaction id, "is matched" *)
| Node2 (l r : mtree)
| Node1 (l : mtree).               (* no right child: the left one is duplicated *)

(* subtree of height h over the front of l, and the leaves that are left over *)
Fixpoint ttake (h : nat) (l : list (A * bool)) : option (mtree * list (A * bool)) :=
  match h with
  | O => match l with (a, m) :: r => Some (Leaf a m, r) | [] => None end
  | S h' =>
      match ttake h' l with
      | None => None
      | Some (tl, r) =>
          match r with
          | [] => Some (Node1 tl, [])
          | _ :: _ => match ttake h' r with
                      | None => None
                      | Some (tr, r') => Some (Node2 tl tr, r')
                      end
          end
      end
  end.

(* tree height: the least h with n <= 2^h *)
Definition tree_height (n : N) : nat := N.to_nat (N.log2_up n).

Definition tree_of (l : list (A * bool)) : option mtree :=
  match ttake (tree_height (lenL l)) l with
  | Some (t, []) => Some t
  | _ => None
  end.

Fixpoint thash (t : mtree) : A :=
  match t with
  | Leaf a _ => a
  | Node2 l r => H (thash l) (thash r)
  | Node1 l => H (thash l) (thash l)
  end.

Fixpoint tleaves (t : mtree) : list (A * bool) :=
  match t with
  | Leaf a m => [(a, m)]
  | Node2 l r => tleaves l ++ tleaves r
  | Node1 l => tleaves l
  end.

Fixpoint tany (t : mtree) : bool :=
  match t with
  | Leaf _ m => m
  | Node2 l r => tany l || tany r
  | Node1 l => tany l
  end.

(* ---------- the partial merkle tree of a tree ---------- *)
Fixpoint tbits (t : mtree) : list bool :=
  if tany t then
    true :: match t with
            | Leaf _ _ => []
            | Node2 l r => tbits l ++ tbits r
            | Node1 l => tbits l
            end
  else [false].

Fixpoint thashes (t : mtree) : list A :=
  if tany t then
    match t with
    | Leaf a _ => [a]
    | Node2 l r => thashes l ++ thashes r
    | Node1 l => thashes l
    end
  else [thash t].

(* the matched ids, in block order *)
Definition matched (l : list (A * bool)) : list A := map fst (filter snd l).

(* flag bits are shipped in bytes: zero padding up to a multiple of eight *)
Definition pad8 (bits : list bool) : list bool :=
  bits ++ repeat false ((8 - length bits mod 8) mod 8)%nat.

(* build txids-with-match-flags = (flag bits as shipped, hashes) *)
Definition build (l : list (A * bool)) : option (list bool * list A) :=
  match tree_of l with
  | Some t => Some (pad8 (tbits t), thashes t)
  | None => None
  end.

End Spec.

Arguments Leaf {A}. Arguments Node2 {A}. Arguments Node1 {A}.
