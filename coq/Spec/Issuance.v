(* Spec/Issuance.v — the Elements issuance derivation, written from the Elements
   definitions (issuance.cpp: GenerateAssetEntropy, CalculateAsset, CalculateReissuanceToken)
   and independently of Model/Issuance.v.

     entropy = FastMerkleRoot [ SHA256d(serialised outpoint) ; contract_hash ]
     asset   = FastMerkleRoot [ entropy ; 0^32 ]
     token   = FastMerkleRoot [ entropy ; k 0^31 ]      k = 2 if the issuance is confidential, else 1

   where the fast merkle root of two 32-byte leaves is the SHA-256 chaining value after
   compressing the 64-byte block (left || right) from the initial state, with no padding
   and no length block.  The derivation is stated over an arbitrary compression function
   [cmp] so that collision freedom can be a hypothesis; [sha256_midstate] is the real one. *)
From GE Require Import Lib.Bytes Lib.Sha256.
Open Scope N_scope.

(* the real compression of one block from the SHA-256 initial state, as 32 bytes *)
Definition sha256_midstate (block : bytes) : bytes := digest_of (compress IV256 block).

(* COutPoint serialisation: 32-byte hash, 32-bit little-endian index *)
Definition ser_outpoint (hash : bytes) (n : N) : bytes := hash ++ le_enc 4 n.

Section Derivation.
  Variable cmp : bytes -> bytes.       (* 64-byte block -> chaining value *)
  Variable H : bytes -> bytes.         (* SHA-256 *)

  Definition fast_merkle_root2 (l r : bytes) : bytes := cmp (l ++ r).

  Definition entropy_of (hash : bytes) (n : N) (contract_hash : bytes) : bytes :=
    fast_merkle_root2 (H (H (ser_outpoint hash n))) contract_hash.
  Definition asset_of (entropy : bytes) : bytes :=
    fast_merkle_root2 entropy (repeat x00 32).
  Definition token_of (entropy : bytes) (confidential : bool) : bytes :=
    fast_merkle_root2 entropy ((if confidential then x02 else x01) :: repeat x00 31).
End Derivation.

Definition spec_entropy := entropy_of sha256_midstate sha256.
Definition spec_asset := asset_of sha256_midstate.
Definition spec_token := token_of sha256_midstate.

(* amounts in the issuance of a transaction input: absent (0x00) or explicit (0x01, 8 bytes big-endian) *)
Definition spec_amount (v : N) : bytes := if v =? 0 then [x00] else x01 :: be_enc 8 v.

(* the key-sorted contract JSON (keys in byte order, no white space) *)
Definition spec_contract_keys : list (list N) :=
  [[101;110;116;105;116;121]; [105;115;115;117;101;114;95;112;117;98;107;101;121]; [110;97;109;101];
   [112;114;101;99;105;115;105;111;110]; [116;105;99;107;101;114]; [118;101;114;115;105;111;110]].
