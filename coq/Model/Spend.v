(* Model/Spend.v — C09: signer, finalizer and extractor of pset (v0) and psetv2, scripts as data.
   Follows pset/{signer,updater,finalizer,extractor,utils}.go, psetv2/{signer,updater,
   finalizer,extractor,utils,pset}.go and the parts of btcd/txscript they call
   (ScriptBuilder, script tokenizer, multisig / witness-program recognisers).
   Definitions only.

   Conventions.  `option bytes` fields are Go slices whose nil-ness is tested by the code
   (None = nil, Some [] = empty non-nil).  Role functions return the packet *as the code
   leaves it* together with a status, because the Go functions mutate first and check
   afterwards.  Index expressions the Go code does not guard yield StPanic.
   Not modelled (never set by the harness): bip32 derivations, unknowns, proprietary data,
   hash pre-images, explicit value/asset proofs of v2 inputs, peg-in fields other than the
   peg-in witness. *)
From GE Require Export Lib.Bytes Lib.Varint Lib.Sha256 Model.Ripemd160 Model.Tx Model.TxHash.
Open Scope N_scope.

(* ------------------------------------------------------------------ *)
(* outcomes                                                            *)
(* ------------------------------------------------------------------ *)
Inductive rstat := StOk | StErr | StPanic.
Inductive oc (A : Type) := OcOk (a : A) | OcErr | OcPanic.
Arguments OcOk {A} a. Arguments OcErr {A}. Arguments OcPanic {A}.
Definition obind {A B} (x : oc A) (f : A -> oc B) : oc B :=
  match x with OcOk a => f a | OcErr => OcErr | OcPanic => OcPanic end.
Notation "x <~ p ;; q" := (obind p (fun x => q)) (at level 61, p at next level, right associativity).

Definition osome {A} (x : option A) : bool := match x with Some _ => true | None => false end.
Definition onone {A} (x : option A) : bool := negb (osome x).
Definition obytes (x : option bytes) : bytes := match x with Some b => b | None => [] end.

(* l[i] for an untrusted 32-bit index: compare before converting *)
Definition nthN_err {A} (l : list A) (n : N) : option A :=
  if n <? lenL l then nth_error l (N.to_nat n) else None.

Fixpoint lupd {A} (l : list A) (i : nat) (f : A -> A) : list A :=
  match l with
  | [] => []
  | x :: r => match i with O => f x :: r | S j => x :: lupd r j f end
  end.

Fixpoint last_byte (s : bytes) : option byte :=
  match s with [] => None | [b] => Some b | _ :: r => last_byte r end.

(* ------------------------------------------------------------------ *)
(* scripts: builder, tokenizer, recognisers                            *)
(* ------------------------------------------------------------------ *)
Definition SOP_0 : byte := x00.
Definition SOP_PUSHDATA1 : byte := x4c.
Definition SOP_PUSHDATA2 : byte := x4d.
Definition SOP_PUSHDATA4 : byte := x4e.
Definition SOP_1NEGATE : byte := x4f.
Definition SOP_1 : byte := x51.
Definition SOP_DUP : byte := x76.
Definition SOP_EQUAL : byte := x87.
Definition SOP_EQUALVERIFY : byte := x88.
Definition SOP_HASH160 : byte := xa9.
Definition SOP_CHECKSIG : byte := xac.
Definition SOP_CHECKMULTISIG : byte := xae.
Definition MaxScriptSize : N := 10000.
Definition MaxScriptElementSize : N := 520.

(* ScriptBuilder.addData *)
Definition add_data_raw (d : bytes) : bytes :=
  match d with
  | [] => [SOP_0]
  | [b] =>
      let n := n8 b in
      if n =? 0 then [SOP_0]
      else if n <=? 16 then [b8 (0x50 + n)]
      else if n =? 0x81 then [SOP_1NEGATE]
      else x01 :: d
  | _ =>
      let l := lenN d in
      if l <? 0x4c then b8 l :: d
      else if l <=? 0xff then SOP_PUSHDATA1 :: b8 l :: d
      else if l <=? 0xffff then SOP_PUSHDATA2 :: le_enc 2 l ++ d
      else SOP_PUSHDATA4 :: le_enc 4 l ++ d
  end.

(* a ScriptBuilder is its script, or None once b.err is set *)
Definition builder := option bytes.
Definition sb_new : builder := Some [].
Definition sb_op (b : builder) (op : byte) : builder :=
  match b with
  | Some s => if lenN s + 1 <=? MaxScriptSize then Some (s ++ [op]) else None
  | None => None
  end.
Definition sb_data (b : builder) (d : bytes) : builder :=
  match b with
  | Some s =>
      if (lenN s + lenN (add_data_raw d) <=? MaxScriptSize) && (lenN d <=? MaxScriptElementSize)
      then Some (s ++ add_data_raw d) else None
  | None => None
  end.

(* script tokenizer (txscript.ScriptTokenizer, script version 0): opcode and pushed data *)
Fixpoint tokenize_f (fuel : nat) (s : bytes) : option (list (byte * bytes)) :=
  match fuel with
  | O => None
  | S f =>
      match s with
      | [] => Some []
      | op :: r =>
          let o := n8 op in
          let pushed : option (bytes * bytes) :=
            if (1 <=? o) && (o <=? 0x4b) then takeN o r
            else if o =? 0x4c then match p_le 1 r with Some (n, r1) => takeN n r1 | None => None end
            else if o =? 0x4d then match p_le 2 r with Some (n, r1) => takeN n r1 | None => None end
            else if o =? 0x4e then match p_le 4 r with Some (n, r1) => takeN n r1 | None => None end
            else Some ([], r) in
          match pushed with
          | None => None
          | Some (d, r') =>
              match tokenize_f f r' with Some l => Some ((op, d) :: l) | None => None end
          end
      end
  end.
Definition tokenize (s : bytes) : option (list (byte * bytes)) := tokenize_f (S (length s)) s.

Definition small_int_op (b : byte) : bool := (n8 b =? 0) || ((0x51 <=? n8 b) && (n8 b <=? 0x60)).
Definition as_small_int (b : byte) : N := if n8 b =? 0 then 0 else n8 b - 0x50.

(* the loop of extractMultisigScriptDetails: ops up to the next small integer *)
Fixpoint ms_count (l : list (byte * bytes)) (n : N) : option (N * byte * list (byte * bytes)) :=
  match l with
  | [] => None
  | (op, d) :: r => if small_int_op op then Some (n, op, r) else ms_count r (n + 1)
  end.

(* CalcMultiSigStats / isMultisigScript: Some (numPubKeys, requiredSigs) *)
Definition ms_stats (s : bytes) : option (N * N) :=
  match tokenize s with
  | Some ((op0, _) :: rest) =>
      if small_int_op op0 then
        match ms_count rest 0 with
        | Some (n, opn, [(ol, [])]) =>
            if (as_small_int opn =? n) && (n8 ol =? n8 SOP_CHECKMULTISIG)
            then Some (n, as_small_int op0) else None
        | _ => None
        end
      else None
  | _ => None
  end.

(* the pushed keys of a multisig script, in script order (used by the evaluator only) *)
Fixpoint ms_keys (l : list (byte * bytes)) : list bytes :=
  match l with
  | [] => []
  | (op, d) :: r => if small_int_op op then [] else d :: ms_keys r
  end.
Definition ms_parse (s : bytes) : option (N * list bytes) :=
  match ms_stats s, tokenize s with
  | Some (_, m), Some (_ :: rest) => Some (m, ms_keys rest)
  | _, _ => None
  end.

(* txscript.IsWitnessProgram: small int, then one direct push of 2..40 bytes that ends the script *)
Definition is_witness_program (s : bytes) : bool :=
  match s with
  | v :: l :: prog =>
      (4 <=? lenN s) && (lenN s <=? 42) && small_int_op v && (n8 l =? lenN prog)
  | _ => false
  end.
Definition is_p2sh (s : bytes) : bool :=
  match s with
  | a :: b :: r => (lenN s =? 23) && (n8 a =? 0xa9) && (n8 b =? 0x14) &&
                   match last_byte r with Some e => n8 e =? 0x87 | None => false end
  | _ => false
  end.
Definition is_p2wsh (s : bytes) : bool :=
  match s with a :: b :: _ => (lenN s =? 34) && (n8 a =? 0) && (n8 b =? 0x20) | _ => false end.
Definition is_p2wpkh (s : bytes) : bool :=
  match s with a :: b :: _ => (lenN s =? 22) && (n8 a =? 0) && (n8 b =? 0x14) | _ => false end.
Definition is_p2pkh (s : bytes) : bool :=
  match s with
  | a :: b :: c :: r =>
      (lenN s =? 25) && (n8 a =? 0x76) && (n8 b =? 0xa9) && (n8 c =? 0x14) &&
      bytes_eqb (skipn 20 r) [x88; xac]
  | _ => false
  end.
Definition is_p2tr (s : bytes) : bool :=
  match s with a :: b :: _ => (lenN s =? 34) && (n8 a =? 0x51) && (n8 b =? 0x20) | _ => false end.

(* script templates (data) and their byte encodings *)
Definition p2pkh_script (h : bytes) : bytes := [SOP_DUP; SOP_HASH160; x14] ++ h ++ [SOP_EQUALVERIFY; SOP_CHECKSIG].
Definition p2sh_script (h : bytes) : bytes := [SOP_HASH160; x14] ++ h ++ [SOP_EQUAL].
Definition p2wpkh_script (h : bytes) : bytes := [SOP_0; x14] ++ h.
Definition p2wsh_script (h : bytes) : bytes := [SOP_0; x20] ++ h.
Definition p2tr_script (q : bytes) : bytes := [SOP_1; x20] ++ q.
Definition small_int (n : N) : byte := if n =? 0 then SOP_0 else b8 (0x50 + n).
Definition push_key (k : bytes) : bytes := b8 (lenN k) :: k.
Definition multisig_script (m : N) (keys : list bytes) : bytes :=
  small_int m :: concat (map push_key keys) ++ [small_int (lenL keys); SOP_CHECKMULTISIG].
Definition tapleaf_checksig_script (xonly : bytes) : bytes := x20 :: xonly ++ [SOP_CHECKSIG].

(* the scripts addPartialSignature rebuilds with a ScriptBuilder *)
Definition built_p2sh (redeem : bytes) : builder :=
  sb_op (sb_data (sb_op sb_new SOP_HASH160) (hash160 redeem)) SOP_EQUAL.
Definition built_p2wsh (ws : bytes) : builder := sb_data (sb_op sb_new SOP_0) (sha256 ws).
Definition built_p2wpkh (pk : bytes) : builder := sb_data (sb_op sb_new SOP_0) (hash160 pk).

(* ------------------------------------------------------------------ *)
(* packets                                                             *)
(* ------------------------------------------------------------------ *)
Record pin := mk_pin {
  pi_nwu : option tx;                 (* NonWitnessUtxo *)
  pi_wu : option txout;               (* WitnessUtxo *)
  pi_sigs : list (bytes * bytes);     (* PartialSigs: (pubkey, signature) in slice order *)
  pi_sht : N;                         (* SighashType (uint32) *)
  pi_redeem : option bytes;
  pi_wscript : option bytes;
  pi_fsig : option bytes;             (* FinalScriptSig *)
  pi_fwit : option bytes              (* FinalScriptWitness (serialized stack) *)
}.
Definition empty_pin : pin := mk_pin None None [] 0 None None None None.

Definition set_nwu (v : option tx) (i : pin) := mk_pin v (pi_wu i) (pi_sigs i) (pi_sht i) (pi_redeem i) (pi_wscript i) (pi_fsig i) (pi_fwit i).
Definition set_wu (v : option txout) (i : pin) := mk_pin (pi_nwu i) v (pi_sigs i) (pi_sht i) (pi_redeem i) (pi_wscript i) (pi_fsig i) (pi_fwit i).
Definition set_sigs (v : list (bytes * bytes)) (i : pin) := mk_pin (pi_nwu i) (pi_wu i) v (pi_sht i) (pi_redeem i) (pi_wscript i) (pi_fsig i) (pi_fwit i).
Definition set_redeem (v : option bytes) (i : pin) := mk_pin (pi_nwu i) (pi_wu i) (pi_sigs i) (pi_sht i) v (pi_wscript i) (pi_fsig i) (pi_fwit i).
Definition set_wscript (v : option bytes) (i : pin) := mk_pin (pi_nwu i) (pi_wu i) (pi_sigs i) (pi_sht i) (pi_redeem i) v (pi_fsig i) (pi_fwit i).
Definition set_fsig (v : option bytes) (i : pin) := mk_pin (pi_nwu i) (pi_wu i) (pi_sigs i) (pi_sht i) (pi_redeem i) (pi_wscript i) v (pi_fwit i).
Definition set_fwit (v : option bytes) (i : pin) := mk_pin (pi_nwu i) (pi_wu i) (pi_sigs i) (pi_sht i) (pi_redeem i) (pi_wscript i) (pi_fsig i) v.

(* v0 packet: the unsigned transaction and one section per input (output sections play no part) *)
Record pset0 := mk_pset0 { p0_tx : tx; p0_ins : list pin }.

(* PInput.IsSane *)
Definition sane_in0 (i : pin) : bool :=
  negb (osome (pi_nwu i) && osome (pi_wu i)) &&
  negb (onone (pi_wu i) && osome (pi_wscript i)) &&
  negb (onone (pi_wu i) && osome (pi_fwit i)).
(* validateUnsignedTX *)
Definition validate_unsigned (t : tx) : bool :=
  forallb (fun i => negb (nonempty (in_script i)) && negb (nonempty (in_witness i))) (t_ins t).
Definition sanity0 (p : pset0) : bool := validate_unsigned (p0_tx p) && forallb sane_in0 (p0_ins p).

Definition with_in0 (p : pset0) (k : nat) (f : pin -> pin) : pset0 := mk_pset0 (p0_tx p) (lupd (p0_ins p) k f).

(* ------------------------------------------------------------------ *)
(* signature admission (addPartialSignature), shared by v0 and v2      *)
(* ------------------------------------------------------------------ *)
Definition beq_builder (b : builder) (s : bytes) : option bool :=
  match b with Some x => Some (bytes_eqb x s) | None => None end.

(* the checks between the duplicate test and the append.
   prev_hash/prev_index: outpoint of the input (v0: UnsignedTx.Inputs[k]; v2: PreviousTxid/Index);
   have_txin: v0's `len(UnsignedTx.Inputs) < inIndex+1` guard (always true in v2). *)
Definition admit_checks (i : pin) (pk : bytes) (have_txin : bool) (prev_hash : bytes) (prev_index : N) : oc unit :=
  match pi_nwu i with
  | Some nw =>
      if negb have_txin then OcErr
      else if negb (bytes_eqb (txid nw) prev_hash) then OcErr
      else match pi_redeem i with
           | Some rs =>
               match nthN_err (t_outs nw) prev_index with
               | None => OcPanic
               | Some o =>
                   match beq_builder (built_p2sh rs) (o_script o) with
                   | Some true => OcOk tt
                   | _ => OcErr
                   end
               end
           | None => OcOk tt
           end
  | None =>
      match pi_wu i with
      | Some wu =>
          let spk := o_script wu in
          script <~ (match pi_redeem i with
                     | Some rs => match beq_builder (built_p2sh rs) spk with
                                  | Some true => OcOk rs
                                  | _ => OcErr
                                  end
                     | None => OcOk spk
                     end) ;;
          match pi_wscript i with
          | Some ws => match beq_builder (built_p2wsh ws) script with Some true => OcOk tt | _ => OcErr end
          | None => match beq_builder (built_p2wpkh pk) script with Some true => OcOk tt | _ => OcErr end
          end
      | None => OcErr
      end
  end.

Definition has_sig_for (i : pin) (pk : bytes) : bool := existsb (fun x => bytes_eqb (fst x) pk) (pi_sigs i).

(* v0 addPartialSignature; fmt_ok = checkValid (btcec.ParsePubKey && ecdsa.ParseDERSignature) *)
Definition add_partial_sig0 (p : pset0) (k : nat) (sig pk : bytes) (fmt_ok : bool) : pset0 * rstat :=
  if negb fmt_ok then (p, StErr) else
  match nth_error (p0_ins p) k with
  | None => (p, StPanic)
  | Some i =>
      if has_sig_for i pk then (p, StErr) else
      let ti := nth_error (t_ins (p0_tx p)) k in
      match admit_checks i pk (osome ti)
              (match ti with Some x => in_hash x | None => [] end)
              (match ti with Some x => in_index x | None => 0 end) with
      | OcPanic => (p, StPanic)
      | OcErr => (p, StErr)
      | OcOk _ =>
          let p' := with_in0 p k (fun i => set_sigs (pi_sigs i ++ [(pk, sig)]) i) in
          (p', if sanity0 p' then StOk else StErr)
      end
  end.

(* the previous output of input k taken from its non-witness utxo *)
Definition nw_prevout0 (p : pset0) (k : nat) (i : pin) : oc txout :=
  match nth_error (t_ins (p0_tx p)) k with
  | None => OcPanic
  | Some ti => match pi_nwu i with
               | None => OcPanic
               | Some t => match nthN_err (t_outs t) (in_index ti) with None => OcPanic | Some o => OcOk o end
               end
  end.

(* nonWitnessToWitness (v0) *)
Definition nw_to_w0 (p : pset0) (k : nat) : pset0 * rstat :=
  match nth_error (p0_ins p) k with
  | None => (p, StPanic)
  | Some i =>
      match nw_prevout0 p k i with
      | OcPanic => (p, StPanic)
      | OcErr => (p, StErr)
      | OcOk o =>
          let p' := with_in0 p k (fun i => set_wu (Some o) (set_nwu None i)) in
          (p', if sanity0 p' then StOk else StErr)
      end
  end.

Definition is_final0 (i : pin) : bool := osome (pi_fsig i) || osome (pi_fwit i).

(* Updater.Sign (v0). rs/ws are the redeemScript/witnessScript arguments (None = nil). *)
Definition sign0 (p : pset0) (k : nat) (sig pk : bytes) (fmt_ok : bool) (rs ws : option bytes) : pset0 * rstat :=
  match nth_error (p0_ins p) k with
  | None => (p, StPanic)
  | Some i0 =>
      if is_final0 i0 then (p, StOk) else
      let p1 := match ws with Some _ => with_in0 p k (set_wscript ws) | None => p end in
      if osome ws && negb (sanity0 p1) then (p1, StErr) else
      let p2 := match rs with Some _ => with_in0 p1 k (set_redeem rs) | None => p1 end in
      if osome rs && negb (sanity0 p2) then (p2, StErr) else
      match nth_error (p0_ins p2) k with
      | None => (p2, StPanic)
      | Some i2 =>
          let convert : oc bool :=
            if osome (pi_wscript i2) then OcOk (onone (pi_wu i2))
            else if osome (pi_redeem i2) then OcOk (is_witness_program (obytes rs) && onone (pi_wu i2))
            else if onone (pi_wu i2) then
              (o <~ nw_prevout0 p2 k i2 ;; OcOk (is_witness_program (o_script o)))
            else OcOk false in
          match convert with
          | OcPanic => (p2, StPanic)
          | OcErr => (p2, StErr)
          | OcOk true =>
              match nw_to_w0 p2 k with
              | (p3, StOk) => add_partial_sig0 p3 k sig pk fmt_ok
              | r => r
              end
          | OcOk false => add_partial_sig0 p2 k sig pk fmt_ok
          end
      end
  end.

(* ------------------------------------------------------------------ *)
(* multisig ordering and final scripts                                 *)
(* ------------------------------------------------------------------ *)
(* position of a key = byte offset of the first data push that carries it (fix a3dd5d3:
   txscript tokenizer, `Data() != nil`, first push wins) *)
Definition is_push_op (op : byte) : bool := (1 <=? n8 op) && (n8 op <=? 0x4e).
Definition tok_size (t : byte * bytes) : N :=
  let o := n8 (fst t) in
  let l := lenN (snd t) in
  1 + (if (1 <=? o) && (o <=? 0x4b) then l
       else if o =? 0x4c then 1 + l
       else if o =? 0x4d then 2 + l
       else if o =? 0x4e then 4 + l
       else 0).
Fixpoint push_index (k : bytes) (toks : list (byte * bytes)) (off : N) : option N :=
  match toks with
  | [] => None
  | (op, d) :: r =>
      if is_push_op op && bytes_eqb d k then Some off else push_index k r (off + tok_size (op, d))
  end.
Definition key_position (script k : bytes) : option N :=
  match tokenize script with Some toks => push_index k toks 0 | None => None end.

(* insertion sort by position (sort.Slice with `index <`; stable here, Go's is not — the
   two agree whenever positions are pairwise different) *)
Fixpoint insert_pos {A} (x : N * A) (l : list (N * A)) : list (N * A) :=
  match l with
  | [] => [x]
  | y :: r => if fst y <=? fst x then y :: insert_pos x r else x :: l
  end.
Fixpoint sort_pos {A} (l : list (N * A)) : list (N * A) :=
  match l with [] => [] | x :: r => insert_pos x (sort_pos r) end.

Fixpoint positions (script : bytes) (ps : list (bytes * bytes)) : option (list (N * bytes)) :=
  match ps with
  | [] => Some []
  | (pk, sg) :: r =>
      match key_position script pk with
      | None => None
      | Some pos => match positions script r with Some l => Some ((pos, sg) :: l) | None => None end
      end
  end.

(* extractKeyOrderFromScript (with checkIsMultiSigScript) *)
Definition extract_key_order (script : bytes) (ps : list (bytes * bytes)) : option (list bytes) :=
  match ms_stats script with
  | Some (_, m) =>
      if m =? lenL ps then
        match positions script ps with
        | Some l => Some (map snd (sort_pos l))
        | None => None
        end
      else None
  | None => None
  end.

(* writeTxWitness = bufferutil vector *)
Definition ser_witness (w : list bytes) : bytes := vector w.
Definition multisig_witness (ws : bytes) (ps : list (bytes * bytes)) : option bytes :=
  match extract_key_order ws ps with
  | Some os => Some (ser_witness ([] :: os ++ [ws]))
  | None => None
  end.

(* checkSigHashFlags over all partial signatures, in slice order *)
Definition expected_sht (i : pin) : N := if pi_sht i =? 0 then 1 else pi_sht i.
Fixpoint check_sigs_sht (e : N) (ps : list (bytes * bytes)) : oc unit :=
  match ps with
  | [] => OcOk tt
  | (_, sg) :: r =>
      match last_byte sg with
      | None => OcPanic
      | Some b => if e =? n8 b then check_sigs_sht e r else OcErr
      end
  end.

(* `x != nil` in v0, `len(x) > 0` in v2 *)
Definition has_f (v2 : bool) (x : option bytes) : bool :=
  match x with None => false | Some b => if v2 then nonempty b else true end.
Definition of_builder (b : builder) : oc bytes := match b with Some s => OcOk s | None => OcErr end.

(* the scriptSig built by finalizeNonWitnessInput *)
Definition legacy_sigscript (v2 : bool) (i : pin) : oc bytes :=
  _ <~ check_sigs_sht (expected_sht i) (pi_sigs i) ;;
  match pi_sigs i with
  | [] => OcErr
  | _ =>
      if negb (has_f v2 (pi_redeem i)) then
        match pi_sigs i with
        | [(pk, sg)] => of_builder (sb_data (sb_data sb_new sg) pk)
        | _ => OcErr
        end
      else
        let rs := obytes (pi_redeem i) in
        match extract_key_order rs (pi_sigs i) with
        | None => OcErr
        | Some os => of_builder (sb_data (fold_left sb_data os (sb_op sb_new SOP_0)) rs)
        end
  end.

(* (sigScript, serializedWitness) built by finalizeWitnessInput; sigScript [] when not nested *)
Definition witness_final (v2 : bool) (i : pin) : oc (bytes * bytes) :=
  _ <~ check_sigs_sht (expected_sht i) (pi_sigs i) ;;
  match pi_sigs i with
  | [] => OcErr
  | _ =>
      let has_rs := has_f v2 (pi_redeem i) in
      let has_ws := has_f v2 (pi_wscript i) in
      if negb has_rs then
        match pi_sigs i, has_ws with
        | [(pk, sg)], false => OcOk ([], ser_witness [sg; pk])
        | _, _ =>
            if negb has_ws then OcErr
            else match multisig_witness (obytes (pi_wscript i)) (pi_sigs i) with
                 | Some w => OcOk ([], w)
                 | None => OcErr
                 end
        end
      else
        ss <~ of_builder (sb_data sb_new (obytes (pi_redeem i))) ;;
        if negb has_ws then
          match pi_sigs i with
          | [(pk, sg)] => OcOk (ss, ser_witness [sg; pk])
          | _ => OcErr
          end
        else match multisig_witness (obytes (pi_wscript i)) (pi_sigs i) with
             | Some w => OcOk (ss, w)
             | None => OcErr
             end
  end.

(* ---------- v0 finalizer ---------- *)
Definition new_pin (nw : option tx) (wu : option txout) : pin := mk_pin nw wu [] 0 None None None None.

(* Finalize(p, k) *)
Definition finalize0 (p : pset0) (k : nat) : pset0 * rstat :=
  match nth_error (p0_ins p) k with
  | None => (p, StPanic)
  | Some i =>
      let r : oc pin :=
        if osome (pi_wu i) then
          if is_final0 i then OcErr else
          sw <~ witness_final false i ;;
          OcOk (set_fwit (Some (snd sw))
                (if nonempty (fst sw) then set_fsig (Some (fst sw)) (new_pin None (pi_wu i))
                 else new_pin None (pi_wu i)))
        else if osome (pi_nwu i) then
          if is_final0 i then OcErr else
          ss <~ legacy_sigscript false i ;;
          OcOk (set_fsig (Some ss) (new_pin (pi_nwu i) None))
        else OcErr in
      match r with
      | OcPanic => (p, StPanic)
      | OcErr => (p, StErr)
      | OcOk i' =>
          let p' := with_in0 p k (fun _ => i') in
          (p', if sanity0 p' then StOk else StErr)
      end
  end.

(* isFinalizableWitnessInput / isFinalizableLegacyInput / isFinalizable (v0) *)
Definition finalizable_witness (v2 : bool) (i : pin) (spk : bytes) (tap_ok : bool) : bool :=
  if is_witness_program spk then
    if is_p2wsh spk then has_f v2 (pi_wscript i) && negb (has_f v2 (pi_redeem i))
    else if v2 && is_p2tr spk then tap_ok
    else negb (has_f v2 (pi_wscript i)) && negb (has_f v2 (pi_redeem i))
  else if is_p2sh spk then
    has_f v2 (pi_redeem i) &&
    (if is_p2wsh (obytes (pi_redeem i)) then has_f v2 (pi_wscript i)
     else if is_p2wpkh (obytes (pi_redeem i)) then negb (has_f v2 (pi_wscript i))
     else false)
  else false.

Definition finalizable_legacy (v2 : bool) (i : pin) (prev : txout) : bool :=
  if has_f v2 (pi_wscript i) then false
  else if is_p2sh (o_script prev) then has_f v2 (pi_redeem i) else negb (has_f v2 (pi_redeem i)).

Definition finalizable0 (p : pset0) (k : nat) (i : pin) : oc bool :=
  match pi_sigs i with
  | [] => OcOk false
  | _ =>
      match pi_wu i with
      | Some wu => OcOk (finalizable_witness false i (o_script wu) false)
      | None =>
          if osome (pi_nwu i) then
            if osome (pi_wscript i) then OcOk false
            else (o <~ nw_prevout0 p k i ;; OcOk (finalizable_legacy false i o))
          else OcOk false
      end
  end.

(* MaybeFinalize(p, k) *)
Definition maybe_finalize0 (p : pset0) (k : nat) : pset0 * rstat :=
  match nth_error (p0_ins p) k with
  | None => (p, StPanic)
  | Some i =>
      if is_final0 i then (p, StOk) else
      match finalizable0 p k i with
      | OcPanic => (p, StPanic)
      | OcErr => (p, StErr)
      | OcOk false => (p, StErr)
      | OcOk true => finalize0 p k
      end
  end.

(* run f over the input positions 0..n-1, stopping at the first failure *)
Fixpoint for_all_inputs {P} (f : P -> nat -> P * rstat) (p : P) (ks : list nat) : P * rstat :=
  match ks with
  | [] => (p, StOk)
  | k :: r => match f p k with (p', StOk) => for_all_inputs f p' r | bad => bad end
  end.
(* FinalizeAll ranges over p.Inputs, MaybeFinalizeAll over p.UnsignedTx.Inputs *)
Definition finalize_all0 (p : pset0) : pset0 * rstat := for_all_inputs finalize0 p (seq 0 (length (p0_ins p))).
Definition maybe_finalize_all0 (p : pset0) : pset0 * rstat :=
  for_all_inputs maybe_finalize0 p (seq 0 (length (t_ins (p0_tx p)))).

(* ---------- v0 extractor ---------- *)
(* the witness stack as Extract re-reads it: count, then var-bytes items of at most
   MaxScriptSize bytes; bytes after the last item are ignored *)
Definition read_witness (fw : bytes) : option (list bytes) :=
  match p_vector fw with
  | Some (w, _) => if forallb (fun x => lenN x <=? MaxScriptSize) w then Some w else None
  | None => None
  end.

Definition set_in_final (ti : txin) (i : pin) : option txin :=
  let s := match pi_fsig i with Some x => x | None => in_script ti end in
  match pi_fwit i with
  | Some fw => match read_witness fw with
               | Some w => Some (mk_in (in_hash ti) (in_index ti) (in_seq ti) s w (in_pegin ti) (in_pegwit ti)
                                       (in_iss ti) (in_irp ti) (in_inrp ti))
               | None => None
               end
  | None => Some (mk_in (in_hash ti) (in_index ti) (in_seq ti) s (in_witness ti) (in_pegin ti) (in_pegwit ti)
                        (in_iss ti) (in_irp ti) (in_inrp ti))
  end.

(* both lists are walked by the index of finalTx.Inputs; p.Inputs[i] oc of range panics *)
Fixpoint extract_ins (tis : list txin) (pis : list pin) : oc (list txin) :=
  match tis with
  | [] => OcOk []
  | ti :: tr =>
      match pis with
      | [] => OcPanic
      | i :: pr =>
          match set_in_final ti i with
          | None => OcErr
          | Some ti' => r <~ extract_ins tr pr ;; OcOk (ti' :: r)
          end
      end
  end.

(* IsComplete: every input of the unsigned tx is finalized *)
Fixpoint all_final0 (tis : list txin) (pis : list pin) : oc bool :=
  match tis with
  | [] => OcOk true
  | _ :: tr => match pis with
               | [] => OcPanic
               | i :: pr => if is_final0 i then all_final0 tr pr else OcOk false
               end
  end.

Definition extract0 (p : pset0) : oc tx :=
  c <~ all_final0 (t_ins (p0_tx p)) (p0_ins p) ;;
  if negb c then OcErr else
  let t := copy_tx (p0_tx p) in
  ins <~ extract_ins (t_ins t) (p0_ins p) ;;
  OcOk (mk_tx (t_version t) (t_flag t) (t_locktime t) ins (t_outs t)).

(* serialize/parse hop (v0): an input that is not finalized gets its partial signatures
   sorted by public key (PartialSigSorter, bytes.Compare); a finalized input loses them *)
Fixpoint bytes_leb (a b : bytes) : bool :=
  match a, b with
  | [], _ => true
  | _ :: _, [] => false
  | x :: a', y :: b' => if n8 x <? n8 y then true else if n8 y <? n8 x then false else bytes_leb a' b'
  end.
Fixpoint insert_pk (x : bytes * bytes) (l : list (bytes * bytes)) : list (bytes * bytes) :=
  match l with
  | [] => [x]
  | y :: r => if bytes_leb (fst y) (fst x) then y :: insert_pk x r else x :: l
  end.
Fixpoint sort_pk (l : list (bytes * bytes)) : list (bytes * bytes) :=
  match l with [] => [] | x :: r => insert_pk x (sort_pk r) end.
Definition hop_in0 (i : pin) : pin :=
  if is_final0 i then mk_pin (pi_nwu i) (pi_wu i) [] 0 None None (pi_fsig i) (pi_fwit i)
  else set_sigs (sort_pk (pi_sigs i)) i.
Definition hop0 (p : pset0) : pset0 := mk_pset0 (p0_tx p) (map hop_in0 (p0_ins p)).

(* ------------------------------------------------------------------ *)
(* psetv2                                                              *)
(* ------------------------------------------------------------------ *)
Record tsig := mk_tsig { ts_pk : bytes; ts_sig : bytes; ts_leaf : bytes }.       (* TapScriptSig *)
Record tleaf := mk_tleaf { tl_script : bytes; tl_version : N; tl_cb : bytes }.   (* TapLeafScript; control block as bytes *)

Record pin2 := mk_pin2 {
  q_base : pin;
  q_txid : bytes;                     (* PreviousTxid *)
  q_index : N;                        (* PreviousTxIndex *)
  q_seq : N;                          (* Sequence *)
  q_tlock : N;                        (* RequiredTimeLocktime *)
  q_hlock : N;                        (* RequiredHeightLocktime *)
  q_iss_value : N;
  q_iss_vcommit : option bytes;
  q_iss_vrp : option bytes;           (* IssuanceValueRangeproof *)
  q_iss_krp : option bytes;           (* IssuanceInflationKeysRangeproof *)
  q_iss_keys : N;
  q_iss_kcommit : option bytes;
  q_iss_nonce : option bytes;         (* IssuanceBlindingNonce *)
  q_iss_entropy : option bytes;       (* IssuanceAssetEntropy *)
  q_iss_vproof : bytes;               (* IssuanceBlindValueProof *)
  q_iss_kproof : bytes;               (* IssuanceBlindInflationKeysProof *)
  q_pegwit : option (list bytes);     (* PeginWitness *)
  q_tapkeysig : bytes;
  q_tapsigs : list tsig;
  q_tapleafs : list tleaf;
  q_tapinternal : bytes;
  q_tapmerkle : bytes
}.
Definition set_base (b : pin) (i : pin2) : pin2 :=
  mk_pin2 b (q_txid i) (q_index i) (q_seq i) (q_tlock i) (q_hlock i) (q_iss_value i) (q_iss_vcommit i)
          (q_iss_vrp i) (q_iss_krp i) (q_iss_keys i) (q_iss_kcommit i) (q_iss_nonce i) (q_iss_entropy i)
          (q_iss_vproof i) (q_iss_kproof i) (q_pegwit i) (q_tapkeysig i) (q_tapsigs i) (q_tapleafs i)
          (q_tapinternal i) (q_tapmerkle i).
Definition on_base (f : pin -> pin) (i : pin2) : pin2 := set_base (f (q_base i)) i.
Definition set_tapkeysig (v : bytes) (i : pin2) : pin2 :=
  mk_pin2 (q_base i) (q_txid i) (q_index i) (q_seq i) (q_tlock i) (q_hlock i) (q_iss_value i) (q_iss_vcommit i)
          (q_iss_vrp i) (q_iss_krp i) (q_iss_keys i) (q_iss_kcommit i) (q_iss_nonce i) (q_iss_entropy i)
          (q_iss_vproof i) (q_iss_kproof i) (q_pegwit i) v (q_tapsigs i) (q_tapleafs i)
          (q_tapinternal i) (q_tapmerkle i).
Definition set_tapsigs (v : list tsig) (i : pin2) : pin2 :=
  mk_pin2 (q_base i) (q_txid i) (q_index i) (q_seq i) (q_tlock i) (q_hlock i) (q_iss_value i) (q_iss_vcommit i)
          (q_iss_vrp i) (q_iss_krp i) (q_iss_keys i) (q_iss_kcommit i) (q_iss_nonce i) (q_iss_entropy i)
          (q_iss_vproof i) (q_iss_kproof i) (q_pegwit i) (q_tapkeysig i) v (q_tapleafs i)
          (q_tapinternal i) (q_tapmerkle i).

Record pout2 := mk_pout2 {
  po_value : N;
  po_vcommit : option bytes;
  po_asset : option bytes;            (* 32 bytes *)
  po_acommit : option bytes;
  po_script : bytes;
  po_ecdh : option bytes;
  po_rp : option bytes;               (* ValueRangeproof *)
  po_sp : option bytes;               (* AssetSurjectionProof *)
  po_blindpk : bytes;                 (* BlindingPubkey *)
  po_blinder : N;                     (* BlinderIndex *)
  po_vproof : bytes;                  (* BlindValueProof *)
  po_aproof : bytes                   (* BlindAssetProof *)
}.

Record pset2 := mk_pset2 {
  g_txversion : N;
  g_fallback : option N;              (* FallbackLocktime *)
  g_nscalars : N;                     (* len(Global.Scalars) *)
  q_ins : list pin2;
  q_outs : list pout2
}.
Definition with_in2 (p : pset2) (k : nat) (f : pin2 -> pin2) : pset2 :=
  mk_pset2 (g_txversion p) (g_fallback p) (g_nscalars p) (lupd (q_ins p) k f) (q_outs p).

Definition olen (x : option bytes) : bool := nonempty (obytes x).

(* Output predicates and SanityCheck *)
Definition out_needs_blinding (o : pout2) : bool := nonempty (po_blindpk o).
Definition out_partially_blinded (o : pout2) : bool :=
  olen (po_vcommit o) || olen (po_acommit o) || olen (po_rp o) || olen (po_sp o) || olen (po_ecdh o).
Definition out_fully_blinded (o : pout2) : bool :=
  olen (po_vcommit o) && olen (po_acommit o) && olen (po_rp o) && olen (po_sp o) && olen (po_ecdh o).
Definition sane_out2 (o : pout2) : bool :=
  negb ((0 <? po_value o) && negb (Bool.eqb (olen (po_vcommit o)) (nonempty (po_vproof o)))) &&
  negb (negb (olen (po_acommit o)) && negb (olen (po_asset o))) &&
  negb (olen (po_asset o) && negb (Bool.eqb (olen (po_acommit o)) (nonempty (po_aproof o)))) &&
  negb (out_partially_blinded o && negb (out_fully_blinded o)) &&
  negb (out_fully_blinded o && negb (po_blinder o =? 0)).

Definition sane_tapsig (t : tsig) : bool :=
  (lenN (ts_pk t) =? 32) && ((lenN (ts_sig t) =? 64) || (lenN (ts_sig t) =? 65)).
Definition sane_in2 (i : pin2) : bool :=
  let b := q_base i in
  negb (onone (pi_wu b) && olen (pi_wscript b)) &&
  negb (onone (pi_wu b) && olen (pi_fwit b)) &&
  nonempty (q_txid i) &&
  negb ((0 <? q_iss_value i) && negb (Bool.eqb (olen (q_iss_vcommit i)) (nonempty (q_iss_vproof i)))) &&
  negb ((0 <? q_iss_keys i) && negb (Bool.eqb (olen (q_iss_kcommit i)) (nonempty (q_iss_kproof i)))) &&
  negb (nonempty (q_tapinternal i) && negb (lenN (q_tapinternal i) =? 32)) &&
  negb (nonempty (q_tapmerkle i) && negb (lenN (q_tapmerkle i) =? 32)) &&
  negb (nonempty (q_tapkeysig i) && negb (lenN (q_tapkeysig i) =? 64) && negb (lenN (q_tapkeysig i) =? 65)) &&
  forallb (fun l => nonempty (tl_script l)) (q_tapleafs i) &&
  forallb sane_tapsig (q_tapsigs i).

Definition needs_blinding2 (p : pset2) : bool :=
  existsb (fun o => out_needs_blinding o && negb (out_fully_blinded o)) (q_outs p).
Definition sanity2 (p : pset2) : bool :=
  forallb sane_in2 (q_ins p) && forallb sane_out2 (q_outs p) &&
  negb (existsb out_fully_blinded (q_outs p) && (g_nscalars p =? 0) && needs_blinding2 p).

Definition is_final2 (i : pin2) : bool := olen (pi_fsig (q_base i)) || olen (pi_fwit (q_base i)).
Definition is_taproot (i : pin2) : bool :=
  nonempty (q_tapkeysig i) || nonempty (q_tapinternal i) || nonempty (q_tapmerkle i) ||
  nonempty (q_tapleafs i) || nonempty (q_tapsigs i).

(* addPartialSignature (v2) *)
Definition add_partial_sig2 (p : pset2) (k : nat) (sig pk : bytes) (fmt_ok : bool) : pset2 * rstat :=
  match nth_error (q_ins p) k with
  | None => (p, StErr)
  | Some i =>
      if negb fmt_ok then (p, StErr) else
      if has_sig_for (q_base i) pk then (p, StErr) else
      match admit_checks (q_base i) pk true (q_txid i) (q_index i) with
      | OcPanic => (p, StPanic)
      | OcErr => (p, StErr)
      | OcOk _ =>
          let p' := with_in2 p k (on_base (fun b => set_sigs (pi_sigs b ++ [(pk, sig)]) b)) in
          (p', if sanity2 p' then StOk else StErr)
      end
  end.

Definition nw_prevout2 (i : pin2) : oc txout :=
  match pi_nwu (q_base i) with
  | None => OcPanic
  | Some t => match nthN_err (t_outs t) (q_index i) with None => OcPanic | Some o => OcOk o end
  end.

(* nonWitnessToWitness (v2) *)
Definition nw_to_w2 (p : pset2) (k : nat) : pset2 * rstat :=
  match nth_error (q_ins p) k with
  | None => (p, StErr)
  | Some i =>
      match nw_prevout2 i with
      | OcPanic => (p, StPanic)
      | OcErr => (p, StErr)
      | OcOk o =>
          let p' := with_in2 p k (on_base (fun b => set_wu (Some o) (set_nwu None b))) in
          (p', if sanity2 p' then StOk else StErr)
      end
  end.

(* Signer.SignInput (fix fd68736): every change is made on a staged copy, which is published
   only when all steps and the final SanityCheck succeed; sign2_staged is the staged run *)
Definition sign2_staged (p : pset2) (k : nat) (sig pk : bytes) (fmt_ok : bool) (rs ws : option bytes) : pset2 * rstat :=
  match nth_error (q_ins p) k with
  | None => (p, StErr)
  | Some i0 =>
      if is_final2 i0 then (p, StOk) else
      if (N.land (pi_sht (q_base i0)) 0x1f =? 1) && needs_blinding2 p then (p, StErr) else
      let p1 := match ws with Some _ => with_in2 p k (on_base (set_wscript ws)) | None => p end in
      if osome ws && negb (sanity2 p1) then (p1, StErr) else
      let p2 := match rs with Some _ => with_in2 p1 k (on_base (set_redeem rs)) | None => p1 end in
      if osome rs && negb (sanity2 p2) then (p2, StErr) else
      match nth_error (q_ins p2) k with
      | None => (p2, StErr)
      | Some i2 =>
          let b := q_base i2 in
          let convert : oc bool :=
            if osome (pi_wscript b) then OcOk (onone (pi_wu b))
            else if osome (pi_redeem b) then OcOk (is_witness_program (obytes rs) && onone (pi_wu b))
            else if onone (pi_wu b) then
              (o <~ nw_prevout2 i2 ;; OcOk (is_witness_program (o_script o)))
            else OcOk false in
          match convert with
          | OcPanic => (p2, StPanic)
          | OcErr => (p2, StErr)
          | OcOk true =>
              match nw_to_w2 p2 k with
              | (p3, StOk) => add_partial_sig2 p3 k sig pk fmt_ok
              | r => r
              end
          | OcOk false => add_partial_sig2 p2 k sig pk fmt_ok
          end
      end
  end.

Definition atomic2 (p : pset2) (r : pset2 * rstat) : pset2 * rstat :=
  match r with (p', StOk) => (p', StOk) | (_, s) => (p, s) end.
Definition sign2 (p : pset2) (k : nat) (sig pk : bytes) (fmt_ok : bool) (rs ws : option bytes) : pset2 * rstat :=
  atomic2 p (sign2_staged p k sig pk fmt_ok rs ws).

(* SignTaprootInputKeySig / SignTaprootInputTapscriptSig (staged, published after SanityCheck) *)
Definition sign_tap_key2 (p : pset2) (k : nat) (sig : bytes) : pset2 * rstat :=
  match nth_error (q_ins p) k with
  | None => (p, StErr)
  | Some i =>
      if is_final2 i then (p, StOk)
      else if nonempty (q_tapsigs i) then (p, StErr)
      else let p' := with_in2 p k (set_tapkeysig sig) in if sanity2 p' then (p', StOk) else (p, StErr)
  end.
Definition sign_tap_script2 (p : pset2) (k : nat) (s : tsig) : pset2 * rstat :=
  match nth_error (q_ins p) k with
  | None => (p, StErr)
  | Some i =>
      if is_final2 i then (p, StOk)
      else if nonempty (q_tapkeysig i) then (p, StErr)
      (* fix cc83b33: the checks the parser applies, and no duplicate (key, leaf) pair *)
      else if negb ((lenN (ts_pk s) =? 32) && (lenN (ts_leaf s) =? 32)) then (p, StErr)
      else if negb ((lenN (ts_sig s) =? 64) || (lenN (ts_sig s) =? 65)) then (p, StErr)
      else if existsb (fun x => bytes_eqb (ts_pk x) (ts_pk s) && bytes_eqb (ts_leaf x) (ts_leaf s)) (q_tapsigs i)
           then (p, StErr)
      else let p' := with_in2 p k (fun i => set_tapsigs (q_tapsigs i ++ [s]) i) in
           if sanity2 p' then (p', StOk) else (p, StErr)
  end.

(* TapElementsLeaf.TapHash *)
Definition tag_tapleaf_elements : bytes :=
  map b8 [84; 97; 112; 76; 101; 97; 102; 47; 101; 108; 101; 109; 101; 110; 116; 115].   (* "ATapLeaf/elements" *)
Definition tapleaf_hash (l : tleaf) : bytes :=
  tagged_hash tag_tapleaf_elements (b8 (tl_version l) :: var_slice (tl_script l)).

(* sigHashOK of finalizeTaprootInput (fix 509b4c2): a 64-byte signature is SIGHASH_DEFAULT,
   DEFAULT counts as ALL, an undeclared type as DEFAULT *)
Definition tap_norm (t : N) : N := if t =? 0 then 1 else t.
Definition tap_sig_ok (sht : N) (sg : bytes) : bool :=
  let sig_type := if lenN sg =? 65 then match last_byte sg with Some b => n8 b | None => 0 end else 0 in
  tap_norm sig_type =? tap_norm sht.

(* finalizeTaprootInput: the serialized witness *)
Definition taproot_final (i : pin2) : oc bytes :=
  let sht := pi_sht (q_base i) in
  if is_final2 i then OcErr
  else if nonempty (q_tapkeysig i) then
    if tap_sig_ok sht (q_tapkeysig i) then OcOk (vector [q_tapkeysig i]) else OcErr
  else if nonempty (q_tapsigs i) then
    match q_tapleafs i with
    | [] => OcErr
    | l :: _ =>
        let h := tapleaf_hash l in
        let ms := filter (fun s => bytes_eqb (ts_leaf s) h) (q_tapsigs i) in
        if negb (forallb (fun s => tap_sig_ok sht (ts_sig s)) ms) then OcErr
        else match ms with
             | [] => OcErr
             | _ => OcOk (vector (map ts_sig ms ++ [tl_script l; tl_cb l]))
             end
    end
  else OcErr.

(* Finalize(p, k) (v2) *)
Definition finalize2 (p : pset2) (k : nat) : pset2 * rstat :=
  match nth_error (q_ins p) k with
  | None => (p, StPanic)
  | Some i =>
      let b := q_base i in
      if osome (pi_wu b) && is_taproot i then
        match taproot_final i with
        | OcOk w => (with_in2 p k (on_base (set_fwit (Some w))), StOk)
        | OcErr => (p, StErr)
        | OcPanic => (p, StPanic)
        end
      else
        let r : oc pin :=
          if osome (pi_wu b) then
            if is_final2 i then OcErr else
            sw <~ witness_final true b ;;
            let b1 := if nonempty (fst sw) then set_fsig (Some (fst sw)) b else b in
            OcOk (if nonempty (snd sw) then set_fwit (Some (snd sw)) b1 else b1)
          else if osome (pi_nwu b) then
            if is_final2 i then OcErr else
            ss <~ legacy_sigscript true b ;;
            OcOk (if nonempty ss then set_fsig (Some ss) b else b)
          else OcErr in
        match r with
        | OcPanic => (p, StPanic)
        | OcErr => (p, StErr)
        | OcOk b' =>
            let p' := with_in2 p k (set_base (set_sigs [] b')) in
            (p', if sanity2 p' then StOk else StErr)
        end
  end.

(* FinalizeAll works on a copy (a real one since fix fd68736) and stops at the first error,
   leaving the packet as it was *)
Definition finalize_all2 (p : pset2) : pset2 * rstat :=
  atomic2 p (for_all_inputs finalize2 p (seq 0 (length (q_ins p)))).

(* isFinalizable (v2) *)
Definition tap_finalizable (i : pin2) : bool :=
  nonempty (q_tapkeysig i) ||
  forallb (fun s => existsb (fun l => bytes_eqb (ts_leaf s) (tapleaf_hash l)) (q_tapleafs i)) (q_tapsigs i).
Definition finalizable2 (i : pin2) : oc bool :=
  let b := q_base i in
  match pi_sigs b with
  | [] => OcOk false
  | _ =>
      match pi_wu b with
      | Some wu => OcOk (finalizable_witness true b (o_script wu) (tap_finalizable i))
      | None =>
          if osome (pi_nwu b) then
            if has_f true (pi_wscript b) then OcOk false
            else (o <~ nw_prevout2 i ;; OcOk (finalizable_legacy true b o))
          else OcOk false
      end
  end.
Definition maybe_finalize2 (p : pset2) (k : nat) : pset2 * rstat :=
  match nth_error (q_ins p) k with
  | None => (p, StPanic)
  | Some i =>
      if is_final2 i then (p, StOk) else
      match finalizable2 i with
      | OcPanic => (p, StPanic)
      | OcErr => (p, StErr)
      | OcOk false => (p, StErr)
      | OcOk true => finalize2 p k
      end
  end.
Definition maybe_finalize_all2 (p : pset2) : pset2 * rstat :=
  for_all_inputs maybe_finalize2 p (seq 0 (length (q_ins p))).

(* Pset.Locktime *)
Definition locktime2 (p : pset2) : N :=
  let h := fold_left (fun acc i => N.max acc (q_hlock i)) (q_ins p) 0 in
  let t := fold_left (fun acc i => N.max acc (q_tlock i)) (q_ins p) 0 in
  (* fix 3710385: an input that only has a time requirement forces the time kind *)
  let time_only := existsb (fun i => (0 <? q_tlock i) && (q_hlock i =? 0)) (q_ins p) in
  if (0 <? h) && negb time_only then h
  else if 0 <? t then t else match g_fallback p with Some l => l | None => 0 end.

(* ---------- Updater.AddInputs (one argument) / Pset.addInput, Updater.AddInWitnessUtxo ---------- *)
(* InputArgs.toPartialInput; the txid is given in internal byte order.  Global.TxModifiable is not
   modelled: the harness builds its packets with psetv2.New, which allows adding inputs. *)
Definition new_pin2 (txid : bytes) (index seq hlock tlock : N) : pin2 :=
  mk_pin2 empty_pin txid index (if seq =? 0 then u32max else seq) tlock hlock
          0 None None None 0 None None None [] [] None [] [] [] [] [].

(* the loop of addInput over the existing inputs: (time, height, hasSigs), None = ErrInInvalidLocktime *)
Fixpoint lock_walk (l : list pin2) (t h : N) (has : bool) : option (N * N * bool) :=
  match l with
  | [] => Some (t, h, has)
  | x :: r =>
      let xt := q_tlock x in
      let xh := q_hlock x in
      let time_only := negb (xt =? 0) && (xh =? 0) in
      let height_only := (xt =? 0) && negb (xh =? 0) in
      let h1 := if time_only then 0 else h in
      if time_only && (t =? 0) then None else
      let t1 := if height_only then 0 else t in
      if height_only && (h1 =? 0) then None else
      let t2 := if negb (xt =? 0) && negb (t1 =? 0) then N.max t1 xt else t1 in
      let h2 := if negb (xh =? 0) && negb (h1 =? 0) then N.max h1 xh else h1 in
      lock_walk r t2 h2 (has || nonempty (pi_sigs (q_base x)))
  end.

(* the lock-time guard: a new input must not change Locktime() once signatures exist *)
Definition add_input_lock_ok (p : pset2) (i : pin2) : bool :=
  if (q_hlock i =? 0) && (q_tlock i =? 0) then true
  else match lock_walk (q_ins p) (q_tlock i) (q_hlock i) false with
       | None => false
       | Some (t, h, has) =>
           let l0 := match g_fallback p with Some l => l | None => 0 end in
           let l1 := if negb (t =? 0) then t else l0 in
           let l2 := if negb (h =? 0) then h else l1 in
           negb (has && negb (locktime2 p =? l2))
       end.

Definition add_input2 (p : pset2) (i : pin2) : pset2 * rstat :=
  if negb (nonempty (q_txid i)) then (p, StErr)
  else if existsb (fun x => bytes_eqb (q_txid x) (q_txid i) && (q_index x =? q_index i)) (q_ins p) then (p, StErr)
  else if negb (add_input_lock_ok p i) then (p, StErr)
  else let p' := mk_pset2 (g_txversion p) (g_fallback p) (g_nscalars p) (q_ins p ++ [i]) (q_outs p) in
       if sanity2 p' then (p', StOk) else (p, StErr).

Definition add_witness_utxo2 (p : pset2) (k : nat) (o : txout) : pset2 * rstat :=
  match nth_error (q_ins p) k with
  | None => (p, StErr)
  | Some _ => let p' := with_in2 p k (on_base (set_wu (Some o))) in
              if sanity2 p' then (p', StOk) else (p, StErr)
  end.

(* elementsutil.ValueToBytes *)
Definition value_to_bytes (v : N) : bytes := x01 :: be_enc 8 v.

Definition out_to_txout (o : pout2) : txout :=
  mk_out (match po_acommit o with Some a => a | None => x01 :: obytes (po_asset o) end)
         (match po_vcommit o with Some v => v | None => value_to_bytes (po_value o) end)
         (po_script o)
         (match po_ecdh o with Some n => n | None => [x00] end)
         (obytes (po_rp o)) (obytes (po_sp o)).

Definition iss_amount (i : pin2) : bytes :=
  match q_iss_vcommit i with
  | Some v => v
  | None => if 0 <? q_iss_value i then value_to_bytes (q_iss_value i) else [x00]
  end.
Definition iss_token (i : pin2) : bytes :=
  match q_iss_kcommit i with
  | Some v => v
  | None => if 0 <? q_iss_keys i then value_to_bytes (q_iss_keys i) else [x00]
  end.
Definition iss_of (i : pin2) : issuance :=
  mk_iss (obytes (q_iss_nonce i)) (obytes (q_iss_entropy i)) (iss_amount i) (iss_token i).

(* Pset.UnsignedTx: the transaction the signatures are computed over (after fix 0eaca09:
   same sequence default, issuance test, null amount and peg-in flag as Extract) *)
Definition unsigned_in2 (i : pin2) : txin :=
  mk_in (q_txid i)
        (if q_index i =? MinusOne then q_index i else N.land (q_index i) OutpointIndexMask)
        (if q_seq i =? 0 then u32max else q_seq i)
        [] [] (osome (q_pegwit i)) []
        (if osome (q_iss_entropy i) then Some (iss_of i) else None)
        [] [].
Definition unsigned_tx2 (p : pset2) : tx :=
  mk_tx (g_txversion p) 0 (locktime2 p) (map unsigned_in2 (q_ins p)) (map out_to_txout (q_outs p)).

(* Extract *)
Definition extract_in2 (i : pin2) : option txin :=
  let b := q_base i in
  let iss := if osome (q_iss_entropy i) then Some (iss_of i) else None in
  let wit := match pi_fwit b with
             | Some fw => match read_witness fw with Some w => Some w | None => None end
             | None => Some []
             end in
  match wit with
  | None => None
  | Some w =>
      Some (mk_in (q_txid i) (q_index i) (if q_seq i =? 0 then u32max else q_seq i) (obytes (pi_fsig b)) w
                  (osome (q_pegwit i)) (match q_pegwit i with Some l => l | None => [] end)
                  iss (obytes (q_iss_vrp i)) (obytes (q_iss_krp i)))
  end.
Fixpoint extract_ins2 (l : list pin2) : option (list txin) :=
  match l with
  | [] => Some []
  | i :: r => match extract_in2 i, extract_ins2 r with
              | Some x, Some xs => Some (x :: xs)
              | _, _ => None
              end
  end.
Definition extract2 (p : pset2) : oc tx :=
  if negb (sanity2 p) then OcErr
  else if negb (forallb is_final2 (q_ins p)) then OcErr
  else match extract_ins2 (q_ins p) with
       | Some ins => OcOk (mk_tx (g_txversion p) 0 (locktime2 p) ins (map out_to_txout (q_outs p)))
       | None => OcErr
       end.

(* serialize/parse hop with its failure class: ToBase64 refuses an insane input, the parser
   ends with SanityCheck; on failure the caller keeps the packet it had *)
(* the serializer sorts a copy of PartialSigs (fix 7d6e201): the parsed packet has them in
   pubkey order, the live packet keeps insertion order, and a hop that fails (an insane input
   stops the serializer, a signed unsigned-tx stops the parser) changes nothing *)
Definition hop0_st (p : pset0) : pset0 * rstat := if sanity0 p then (hop0 p, StOk) else (p, StErr).

(* v2 hop on the packets the harness sends through it (no issuance / peg-in / locktime
   extras): empty byte strings are not written, so they come back as nil; the witness utxo
   is written without its proofs; partial signatures keep their order *)
Definition norm_opt (x : option bytes) : option bytes := match x with Some [] => None | _ => x end.
Definition hop_in2 (i : pin2) : pin2 :=
  on_base (fun b => mk_pin (pi_nwu b)
                      (match pi_wu b with
                       | Some o => Some (mk_out (o_asset o) (o_value o) (o_script o) (o_nonce o) [] [])
                       | None => None end)
                      (pi_sigs b) (pi_sht b) (norm_opt (pi_redeem b)) (norm_opt (pi_wscript b))
                      (norm_opt (pi_fsig b)) (norm_opt (pi_fwit b))) i.
Definition hop2_st (p : pset2) : pset2 * rstat :=
  if sanity2 p
  then (mk_pset2 (g_txversion p) (g_fallback p) (g_nscalars p) (map hop_in2 (q_ins p)) (q_outs p), StOk)
  else (p, StErr).

(* every field of a transaction other than input scripts and input witness data *)
Definition strip_in (i : txin) : txin :=
  mk_in (in_hash i) (in_index i) (in_seq i) [] [] (in_pegin i) [] (in_iss i) [] [].
Definition strip_tx (t : tx) : tx :=
  mk_tx (t_version t) (t_flag t) (t_locktime t) (map strip_in (t_ins t)) (t_outs t).

(* ------------------------------------------------------------------ *)
(* satisfies: evaluator for exactly the supported templates            *)
(* ------------------------------------------------------------------ *)
Inductive salgo := ALegacy | AWitV0 | ATapKey | ATapLeaf.

(* data pushed by a push-only script (SOP_0, SOP_1NEGATE, SOP_1..OP_16, direct and PUSHDATA pushes) *)
Fixpoint pushes_of (l : list (byte * bytes)) : option (list bytes) :=
  match l with
  | [] => Some []
  | (op, d) :: r =>
      let o := n8 op in
      let item : option bytes :=
        if o =? 0 then Some []
        else if o <=? 0x4e then Some d
        else if o =? 0x4f then Some [x81]
        else if o <=? 0x60 then Some [b8 (o - 0x50)]
        else None in
      match item, pushes_of r with Some x, Some xs => Some (x :: xs) | _, _ => None end
  end.
Definition parse_pushes (s : bytes) : option (list bytes) :=
  match tokenize s with Some l => pushes_of l | None => None end.

(* OP_CHECKMULTISIG's matching loop, from the top of the stack: both lists are given in
   reverse push order (last signature / last key first) *)
Fixpoint cms_loop (chk : bytes -> bytes -> bool) (keys sigs : list bytes) : bool :=
  match sigs with
  | [] => true
  | s :: sr =>
      match keys with
      | [] => false
      | k :: kr => if chk k s then cms_loop chk kr sr else cms_loop chk kr sigs
      end
  end.
Definition checkmultisig (chk : bytes -> bytes -> bool) (m : N) (keys items : list bytes) : bool :=
  match items with
  | dummy :: sigs =>
      negb (nonempty dummy) && (lenL sigs =? m) && (m <=? lenL keys) &&
      cms_loop chk (rev keys) (rev sigs)
  | [] => false
  end.

Fixpoint unsnoc {A} (l : list A) : option (list A * A) :=
  match l with
  | [] => None
  | [x] => Some ([], x)
  | x :: r => match unsnoc r with Some (i, z) => Some (x :: i, z) | None => None end
  end.

(* `chk a script_code pk sig`: the signature check of algorithm a with the given script code;
   `commit cb script q`: the taproot commitment check (abstract) *)
Section Eval.
  Variable chk : salgo -> bytes -> bytes -> bytes -> bool.
  Variable commit : bytes -> bytes -> bytes -> bool.

  Definition eval_multisig (a : salgo) (script : bytes) (items : list bytes) : bool :=
    match ms_parse script with
    | Some (m, keys) => checkmultisig (chk a script) m keys items
    | None => false
    end.

  Definition eval_wpkh (h : bytes) (wit : list bytes) : bool :=
    match wit with
    | [sg; pk] => bytes_eqb (hash160 pk) h && chk AWitV0 (p2pkh_script h) pk sg
    | _ => false
    end.
  Definition eval_wsh (h : bytes) (wit : list bytes) : bool :=
    match unsnoc wit with
    | Some (items, ws) => bytes_eqb (sha256 ws) h && eval_multisig AWitV0 ws items
    | None => false
    end.
  Definition eval_witness_program (prog : bytes) (wit : list bytes) : bool :=
    if is_p2wpkh prog then eval_wpkh (skipn 2 prog) wit
    else if is_p2wsh prog then eval_wsh (skipn 2 prog) wit
    else false.
  Definition eval_taproot (q : bytes) (wit : list bytes) : bool :=
    match wit with
    | [sg] => chk ATapKey [] q sg
    | [sg; script; cb] =>
        commit cb script q &&
        match script with
        | l :: r => (n8 l =? 0x20) && (lenN r =? 33) &&
                    match last_byte r with Some e => n8 e =? n8 SOP_CHECKSIG | None => false end &&
                    chk ATapLeaf script (firstn 32 r) sg
        | [] => false
        end
    | _ => false
    end.

  (* does (scriptSig, witness) satisfy the spent script? *)
  Definition satisfies (spk script_sig : bytes) (wit : list bytes) : bool :=
    if is_p2wpkh spk || is_p2wsh spk then negb (nonempty script_sig) && eval_witness_program spk wit
    else if is_p2tr spk then negb (nonempty script_sig) && eval_taproot (skipn 2 spk) wit
    else if is_p2sh spk then
      match parse_pushes script_sig with
      | Some items =>
          match unsnoc items with
          | Some (rest, redeem) =>
              bytes_eqb (hash160 redeem) (firstn 20 (skipn 2 spk)) &&
              if is_witness_program redeem
              then negb (nonempty rest) && eval_witness_program redeem wit
              else negb (nonempty wit) && eval_multisig ALegacy redeem rest
          | None => false
          end
      | None => false
      end
    else if is_p2pkh spk then
      negb (nonempty wit) &&
      match parse_pushes script_sig with
      | Some [sg; pk] => bytes_eqb (hash160 pk) (firstn 20 (skipn 3 spk)) && chk ALegacy spk pk sg
      | _ => false
      end
    else false.
End Eval.
