(* Model/Merkle.v — /repo/block/merkle_block.go as coded: calcTreeWidth,
   traverseAndExtract, ExtractMatches, serializeVBits, deserializePartialMerkleTree /
   deserializeMerkleBlock (the byte layout read by btcd's wire.MsgMerkleBlock.BtcDecode
   is external code; it is written out here so that K can run on raw proofs).
   Definitions only.  Generic in the node type A, node hash H and equality test eqA;
   the executable instance (32-byte hashes, double SHA-256) is at the end.

   Cursors: the Go code reads VBits[*bitsUsed] / TxHashes[*hashUsed] and increments;
   the model carries the unread suffixes VBits[bitsUsed:] / TxHashes[hashUsed:]
   (so bitsUsed = len(VBits) - len(suffix)).  FBad is the s_bad field. *)
From GE Require Export Lib.Bytes Lib.Varint Lib.Sha256.
From GE Require Import Gen.MerkleConsts.
Open Scope N_scope.

(* maxBlockWeight / minTransactionWeight, from today's source *)
Definition max_txs : N := Z.to_N (g_maxBlockWeight / g_minTransactionWeight).

(* calcTreeWidth: uint32 arithmetic, (count + (1 << height) - 1) >> height *)
Definition width (n h : N) : N :=
  N.shiftr ((n + (N.shiftl 1 h) mod two32 + (two32 - 1)) mod two32) h.

(* for height := 0; calcTreeWidth(height) > 1; height++ *)
Fixpoint height_loop (fuel : nat) (n h : N) : option N :=
  match fuel with
  | O => None
  | S f => if 1 <? width n h then height_loop f n (h + 1) else Some h
  end.

Section Model.
Variable A : Type.
Variable H : A -> A -> A.
Variable eqA : A -> A -> bool.

Record st := mk_st {
  s_bits : list bool;     (* VBits[bitsUsed:] *)
  s_hashes : list A;      (* TxHashes[hashUsed:] *)
  s_match : list A;       (* vMatch *)
  s_bad : bool            (* FBad *)
}.

(* traverseAndExtract; None = error return *)
Fixpoint traverse (n : N) (h : nat) (pos : N) (s : st) : option (A * st) :=
  match s_bits s with
  | [] => None                                   (* overflowed the bits array *)
  | b :: bits' =>
      let leaf (matched_here : bool) :=
        match s_hashes s with
        | [] => None                             (* overflowed the hash array *)
        | x :: hs' =>
            Some (x, mk_st bits' hs' (if matched_here then s_match s ++ [x] else s_match s) (s_bad s))
        end in
      match h with
      | O => leaf b
      | S h' =>
          if negb b then leaf false
          else
            match traverse n h' (pos * 2) (mk_st bits' (s_hashes s) (s_match s) (s_bad s)) with
            | None => None
            | Some (l, s1) =>
                if pos * 2 + 1 <? width n (N.of_nat h') then
                  match traverse n h' (pos * 2 + 1) s1 with
                  | None => None
                  | Some (r, s2) =>
                      Some (H l r,
                            mk_st (s_bits s2) (s_hashes s2) (s_match s2) (s_bad s2 || eqA l r))
                  end
                else Some (H l l, s1)
            end
      end
  end.

(* ExtractMatches on (TxTotalCount, TxHashes, VBits) of a freshly parsed proof *)
Definition extract (n : N) (hashes : list A) (bits : list bool) : option (A * list A) :=
  if n =? 0 then None
  else if max_txs <? n then None
  else if n <? lenL hashes then None
  else if lenL bits <? lenL hashes then None
  else
    match height_loop 34 n 0 with
    | None => None
    | Some h =>
        match traverse n (N.to_nat h) 0 (mk_st bits hashes [] false) with
        | None => None
        | Some (root, s) =>
            if s_bad s then None
            else
              let bits_used := lenL bits - lenL (s_bits s) in
              if negb ((bits_used + 7) / 8 =? (lenL bits + 7) / 8) then None
              else if negb (length (s_hashes s) =? 0)%nat then None
              else Some (root, s_match s)
        end
    end.

End Model.

Arguments mk_st {A}. Arguments s_bits {A}. Arguments s_hashes {A}.
Arguments s_match {A}. Arguments s_bad {A}.

(* ---------- byte level ---------- *)
(* byteToBits / serializeVBits: least significant bit first *)
Definition byte_bits (b : byte) : list bool :=
  let v := n8 b in
  [N.testbit v 0; N.testbit v 1; N.testbit v 2; N.testbit v 3;
   N.testbit v 4; N.testbit v 5; N.testbit v 6; N.testbit v 7].
Definition bits_of_bytes (bs : bytes) : list bool := flat_map byte_bits bs.

Record merkle_block := mk_mb {
  mb_header : bytes;        (* the 80 header bytes *)
  mb_count : N;             (* TxTotalCount *)
  mb_hashes : list bytes;   (* TxHashes *)
  mb_flags : bytes          (* wire flags; VBits = bits_of_bytes *)
}.

(* limits of btcd wire (external constants): maxTxPerBlock, maxFlagsPerMerkleBlock *)
Definition wire_max_hashes : N := 400001.
Definition wire_max_flags : N := 50000.

(* wire.MsgMerkleBlock.BtcDecode: header(80) count(u32) varint hashes varint flags;
   trailing bytes are left in the buffer *)
Definition parse_merkle_block : parser merkle_block :=
  hd <- take 80 ;; cnt <- p_le 4 ;;
  nh <- p_varint ;;
  if wire_max_hashes <? nh then pfail else
  hs <- p_list (take 32) nh ;;
  nf <- p_varint ;;
  if wire_max_flags <? nf then pfail else
  fl <- takeN nf ;;
  ret (mk_mb hd cnt hs fl).

(* BlockHeader.MerkleRoot: bytes 36..67 of the header *)
Definition header_root (hd : bytes) : bytes := firstn 32 (skipn 36 hd).

(* blockchain.HashMerkleBranches *)
Definition node_hash (l r : bytes) : bytes := dsha256 (l ++ r).

Definition extract_mb (m : merkle_block) : option (bytes * list bytes) :=
  extract bytes node_hash bytes_eqb (mb_count m) (mb_hashes m) (bits_of_bytes (mb_flags m)).

(* NewMerkleBlockFromBuffer followed by ExtractMatches *)
Inductive proof_result :=
| PParseErr
| PExtractErr (m : merkle_block)
| POk (m : merkle_block) (root : bytes) (matches : list bytes).

Definition run_proof (bs : bytes) : proof_result :=
  match parse_merkle_block bs with
  | None => PParseErr
  | Some (m, _) =>
      match extract_mb m with
      | None => PExtractErr m
      | Some (root, ms) => POk m root ms
      end
  end.

(* ---------- the writer side of the wire format (wire.MsgMerkleBlock.BtcEncode) ---------- *)
Fixpoint pack_byte (bits : list bool) (i : nat) (w : N) {struct i} : N :=
  match i, bits with
  | S i', b :: r => (if b then w else 0) + pack_byte r i' (2 * w)
  | _, _ => 0
  end.
Fixpoint pack_bits (fuel : nat) (bits : list bool) : bytes :=
  match fuel, bits with
  | S f, _ :: _ => b8 (pack_byte bits 8 1) :: pack_bits f (skipn 8 bits)
  | _, _ => []
  end.
Definition flags_of_bits (bits : list bool) : bytes := pack_bits (length bits) bits.

Definition ser_merkle_block (m : merkle_block) : bytes :=
  mb_header m ++ le_enc 4 (mb_count m) ++ varint (lenL (mb_hashes m)) ++ concat (mb_hashes m) ++
  varint (lenN (mb_flags m)) ++ mb_flags m.
