(* Model/Sighash.v — the three signature-hash algorithms of transaction/transaction.go:
   HashForSignature (legacy), HashForWitnessV0 (BIP-143 style), HashForWitnessV1
   (taproot), as coded (after the ANYONECANPAY and RANGEPROOF fixes).  The hash
   functions are parameters so that theorems can be stated over an ideal hash and
   the executable instance plugs in Lib/Sha256.v.  Definitions only. *)
From GE Require Export Lib.Bytes Lib.Varint Lib.Sha256 Model.Tx.
Open Scope N_scope.

Definition zero32 : bytes := repeat x00 32.
Definition one32 : bytes := repeat x00 31 ++ [x01].            (* transaction.One *)
Definition max_conf_value : bytes := repeat xff 8.             (* MaxConfidentialValue *)

(* hash type bits *)
Definition ht_base (ht : N) : N := N.land ht 0x1f.
Definition ht_acp (ht : N) : bool := negb (N.land ht 0x80 =? 0).
Definition ht_rp (ht : N) : bool := negb (N.land ht 0x40 =? 0).
Definition ht_none (ht : N) : bool := ht_base ht =? 2.
Definition ht_single (ht : N) : bool := ht_base ht =? 3.

(* ---------- shared serializations ---------- *)
Definition ser_prevout (i : txin) : bytes := in_hash i ++ le_enc 4 (in_index i).
Definition ser_prevouts (ins : list txin) : bytes := enc_list ser_prevout ins.
Definition ser_sequences (ins : list txin) : bytes := enc_list (fun i => le_enc 4 (in_seq i)) ins.
Definition ser_iss_or_zero (i : txin) : bytes :=
  match in_iss i with Some s => ser_iss s | None => [x00] end.
Definition ser_issuances (ins : list txin) : bytes := enc_list ser_iss_or_zero ins.
Definition ser_outputs (outs : list txout) : bytes := enc_list (ser_out false false) outs.
Definition ser_out_proofs_rs (o : txout) : bytes := var_slice (o_rp o) ++ var_slice (o_sp o).
Definition ser_rangeproofs (outs : list txout) : bytes := enc_list ser_out_proofs_rs outs.

(* ---------- legacy: HashForSignature ---------- *)
Definition set_seq (s : N) (i : txin) : txin :=
  mk_in (in_hash i) (in_index i) s (in_script i) (in_witness i) (in_pegin i) (in_pegwit i)
        (in_iss i) (in_irp i) (in_inrp i).
Definition set_script (s : bytes) (i : txin) : txin :=
  mk_in (in_hash i) (in_index i) (in_seq i) s (in_witness i) (in_pegin i) (in_pegwit i)
        (in_iss i) (in_irp i) (in_inrp i).

Fixpoint map_idx {A} (f : nat -> A -> A) (k : nat) (l : list A) : list A :=
  match l with [] => [] | a :: r => f k a :: map_idx f (S k) r end.

Definition zero_other_seqs (idx : nat) (ins : list txin) : list txin :=
  map_idx (fun k i => if (k =? idx)%nat then i else set_seq 0 i) 0 ins.

Definition blank_out (o : txout) : txout :=
  mk_out zero32 max_conf_value [] zero32 [] [].   (* proofs blanked too since fix 7e846dc *)

(* the transaction that is serialized, or None where the code returns the constant One *)
Definition legacy_tx (t : tx) (idx : nat) (script : bytes) (ht : N) : option tx :=
  match nth_error (t_ins t) idx with
  | None => None
  | Some _ =>
      let step1 : option (list txin * list txout) :=
        if ht_none ht then Some (zero_other_seqs idx (t_ins t), [])
        else if ht_single ht then
          if (length (t_outs t) <=? idx)%nat then None
          else Some (zero_other_seqs idx (t_ins t),
                     map blank_out (firstn idx (t_outs t)) ++ firstn 1 (skipn idx (t_outs t)))
        else Some (t_ins t, t_outs t) in
      match step1 with
      | None => None
      | Some (ins1, outs1) =>
          let ins2 :=
            if ht_acp ht then
              match nth_error ins1 idx with Some own => [set_script script own] | None => [] end
            else map_idx (fun k i => set_script (if (k =? idx)%nat then script else []) i) 0 ins1 in
          Some (mk_tx (t_version t) (t_flag t) (t_locktime t) ins2 outs1)
      end
  end.

Definition preimage_legacy (t : tx) (idx : nat) (script : bytes) (ht : N) : option bytes :=
  match legacy_tx t idx script ht with
  | None => None
  | Some c => Some (ser_tx false true true (ht_rp ht) c ++ [b8 ht; x00; x00; x00])
  end.

Definition digest_legacy (H2 : bytes -> bytes) (t : tx) (idx : nat) (script : bytes) (ht : N) : bytes :=
  match preimage_legacy t idx script ht with None => one32 | Some p => H2 p end.

(* ---------- segwit v0: HashForWitnessV0 ---------- *)
Definition own_input_v0 (i : txin) (script value : bytes) : bytes :=
  in_hash i ++ le_enc 4 (in_index i) ++ var_slice script ++ value ++ le_enc 4 (in_seq i) ++
  match in_iss i with Some s => ser_iss s | None => [] end.

(* the outputs whose hash is written: all, the one at the signing index, or none *)
Definition covered_outs (t : tx) (idx : nat) (ht : N) : option (list txout) :=
  if negb (ht_single ht || ht_none ht) then Some (t_outs t)
  else if ht_single ht then
    match nth_error (t_outs t) idx with Some o => Some [o] | None => None end
  else None.

Definition preimage_v0 (H2 : bytes -> bytes) (t : tx) (idx : nat) (script value : bytes) (ht : N) : option bytes :=
  match nth_error (t_ins t) idx with
  | None => None                                   (* tx.Inputs[inIndex] panics *)
  | Some own =>
      let acp := ht_acp ht in
      let sn := ht_single ht || ht_none ht in
      let h_in := if acp then zero32 else H2 (ser_prevouts (t_ins t)) in
      let h_seq := if acp || sn then zero32 else H2 (ser_sequences (t_ins t)) in
      let h_iss := if acp then zero32 else H2 (ser_issuances (t_ins t)) in
      let h_out := match covered_outs t idx ht with Some l => H2 (ser_outputs l) | None => zero32 end in
      let h_rp := match covered_outs t idx ht with Some l => H2 (ser_rangeproofs l) | None => zero32 end in
      Some (le_enc 4 (t_version t) ++ h_in ++ h_seq ++ h_iss ++ own_input_v0 own script value ++
            h_out ++ (if ht_rp ht then h_rp else []) ++ le_enc 4 (t_locktime t) ++ le_enc 4 ht)
  end.

Definition digest_v0 (H2 : bytes -> bytes) (t : tx) (idx : nat) (script value : bytes) (ht : N) : option bytes :=
  match preimage_v0 H2 t idx script value ht with None => None | Some p => Some (H2 p) end.

(* ---------- taproot: HashForWitnessV1 ---------- *)
Definition input_flag (i : txin) : N :=
  (match in_iss i with Some _ => 0x80 | None => 0 end) + (if in_pegin i then 0x40 else 0).
Definition ser_flags (ins : list txin) : bytes := enc_list (fun i => [b8 (input_flag i)]) ins.
Definition ser_issuance_proofs (ins : list txin) : bytes :=
  enc_list (fun i => var_slice (in_irp i) ++ var_slice (in_inrp i)) ins.
Definition ser_out_witnesses (outs : list txout) : bytes :=
  enc_list (fun o => var_slice (o_sp o) ++ var_slice (o_rp o)) outs.
Definition ser_scripts (scripts : list bytes) : bytes := enc_list var_slice scripts.

(* calcAssetAmountSingleHash: `for i < len(assets) { assets[i]; values[i] }` — values[i] panics when short *)
Fixpoint ser_asset_amounts (assets values : list bytes) : option bytes :=
  match assets, values with
  | [], _ => Some []
  | a :: ar, v :: vr => match ser_asset_amounts ar vr with Some r => Some (a ++ v ++ r) | None => None end
  | _ :: _, [] => None
  end.

Record v1_args := mk_v1 {
  v1_scripts : list bytes; v1_assets : list bytes; v1_values : list bytes;
  v1_genesis : bytes; v1_leaf : option bytes; v1_annex : option bytes
}.

Definition v1_acp (ht : N) : bool := (N.land ht 0x80) =? 0x80.
Definition v1_out_type (ht : N) : N := if ht =? 0 then 1 else N.land ht 0x03.

(* the seven hashes over all inputs (absent under ANYONECANPAY) *)
Definition v1_ins_part (H1 : bytes -> bytes) (t : tx) (a : v1_args) (ht : N) : option bytes :=
  if v1_acp ht then Some [] else
  match ser_asset_amounts (v1_assets a) (v1_values a) with
  | Some aa =>
      Some (H1 (ser_flags (t_ins t)) ++ H1 (ser_prevouts (t_ins t)) ++ H1 aa ++
            H1 (ser_scripts (v1_scripts a)) ++ H1 (ser_sequences (t_ins t)) ++
            H1 (ser_issuances (t_ins t)) ++ H1 (ser_issuance_proofs (t_ins t)))
  | None => None end.

(* the signing input itself under ANYONECANPAY, else its index *)
Definition v1_own_part (H1 : bytes -> bytes) (own : txin) (idx : nat) (a : v1_args) (ht : N) : option bytes :=
  if v1_acp ht then
    match nth_error (v1_assets a) idx, nth_error (v1_values a) idx, nth_error (v1_scripts a) idx with
    | Some asset, Some value, Some script =>
        Some ([b8 (input_flag own)] ++ in_hash own ++ le_enc 4 (in_index own) ++ asset ++ value ++
              var_slice script ++ le_enc 4 (in_seq own) ++
              match in_iss own with
              | Some s => ser_iss s ++ H1 (ser_issuance_proofs [own])
              | None => [x00] end)
    | _, _, _ => None end
  else Some (le_enc 4 (N.of_nat idx)).

Definition v1_outs_all (H1 : bytes -> bytes) (t : tx) (ht : N) : bytes :=
  if negb (v1_out_type ht =? 2) && negb (v1_out_type ht =? 3)
  then H1 (ser_outputs (t_outs t)) ++ H1 (ser_out_witnesses (t_outs t)) else [].

Definition v1_outs_single (H1 : bytes -> bytes) (t : tx) (idx : nat) (ht : N) : bytes :=
  if v1_out_type ht =? 3 then
    match nth_error (t_outs t) idx with
    | Some o => H1 (ser_outputs [o]) ++ H1 (ser_out_witnesses [o])
    | None => [] end
  else [].

Definition v1_spend_type (a : v1_args) : N :=
  2 * (match v1_leaf a with Some _ => 1 | None => 0 end) + match v1_annex a with Some _ => 1 | None => 0 end.

Definition preimage_v1 (H1 : bytes -> bytes) (t : tx) (idx : nat) (a : v1_args) (ht : N) : option bytes :=
  match nth_error (t_ins t) idx with
  | None => None
  | Some own =>
      match v1_ins_part H1 t a ht, v1_own_part H1 own idx a ht with
      | Some ins_part, Some own_part =>
          Some (v1_genesis a ++ v1_genesis a ++ [b8 ht] ++ le_enc 4 (t_version t) ++ le_enc 4 (t_locktime t) ++
                ins_part ++ v1_outs_all H1 t ht ++
                [b8 (v1_spend_type a)] ++ own_part ++
                match v1_annex a with Some x => H1 (var_slice x) | None => [] end ++
                v1_outs_single H1 t idx ht ++
                match v1_leaf a with Some l => l ++ [x00] ++ le_enc 4 0xffffffff | None => [] end)
      | _, _ => None
      end
  end.

Definition tag_tapsighash_elements : bytes :=
  map b8 [84;97;112;83;105;103;104;97;115;104;47;101;108;101;109;101;110;116;115].   (* "TapSighash/elements" *)

Definition digest_v1 (t : tx) (idx : nat) (a : v1_args) (ht : N) : option bytes :=
  match preimage_v1 sha256 t idx a ht with
  | None => None
  | Some p => Some (tagged_hash tag_tapsighash_elements p)
  end.
