(* Model/MerkleHist.v — a MerkleBlock value over time.  PartialMerkleTree's fields are exported
   and mutable (TxTotalCount, TxHashes, VBits, FBad) and ExtractMatches can be called again on
   the same object: the only state ExtractMatches itself keeps between calls is FBad, which it
   sets and never clears.  Definitions only. *)
From GE Require Export Lib.Bytes Lib.Sha256 Model.Merkle.
Open Scope N_scope.

Section Hist.
Variable A : Type.
Variable H : A -> A -> A.
Variable eqA : A -> A -> bool.
(* chainhash.NewHash(TxHashes[i]) succeeds: the entry is exactly 32 bytes long.  The wire decoder only
   produces such entries; through the exported field any length can be stored *)
Variable okA : A -> bool.

(* traverseAndExtract once more, keeping apart how it fails: both "overflowed" returns set FBad before
   returning, the NewHash error returns without touching it.  TErr carries FBad at the moment of return *)
Inductive tres := TOk (x : A) (s : st A) | TErr (bad : bool).

Fixpoint traverse_h (n : N) (h : nat) (pos : N) (s : st A) : tres :=
  match s_bits s with
  | [] => TErr true                                  (* overflowed the bits array: FBad = true *)
  | b :: bits' =>
      let leaf (matched_here : bool) :=
        match s_hashes s with
        | [] => TErr true                            (* overflowed the hash array: FBad = true *)
        | x :: hs' =>
            if okA x
            then TOk x (mk_st bits' hs' (if matched_here then s_match s ++ [x] else s_match s) (s_bad s))
            else TErr (s_bad s)                      (* chainhash.NewHash: invalid hash length *)
        end in
      match h with
      | O => leaf b
      | S h' =>
          if negb b then leaf false
          else
            match traverse_h n h' (pos * 2) (mk_st bits' (s_hashes s) (s_match s) (s_bad s)) with
            | TErr e => TErr e
            | TOk l s1 =>
                if pos * 2 + 1 <? width n (N.of_nat h') then
                  match traverse_h n h' (pos * 2 + 1) s1 with
                  | TErr e => TErr e
                  | TOk r s2 =>
                      TOk (H l r) (mk_st (s_bits s2) (s_hashes s2) (s_match s2) (s_bad s2 || eqA l r))
                  end
                else TOk (H l l) s1
            end
      end
  end.

(* ExtractMatches on an object whose FBad is `bad` on entry: result and FBad on exit.
   The early returns (count, sizes) leave FBad alone *)
Definition extract_hist (bad : bool) (n : N) (hashes : list A) (bits : list bool) : option (A * list A) * bool :=
  if n =? 0 then (None, bad)
  else if max_txs <? n then (None, bad)
  else if n <? lenL hashes then (None, bad)
  else if lenL bits <? lenL hashes then (None, bad)
  else
    match height_loop 34 n 0 with
    | None => (None, bad)
    | Some h =>
        match traverse_h n (N.to_nat h) 0 (mk_st bits hashes [] bad) with
        | TErr e => (None, e)
        | TOk root s =>
            if s_bad s then (None, true)
            else
              let bits_used := lenL bits - lenL (s_bits s) in
              if negb ((bits_used + 7) / 8 =? (lenL bits + 7) / 8) then (None, false)
              else if negb (length (s_hashes s) =? 0)%nat then (None, false)
              else (Some (root, s_match s), false)
        end
    end.

End Hist.

(* ---------- histories on the executable instance ---------- *)
Inductive hop :=
| HExtract                               (* m.ExtractMatches() *)
| HCount (n : N)                         (* m.PartialMerkleTree.TxTotalCount = n *)
| HFlip (i : nat)                        (* VBits[i] = !VBits[i] *)
| HHash (i j : nat) (mask : N)           (* TxHashes[i][j] ^= mask *)
| HAppend (i : nat) (b : N)              (* TxHashes[i] = append(TxHashes[i], b) *)
| HDropLast (i : nat)                    (* TxHashes[i] = TxHashes[i][:len-1] *)
| HEmpty (i : nat).                      (* TxHashes[i] = []byte{} *)

Record hobj := mk_hobj { h_count : N; h_hashes : list bytes; h_bits : list bool; h_bad : bool }.

(* l[i] = f(l[i]); None = index out of range *)
Fixpoint upd_nth {X} (l : list X) (i : nat) (f : X -> option X) : option (list X) :=
  match l, i with
  | [], _ => None
  | x :: r, O => match f x with Some y => Some (y :: r) | None => None end
  | x :: r, S i' => match upd_nth r i' f with Some r' => Some (x :: r') | None => None end
  end.

Definition hash32 (h : bytes) : bool := (length h =? 32)%nat.

Definition hobj_of (m : merkle_block) : hobj :=
  mk_hobj (mb_count m) (mb_hashes m) (bits_of_bytes (mb_flags m)) false.

(* one step: the new object and, for HExtract, what the call returned; None = index out of range *)
Definition hstep (o : hobj) (op : hop) : option (hobj * option (option (bytes * list bytes))) :=
  match op with
  | HExtract =>
      let '(res, bad') := extract_hist bytes node_hash bytes_eqb hash32 (h_bad o) (h_count o) (h_hashes o) (h_bits o) in
      Some (mk_hobj (h_count o) (h_hashes o) (h_bits o) bad', Some res)
  | HCount n => Some (mk_hobj n (h_hashes o) (h_bits o) (h_bad o), None)
  | HFlip i =>
      match upd_nth (h_bits o) i (fun b => Some (negb b)) with
      | Some bits' => Some (mk_hobj (h_count o) (h_hashes o) bits' (h_bad o), None)
      | None => None
      end
  | HHash i j mask =>
      match upd_nth (h_hashes o) i (fun h => upd_nth h j (fun b => Some (b8 (N.lxor (n8 b) mask)))) with
      | Some hs' => Some (mk_hobj (h_count o) hs' (h_bits o) (h_bad o), None)
      | None => None
      end
  | HAppend i b =>
      match upd_nth (h_hashes o) i (fun h => Some (h ++ [b8 b])) with
      | Some hs' => Some (mk_hobj (h_count o) hs' (h_bits o) (h_bad o), None)
      | None => None
      end
  | HDropLast i =>
      match upd_nth (h_hashes o) i (fun h => match h with [] => None | _ :: _ => Some (removelast h) end) with
      | Some hs' => Some (mk_hobj (h_count o) hs' (h_bits o) (h_bad o), None)
      | None => None
      end
  | HEmpty i =>
      match upd_nth (h_hashes o) i (fun _ => Some []) with
      | Some hs' => Some (mk_hobj (h_count o) hs' (h_bits o) (h_bad o), None)
      | None => None
      end
  end.

(* the results of the HExtract steps of a history, in order; None = some step indexed out of range *)
Fixpoint run_hist (o : hobj) (ops : list hop) : option (list (option (bytes * list bytes))) :=
  match ops with
  | [] => Some []
  | op :: r =>
      match hstep o op with
      | None => None
      | Some (o', out) =>
          match run_hist o' r with
          | None => None
          | Some l => Some (match out with Some res => res :: l | None => l end)
          end
      end
  end.

(* NewMerkleBlockFromBuffer, then the history *)
Definition mkl_hist (blob : bytes) (ops : list hop) : option (option (list (option (bytes * list bytes)))) :=
  match parse_merkle_block blob with
  | None => None
  | Some (m, _) => Some (run_hist (hobj_of m) ops)
  end.
