(* Model/FreeList.v — the binaryFreeList of internal/bufferutil/bufferutil.go as a state
   machine over any number of goroutines.

   BinarySerializer is a buffered channel (capacity binaryFreeListMaxItems) of 8-byte
   scratch buffers.  Borrow = receive-or-allocate (select with default), Return =
   send-or-drop.  PutUintN(w, v): Borrow; byteOrder.PutUintN(buf, v); w.Write(buf);
   Return.  UintN(r): Borrow; io.ReadFull(r, buf); (on error: Return, error);
   rv := byteOrder.UintN(buf); Return.
   Every goroutine has its own writer / reader (a transaction being serialized, a buffer
   being parsed); the free list is the only thing they share.  The atomic steps are the
   channel operations Go guarantees to be atomic and the goroutine-local steps in between
   (fill, write to the stream, read from the stream, decode).  Little-endian only (the
   only byte order the library uses).

   `early = true` is the defective protocol in which Return happens BEFORE the last use of
   the buffer (the write to the stream / the decoding of the value).  Definitions only. *)
From GE Require Export Lib.Bytes.
From GE Require Import Lib.Sched.
Open Scope nat_scope.

Module FL.

Inductive op :=
  | Put (n : nat) (v : N)       (* PutUint8/16/32/64: n = 1, 2, 4, 8 *)
  | Get (n : nat).              (* Uint8/16/32/64 *)

Inductive pc :=
  | Idle
  | PBorrowed (b n : nat) (v : N)           (* holds buffer b *)
  | PFilled (b n : nat) (v : N)             (* byteOrder.PutUintN(buf, v) done *)
  | PWritten (b n : nat) (v : N)            (* w.Write(buf) done *)
  | PReturned (b n : nat) (v : N)           (* early variant: buffer already returned, write pending *)
  | GBorrowed (b n : nat)
  | GRead (b n : nat) (ok : bool) (x : bytes)   (* io.ReadFull done; x = the bytes consumed *)
  | GDecoded (b n : nat) (x : bytes) (v : N)    (* rv computed *)
  | GReturned (b n : nat) (x : bytes).          (* early variant: buffer already returned, decode pending *)

Record thread := mk_thread {
  t_prog : list op;                   (* the goroutine's whole program (ghost, never changes) *)
  t_todo : list op;                   (* operations still to perform, current one first *)
  t_done : list op;                   (* operations completed (ghost) *)
  t_pc : pc;
  t_out : bytes;                      (* this goroutine's writer: everything written so far *)
  t_in : bytes;                       (* this goroutine's reader: what is left *)
  t_res : list (bytes * option N)     (* per completed Get: bytes consumed, value returned (None = error) *)
}.

Record state := mk_state {
  chan : list nat;                    (* the channel: buffer ids, oldest first *)
  bufs : list bytes;                  (* every buffer ever allocated, by id *)
  threads : list thread
}.

Definition flist_cap : nat := 1024.    (* binaryFreeListMaxItems *)
Definition zeros8 : bytes := repeat "000"%byte 8.

Fixpoint set_nth {A} (l : list A) (k : nat) (x : A) : list A :=
  match l, k with
  | [], _ => []
  | _ :: t, O => x :: t
  | y :: t, S k' => y :: set_nth t k' x
  end.

Definition bget (bs : list bytes) (b : nat) : bytes := nth b bs [].
(* write x at the front of buffer b, keeping the stale tail *)
Definition bput (bs : list bytes) (b : nat) (x : bytes) : list bytes :=
  set_nth bs b (x ++ skipn (length x) (bget bs b)).

(* select { case buf = <-l: default: buf = make([]byte, 8) } *)
Definition recv_or_alloc (ch : list nat) (bs : list bytes) : list nat * list bytes * nat :=
  match ch with
  | b :: c => (c, bs, b)
  | [] => ([], bs ++ [zeros8], length bs)
  end.
(* select { case l <- buf: default: } *)
Definition send (cap : nat) (ch : list nat) (b : nat) : list nat :=
  if length ch <? cap then ch ++ [b] else ch.

Definition set_pc (t : thread) (p : pc) : thread :=
  mk_thread (t_prog t) (t_todo t) (t_done t) p (t_out t) (t_in t) (t_res t).
Definition set_out (t : thread) (o : bytes) : thread :=
  mk_thread (t_prog t) (t_todo t) (t_done t) (t_pc t) o (t_in t) (t_res t).
Definition set_in (t : thread) (i : bytes) : thread :=
  mk_thread (t_prog t) (t_todo t) (t_done t) (t_pc t) (t_out t) i (t_res t).
Definition finish (t : thread) (o : op) : thread :=
  mk_thread (t_prog t) (tl (t_todo t)) (t_done t ++ [o]) Idle (t_out t) (t_in t) (t_res t).
Definition add_res (t : thread) (e : bytes * option N) : thread :=
  mk_thread (t_prog t) (t_todo t) (t_done t) (t_pc t) (t_out t) (t_in t) (t_res t ++ [e]).

(* one atomic step of one goroutine *)
Definition tstep (early : bool) (cap : nat) (ch : list nat) (bs : list bytes) (t : thread)
  : list nat * list bytes * thread :=
  match t_pc t with
  | Idle =>
      match t_todo t with
      | [] => (ch, bs, t)
      | Put n v :: _ => let '(c, bs', b) := recv_or_alloc ch bs in (c, bs', set_pc t (PBorrowed b n v))
      | Get n :: _ => let '(c, bs', b) := recv_or_alloc ch bs in (c, bs', set_pc t (GBorrowed b n))
      end
  | PBorrowed b n v => (ch, bput bs b (le_enc n v), set_pc t (PFilled b n v))
  | PFilled b n v =>
      if early then (send cap ch b, bs, set_pc t (PReturned b n v))
      else (ch, bs, set_out (set_pc t (PWritten b n v)) (t_out t ++ firstn n (bget bs b)))
  | PWritten b n v => (send cap ch b, bs, finish t (Put n v))
  | PReturned b n v => (ch, bs, finish (set_out t (t_out t ++ firstn n (bget bs b))) (Put n v))
  | GBorrowed b n =>
      if n <=? length (t_in t)
      then (ch, bput bs b (firstn n (t_in t)),
            set_in (set_pc t (GRead b n true (firstn n (t_in t)))) (skipn n (t_in t)))
      else (ch, bput bs b (t_in t), set_in (set_pc t (GRead b n false (t_in t))) [])
  | GRead b n false x => (send cap ch b, bs, add_res (finish t (Get n)) (x, None))
  | GRead b n true x =>
      if early then (send cap ch b, bs, set_pc t (GReturned b n x))
      else (ch, bs, set_pc t (GDecoded b n x (le_dec (firstn n (bget bs b)))))
  | GDecoded b n x v => (send cap ch b, bs, add_res (finish t (Get n)) (x, Some v))
  | GReturned b n x => (ch, bs, add_res (finish t (Get n)) (x, Some (le_dec (firstn n (bget bs b)))))
  end.

Definition step (early : bool) (cap : nat) (st : state) (i : nat) : state :=
  match nth_error (threads st) i with
  | None => st
  | Some t =>
      let '(c, bs, t') := tstep early cap (chan st) (bufs st) t in
      mk_state c bs (set_nth (threads st) i t')
  end.

Definition run_sched (early : bool) (cap : nat) (st : state) (sch : list nat) : state :=
  run (step early cap) st sch.

Definition new_thread (prog : list op) (input : bytes) : thread := mk_thread prog prog [] Idle [] input [].
Definition init (progs : list (list op * bytes)) : state :=
  mk_state [] [] (map (fun p => new_thread (fst p) (snd p)) progs).

(* the buffer a goroutine owns *)
Definition holds (p : pc) : option nat :=
  match p with
  | Idle | PReturned _ _ _ | GReturned _ _ _ => None
  | PBorrowed b _ _ | PFilled b _ _ | PWritten b _ _ | GBorrowed b _ | GRead b _ _ _ | GDecoded b _ _ _ => Some b
  end.

(* what a goroutine's writer must contain after the operations in `done` *)
Definition enc_op (o : op) : bytes := match o with Put n v => le_enc n v | Get _ => [] end.
Definition spec_out (done : list op) : bytes := concat (map enc_op done).

(* sequential use (K): one goroutine runs its program to the end; 4 steps per operation *)
Definition run_seq (cap : nat) (prog : list op) (input : bytes) : state :=
  run_sched false cap (init [(prog, input)]) (repeat 0 (4 * length prog)).

End FL.
