(* Model/MerkleIx.v — block/merkle_block.go once more, this time with the cursors as the
   indices the Go code keeps (bitsUsed, hashUsed) and with every index expression
   (VBits[*bitsUsed], TxHashes[*hashUsed]) as a partial operation whose failure is the
   distinguished outcome IxPanic (Go: "index out of range").  The guards of the Go code are
   written where they stand; Proofs/MerkleDecoder.v shows that they make IxPanic unreachable
   and that this model computes exactly what Model/Merkle.v (unread suffixes) computes.
   Also: the whole-input decoder (trailing bytes stay in the buffer and are ignored) and the
   memory requested while decoding.  Definitions only. *)
From GE Require Export Lib.Bytes Lib.Varint Lib.Sha256 Model.Merkle.
Open Scope N_scope.

Inductive ixres (X : Type) := IxOk (x : X) | IxErr | IxPanic.
Arguments IxOk {X}. Arguments IxErr {X}. Arguments IxPanic {X}.

Section ModelIx.
Variable A : Type.
Variable H : A -> A -> A.
Variable eqA : A -> A -> bool.
(* the test in front of TxHashes[hashUsed], as a function of len(TxHashes) and hashUsed: the Go code
   has `hashUsed >= len` (Nat.leb len used); kept as a variable so that Proofs/MerkleDecoder.v can show
   what a weaker test (the seeded change `hashUsed > len`) leads to *)
Variable hguard : nat -> nat -> bool.

Record ist := mk_ist {
  i_bits_used : nat;      (* *bitsUsed *)
  i_hash_used : nat;      (* *hashUsed *)
  i_match : list A;       (* *vMatch *)
  i_bad : bool            (* FBad *)
}.

(* traverseAndExtract over m.PartialMerkleTree.VBits / .TxHashes *)
Fixpoint traverse_gen (n : N) (vbits : list bool) (hashes : list A) (h : nat) (pos : N) (s : ist)
  : ixres (A * ist) :=
  if (length vbits <=? i_bits_used s)%nat then IxErr              (* if *bitsUsed >= len(VBits) *)
  else
    match nth_error vbits (i_bits_used s) with                     (* VBits[*bitsUsed] *)
    | None => IxPanic
    | Some b =>
        let bu := S (i_bits_used s) in                             (* *bitsUsed++ *)
        let leaf (matched_here : bool) :=
          if hguard (length hashes) (i_hash_used s) then IxErr     (* if *hashUsed >= len(TxHashes) *)
          else
            match nth_error hashes (i_hash_used s) with            (* TxHashes[*hashUsed] *)
            | None => IxPanic
            | Some x =>
                IxOk (x, mk_ist bu (S (i_hash_used s))
                              (if matched_here then i_match s ++ [x] else i_match s) (i_bad s))
            end in
        match h with
        | O => leaf b
        | S h' =>
            if negb b then leaf false
            else
              match traverse_gen n vbits hashes h' (pos * 2) (mk_ist bu (i_hash_used s) (i_match s) (i_bad s)) with
              | IxErr => IxErr
              | IxPanic => IxPanic
              | IxOk (l, s1) =>
                  if pos * 2 + 1 <? width n (N.of_nat h') then
                    match traverse_gen n vbits hashes h' (pos * 2 + 1) s1 with
                    | IxErr => IxErr
                    | IxPanic => IxPanic
                    | IxOk (r, s2) =>
                        IxOk (H l r, mk_ist (i_bits_used s2) (i_hash_used s2) (i_match s2) (i_bad s2 || eqA l r))
                    end
                  else IxOk (H l l, s1)
              end
        end
    end.

(* ExtractMatches *)
Definition extract_gen (n : N) (hashes : list A) (vbits : list bool) : ixres (A * list A) :=
  if n =? 0 then IxErr
  else if max_txs <? n then IxErr
  else if n <? lenL hashes then IxErr
  else if lenL vbits <? lenL hashes then IxErr
  else
    match height_loop 34 n 0 with
    | None => IxErr
    | Some h =>
        match traverse_gen n vbits hashes (N.to_nat h) 0 (mk_ist 0 0 [] false) with
        | IxErr => IxErr
        | IxPanic => IxPanic
        | IxOk (root, s) =>
            if i_bad s then IxErr
            else if negb ((N.of_nat (i_bits_used s) + 7) / 8 =? (lenL vbits + 7) / 8) then IxErr
            else if negb (i_hash_used s =? length hashes)%nat then IxErr
            else IxOk (root, i_match s)
        end
    end.

End ModelIx.

Arguments mk_ist {A}. Arguments i_bits_used {A}. Arguments i_hash_used {A}.
Arguments i_match {A}. Arguments i_bad {A}.

(* the code as it is: if *hashUsed >= len(m.PartialMerkleTree.TxHashes) *)
Definition traverse_ix (A : Type) (H : A -> A -> A) (eqA : A -> A -> bool) := traverse_gen A H eqA Nat.leb.
Definition extract_ix (A : Type) (H : A -> A -> A) (eqA : A -> A -> bool) := extract_gen A H eqA Nat.leb.

Definition extract_mb_ix (m : merkle_block) : ixres (bytes * list bytes) :=
  extract_ix bytes node_hash bytes_eqb (mb_count m) (mb_hashes m) (bits_of_bytes (mb_flags m)).

(* ---------- the whole-input decoder ---------- *)
(* checkMerkleBlockHashCount (fix c4c5793): with more than 84 bytes of input, if the varint at offset 84
   reads without error as a count that the bytes after it cannot hold (count > remaining / 32), the input
   is refused before btcd is called; a short input or a malformed varint is left to the decoder.
   true = refused *)
Definition hash_count_exceeds (bs : bytes) : bool :=
  if (length bs <=? 84)%nat then false
  else match p_varint (skipn 84 bs) with
       | None => false
       | Some (count, rest) => lenN rest / 32 <? count
       end.

(* NewMerkleBlockFromBuffer (and NewMerkleBlockFromHex after hex.DecodeString): the count check, then
   BtcDecode reads from the buffer; whatever follows the flag bytes stays there, unlooked at *)
Definition decode_merkle_block (bs : bytes) : option merkle_block :=
  if hash_count_exceeds bs then None
  else match parse_merkle_block bs with
       | Some (m, _) => Some m
       | None => None
       end.

(* NewMerkleBlockFromBuffer followed by ExtractMatches, three outcomes *)
Definition decode_extract_ix (bs : bytes) : ixres (bytes * list bytes) :=
  match decode_merkle_block bs with
  | None => IxErr
  | Some m => extract_mb_ix m
  end.

(* ---------- memory requested while decoding ---------- *)
(* wire.MsgMerkleBlock.BtcDecode compares the hash count with maxTxPerBlock and the flag length
   with maxFlagsPerMerkleBlock (constants, not the remaining input) and then allocates
   make([]chainhash.Hash, count) + make([]*chainhash.Hash, 0, count) resp. the flag bytes BEFORE
   reading them; deserializePartialMerkleTree then copies what was read (a 32-byte clone and a
   slice header per hash, one bool per flag bit).  Bytes requested by btcd, as a function of the input: *)
Definition alloc_btcd (bs : bytes) : N :=
  match (hd <- take 80 ;; cnt <- p_le 4 ;; nh <- p_varint ;; ret nh) bs with
  | None => 0
  | Some (nh, r1) =>
      if wire_max_hashes <? nh then 0
      else
        40 * nh +
        match (hs <- p_list (take 32) nh ;; nf <- p_varint ;; ret nf) r1 with
        | None => 0
        | Some (nf, _) => if wire_max_flags <? nf then 0 else nf
        end
  end.

Definition alloc_repo (m : merkle_block) : N := 56 * lenL (mb_hashes m) + 8 * lenN (mb_flags m).

(* btcd is only reached when the count check lets the input through *)
Definition alloc_merkle_block (bs : bytes) : N :=
  if hash_count_exceeds bs then 0
  else alloc_btcd bs + match decode_merkle_block bs with Some m => alloc_repo m | None => 0 end.

(* before fix c4c5793: no count check in front of btcd *)
Definition alloc_merkle_block_prefix (bs : bytes) : N :=
  alloc_btcd bs + match parse_merkle_block bs with Some (m, _) => alloc_repo m | None => 0 end.

(* the only reservation that is not backed by input: the flag bytes, capped by btcd at 50000 *)
Definition alloc_const_bound : N := wire_max_flags.
