(* Model/Issuance.v — issuance ids and the updater logic that uses them (C13).
   Follows transaction/issuance.go (ComputeEntropy, ComputeAsset, ComputeReissuanceToken,
   NewTxIssuance, NewTxIssuanceFromInput, Generate*, the IssuanceContract hash),
   pset/updater.go (AddIssuance, AddReissuance), psetv2/updater.go (AddInIssuance,
   AddInReissuance), psetv2/input.go (GetIssuanceAssetHash, GetIssuanceInflationKeysHash),
   psetv2/pset.go (UnsignedTx) and psetv2/extractor.go (Extract), the last two as far as
   inputs' issuance fields and outputs' asset/value/script/nonce are concerned.
   Destination addresses enter as the result of decoding them (address package: C14).
   Definitions only. *)
From GE Require Export Lib.Bytes Lib.Varint Lib.Sha256 Model.Tx.
Open Scope N_scope.

Definition zero32b : bytes := repeat x00 32.

(* ---------- ids ---------- *)
(* ComputeEntropy(inTxHash, inTxIndex, contractHash) *)
Definition compute_entropy (hash : bytes) (index : N) (chash : bytes) : option bytes :=
  if negb (length hash =? 32)%nat then None
  else if negb (length chash =? 32)%nat then None
  else Some (midstate256 (dsha256 (hash ++ le_enc 4 index) ++ chash)).

(* ComputeAsset(entropy) *)
Definition compute_asset (entropy : bytes) : option bytes :=
  if negb (length entropy =? 32)%nat then None
  else Some (midstate256 (entropy ++ repeat x00 32)).

(* ComputeReissuanceToken(entropy, flag); flag is a Go uint *)
Definition compute_token (entropy : bytes) (flag : N) : option bytes :=
  if negb (length entropy =? 32)%nat then None
  else if negb ((flag =? 0) || (flag =? 1)) then None
  else Some (midstate256 (entropy ++ b8 (flag + 1) :: repeat x00 31)).

(* ---------- iss_contract hash ---------- *)
Record iss_contract := mk_iss_contract {
  c_name : bytes; c_ticker : bytes; c_version : N; c_precision : N; c_pubkey : bytes; c_domain : bytes }.

(* decimal digits of n (encoding/json prints a float64 that holds an integer below 2^53
   — and in fact below 10^21 — in plain positional notation) *)
Fixpoint dec_digits (fuel : nat) (n : N) (acc : bytes) : bytes :=
  match fuel with
  | O => acc
  | S f => let acc' := b8 (48 + n mod 10) :: acc in
           if n / 10 =? 0 then acc' else dec_digits f (n / 10) acc'
  end.
Definition dec_of_N (n : N) : bytes := dec_digits 20 n [].

Inductive iss_jvalue := JStr (s : bytes) | JNum (n : N) | JObj (fields : list (bytes * iss_jvalue)).

(* byte-wise lexicographic order on keys (sort.Strings on ASCII keys) *)
Fixpoint bytes_ltb (a b : bytes) : bool :=
  match a, b with
  | _, [] => false
  | [], _ :: _ => true
  | x :: a', y :: b' => if n8 x <? n8 y then true else if n8 y <? n8 x then false else bytes_ltb a' b'
  end.

Fixpoint insert_field (f : bytes * iss_jvalue) (l : list (bytes * iss_jvalue)) : list (bytes * iss_jvalue) :=
  match l with
  | [] => [f]
  | g :: r => if bytes_ltb (fst g) (fst f) then g :: insert_field f r else f :: l
  end.
Definition sort_fields (l : list (bytes * iss_jvalue)) : list (bytes * iss_jvalue) :=
  fold_right insert_field [] l.

Definition iss_quote : byte := b8 34.
Definition jstr (s : bytes) : bytes := iss_quote :: s ++ [iss_quote].

(* json.Marshal of map[string]interface{}: keys sorted, no white space; strings are written
   verbatim between quotes, which is what encoding/json does on the alphabet of wf_jchar *)
Fixpoint ser_json (fuel : nat) (v : iss_jvalue) : bytes :=
  match fuel with
  | O => []
  | S f =>
    match v with
    | JStr s => jstr s
    | JNum n => dec_of_N n
    | JObj fields =>
        let body := map (fun kv => jstr (fst kv) ++ b8 58 :: ser_json f (snd kv)) (sort_fields fields) in
        let fix commas (l : list bytes) : bytes :=
          match l with [] => [] | [x] => x | x :: r => x ++ b8 44 :: commas r end in
        b8 123 :: commas body ++ [b8 125]
    end
  end.

Definition iss_ascii (l : list N) : bytes := map b8 l.
Definition k_name : bytes := iss_ascii [110;97;109;101].
Definition k_ticker : bytes := iss_ascii [116;105;99;107;101;114].
Definition k_version : bytes := iss_ascii [118;101;114;115;105;111;110].
Definition k_precision : bytes := iss_ascii [112;114;101;99;105;115;105;111;110].
Definition k_pubkey : bytes := iss_ascii [105;115;115;117;101;114;95;112;117;98;107;101;121].
Definition k_entity : bytes := iss_ascii [101;110;116;105;116;121].
Definition k_domain : bytes := iss_ascii [100;111;109;97;105;110].

(* the struct in declaration order, as json.Marshal(iss_contract) emits it *)
Definition contract_fields (c : iss_contract) : list (bytes * iss_jvalue) :=
  [(k_name, JStr (c_name c)); (k_ticker, JStr (c_ticker c)); (k_version, JNum (c_version c));
   (k_precision, JNum (c_precision c)); (k_pubkey, JStr (c_pubkey c));
   (k_entity, JObj [(k_domain, JStr (c_domain c))])].

(* orderJsonKeysLexographically(json.Marshal(iss_contract)) *)
Definition contract_json (c : iss_contract) : bytes := ser_json 3 (JObj (contract_fields c)).
(* chainhash.HashB: one SHA-256 *)
Definition contract_hash (c : iss_contract) : bytes := sha256 (contract_json c).

(* the characters encoding/json copies through unchanged in both directions: printable ASCII
   without the iss_quote, the backslash and the three HTML-escaped characters < > & *)
Definition wf_jchar (b : byte) : bool :=
  let n := n8 b in
  (32 <=? n) && (n <=? 126) && negb ((n =? 34) || (n =? 92) || (n =? 60) || (n =? 62) || (n =? 38)).
Definition two53 : N := 9007199254740992.
Definition wf_contract (c : iss_contract) : bool :=
  forallb wf_jchar (c_name c) && forallb wf_jchar (c_ticker c) && forallb wf_jchar (c_pubkey c) &&
  forallb wf_jchar (c_domain c) && (c_version c <? two53) && (c_precision c <? two53).

(* ---------- TxIssuanceExtended ---------- *)
Record iss_ext := mk_iss_ext { ie_iss : issuance; ie_precision : N; ie_chash : bytes }.

(* elementsutil.ValueToBytes *)
Definition iss_value_to_bytes (v : N) : bytes := b8 1 :: be_enc 8 v.
(* toConfidentialIssuanceAmount *)
Definition issuance_amount (v : N) : bytes := if v =? 0 then [x00] else iss_value_to_bytes v.

(* NewTxIssuance(assetAmount, tokenAmount, precision, iss_contract) *)
Definition new_tx_issuance (asset token precision : N) (c : option iss_contract) : option iss_ext :=
  if 8 <? precision then None else
  match c with
  | Some ct =>
      if negb (c_precision ct =? precision) then None
      else Some (mk_iss_ext (mk_iss zero32b [] (issuance_amount asset) (issuance_amount token)) precision (contract_hash ct))
  | None => Some (mk_iss_ext (mk_iss zero32b [] (issuance_amount asset) (issuance_amount token)) precision zero32b)
  end.

(* GenerateEntropy / GenerateAsset / GenerateReissuanceToken *)
Definition generate_entropy (ie : iss_ext) (hash : bytes) (index : N) : option iss_ext :=
  match compute_entropy hash index (ie_chash ie) with
  | None => None
  | Some e => Some (mk_iss_ext (mk_iss (iss_nonce (ie_iss ie)) e (iss_amount (ie_iss ie)) (iss_token (ie_iss ie)))
                               (ie_precision ie) (ie_chash ie))
  end.
Definition generate_asset (ie : iss_ext) : option bytes := compute_asset (iss_entropy (ie_iss ie)).
Definition generate_token (ie : iss_ext) (flag : N) : option bytes := compute_token (iss_entropy (ie_iss ie)) flag.

(* TxIssuance.IsReissuance *)
Definition is_reissuance (s : issuance) : bool := negb (bytes_eqb (iss_nonce s) zero32b).

Definition from_entropy (e : bytes) : iss_ext := mk_iss_ext (mk_iss [] e [] []) 0 [].
Definition from_contract_hash (h : bytes) : iss_ext := mk_iss_ext (mk_iss [] [] [] []) 0 h.

(* NewTxIssuanceFromInput (the input carries an issuance) *)
Definition new_from_input (hash : bytes) (index : N) (s : issuance) : option iss_ext :=
  if is_reissuance s then Some (from_entropy (iss_entropy s))
  else generate_entropy (from_contract_hash (iss_entropy s)) hash index.

(* ---------- decoded destination address ---------- *)
Record iss_addr := mk_iss_addr {
  ad_present : bool;     (* len(address) > 0 *)
  ad_valid : bool;       (* address.DecodeType / ToOutputScript succeed *)
  ad_conf : bool;        (* address.IsConfidential *)
  ad_script : bytes;     (* address.ToOutputScript *)
  ad_key : bytes }.      (* blinding key of a confidential address *)

Record iss_args := mk_iss_args {
  ia_precision : N; ia_contract : option iss_contract; ia_asset : N; ia_token : N;
  ia_aaddr : iss_addr; ia_taddr : iss_addr; ia_blinded : bool (* psetv2 only *) }.

Definition explicit_asset (id : bytes) : bytes := b8 1 :: id.
(* transaction.NewTxOutput *)
Definition new_tx_output (asset value script : bytes) : txout := mk_out asset value script [x00] [] [].

(* ---------- PSET v0 ---------- *)
Record v0pkt := mk_v0pkt { v0_tx : tx; v0_nin : N; v0_nout : N }.   (* UnsignedTx, len(Inputs), len(Outputs) *)

Definition v0_add_output (p : v0pkt) (o : txout) : v0pkt :=
  let t := v0_tx p in
  mk_v0pkt (mk_tx (t_version t) (t_flag t) (t_locktime t) (t_ins t) (t_outs t ++ [o])) (v0_nin p) (v0_nout p + 1).
Definition v0_add_input (p : v0pkt) (i : txin) : v0pkt :=
  let t := v0_tx p in
  mk_v0pkt (mk_tx (t_version t) (t_flag t) (t_locktime t) (t_ins t ++ [i]) (t_outs t)) (v0_nin p + 1) (v0_nout p).

Definition set_in_iss (i : txin) (s : issuance) : txin :=
  mk_in (in_hash i) (in_index i) (in_seq i) (in_script i) (in_witness i) (in_pegin i) (in_pegwit i)
        (Some s) (in_irp i) (in_inrp i).

Fixpoint iss_set_nth {A} (n : nat) (f : A -> A) (l : list A) : list A :=
  match l, n with
  | [], _ => []
  | x :: r, O => f x :: r
  | x :: r, S k => x :: iss_set_nth k f r
  end.

Definition v0_set_iss (p : v0pkt) (idx : nat) (s : issuance) : v0pkt :=
  let t := v0_tx p in
  mk_v0pkt (mk_tx (t_version t) (t_flag t) (t_locktime t) (iss_set_nth idx (fun i => set_in_iss i s) (t_ins t)) (t_outs t))
           (v0_nin p) (v0_nout p).

(* findInputWithEmptyIssuance *)
Fixpoint find_empty (l : list txin) (k : nat) : option (nat * txin) :=
  match l with
  | [] => None
  | i :: r => match in_iss i with None => Some (k, i) | Some _ => find_empty r (S k) end
  end.

(* AddIssuanceArgs.validate *)
Definition v0_validate (a : iss_args) : bool :=
  match new_tx_issuance (ia_asset a) (ia_token a) (ia_precision a) (ia_contract a) with
  | None => false
  | Some _ =>
      (if 0 <? ia_asset a then ad_present (ia_aaddr a) && ad_valid (ia_aaddr a) else true) &&
      (if 0 <? ia_token a then ad_present (ia_taddr a) && ad_valid (ia_taddr a) else true) &&
      (* matchAddressTypes *)
      (if negb (ad_present (ia_aaddr a)) || negb (ad_present (ia_taddr a)) then true
       else Bool.eqb (ad_conf (ia_aaddr a)) (ad_conf (ia_taddr a)))
  end.

Definition iss_flag_of (b : bool) : N := if b then 1 else 0.

(* Updater.AddIssuance: (nil error?, packet afterwards) *)
Definition v0_add_issuance (p : v0pkt) (a : iss_args) : bool * v0pkt :=
  if negb (v0_validate a) then (false, p) else
  match t_ins (v0_tx p) with
  | [] => (false, p)
  | _ =>
    match new_tx_issuance (ia_asset a) (ia_token a) (ia_precision a) (ia_contract a) with
    | None => (false, p)        (* excluded by validate *)
    | Some iss0 =>
      match find_empty (t_ins (v0_tx p)) 0 with
      | None => (false, p)
      | Some (idx, i) =>
        match generate_entropy iss0 (in_hash i) (in_index i) with
        | None => (false, p)
        | Some iss =>
          let s := ie_iss iss in
          let p1 := v0_set_iss p idx (mk_iss (iss_nonce s) (ie_chash iss) (iss_amount s) (iss_token s)) in
          match generate_asset iss with
          | None => (false, p1)
          | Some asset =>
            if negb (ad_valid (ia_aaddr a)) then (false, p1) else
            let p2 := if 0 <? ia_asset a
                      then v0_add_output p1 (new_tx_output (explicit_asset asset) (iss_amount s) (ad_script (ia_aaddr a)))
                      else p1 in
            if 0 <? ia_token a then
              match generate_token iss (iss_flag_of (ad_conf (ia_aaddr a))) with
              | None => (false, p2)
              | Some token =>
                if negb (ad_valid (ia_taddr a)) then (false, p2) else
                (true, v0_add_output p2 (new_tx_output (explicit_asset token) (iss_token s) (ad_script (ia_taddr a))))
              end
            else (true, p2)
          end
        end
      end
    end
  end.

(* AddReissuanceArgs, with the hex strings decoded and the UTXO clauses of validate summarised *)
Record v0_reiss_args := mk_v0_reiss_args {
  rva_utxo_ok : bool;          (* a UTXO is given, matches the prevout hash and is confidential *)
  rva_hash : option bytes;     (* hex.DecodeString(PrevOutHash), None if not hex *)
  rva_index : N;
  rva_blinder : bytes;
  rva_entropy : option bytes;  (* hex.DecodeString(Entropy) *)
  rva_asset : N; rva_token : N;
  rva_aaddr : iss_addr; rva_taddr : iss_addr }.

Definition iss_hex32 (o : option bytes) : bool :=
  match o with Some b => (length b =? 32)%nat | None => false end.
Definition iss_obytes (o : option bytes) : bytes := match o with Some b => b | None => [] end.

Definition v0_reiss_validate (a : v0_reiss_args) : bool :=
  rva_utxo_ok a && iss_hex32 (rva_hash a) && (length (rva_blinder a) =? 32)%nat && iss_hex32 (rva_entropy a) &&
  (0 <? rva_asset a) && (0 <? rva_token a) &&
  ad_present (rva_aaddr a) && ad_valid (rva_aaddr a) && ad_present (rva_taddr a) && ad_valid (rva_taddr a) &&
  ad_conf (rva_aaddr a) && ad_conf (rva_taddr a).

(* transaction.NewTxInput *)
Definition new_tx_input (hash : bytes) (index : N) : txin :=
  mk_in hash (if index =? MinusOne then index else N.land index OutpointIndexMask) 4294967295 [] [] false [] None [] [].

(* Updater.AddReissuance *)
Definition v0_add_reissuance (p : v0pkt) (a : v0_reiss_args) : bool * v0pkt :=
  if negb (v0_reiss_validate a) then (false, p) else
  if v0_nin p =? 0 then (false, p) else
  let prevout_hash := rev (iss_obytes (rva_hash a)) in
  let p1 := v0_add_input p (new_tx_input prevout_hash (rva_index a)) in
  let input_index := N.to_nat (v0_nin p1 - 1) in
  let entropy := rev (iss_obytes (rva_entropy a)) in
  let iss := from_entropy entropy in
  let asset := match generate_asset iss with Some x => x | None => [] end in
  let token := match generate_token iss 1 with Some x => x | None => [] end in
  let asset_amount := iss_value_to_bytes (rva_asset a) in
  let token_amount := iss_value_to_bytes (rva_token a) in
  let p2 := v0_add_output p1 (new_tx_output (explicit_asset asset) asset_amount (ad_script (rva_aaddr a))) in
  let p3 := v0_add_output p2 (new_tx_output (explicit_asset token) token_amount (ad_script (rva_taddr a))) in
  (true, v0_set_iss p3 input_index (mk_iss (rva_blinder a) entropy asset_amount [x00])).

(* ---------- PSET v2 (the fields the issuance logic reads and writes) ---------- *)
Record v2in := mk_v2in {
  vi_txid : bytes; vi_index : N; vi_seq : N;
  vi_value : N; vi_vcommit : option bytes;        (* IssuanceValue, IssuanceValueCommitment *)
  vi_keys : N; vi_kcommit : option bytes;         (* IssuanceInflationKeys, ...Commitment *)
  vi_nonce : option bytes;                        (* IssuanceBlindingNonce *)
  vi_entropy : option bytes;                      (* IssuanceAssetEntropy *)
  vi_blinded : option bool;                       (* BlindedIssuance *)
  vi_pegin : bool }.                              (* PeginWitness != nil *)

Record v2out := mk_v2out {
  vo_value : N; vo_asset : bytes; vo_script : bytes; vo_bkey : bytes; vo_bidx : N;
  vo_vcommit : option bytes; vo_acommit : option bytes; vo_ecdh : option bytes }.

Record v2pkt := mk_v2pkt {
  v2_incount : N; v2_outcount : N;      (* Global.InputCount, Global.OutputCount *)
  v2_outs_modifiable : bool;            (* OutputsModifiable() *)
  v2_ins : list v2in; v2_outs : list v2out }.

Definition iss_olen (o : option bytes) : nat := length (iss_obytes o).
Definition iss_is_some {A} (o : option A) : bool := match o with Some _ => true | None => false end.

(* Input.HasIssuance / HasReissuance / isBlindedIssuance *)
Definition vi_has_issuance (i : v2in) : bool := (0 <? vi_value i) || (0 <? vi_keys i).
Definition vi_has_reissuance (i : v2in) : bool :=
  if (iss_olen (vi_nonce i) =? 0)%nat then false else negb (bytes_eqb (iss_obytes (vi_nonce i)) zero32b).
Definition vi_is_blinded (i : v2in) : bool := match vi_blinded i with None => true | Some b => b end.

(* the issuance object both getters build *)
Definition vi_issuance (i : v2in) : iss_ext :=
  if vi_has_reissuance i then from_entropy (iss_obytes (vi_entropy i))
  else match generate_entropy (from_contract_hash (iss_obytes (vi_entropy i))) (vi_txid i) (vi_index i) with
       | Some x => x
       | None => from_contract_hash (iss_obytes (vi_entropy i))      (* error ignored: entropy stays nil *)
       end.
(* GetIssuanceAssetHash / GetIssuanceInflationKeysHash (None = nil) *)
Definition get_issuance_asset_hash (i : v2in) : option bytes :=
  if negb (vi_has_issuance i) then None else generate_asset (vi_issuance i).
Definition get_issuance_keys_hash (i : v2in) : option bytes :=
  if negb (vi_has_issuance i) then None else generate_token (vi_issuance i) (iss_flag_of (vi_is_blinded i)).

(* AddInIssuanceArgs.validate *)
Definition v2_validate (a : iss_args) : bool :=
  match new_tx_issuance (ia_asset a) (ia_token a) (ia_precision a) (ia_contract a) with
  | None => false
  | Some _ =>
      ad_present (ia_aaddr a) && ad_valid (ia_aaddr a) &&
      (if 0 <? ia_token a then ad_present (ia_taddr a) && ad_valid (ia_taddr a) else true)
  end.

(* validateInputIndexForIssuance; inputIndex is a Go int *)
Definition v2_index_ok (p : v2pkt) (idx : Z) : option v2in :=
  if (idx <? 0)%Z || (Z.of_N (v2_incount p) - 1 <? idx)%Z then None
  else match nth_error (v2_ins p) (Z.to_nat idx) with
       | None => None          (* Go: index out of range panic; excluded by the packet invariant *)
       | Some i => if iss_is_some (vi_entropy i) then None else Some i
       end.

(* parseAddress + OutputArgs.toPartialOutput + the NeedsBlinding fix-up *)
Definition v2_new_output (asset : bytes) (amount : N) (a : iss_addr) (arg_bidx final_bidx : N) : v2out :=
  let key := if ad_conf a then ad_key a else [] in
  mk_v2out amount asset (ad_script a) key (if (0 <? length key)%nat then final_bidx else arg_bidx) None None None.

(* Pset.addOutput on an unblinded output *)
Definition v2_add_output (p : v2pkt) (o : v2out) : option v2pkt :=
  if (length (vo_asset o) =? 0)%nat then None          (* Output.SanityCheck: missing asset *)
  else if negb (v2_outs_modifiable p) then None
  else Some (mk_v2pkt (v2_incount p) (v2_outcount p + 1) (v2_outs_modifiable p) (v2_ins p) (v2_outs p ++ [o])).

Definition v2_set_in (p : v2pkt) (idx : nat) (f : v2in -> v2in) : v2pkt :=
  mk_v2pkt (v2_incount p) (v2_outcount p) (v2_outs_modifiable p) (iss_set_nth idx f (v2_ins p)) (v2_outs p).

(* Updater.AddInIssuance.  The work is done on a copy of the packet (Pset.Copy copies the input
   and output slices since fd68736) that replaces the updater's packet only at the end, so a
   failed call leaves the packet as it was.  The final SanityCheck of the whole packet is not
   modelled (C11). *)
Definition v2_add_in_issuance (p : v2pkt) (idx : Z) (a : iss_args) : bool * v2pkt :=
  if negb (v2_validate a) then (false, p) else
  match v2_ins p with
  | [] => (false, p)
  | _ =>
    match v2_index_ok p idx with
    | None => (false, p)
    | Some input =>
      match new_tx_issuance (ia_asset a) (ia_token a) (ia_precision a) (ia_contract a) with
      | None => (false, p)
      | Some iss0 =>
        match generate_entropy iss0 (vi_txid input) (vi_index input) with
        | None => (false, p)
        | Some iss =>
          let k := Z.to_nat idx in
          let p1 := v2_set_in p k (fun i =>
            mk_v2in (vi_txid i) (vi_index i) (vi_seq i) (ia_asset a) (vi_vcommit i) (ia_token a) (vi_kcommit i)
                    (Some (iss_nonce (ie_iss iss))) (Some (ie_chash iss)) (Some (ia_blinded a)) (vi_pegin i)) in
          let asset := match generate_asset iss with Some x => x | None => [] end in
          let bidx := Z.to_N idx mod 4294967296 in
          match v2_add_output p1 (v2_new_output asset (ia_asset a) (ia_aaddr a) bidx bidx) with
          | None => (false, p)
          | Some p2 =>
            if 0 <? ia_token a then
              let token := match generate_token iss (iss_flag_of (ia_blinded a)) with Some x => x | None => [] end in
              match v2_add_output p2 (v2_new_output token (ia_token a) (ia_taddr a) bidx bidx) with
              | None => (false, p)
              | Some p3 => (true, p3)
              end
            else (true, p2)
          end
        end
      end
    end
  end.

Record reiss2_args := mk_reiss2_args {
  r2_blinder : bytes; r2_entropy : option bytes; r2_asset : N; r2_token : N; r2_aaddr : iss_addr; r2_taddr : iss_addr }.

Definition v2_reiss_validate (a : reiss2_args) : bool :=
  (length (r2_blinder a) =? 32)%nat && negb (bytes_eqb (r2_blinder a) zero32b) && iss_hex32 (r2_entropy a) &&
  negb (r2_asset a =? 0) && negb (r2_token a =? 0) &&
  ad_present (r2_aaddr a) && ad_valid (r2_aaddr a) && ad_present (r2_taddr a) && ad_valid (r2_taddr a).

(* Updater.AddInReissuance *)
Definition v2_add_in_reissuance (p : v2pkt) (idx : Z) (a : reiss2_args) : bool * v2pkt :=
  match v2_index_ok p idx with
  | None => (false, p)
  | Some _ =>
    if negb (v2_reiss_validate a) then (false, p) else
    let entropy := rev (iss_obytes (r2_entropy a)) in
    let iss := from_entropy entropy in
    let asset := match generate_asset iss with Some x => x | None => [] end in
    let bidx := Z.to_N idx mod 4294967296 in
    match v2_add_output p (v2_new_output asset (r2_asset a) (r2_aaddr a) 0 bidx) with
    | None => (false, p)
    | Some p1 =>
      let token := match generate_token iss 1 with Some x => x | None => [] end in
      match v2_add_output p1 (v2_new_output token (r2_token a) (r2_taddr a) 0 bidx) with
      | None => (false, p)
      | Some p2 =>
        (true, v2_set_in p2 (Z.to_nat idx) (fun i =>
           mk_v2in (vi_txid i) (vi_index i) (vi_seq i) (r2_asset a) (vi_vcommit i) (vi_keys i) (vi_kcommit i)
                   (Some (r2_blinder a)) (Some entropy) (vi_blinded i) (vi_pegin i)))
      end
    end
  end.

(* ---------- the transaction's view of a v2 packet ---------- *)
(* Pset.UnsignedTx and Extract build the issuance of one input by the same rules: present when the
   entropy field is, amounts from the commitment if there is one, else explicit when non-zero,
   else the null amount *)
Definition tx_issuance_of (i : v2in) : option issuance :=
  match vi_entropy i with
  | None => None
  | Some e =>
      let amount := match vi_vcommit i with
                    | Some c => c
                    | None => if 0 <? vi_value i then iss_value_to_bytes (vi_value i) else [x00]
                    end in
      let token := match vi_kcommit i with
                   | Some c => c
                   | None => if 0 <? vi_keys i then iss_value_to_bytes (vi_keys i) else [x00]
                   end in
      Some (mk_iss (iss_obytes (vi_nonce i)) e amount token)
  end.
(* both views set TxInput.IsPegin = (PeginWitness != nil), independently of the issuance *)
Definition unsigned_pegin (i : v2in) : bool := vi_pegin i.
Definition extract_pegin (i : v2in) : bool := vi_pegin i.
Definition unsigned_issuance (i : v2in) : option issuance := tx_issuance_of i.
Definition extract_issuance (i : v2in) : option issuance := tx_issuance_of i.

(* asset, value, script, nonce of one output (UnsignedTx; Extract agrees on unblinded outputs) *)
Definition unsigned_output (o : v2out) : txout :=
  mk_out (match vo_acommit o with Some c => c | None => explicit_asset (vo_asset o) end)
         (match vo_vcommit o with Some c => c | None => iss_value_to_bytes (vo_value o) end)
         (vo_script o)
         (match vo_ecdh o with Some c => c | None => [x00] end) [] [].

(* what the property expects of the transaction for an unblinded issuance declared in the packet *)
Definition expected_issuance (i : v2in) : option issuance :=
  match vi_entropy i with
  | None => None
  | Some e => Some (mk_iss (iss_obytes (vi_nonce i)) e (issuance_amount (vi_value i)) (issuance_amount (vi_keys i)))
  end.
