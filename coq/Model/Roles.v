(* Model/Roles.v — C11: the PSET v2 role operations as a state machine.

   Executable Gallina model (definitions only) of psetv2/{pset,creator,updater,signer,
   blinder,finalizer}.go AS THE CODE IS after the fix: commits c50dc2e, 1bba04e (serialiser),
   3710385 (Locktime selects the time kind when an input is time-only) and fd68736 (Pset.Copy
   copies Global, Inputs and Outputs; staged operations end in publish, which runs SanityCheck
   on the staged packet FIRST and assigns only on success; SignInput works on the staged copy).
   Also followed: 0ac2234 (every single-field setter stages its write and publishes), e4278d0
   (issuance, reissuance and issuance blinding refuse a finalized input), cc83b33 (New validates
   its arguments; the tapscript-signature and tap-derivation setters apply the parser's checks),
   7d6e201 (Input.GetUtxo no longer writes), 2b1b006 (empty derivation paths parse), a3c85bd (the
   blinder refuses commitments the parser would refuse).
   Only Finalize / MaybeFinalize / MaybeFinalizeAll still work on the live packet.

   The state is abstract: it carries exactly what C11 talks about (declared counts, the list
   of inputs split into the part no operation changes after creation — outpoint, sequence,
   required locktimes: [core] — and the part the roles write — [aux] —, the outputs with
   their blinding status, TxModifiable with nil distinguished from a bit set, fallback
   locktime, scalars). Scripts, keys, previous transactions and proofs range over a small
   vocabulary that harness/roles.go materialises into real objects (see there); validator
   and generator of the blinder are oracles (booleans of the operation).
   [rt] is the abstract statement of "ToBase64, parse, ToBase64 gives the same string". *)
From Coq Require Import List NArith ZArith Bool.
Import ListNotations.
Open Scope N_scope.

Module R11.

(* ---------- vocabulary ---------- *)
Inductive script :=
| SEmpty                      (* []byte{} — non-nil, zero length *)
| SPkh (k : N) | SWpkh (k : N)
| SMs (m : N)                 (* m-of-2 multisig over keys 0 and 1 *)
| STr | SJunk                 (* taproot output; a truncated push (unparseable) *)
| SSh (s : script) | SWsh (s : script).

Fixpoint script_eqb (a b : script) : bool :=
  match a, b with
  | SEmpty, SEmpty | STr, STr | SJunk, SJunk => true
  | SPkh x, SPkh y | SWpkh x, SWpkh y | SMs x, SMs y => x =? y
  | SSh x, SSh y | SWsh x, SWsh y => script_eqb x y
  | _, _ => false
  end.

(* txscript.IsWitnessProgram / IsPayTo... on the vocabulary *)
Definition is_witness_program (s : script) : bool :=
  match s with SWpkh _ | SWsh _ | STr => true | _ => false end.
Definition is_p2wsh (s : script) := match s with SWsh _ => true | _ => false end.
Definition is_p2wpkh (s : script) := match s with SWpkh _ => true | _ => false end.
Definition is_p2tr (s : script) := match s with STr => true | _ => false end.
Definition is_p2sh (s : script) := match s with SSh _ => true | _ => false end.
(* address.ParseScript *)
Definition parse_ok (s : script) := match s with SJunk => false | _ => true end.

(* len(x) > 0 for an optional script (nil and empty are both "absent" there) *)
Definition nonempty (o : option script) : bool :=
  match o with None | Some SEmpty => false | Some _ => true end.
Definition non_nil (o : option script) : bool := match o with None => false | Some _ => true end.
Definition or_empty (o : option script) : script := match o with None => SEmpty | Some s => s end.

(* the output scripts of every previous transaction of the vocabulary *)
Definition prevouts : list script :=
  [SWpkh 0; SPkh 0; SSh (SWpkh 0); SWsh (SMs 2); SSh (SMs 1); STr].

Record utxo := { u_script : script; u_conf : bool }.
(* taproot script-path signature: key id, len(PubKey), len(Signature), leaf id, len(LeafHash) *)
Record tss := { ts_pk : N; ts_pklen : N; ts_siglen : N; ts_leaf : N; ts_lhlen : N }.
(* taproot bip32 derivation: key id, number of leaf hashes, their length, path non-empty *)
Record tbd := { tb_key : N; tb_nh : N; tb_hlen : N; tb_path : bool }.

(* the creation-time part of an input: nothing after addInput writes it *)
Record core := { c_t : N; c_short : bool; c_idx : N; c_seq : N; c_time : N; c_height : N }.

Record aux := mk_aux {
  a_nw : bool;
  a_nwrp : bool;
  a_w : option utxo;
  a_psigs : list (N * N);
  a_sighash : N;
  a_redeem : option script;
  a_wscript : option script;
  a_bip32 : list (N * bool);
  a_fss : bool;
  a_fsw : bool;
  a_issval : N;
  a_isskeys : N;
  a_entropy : bool;
  a_nonce : bool;
  a_blindediss : option bool;
  a_issblind : bool;
  a_issbad : bool;
  a_urp : bool;
  a_expval : N;
  a_valproof : bool;
  a_expasset : N;
  a_assetproof : bool;
  a_tapkeysig : N;
  a_tapss : list tss;
  a_tapleaves : list N;
  a_tapbip32 : list tbd;
  a_tapik : N;
  a_tapmr : N
}.
Definition set_a_nw (v : bool) (x : aux) : aux := {| a_nw := v; a_nwrp := a_nwrp x; a_w := a_w x; a_psigs := a_psigs x; a_sighash := a_sighash x; a_redeem := a_redeem x; a_wscript := a_wscript x; a_bip32 := a_bip32 x; a_fss := a_fss x; a_fsw := a_fsw x; a_issval := a_issval x; a_isskeys := a_isskeys x; a_entropy := a_entropy x; a_nonce := a_nonce x; a_blindediss := a_blindediss x; a_issblind := a_issblind x; a_issbad := a_issbad x; a_urp := a_urp x; a_expval := a_expval x; a_valproof := a_valproof x; a_expasset := a_expasset x; a_assetproof := a_assetproof x; a_tapkeysig := a_tapkeysig x; a_tapss := a_tapss x; a_tapleaves := a_tapleaves x; a_tapbip32 := a_tapbip32 x; a_tapik := a_tapik x; a_tapmr := a_tapmr x |}.
Definition set_a_nwrp (v : bool) (x : aux) : aux := {| a_nw := a_nw x; a_nwrp := v; a_w := a_w x; a_psigs := a_psigs x; a_sighash := a_sighash x; a_redeem := a_redeem x; a_wscript := a_wscript x; a_bip32 := a_bip32 x; a_fss := a_fss x; a_fsw := a_fsw x; a_issval := a_issval x; a_isskeys := a_isskeys x; a_entropy := a_entropy x; a_nonce := a_nonce x; a_blindediss := a_blindediss x; a_issblind := a_issblind x; a_issbad := a_issbad x; a_urp := a_urp x; a_expval := a_expval x; a_valproof := a_valproof x; a_expasset := a_expasset x; a_assetproof := a_assetproof x; a_tapkeysig := a_tapkeysig x; a_tapss := a_tapss x; a_tapleaves := a_tapleaves x; a_tapbip32 := a_tapbip32 x; a_tapik := a_tapik x; a_tapmr := a_tapmr x |}.
Definition set_a_w (v : option utxo) (x : aux) : aux := {| a_nw := a_nw x; a_nwrp := a_nwrp x; a_w := v; a_psigs := a_psigs x; a_sighash := a_sighash x; a_redeem := a_redeem x; a_wscript := a_wscript x; a_bip32 := a_bip32 x; a_fss := a_fss x; a_fsw := a_fsw x; a_issval := a_issval x; a_isskeys := a_isskeys x; a_entropy := a_entropy x; a_nonce := a_nonce x; a_blindediss := a_blindediss x; a_issblind := a_issblind x; a_issbad := a_issbad x; a_urp := a_urp x; a_expval := a_expval x; a_valproof := a_valproof x; a_expasset := a_expasset x; a_assetproof := a_assetproof x; a_tapkeysig := a_tapkeysig x; a_tapss := a_tapss x; a_tapleaves := a_tapleaves x; a_tapbip32 := a_tapbip32 x; a_tapik := a_tapik x; a_tapmr := a_tapmr x |}.
Definition set_a_psigs (v : list (N * N)) (x : aux) : aux := {| a_nw := a_nw x; a_nwrp := a_nwrp x; a_w := a_w x; a_psigs := v; a_sighash := a_sighash x; a_redeem := a_redeem x; a_wscript := a_wscript x; a_bip32 := a_bip32 x; a_fss := a_fss x; a_fsw := a_fsw x; a_issval := a_issval x; a_isskeys := a_isskeys x; a_entropy := a_entropy x; a_nonce := a_nonce x; a_blindediss := a_blindediss x; a_issblind := a_issblind x; a_issbad := a_issbad x; a_urp := a_urp x; a_expval := a_expval x; a_valproof := a_valproof x; a_expasset := a_expasset x; a_assetproof := a_assetproof x; a_tapkeysig := a_tapkeysig x; a_tapss := a_tapss x; a_tapleaves := a_tapleaves x; a_tapbip32 := a_tapbip32 x; a_tapik := a_tapik x; a_tapmr := a_tapmr x |}.
Definition set_a_sighash (v : N) (x : aux) : aux := {| a_nw := a_nw x; a_nwrp := a_nwrp x; a_w := a_w x; a_psigs := a_psigs x; a_sighash := v; a_redeem := a_redeem x; a_wscript := a_wscript x; a_bip32 := a_bip32 x; a_fss := a_fss x; a_fsw := a_fsw x; a_issval := a_issval x; a_isskeys := a_isskeys x; a_entropy := a_entropy x; a_nonce := a_nonce x; a_blindediss := a_blindediss x; a_issblind := a_issblind x; a_issbad := a_issbad x; a_urp := a_urp x; a_expval := a_expval x; a_valproof := a_valproof x; a_expasset := a_expasset x; a_assetproof := a_assetproof x; a_tapkeysig := a_tapkeysig x; a_tapss := a_tapss x; a_tapleaves := a_tapleaves x; a_tapbip32 := a_tapbip32 x; a_tapik := a_tapik x; a_tapmr := a_tapmr x |}.
Definition set_a_redeem (v : option script) (x : aux) : aux := {| a_nw := a_nw x; a_nwrp := a_nwrp x; a_w := a_w x; a_psigs := a_psigs x; a_sighash := a_sighash x; a_redeem := v; a_wscript := a_wscript x; a_bip32 := a_bip32 x; a_fss := a_fss x; a_fsw := a_fsw x; a_issval := a_issval x; a_isskeys := a_isskeys x; a_entropy := a_entropy x; a_nonce := a_nonce x; a_blindediss := a_blindediss x; a_issblind := a_issblind x; a_issbad := a_issbad x; a_urp := a_urp x; a_expval := a_expval x; a_valproof := a_valproof x; a_expasset := a_expasset x; a_assetproof := a_assetproof x; a_tapkeysig := a_tapkeysig x; a_tapss := a_tapss x; a_tapleaves := a_tapleaves x; a_tapbip32 := a_tapbip32 x; a_tapik := a_tapik x; a_tapmr := a_tapmr x |}.
Definition set_a_wscript (v : option script) (x : aux) : aux := {| a_nw := a_nw x; a_nwrp := a_nwrp x; a_w := a_w x; a_psigs := a_psigs x; a_sighash := a_sighash x; a_redeem := a_redeem x; a_wscript := v; a_bip32 := a_bip32 x; a_fss := a_fss x; a_fsw := a_fsw x; a_issval := a_issval x; a_isskeys := a_isskeys x; a_entropy := a_entropy x; a_nonce := a_nonce x; a_blindediss := a_blindediss x; a_issblind := a_issblind x; a_issbad := a_issbad x; a_urp := a_urp x; a_expval := a_expval x; a_valproof := a_valproof x; a_expasset := a_expasset x; a_assetproof := a_assetproof x; a_tapkeysig := a_tapkeysig x; a_tapss := a_tapss x; a_tapleaves := a_tapleaves x; a_tapbip32 := a_tapbip32 x; a_tapik := a_tapik x; a_tapmr := a_tapmr x |}.
Definition set_a_bip32 (v : list (N * bool)) (x : aux) : aux := {| a_nw := a_nw x; a_nwrp := a_nwrp x; a_w := a_w x; a_psigs := a_psigs x; a_sighash := a_sighash x; a_redeem := a_redeem x; a_wscript := a_wscript x; a_bip32 := v; a_fss := a_fss x; a_fsw := a_fsw x; a_issval := a_issval x; a_isskeys := a_isskeys x; a_entropy := a_entropy x; a_nonce := a_nonce x; a_blindediss := a_blindediss x; a_issblind := a_issblind x; a_issbad := a_issbad x; a_urp := a_urp x; a_expval := a_expval x; a_valproof := a_valproof x; a_expasset := a_expasset x; a_assetproof := a_assetproof x; a_tapkeysig := a_tapkeysig x; a_tapss := a_tapss x; a_tapleaves := a_tapleaves x; a_tapbip32 := a_tapbip32 x; a_tapik := a_tapik x; a_tapmr := a_tapmr x |}.
Definition set_a_fss (v : bool) (x : aux) : aux := {| a_nw := a_nw x; a_nwrp := a_nwrp x; a_w := a_w x; a_psigs := a_psigs x; a_sighash := a_sighash x; a_redeem := a_redeem x; a_wscript := a_wscript x; a_bip32 := a_bip32 x; a_fss := v; a_fsw := a_fsw x; a_issval := a_issval x; a_isskeys := a_isskeys x; a_entropy := a_entropy x; a_nonce := a_nonce x; a_blindediss := a_blindediss x; a_issblind := a_issblind x; a_issbad := a_issbad x; a_urp := a_urp x; a_expval := a_expval x; a_valproof := a_valproof x; a_expasset := a_expasset x; a_assetproof := a_assetproof x; a_tapkeysig := a_tapkeysig x; a_tapss := a_tapss x; a_tapleaves := a_tapleaves x; a_tapbip32 := a_tapbip32 x; a_tapik := a_tapik x; a_tapmr := a_tapmr x |}.
Definition set_a_fsw (v : bool) (x : aux) : aux := {| a_nw := a_nw x; a_nwrp := a_nwrp x; a_w := a_w x; a_psigs := a_psigs x; a_sighash := a_sighash x; a_redeem := a_redeem x; a_wscript := a_wscript x; a_bip32 := a_bip32 x; a_fss := a_fss x; a_fsw := v; a_issval := a_issval x; a_isskeys := a_isskeys x; a_entropy := a_entropy x; a_nonce := a_nonce x; a_blindediss := a_blindediss x; a_issblind := a_issblind x; a_issbad := a_issbad x; a_urp := a_urp x; a_expval := a_expval x; a_valproof := a_valproof x; a_expasset := a_expasset x; a_assetproof := a_assetproof x; a_tapkeysig := a_tapkeysig x; a_tapss := a_tapss x; a_tapleaves := a_tapleaves x; a_tapbip32 := a_tapbip32 x; a_tapik := a_tapik x; a_tapmr := a_tapmr x |}.
Definition set_a_issval (v : N) (x : aux) : aux := {| a_nw := a_nw x; a_nwrp := a_nwrp x; a_w := a_w x; a_psigs := a_psigs x; a_sighash := a_sighash x; a_redeem := a_redeem x; a_wscript := a_wscript x; a_bip32 := a_bip32 x; a_fss := a_fss x; a_fsw := a_fsw x; a_issval := v; a_isskeys := a_isskeys x; a_entropy := a_entropy x; a_nonce := a_nonce x; a_blindediss := a_blindediss x; a_issblind := a_issblind x; a_issbad := a_issbad x; a_urp := a_urp x; a_expval := a_expval x; a_valproof := a_valproof x; a_expasset := a_expasset x; a_assetproof := a_assetproof x; a_tapkeysig := a_tapkeysig x; a_tapss := a_tapss x; a_tapleaves := a_tapleaves x; a_tapbip32 := a_tapbip32 x; a_tapik := a_tapik x; a_tapmr := a_tapmr x |}.
Definition set_a_isskeys (v : N) (x : aux) : aux := {| a_nw := a_nw x; a_nwrp := a_nwrp x; a_w := a_w x; a_psigs := a_psigs x; a_sighash := a_sighash x; a_redeem := a_redeem x; a_wscript := a_wscript x; a_bip32 := a_bip32 x; a_fss := a_fss x; a_fsw := a_fsw x; a_issval := a_issval x; a_isskeys := v; a_entropy := a_entropy x; a_nonce := a_nonce x; a_blindediss := a_blindediss x; a_issblind := a_issblind x; a_issbad := a_issbad x; a_urp := a_urp x; a_expval := a_expval x; a_valproof := a_valproof x; a_expasset := a_expasset x; a_assetproof := a_assetproof x; a_tapkeysig := a_tapkeysig x; a_tapss := a_tapss x; a_tapleaves := a_tapleaves x; a_tapbip32 := a_tapbip32 x; a_tapik := a_tapik x; a_tapmr := a_tapmr x |}.
Definition set_a_entropy (v : bool) (x : aux) : aux := {| a_nw := a_nw x; a_nwrp := a_nwrp x; a_w := a_w x; a_psigs := a_psigs x; a_sighash := a_sighash x; a_redeem := a_redeem x; a_wscript := a_wscript x; a_bip32 := a_bip32 x; a_fss := a_fss x; a_fsw := a_fsw x; a_issval := a_issval x; a_isskeys := a_isskeys x; a_entropy := v; a_nonce := a_nonce x; a_blindediss := a_blindediss x; a_issblind := a_issblind x; a_issbad := a_issbad x; a_urp := a_urp x; a_expval := a_expval x; a_valproof := a_valproof x; a_expasset := a_expasset x; a_assetproof := a_assetproof x; a_tapkeysig := a_tapkeysig x; a_tapss := a_tapss x; a_tapleaves := a_tapleaves x; a_tapbip32 := a_tapbip32 x; a_tapik := a_tapik x; a_tapmr := a_tapmr x |}.
Definition set_a_nonce (v : bool) (x : aux) : aux := {| a_nw := a_nw x; a_nwrp := a_nwrp x; a_w := a_w x; a_psigs := a_psigs x; a_sighash := a_sighash x; a_redeem := a_redeem x; a_wscript := a_wscript x; a_bip32 := a_bip32 x; a_fss := a_fss x; a_fsw := a_fsw x; a_issval := a_issval x; a_isskeys := a_isskeys x; a_entropy := a_entropy x; a_nonce := v; a_blindediss := a_blindediss x; a_issblind := a_issblind x; a_issbad := a_issbad x; a_urp := a_urp x; a_expval := a_expval x; a_valproof := a_valproof x; a_expasset := a_expasset x; a_assetproof := a_assetproof x; a_tapkeysig := a_tapkeysig x; a_tapss := a_tapss x; a_tapleaves := a_tapleaves x; a_tapbip32 := a_tapbip32 x; a_tapik := a_tapik x; a_tapmr := a_tapmr x |}.
Definition set_a_blindediss (v : option bool) (x : aux) : aux := {| a_nw := a_nw x; a_nwrp := a_nwrp x; a_w := a_w x; a_psigs := a_psigs x; a_sighash := a_sighash x; a_redeem := a_redeem x; a_wscript := a_wscript x; a_bip32 := a_bip32 x; a_fss := a_fss x; a_fsw := a_fsw x; a_issval := a_issval x; a_isskeys := a_isskeys x; a_entropy := a_entropy x; a_nonce := a_nonce x; a_blindediss := v; a_issblind := a_issblind x; a_issbad := a_issbad x; a_urp := a_urp x; a_expval := a_expval x; a_valproof := a_valproof x; a_expasset := a_expasset x; a_assetproof := a_assetproof x; a_tapkeysig := a_tapkeysig x; a_tapss := a_tapss x; a_tapleaves := a_tapleaves x; a_tapbip32 := a_tapbip32 x; a_tapik := a_tapik x; a_tapmr := a_tapmr x |}.
Definition set_a_issblind (v : bool) (x : aux) : aux := {| a_nw := a_nw x; a_nwrp := a_nwrp x; a_w := a_w x; a_psigs := a_psigs x; a_sighash := a_sighash x; a_redeem := a_redeem x; a_wscript := a_wscript x; a_bip32 := a_bip32 x; a_fss := a_fss x; a_fsw := a_fsw x; a_issval := a_issval x; a_isskeys := a_isskeys x; a_entropy := a_entropy x; a_nonce := a_nonce x; a_blindediss := a_blindediss x; a_issblind := v; a_issbad := a_issbad x; a_urp := a_urp x; a_expval := a_expval x; a_valproof := a_valproof x; a_expasset := a_expasset x; a_assetproof := a_assetproof x; a_tapkeysig := a_tapkeysig x; a_tapss := a_tapss x; a_tapleaves := a_tapleaves x; a_tapbip32 := a_tapbip32 x; a_tapik := a_tapik x; a_tapmr := a_tapmr x |}.
Definition set_a_issbad (v : bool) (x : aux) : aux := {| a_nw := a_nw x; a_nwrp := a_nwrp x; a_w := a_w x; a_psigs := a_psigs x; a_sighash := a_sighash x; a_redeem := a_redeem x; a_wscript := a_wscript x; a_bip32 := a_bip32 x; a_fss := a_fss x; a_fsw := a_fsw x; a_issval := a_issval x; a_isskeys := a_isskeys x; a_entropy := a_entropy x; a_nonce := a_nonce x; a_blindediss := a_blindediss x; a_issblind := a_issblind x; a_issbad := v; a_urp := a_urp x; a_expval := a_expval x; a_valproof := a_valproof x; a_expasset := a_expasset x; a_assetproof := a_assetproof x; a_tapkeysig := a_tapkeysig x; a_tapss := a_tapss x; a_tapleaves := a_tapleaves x; a_tapbip32 := a_tapbip32 x; a_tapik := a_tapik x; a_tapmr := a_tapmr x |}.
Definition set_a_urp (v : bool) (x : aux) : aux := {| a_nw := a_nw x; a_nwrp := a_nwrp x; a_w := a_w x; a_psigs := a_psigs x; a_sighash := a_sighash x; a_redeem := a_redeem x; a_wscript := a_wscript x; a_bip32 := a_bip32 x; a_fss := a_fss x; a_fsw := a_fsw x; a_issval := a_issval x; a_isskeys := a_isskeys x; a_entropy := a_entropy x; a_nonce := a_nonce x; a_blindediss := a_blindediss x; a_issblind := a_issblind x; a_issbad := a_issbad x; a_urp := v; a_expval := a_expval x; a_valproof := a_valproof x; a_expasset := a_expasset x; a_assetproof := a_assetproof x; a_tapkeysig := a_tapkeysig x; a_tapss := a_tapss x; a_tapleaves := a_tapleaves x; a_tapbip32 := a_tapbip32 x; a_tapik := a_tapik x; a_tapmr := a_tapmr x |}.
Definition set_a_expval (v : N) (x : aux) : aux := {| a_nw := a_nw x; a_nwrp := a_nwrp x; a_w := a_w x; a_psigs := a_psigs x; a_sighash := a_sighash x; a_redeem := a_redeem x; a_wscript := a_wscript x; a_bip32 := a_bip32 x; a_fss := a_fss x; a_fsw := a_fsw x; a_issval := a_issval x; a_isskeys := a_isskeys x; a_entropy := a_entropy x; a_nonce := a_nonce x; a_blindediss := a_blindediss x; a_issblind := a_issblind x; a_issbad := a_issbad x; a_urp := a_urp x; a_expval := v; a_valproof := a_valproof x; a_expasset := a_expasset x; a_assetproof := a_assetproof x; a_tapkeysig := a_tapkeysig x; a_tapss := a_tapss x; a_tapleaves := a_tapleaves x; a_tapbip32 := a_tapbip32 x; a_tapik := a_tapik x; a_tapmr := a_tapmr x |}.
Definition set_a_valproof (v : bool) (x : aux) : aux := {| a_nw := a_nw x; a_nwrp := a_nwrp x; a_w := a_w x; a_psigs := a_psigs x; a_sighash := a_sighash x; a_redeem := a_redeem x; a_wscript := a_wscript x; a_bip32 := a_bip32 x; a_fss := a_fss x; a_fsw := a_fsw x; a_issval := a_issval x; a_isskeys := a_isskeys x; a_entropy := a_entropy x; a_nonce := a_nonce x; a_blindediss := a_blindediss x; a_issblind := a_issblind x; a_issbad := a_issbad x; a_urp := a_urp x; a_expval := a_expval x; a_valproof := v; a_expasset := a_expasset x; a_assetproof := a_assetproof x; a_tapkeysig := a_tapkeysig x; a_tapss := a_tapss x; a_tapleaves := a_tapleaves x; a_tapbip32 := a_tapbip32 x; a_tapik := a_tapik x; a_tapmr := a_tapmr x |}.
Definition set_a_expasset (v : N) (x : aux) : aux := {| a_nw := a_nw x; a_nwrp := a_nwrp x; a_w := a_w x; a_psigs := a_psigs x; a_sighash := a_sighash x; a_redeem := a_redeem x; a_wscript := a_wscript x; a_bip32 := a_bip32 x; a_fss := a_fss x; a_fsw := a_fsw x; a_issval := a_issval x; a_isskeys := a_isskeys x; a_entropy := a_entropy x; a_nonce := a_nonce x; a_blindediss := a_blindediss x; a_issblind := a_issblind x; a_issbad := a_issbad x; a_urp := a_urp x; a_expval := a_expval x; a_valproof := a_valproof x; a_expasset := v; a_assetproof := a_assetproof x; a_tapkeysig := a_tapkeysig x; a_tapss := a_tapss x; a_tapleaves := a_tapleaves x; a_tapbip32 := a_tapbip32 x; a_tapik := a_tapik x; a_tapmr := a_tapmr x |}.
Definition set_a_assetproof (v : bool) (x : aux) : aux := {| a_nw := a_nw x; a_nwrp := a_nwrp x; a_w := a_w x; a_psigs := a_psigs x; a_sighash := a_sighash x; a_redeem := a_redeem x; a_wscript := a_wscript x; a_bip32 := a_bip32 x; a_fss := a_fss x; a_fsw := a_fsw x; a_issval := a_issval x; a_isskeys := a_isskeys x; a_entropy := a_entropy x; a_nonce := a_nonce x; a_blindediss := a_blindediss x; a_issblind := a_issblind x; a_issbad := a_issbad x; a_urp := a_urp x; a_expval := a_expval x; a_valproof := a_valproof x; a_expasset := a_expasset x; a_assetproof := v; a_tapkeysig := a_tapkeysig x; a_tapss := a_tapss x; a_tapleaves := a_tapleaves x; a_tapbip32 := a_tapbip32 x; a_tapik := a_tapik x; a_tapmr := a_tapmr x |}.
Definition set_a_tapkeysig (v : N) (x : aux) : aux := {| a_nw := a_nw x; a_nwrp := a_nwrp x; a_w := a_w x; a_psigs := a_psigs x; a_sighash := a_sighash x; a_redeem := a_redeem x; a_wscript := a_wscript x; a_bip32 := a_bip32 x; a_fss := a_fss x; a_fsw := a_fsw x; a_issval := a_issval x; a_isskeys := a_isskeys x; a_entropy := a_entropy x; a_nonce := a_nonce x; a_blindediss := a_blindediss x; a_issblind := a_issblind x; a_issbad := a_issbad x; a_urp := a_urp x; a_expval := a_expval x; a_valproof := a_valproof x; a_expasset := a_expasset x; a_assetproof := a_assetproof x; a_tapkeysig := v; a_tapss := a_tapss x; a_tapleaves := a_tapleaves x; a_tapbip32 := a_tapbip32 x; a_tapik := a_tapik x; a_tapmr := a_tapmr x |}.
Definition set_a_tapss (v : list tss) (x : aux) : aux := {| a_nw := a_nw x; a_nwrp := a_nwrp x; a_w := a_w x; a_psigs := a_psigs x; a_sighash := a_sighash x; a_redeem := a_redeem x; a_wscript := a_wscript x; a_bip32 := a_bip32 x; a_fss := a_fss x; a_fsw := a_fsw x; a_issval := a_issval x; a_isskeys := a_isskeys x; a_entropy := a_entropy x; a_nonce := a_nonce x; a_blindediss := a_blindediss x; a_issblind := a_issblind x; a_issbad := a_issbad x; a_urp := a_urp x; a_expval := a_expval x; a_valproof := a_valproof x; a_expasset := a_expasset x; a_assetproof := a_assetproof x; a_tapkeysig := a_tapkeysig x; a_tapss := v; a_tapleaves := a_tapleaves x; a_tapbip32 := a_tapbip32 x; a_tapik := a_tapik x; a_tapmr := a_tapmr x |}.
Definition set_a_tapleaves (v : list N) (x : aux) : aux := {| a_nw := a_nw x; a_nwrp := a_nwrp x; a_w := a_w x; a_psigs := a_psigs x; a_sighash := a_sighash x; a_redeem := a_redeem x; a_wscript := a_wscript x; a_bip32 := a_bip32 x; a_fss := a_fss x; a_fsw := a_fsw x; a_issval := a_issval x; a_isskeys := a_isskeys x; a_entropy := a_entropy x; a_nonce := a_nonce x; a_blindediss := a_blindediss x; a_issblind := a_issblind x; a_issbad := a_issbad x; a_urp := a_urp x; a_expval := a_expval x; a_valproof := a_valproof x; a_expasset := a_expasset x; a_assetproof := a_assetproof x; a_tapkeysig := a_tapkeysig x; a_tapss := a_tapss x; a_tapleaves := v; a_tapbip32 := a_tapbip32 x; a_tapik := a_tapik x; a_tapmr := a_tapmr x |}.
Definition set_a_tapbip32 (v : list tbd) (x : aux) : aux := {| a_nw := a_nw x; a_nwrp := a_nwrp x; a_w := a_w x; a_psigs := a_psigs x; a_sighash := a_sighash x; a_redeem := a_redeem x; a_wscript := a_wscript x; a_bip32 := a_bip32 x; a_fss := a_fss x; a_fsw := a_fsw x; a_issval := a_issval x; a_isskeys := a_isskeys x; a_entropy := a_entropy x; a_nonce := a_nonce x; a_blindediss := a_blindediss x; a_issblind := a_issblind x; a_issbad := a_issbad x; a_urp := a_urp x; a_expval := a_expval x; a_valproof := a_valproof x; a_expasset := a_expasset x; a_assetproof := a_assetproof x; a_tapkeysig := a_tapkeysig x; a_tapss := a_tapss x; a_tapleaves := a_tapleaves x; a_tapbip32 := v; a_tapik := a_tapik x; a_tapmr := a_tapmr x |}.
Definition set_a_tapik (v : N) (x : aux) : aux := {| a_nw := a_nw x; a_nwrp := a_nwrp x; a_w := a_w x; a_psigs := a_psigs x; a_sighash := a_sighash x; a_redeem := a_redeem x; a_wscript := a_wscript x; a_bip32 := a_bip32 x; a_fss := a_fss x; a_fsw := a_fsw x; a_issval := a_issval x; a_isskeys := a_isskeys x; a_entropy := a_entropy x; a_nonce := a_nonce x; a_blindediss := a_blindediss x; a_issblind := a_issblind x; a_issbad := a_issbad x; a_urp := a_urp x; a_expval := a_expval x; a_valproof := a_valproof x; a_expasset := a_expasset x; a_assetproof := a_assetproof x; a_tapkeysig := a_tapkeysig x; a_tapss := a_tapss x; a_tapleaves := a_tapleaves x; a_tapbip32 := a_tapbip32 x; a_tapik := v; a_tapmr := a_tapmr x |}.
Definition set_a_tapmr (v : N) (x : aux) : aux := {| a_nw := a_nw x; a_nwrp := a_nwrp x; a_w := a_w x; a_psigs := a_psigs x; a_sighash := a_sighash x; a_redeem := a_redeem x; a_wscript := a_wscript x; a_bip32 := a_bip32 x; a_fss := a_fss x; a_fsw := a_fsw x; a_issval := a_issval x; a_isskeys := a_isskeys x; a_entropy := a_entropy x; a_nonce := a_nonce x; a_blindediss := a_blindediss x; a_issblind := a_issblind x; a_issbad := a_issbad x; a_urp := a_urp x; a_expval := a_expval x; a_valproof := a_valproof x; a_expasset := a_expasset x; a_assetproof := a_assetproof x; a_tapkeysig := a_tapkeysig x; a_tapss := a_tapss x; a_tapleaves := a_tapleaves x; a_tapbip32 := a_tapbip32 x; a_tapik := a_tapik x; a_tapmr := v |}.

Record outp := mk_outp {
  o_value : N;
  o_assetlen : N;
  o_script : option script;
  o_bk : N;
  o_bidx : N;
  o_blinded : bool;
  o_badnonce : bool;
  o_redeem : option script;
  o_wscript : option script;
  o_bip32 : list (N * bool)
}.
Definition set_o_value (v : N) (x : outp) : outp := {| o_value := v; o_assetlen := o_assetlen x; o_script := o_script x; o_bk := o_bk x; o_bidx := o_bidx x; o_blinded := o_blinded x; o_badnonce := o_badnonce x; o_redeem := o_redeem x; o_wscript := o_wscript x; o_bip32 := o_bip32 x |}.
Definition set_o_assetlen (v : N) (x : outp) : outp := {| o_value := o_value x; o_assetlen := v; o_script := o_script x; o_bk := o_bk x; o_bidx := o_bidx x; o_blinded := o_blinded x; o_badnonce := o_badnonce x; o_redeem := o_redeem x; o_wscript := o_wscript x; o_bip32 := o_bip32 x |}.
Definition set_o_script (v : option script) (x : outp) : outp := {| o_value := o_value x; o_assetlen := o_assetlen x; o_script := v; o_bk := o_bk x; o_bidx := o_bidx x; o_blinded := o_blinded x; o_badnonce := o_badnonce x; o_redeem := o_redeem x; o_wscript := o_wscript x; o_bip32 := o_bip32 x |}.
Definition set_o_bk (v : N) (x : outp) : outp := {| o_value := o_value x; o_assetlen := o_assetlen x; o_script := o_script x; o_bk := v; o_bidx := o_bidx x; o_blinded := o_blinded x; o_badnonce := o_badnonce x; o_redeem := o_redeem x; o_wscript := o_wscript x; o_bip32 := o_bip32 x |}.
Definition set_o_bidx (v : N) (x : outp) : outp := {| o_value := o_value x; o_assetlen := o_assetlen x; o_script := o_script x; o_bk := o_bk x; o_bidx := v; o_blinded := o_blinded x; o_badnonce := o_badnonce x; o_redeem := o_redeem x; o_wscript := o_wscript x; o_bip32 := o_bip32 x |}.
Definition set_o_blinded (v : bool) (x : outp) : outp := {| o_value := o_value x; o_assetlen := o_assetlen x; o_script := o_script x; o_bk := o_bk x; o_bidx := o_bidx x; o_blinded := v; o_badnonce := o_badnonce x; o_redeem := o_redeem x; o_wscript := o_wscript x; o_bip32 := o_bip32 x |}.
Definition set_o_badnonce (v : bool) (x : outp) : outp := {| o_value := o_value x; o_assetlen := o_assetlen x; o_script := o_script x; o_bk := o_bk x; o_bidx := o_bidx x; o_blinded := o_blinded x; o_badnonce := v; o_redeem := o_redeem x; o_wscript := o_wscript x; o_bip32 := o_bip32 x |}.
Definition set_o_redeem (v : option script) (x : outp) : outp := {| o_value := o_value x; o_assetlen := o_assetlen x; o_script := o_script x; o_bk := o_bk x; o_bidx := o_bidx x; o_blinded := o_blinded x; o_badnonce := o_badnonce x; o_redeem := v; o_wscript := o_wscript x; o_bip32 := o_bip32 x |}.
Definition set_o_wscript (v : option script) (x : outp) : outp := {| o_value := o_value x; o_assetlen := o_assetlen x; o_script := o_script x; o_bk := o_bk x; o_bidx := o_bidx x; o_blinded := o_blinded x; o_badnonce := o_badnonce x; o_redeem := o_redeem x; o_wscript := v; o_bip32 := o_bip32 x |}.
Definition set_o_bip32 (v : list (N * bool)) (x : outp) : outp := {| o_value := o_value x; o_assetlen := o_assetlen x; o_script := o_script x; o_bk := o_bk x; o_bidx := o_bidx x; o_blinded := o_blinded x; o_badnonce := o_badnonce x; o_redeem := o_redeem x; o_wscript := o_wscript x; o_bip32 := v |}.

Definition aux0 : aux :=
  {| a_nw := false; a_nwrp := false; a_w := None; a_psigs := []; a_sighash := 0; a_redeem := None; a_wscript := None;
     a_bip32 := []; a_fss := false; a_fsw := false; a_issval := 0; a_isskeys := 0; a_entropy := false; a_nonce := false;
     a_blindediss := None; a_issblind := false; a_issbad := false; a_urp := false; a_expval := 0; a_valproof := false; a_expasset := 0;
     a_assetproof := false; a_tapkeysig := 0; a_tapss := []; a_tapleaves := []; a_tapbip32 := []; a_tapik := 0; a_tapmr := 0 |}.

Record pset := {
  g_nin : N; g_nout : N;                 (* Global.InputCount / OutputCount *)
  g_flags : option N;                    (* Global.TxModifiable: nil, or the bit set as a number *)
  g_fallback : option N;
  g_scalars : list N;
  p_cores : list core; p_auxs : list aux;   (* Inputs, as two parallel lists *)
  p_outs : list outp }.

Inductive outcome := Ok | Err | Panic.

(* replace the parts the non-structural operations write; counts, flags, fallback and the
   creation-time part of the inputs are carried over *)
Definition upd (p : pset) (auxs : list aux) (outs : list outp) (scalars : list N) : pset :=
  {| g_nin := g_nin p; g_nout := g_nout p; g_flags := g_flags p; g_fallback := g_fallback p;
     g_scalars := scalars; p_cores := p_cores p; p_auxs := auxs; p_outs := outs |}.

Fixpoint set_nth {A} (n : nat) (x : A) (l : list A) : list A :=
  match l, n with
  | [], _ => []
  | _ :: t, O => x :: t
  | h :: t, S m => h :: set_nth m x t
  end.

(* ---------- predicates of pset.go / input.go / output.go ---------- *)
Definition testbit (f : option N) (i : N) (dflt : bool) : bool :=
  match f with None => dflt | Some n => N.testbit n i end.
Definition inputs_modifiable (p : pset) := testbit (g_flags p) 0 true.
Definition outputs_modifiable (p : pset) := testbit (g_flags p) 1 true.

Definition needs_blinding_o (o : outp) := negb (o_bk o =? 0).
Definition needs_blinding (p : pset) := existsb (fun o => needs_blinding_o o && negb (o_blinded o)) (p_outs p).
(* IsFullyBlinded as coded (it can never return true: NeedsBlinding already says some output is unblinded) *)
Definition is_fully_blinded (p : pset) :=
  if negb (needs_blinding p) then false
  else forallb (fun o => negb (needs_blinding_o o && negb (o_blinded o))) (p_outs p).

Definition finalized (a : aux) := a_fss a || a_fsw a.
Definition is_taproot (a : aux) :=
  (0 <? a_tapkeysig a) || (0 <? a_tapik a) || (0 <? a_tapmr a)
  || negb (match a_tapleaves a with [] => true | _ => false end)
  || negb (match a_tapss a with [] => true | _ => false end).

Definition len_ok_0_32 (n : N) := (n =? 0) || (n =? 32).
Definition siglen_ok (n : N) := (n =? 64) || (n =? 65).

(* Input.SanityCheck (the clauses the vocabulary can reach) *)
Definition in_sane (a : aux) : bool :=
  negb (match a_w a with None => true | _ => false end && nonempty (a_wscript a))
  && negb (match a_w a with None => true | _ => false end && a_fsw a)
  && negb (((0 <? a_expval a) && negb (a_valproof a)) || ((a_expval a =? 0) && a_valproof a))
  && negb (((0 <? a_expasset a) && negb (a_assetproof a)) || ((a_expasset a =? 0) && a_assetproof a))
  && len_ok_0_32 (a_tapik a) && len_ok_0_32 (a_tapmr a)
  && ((a_tapkeysig a =? 0) || siglen_ok (a_tapkeysig a))
  && forallb (fun l => negb (l =? 2)) (a_tapleaves a)          (* leaf 2 has an empty script *)
  && forallb (fun s => (ts_pklen s =? 32) && siglen_ok (ts_siglen s)) (a_tapss a)
  && forallb (fun d => (0 <? tb_nh d) && (tb_hlen d =? 32)) (a_tapbip32 a).

(* Output.SanityCheck *)
Definition out_sane (o : outp) : bool :=
  negb (negb (o_blinded o) && (o_assetlen o =? 0)) && negb (o_blinded o && negb (o_bidx o =? 0)).

(* Pset.SanityCheck *)
Definition sanity_parts (auxs : list aux) (outs : list outp) (scalars : list N) : bool :=
  forallb in_sane auxs && forallb out_sane outs
  && negb (existsb o_blinded outs && (match scalars with [] => true | _ => false end)
           && existsb (fun o => needs_blinding_o o && negb (o_blinded o)) outs).
Definition sanity (p : pset) := sanity_parts (p_auxs p) (p_outs p) (g_scalars p).

(* Pset.Locktime as coded (fix 3710385) *)
Definition max_time (cs : list core) := fold_left (fun m c => N.max m (c_time c)) cs 0.
Definition max_height (cs : list core) := fold_left (fun m c => N.max m (c_height c)) cs 0.
Definition fallback_or_0 (p : pset) := match g_fallback p with Some n => n | None => 0 end.
Definition locktime (p : pset) : N :=
  let h := max_height (p_cores p) in let t := max_time (p_cores p) in
  let time_only_seen := existsb (fun c => (0 <? c_time c) && (c_height c =? 0)) (p_cores p) in
  if (0 <? h) && negb time_only_seen then h else if 0 <? t then t else fallback_or_0 p.

(* the locktime BIP-370 prescribes: time if some input supports only time, else height if
   some input has one, else the fallback *)
Definition time_only (c : core) := negb (c_time c =? 0) && (c_height c =? 0).
Definition height_only (c : core) := (c_time c =? 0) && negb (c_height c =? 0).
Definition spec_locktime (p : pset) : N :=
  if existsb time_only (p_cores p) then max_time (p_cores p)
  else if existsb (fun c => negb (c_height c =? 0)) (p_cores p) then max_height (p_cores p)
  else fallback_or_0 p.

(* ---------- creator ---------- *)
Record inarg := { ia_cls : N; ia_t : N; ia_idx : N; ia_seq : N; ia_height : N; ia_time : N }.
Record outarg := { oa_cls : N; oa_amount : N; oa_script : option script; oa_bk : N; oa_bidx : N }.

(* InputArgs.toPartialInput; class 1 (empty) and 2 (not hex) give an empty txid, class 3 a 31-byte one *)
Definition to_core (a : inarg) : core :=
  {| c_t := ia_t a; c_short := ia_cls a =? 3; c_idx := ia_idx a;
     c_seq := if ia_seq a =? 0 then 4294967295 else ia_seq a;
     c_time := ia_time a; c_height := ia_height a |}.

Definition same_outpoint (x y : core) :=
  (c_t x =? c_t y) && Bool.eqb (c_short x) (c_short y) && (c_idx x =? c_idx y).

(* the loop of addInput over the existing inputs: Some (time, height, hasSigs) or None = ErrInInvalidLocktime *)
Fixpoint lock_loop (cs : list core) (auxs : list aux) (t h : N) (sigs : bool) : option (N * N * bool) :=
  match cs with
  | [] => Some (t, h, sigs)
  | c :: cs' =>
    let a := hd aux0 auxs in
    let h1 := if negb (c_time c =? 0) && (c_height c =? 0) then 0 else h in
    if negb (c_time c =? 0) && (c_height c =? 0) && (t =? 0) then None else
    let t1 := if (c_time c =? 0) && negb (c_height c =? 0) then 0 else t in
    if (c_time c =? 0) && negb (c_height c =? 0) && (h1 =? 0) then None else
    let t2 := if negb (c_time c =? 0) && negb (t1 =? 0) then N.max t1 (c_time c) else t1 in
    let h2 := if negb (c_height c =? 0) && negb (h1 =? 0) then N.max h1 (c_height c) else h1 in
    lock_loop cs' (tl auxs) t2 h2 (sigs || negb (match a_psigs a with [] => true | _ => false end))
  end.

(* Pset.addInput; the argument class says what the txid string decoded to *)
Definition add_input (p : pset) (a : inarg) : option pset :=
  let c := to_core a in
  if (ia_cls a =? 1) || (ia_cls a =? 2) then None                     (* in.SanityCheck: missing txid *)
  else if existsb (same_outpoint c) (p_cores p) then None
  else if negb (inputs_modifiable p) then None
  else
    let lock_ok :=
      if negb (c_height c =? 0) || negb (c_time c =? 0) then
        match lock_loop (p_cores p) (p_auxs p) (c_time c) (c_height c) false with
        | None => false
        | Some (t, h, sigs) =>
          let nl := fallback_or_0 p in
          let nl := if negb (t =? 0) then t else nl in
          let nl := if negb (h =? 0) then h else nl in
          negb (sigs && negb (locktime p =? nl))
        end
      else true in
    if negb lock_ok then None
    else Some {| g_nin := g_nin p + 1; g_nout := g_nout p; g_flags := g_flags p; g_fallback := g_fallback p;
                 g_scalars := g_scalars p; p_cores := p_cores p ++ [c]; p_auxs := p_auxs p ++ [aux0];
                 p_outs := p_outs p |}.

Fixpoint add_inputs (p : pset) (l : list inarg) : option pset :=
  match l with
  | [] => Some p
  | a :: l' => match add_input p a with None => None | Some p' => add_inputs p' l' end
  end.

(* OutputArgs.toPartialOutput: class 1 gives an empty asset, class 3 a 31-byte one (class 2 panics) *)
Definition to_outp (a : outarg) : outp :=
  {| o_value := oa_amount a; o_assetlen := if oa_cls a =? 0 then 32 else if oa_cls a =? 3 then 31 else 0;
     o_script := oa_script a; o_bk := oa_bk a; o_bidx := oa_bidx a; o_blinded := false; o_badnonce := false;
     o_redeem := None; o_wscript := None; o_bip32 := [] |}.

(* Pset.addOutput *)
Definition add_output (p : pset) (o : outp) : option pset :=
  if negb (out_sane o) then None
  else if negb (outputs_modifiable p) then None
  else Some {| g_nin := g_nin p; g_nout := g_nout p + 1; g_flags := g_flags p; g_fallback := g_fallback p;
               g_scalars := g_scalars p; p_cores := p_cores p; p_auxs := p_auxs p;
               p_outs := p_outs p ++ [o] |}.

Fixpoint add_outputs (p : pset) (l : list outp) : option pset :=
  match l with
  | [] => Some p
  | o :: l' => match add_output p o with None => None | Some p' => add_outputs p' l' end
  end.

Inductive init_res := IOk (p : pset) | IErr | IPanic.

Definition empty_pset (fb : option N) : pset :=
  {| g_nin := 0; g_nout := 0; g_flags := Some 3; g_fallback := fb; g_scalars := [];
     p_cores := []; p_auxs := []; p_outs := [] |}.

(* AddOutputs' / New's argument validation (OutputArgs.validate) *)
Definition outarg_valid (a : outarg) : bool :=
  (oa_cls a =? 0)
  && (negb (nonempty (oa_script a)) || parse_ok (or_empty (oa_script a)))
  && negb (oa_bk a =? 2).

(* creator.go New (fix cc83b33): every argument is validated, then added *)
Fixpoint new_ins (p : pset) (l : list inarg) : option pset :=
  match l with
  | [] => Some p
  | a :: l' =>
    if negb (ia_cls a =? 0) then None
    else match add_input p a with None => None | Some p' => new_ins p' l' end
  end.

Fixpoint new_outs (p : pset) (l : list outarg) : init_res :=
  match l with
  | [] => IOk p
  | a :: l' =>
    if negb (outarg_valid a) then IErr
    else match add_output p (to_outp a) with None => IErr | Some p' => new_outs p' l' end
  end.

Definition init (ins : list inarg) (outs : list outarg) (fb : option N) : init_res :=
  match new_ins (empty_pset fb) ins with
  | None => IErr
  | Some p => new_outs p outs
  end.

(* ---------- operations ---------- *)
Record issue_args := { is_prec : N; is_contract : N; is_aamt : N; is_tamt : N; is_aaddr : N; is_taddr : N; is_blinded : bool }.
(* address classes: 0 empty string, 1 unconfidential, 2 confidential, 3 not an address *)
Record reissue_args := { ri_blinder : N; ri_entropy : N; ri_aamt : N; ri_aaddr : N; ri_tamt : N; ri_taddr : N }.
Record blind_args := {
  bl_last : bool; bl_owned : list N; bl_iss : list (N * N); bl_outs : list (N * N);
  bl_surj : bool; bl_basset : bool; bl_range : bool; bl_bvalue : bool; bl_gfail : N; bl_scalar : N }.

Inductive op :=
| OSetMod (f : option N)
| OAddInputs (l : list inarg)
| OAddOutputs (l : list outarg)
| ONwUtxo (i : Z) (t : N)
| OWUtxo (i : Z) (u : option utxo)
| ORedeem (i : Z) (s : option script)
| OWScript (i : Z) (s : option script)
| OBip32 (i : Z) (k : option N) (pathne : bool)
| OSighash (i : Z) (n : N)
| OUtxoRp (i : Z) (b : bool)
| OExpAsset (i : Z) (lenok proof : bool)
| OExpValue (i : Z) (v : N) (proof : bool)
| OIssue (i : Z) (a : issue_args)
| OReissue (i : Z) (a : reissue_args)
| OTapIk (i : Z) (len : N)
| OTapMr (i : Z) (len : N)
| OTapLeaf (i : Z) (l : N)
| OTapBip32 (i : Z) (d : tbd)
| OOutBip32 (i : Z) (k : option N) (pathne : bool)
| OOutRedeem (i : Z) (s : option script)
| OOutWScript (i : Z) (s : option script)
| OSign (i : Z) (sigok : bool) (hashtype : N) (k : option N) (rs ws : option script)
| OTapKeySig (i : Z) (len : N)
| OTapScriptSig (i : Z) (s : tss)
| OBlind (a : blind_args)
| OFinalize (i : Z)
| OMaybeFinalize (i : Z)
| OFinalizeAll
| OMaybeFinalizeAll.

(* the multi-part operations of the property statement *)
Definition is_multi_part (o : op) : bool :=
  match o with
  | OAddInputs _ | OAddOutputs _ | OIssue _ _ | OReissue _ _ | OSign _ _ _ _ _ _
  | OTapKeySig _ _ | OTapScriptSig _ _ | OBlind _ | OFinalizeAll => true
  | _ => false
  end.

(* result of the part of an operation that works on one input *)
Inductive lres := LSan | LOk | LErr | LPanic.   (* LSan: ends in `return p.SanityCheck()` *)

Definition finish (r : lres) (sane : bool) : outcome :=
  match r with LSan => if sane then Ok else Err | LOk => Ok | LErr => Err | LPanic => Panic end.

(* `inIndex > int(Global.InputCount)-1` style bound (guarded: also `inIndex < 0`), then the slice access *)
Definition in_index (p : pset) (i : Z) (guard_neg : bool) : (nat * core * aux) + outcome :=
  if (i <? 0)%Z then inr (if guard_neg then Err else Panic)
  else if (Z.of_N (g_nin p) - 1 <? i)%Z then inr Err
  else match nth_error (p_cores p) (Z.to_nat i), nth_error (p_auxs p) (Z.to_nat i) with
       | Some c, Some a => inl (Z.to_nat i, c, a)
       | _, _ => inr Panic
       end.

Definition out_index (p : pset) (i : Z) : (nat * outp) + outcome :=
  if (i <? 0)%Z then inr Panic
  else if (Z.of_N (g_nout p) - 1 <? i)%Z then inr Err
  else match nth_error (p_outs p) (Z.to_nat i) with
       | Some o => inl (Z.to_nat i, o)
       | None => inr Panic
       end.

(* an operation that writes one input and ends with the packet's SanityCheck (or not, see lres) *)
Definition on_input (p : pset) (i : Z) (guard_neg : bool) (f : core -> aux -> aux * lres)
  : (list aux * list outp * list N) * outcome :=
  match in_index p i guard_neg with
  | inr o => ((p_auxs p, p_outs p, g_scalars p), o)
  | inl (n, c, a) =>
    let '(a', r) := f c a in
    let auxs := set_nth n a' (p_auxs p) in
    ((auxs, p_outs p, g_scalars p), finish r (sanity_parts auxs (p_outs p) (g_scalars p)))
  end.

Definition on_output (p : pset) (i : Z) (f : outp -> outp * lres)
  : (list aux * list outp * list N) * outcome :=
  match out_index p i with
  | inr o => ((p_auxs p, p_outs p, g_scalars p), o)
  | inl (n, o) =>
    let '(o', r) := f o in
    let outs := set_nth n o' (p_outs p) in
    ((p_auxs p, outs, g_scalars p), finish r (sanity_parts (p_auxs p) outs (g_scalars p)))
  end.

(* Input.GetUtxo — since fix 7d6e201 it hands out a copy and no longer writes the range proof into the stored
   previous output (a_nwrp stays false; the second component is kept for the shape of the callers) *)
Inductive gu := GuNil | GuPanic | GuSome (u : utxo) (a' : aux).
Definition get_utxo (c : core) (a : aux) : gu :=
  match a_w a with
  | Some u => GuSome u a
  | None =>
    if negb (a_nw a) then GuNil
    else match nth_error prevouts (N.to_nat (N.min (c_idx c) 1000)) with
         | None => GuPanic
         | Some s => GuSome {| u_script := s; u_conf := false |} a
         end
  end.

Definition prevout_script (c : core) : option script := nth_error prevouts (N.to_nat (N.min (c_idx c) 1000)).

Definition key_in (k : N) (l : list (N * bool)) := existsb (fun x => fst x =? k) l.

(* ---- signer.go SignInput, with updater.go addPartialSignature / nonWitnessToWitness inlined ---- *)
(* u.nonWitnessToWitness: Some a' (then AddInWitnessUtxo's sanity check) or None = nil dereference / index panic *)
Definition nw_to_w (c : core) (a : aux) : option aux :=
  if negb (a_nw a) then None
  else match prevout_script c with
       | None => None
       | Some s => Some (set_a_w (Some {| u_script := s; u_conf := false |}) (set_a_nwrp false (set_a_nw false a)))
       end.

Definition p2wpkh_of (k : N) := SWpkh k.

(* addPartialSignature after the index check *)
Definition add_psig (c : core) (a : aux) (sigok : bool) (h : N) (k : option N) : aux * lres :=
  match k with
  | None => (a, LErr)
  | Some k =>
    if negb sigok then (a, LErr)
    else if existsb (fun x => fst x =? k) (a_psigs a) then (a, LErr)
    else
      let commit := (set_a_psigs (a_psigs a ++ [(k, h)]) a, LSan) in
      if a_nw a then
        (* the attached transaction always hashes to the input's txid in this vocabulary *)
        match a_redeem a with
        | Some r =>
          match prevout_script c with
          | None => (a, LPanic)
          | Some spk => if script_eqb (SSh r) spk then commit else (a, LErr)
          end
        | None => commit
        end
      else match a_w a with
      | Some u =>
        let spk := u_script u in
        let chk := match a_redeem a with
                   | Some r => if script_eqb (SSh r) spk then Some r else None
                   | None => Some spk
                   end in
        match chk with
        | None => (a, LErr)
        | Some scr =>
          match a_wscript a with
          | Some w => if script_eqb scr (SWsh w) then commit else (a, LErr)
          | None => if script_eqb (p2wpkh_of k) scr then commit else (a, LErr)
          end
        end
      | None => (a, LErr)
      end
  end.

(* rest_sane: SanityCheck of everything but this input (it does not change during the operation) *)
Definition sign_local (rest_sane blocked : bool) (sigok : bool) (h : N) (k : option N) (rs ws : option script)
  (c : core) (a : aux) : aux * lres :=
  if finalized a then (a, LOk)
  else if (N.land (a_sighash a) 31 =? 1) && blocked then (a, LErr)
  else
    (* AddInWitnessScript / AddInRedeemScript: write, then SanityCheck *)
    let a1 := match ws with Some _ => set_a_wscript ws a | None => a end in
    if non_nil ws && negb (in_sane a1 && rest_sane) then (a1, LErr) else
    let a2 := match rs with Some _ => set_a_redeem rs a1 | None => a1 end in
    if non_nil rs && negb (in_sane a2 && rest_sane) then (a2, LErr) else
    (* which utxo form is needed *)
    let convert := fun (a : aux) =>
      match nw_to_w c a with
      | None => inr (a, LPanic)
      | Some a' => if in_sane a' && rest_sane then inl a' else inr (a', LErr)
      end in
    let no_w := match a_w a2 with None => true | Some _ => false end in
    let a3 :=
      if non_nil (a_wscript a2) then (if no_w then convert a2 else inl a2)
      else if non_nil (a_redeem a2) then
        (if match rs with Some r => is_witness_program r | None => false end
         then (if no_w then convert a2 else inl a2) else inl a2)
      else if no_w then
        (if negb (a_nw a2) then inr (a2, LPanic)
         else match prevout_script c with
              | None => inr (a2, LPanic)
              | Some s => if is_witness_program s then convert a2 else inl a2
              end)
      else inl a2 in
    match a3 with
    | inr r => r
    | inl a3 => add_psig c a3 sigok h k
    end.

(* ---- finalizer.go ---- *)
Definition expected_sighash (a : aux) := if a_sighash a =? 0 then 1 else a_sighash a.
Definition sigs_ok (a : aux) := forallb (fun x => snd x =? expected_sighash a) (a_psigs a).
Definition nsigs (a : aux) := N.of_nat (length (a_psigs a)).
(* extractKeyOrderFromScript: a multisig template with exactly as many signatures as required, every key in the script *)
Definition multisig_ok (s : script) (a : aux) : bool :=
  match s with
  | SMs m => (m =? nsigs a) && forallb (fun x => fst x <? 2) (a_psigs a)
  | _ => false
  end.

Definition finalize_witness (a : aux) : option aux :=
  if finalized a then None
  else if negb (sigs_ok a) then None
  else if nsigs a =? 0 then None
  else
    let hasR := nonempty (a_redeem a) in let hasW := nonempty (a_wscript a) in
    let okw := Some (set_a_fsw true (set_a_fss hasR a)) in
    if negb hasR then
      if (nsigs a =? 1) && negb hasW then okw
      else if negb hasW then None
      else if multisig_ok (or_empty (a_wscript a)) a then okw else None
    else
      if negb hasW then (if nsigs a =? 1 then okw else None)
      else if multisig_ok (or_empty (a_wscript a)) a then okw else None.

Definition finalize_nonwitness (a : aux) : option aux :=
  if finalized a then None
  else if negb (sigs_ok a) then None
  else if nsigs a =? 0 then None
  else if negb (nonempty (a_redeem a)) then (if nsigs a =? 1 then Some (set_a_fss true a) else None)
  else if multisig_ok (or_empty (a_redeem a)) a then Some (set_a_fss true a) else None.

(* finalizeTaprootInput's sigHashOK (fix 509b4c2): a 64-byte signature is SIGHASH_DEFAULT, which counts as ALL, and so
   does an input that declares no type; the vocabulary's 65-byte signatures end in 0x03 (SIGHASH_SINGLE) *)
Definition norm_sighash (t : N) : N := if t =? 0 then 1 else t.
Definition tap_sig_ok (a : aux) (siglen : N) : bool :=
  norm_sighash (if siglen =? 65 then 3 else 0) =? norm_sighash (a_sighash a).

Definition finalize_taproot (a : aux) : option aux :=
  if finalized a then None
  else if 0 <? a_tapkeysig a then (if tap_sig_ok a (a_tapkeysig a) then Some (set_a_fsw true a) else None)
  else match a_tapss a with
       | [] => None
       | _ => match a_tapleaves a with
              | [] => None
              | leaf0 :: _ =>
                (* the signatures for the first leaf: same leaf, full 32-byte hash *)
                let mine := filter (fun s => (ts_leaf s =? leaf0) && (ts_lhlen s =? 32)) (a_tapss a) in
                if negb (forallb (fun s => tap_sig_ok a (ts_siglen s)) mine) then None
                else match mine with [] => None | _ => Some (set_a_fsw true a) end
              end
       end.

(* Finalize(p, i) on the input *)
Definition finalize_local (c : core) (a : aux) : aux * lres :=
  match a_w a with
  | Some _ =>
    if is_taproot a then match finalize_taproot a with Some a' => (a', LOk) | None => (a, LErr) end
    else match finalize_witness a with Some a' => (set_a_psigs [] a', LSan) | None => (a, LErr) end
  | None =>
    if a_nw a then match finalize_nonwitness a with Some a' => (set_a_psigs [] a', LSan) | None => (a, LErr) end
    else (a, LErr)
  end.

(* isFinalizable: Some b, or None = index panic on the previous transaction's outputs *)
Definition is_finalizable (c : core) (a : aux) : option bool :=
  if nsigs a =? 0 then Some false
  else match a_w a with
  | Some u =>
    let spk := u_script u in
    Some (if is_witness_program spk then
            (if is_p2wsh spk then negb (negb (nonempty (a_wscript a)) || nonempty (a_redeem a))
             else if is_p2tr spk then
               (if 0 <? a_tapkeysig a then true
                else forallb (fun s => (ts_lhlen s =? 32) && existsb (fun l => l =? ts_leaf s) (a_tapleaves a)) (a_tapss a))
             else negb (nonempty (a_wscript a) || nonempty (a_redeem a)))
          else if is_p2sh spk then
            (if negb (nonempty (a_redeem a)) then false
             else if is_p2wsh (or_empty (a_redeem a)) then nonempty (a_wscript a)
             else if is_p2wpkh (or_empty (a_redeem a)) then negb (nonempty (a_wscript a))
             else false)
          else false)
  | None =>
    if a_nw a then
      if nonempty (a_wscript a) then Some false
      else match prevout_script c with
           | None => None
           | Some s => Some (if is_p2sh s then nonempty (a_redeem a) else negb (nonempty (a_redeem a)))
           end
    else Some false
  end.

Definition maybe_finalize_local (c : core) (a : aux) : aux * lres :=
  if finalized a then (a, LOk)
  else match is_finalizable c a with
       | None => (a, LPanic)
       | Some false => (a, LErr)
       | Some true => finalize_local c a
       end.

(* FinalizeAll / MaybeFinalizeAll: the loop over the inputs; every Finalize ends with the packet's SanityCheck *)
Fixpoint finalize_loop (f : core -> aux -> aux * lres) (cs : list core) (n : nat) (fuel : nat)
  (auxs : list aux) (outs : list outp) (scalars : list N) : list aux * outcome :=
  match fuel, cs with
  | O, _ | _, [] => (auxs, Ok)
  | S fuel', c :: cs' =>
    match nth_error auxs n with
    | None => (auxs, Panic)
    | Some a =>
      let '(a', r) := f c a in
      let auxs' := set_nth n a' auxs in
      match finish r (sanity_parts auxs' outs scalars) with
      | Ok => finalize_loop f cs' (S n) fuel' auxs' outs scalars
      | o => (auxs', o)
      end
    end
  end.

(* ---- blinder.go ---- *)
Fixpoint insert_by_idx (x : N * N) (l : list (N * N)) : list (N * N) :=
  match l with
  | [] => [x]
  | y :: l' => if fst x <? fst y then x :: l else y :: insert_by_idx x l'
  end.
Definition sort_by_idx (l : list (N * N)) : list (N * N) := fold_left (fun acc x => insert_by_idx x acc) l [].

Inductive bres := BGo (auxs : list aux) | BStop (auxs : list aux) (o : outcome).

(* NewBlinder: OwnedInput.validate for each owned input (GetUtxo writes) *)
Fixpoint owned_validate (p : pset) (auxs : list aux) (owned : list N) : bres :=
  match owned with
  | [] => BGo auxs
  | i :: rest =>
    if (Z.of_N (g_nin p) - 1 <? Z.of_N i)%Z then BStop auxs Err
    else match nth_error (p_cores p) (N.to_nat i), nth_error auxs (N.to_nat i) with
         | Some c, Some a =>
           match get_utxo c a with
           | GuNil => BStop auxs Err
           | GuPanic => BStop auxs Panic
           | GuSome _ a' => owned_validate p (set_nth (N.to_nat i) a' auxs) rest
           end
         | _, _ => BStop auxs Panic
         end
  end.

(* validateBlindingArgs, first loop: every input that is not owned is asked for its utxo *)
Fixpoint prevout_loop (cs : list core) (n : nat) (auxs : list aux) (owned : list N) : bres :=
  match cs with
  | [] => BGo auxs
  | c :: cs' =>
    if existsb (fun i => i =? N.of_nat n) owned then prevout_loop cs' (S n) auxs owned
    else match nth_error auxs n with
         | None => BStop auxs Panic
         | Some a =>
           match get_utxo c a with
           | GuNil => BStop auxs Err
           | GuPanic => BStop auxs Panic
           | GuSome _ a' => prevout_loop cs' (S n) (set_nth n a' auxs) owned
           end
         end
  end.

(* OutputBlindingArgs.validate over the sorted arguments; k counts down the remaining ones *)
Fixpoint outargs_validate (p : pset) (last : bool) (l : list (N * N)) : bool :=
  match l with
  | [] => true
  | (i, cls) :: l' =>
    let is_last_output := last && match l' with [] => true | _ => false end in
    if (Z.of_N (g_nout p) - 1 <? Z.of_N i)%Z then false
    else match nth_error (p_outs p) (N.to_nat i) with
         | None => false       (* unreachable when the counts match; the code would panic *)
         | Some o =>
           if negb (needs_blinding_o o) then false
           else if cls =? 1 then false
           else if cls =? 3 then false       (* a nonce commitment that is not a curve point (fix a3c85bd) *)
           else if (cls =? 2) && negb is_last_output then false
           else outargs_validate p last l'
         end
    end.

Fixpoint outargs_proofs (p : pset) (a : blind_args) (l : list (N * N)) : bool :=
  match l with
  | [] => true
  | (i, _) :: l' =>
    let last_args := bl_last a && match l' with [] => true | _ => false end in
    match nth_error (p_outs p) (N.to_nat i) with
    | None => false
    | Some o =>
      if negb (existsb (fun x => x =? o_bidx o) (bl_owned a)) then false
      else if negb (bl_surj a) then false
      else if negb (bl_basset a) then false
      else if negb last_args && negb (bl_range a) then false
      else if negb last_args && negb (bl_bvalue a) then false
      else outargs_proofs p a l'
    end
  end.

(* the write loop over the output arguments: outputs so far, or stopped by the generator *)
Fixpoint blind_outs (a : blind_args) (l : list (N * N)) (outs : list outp) : list outp * bool :=
  match l with
  | [] => (outs, true)
  | (i, cls) :: l' =>
    let last_args := bl_last a && match l' with [] => true | _ => false end in
    if last_args && ((bl_gfail a =? 2) || (bl_gfail a =? 3)) then (outs, false)
    else match nth_error outs (N.to_nat i) with
         | None => (outs, false)
         | Some o => blind_outs a l' (set_nth (N.to_nat i) (set_o_badnonce (cls =? 3) (set_o_bidx 0 (set_o_blinded true o))) outs)
         end
  end.

Definition do_blind (p : pset) (a : blind_args) : (list aux * list outp * list N) * outcome :=
  let stop auxs o := ((auxs, p_outs p, g_scalars p), o) in
  if negb (sanity p) then stop (p_auxs p) Err
  else if negb (needs_blinding p) then stop (p_auxs p) Err
  else match bl_owned a with [] => stop (p_auxs p) Err | _ =>
  match owned_validate p (p_auxs p) (bl_owned a) with
  | BStop auxs o => stop auxs o
  | BGo auxs =>
    if is_fully_blinded p then stop auxs Ok
    else if existsb (fun x => (Z.of_N (g_nin p) - 1 <? Z.of_N (fst x))%Z
                              || match nth_error auxs (N.to_nat (fst x)) with
                                 | Some ax => finalized ax
                                 | None => false end
                              (* class 2: a 5-byte value commitment, refused whatever the amounts are (fix a3c85bd) *)
                              || (snd x =? 2))
                    (bl_iss a) then stop auxs Err
    else
      let outs_sorted := sort_by_idx (bl_outs a) in
      if negb (outargs_validate p (bl_last a) outs_sorted) then stop auxs Err
      else match prevout_loop (p_cores p) 0 auxs (bl_owned a) with
      | BStop auxs o => stop auxs o
      | BGo auxs =>
        if negb (outargs_proofs p a outs_sorted) then stop auxs Err
        else if bl_gfail a =? 1 then stop auxs Err           (* calculateInputScalar: owned is not empty *)
        else match outs_sorted with [] => stop auxs Panic | _ =>
          (* from here on the staged copy is written; it is published only by publish *)
          let auxs' := fold_left (fun l x =>
                        match nth_error l (N.to_nat (fst x)) with
                        | Some ax => set_nth (N.to_nat (fst x))
                                       (set_a_issbad (snd x =? 2) (set_a_issblind (negb (snd x =? 0)) ax)) l
                        | None => l end) (bl_iss a) auxs in
          let '(outs, done) := blind_outs a outs_sorted (p_outs p) in
          if negb done then stop auxs Err
          else
            let scalars := if bl_last a then [] else g_scalars p ++ [bl_scalar a] in
            if sanity_parts auxs' outs scalars then ((auxs', outs, scalars), Ok) else stop auxs Err
        end
      end
  end end.

(* Pset.publish: SanityCheck of the staged packet first, assignment only on success *)
Definition publish (p staged : pset) : pset * outcome := if sanity staged then (staged, Ok) else (p, Err).

(* a staged operation given as "written parts": anything but success leaves the packet as it was
   (an early `return nil` changes nothing either) *)
Definition staged_parts (p : pset) (r : (list aux * list outp * list N) * outcome)
  : (list aux * list outp * list N) * outcome :=
  match snd r with Ok => r | o => ((p_auxs p, p_outs p, g_scalars p), o) end.

(* ---- updater.go AddInIssuance / AddInReissuance ---- *)
Definition addr_ok (c : N) := (c =? 1) || (c =? 2).
Definition addr_bk (c : N) : N := if c =? 2 then 1 else 0.

Definition issue_validate (a : issue_args) : bool :=
  (is_prec a <=? 8) && negb (is_contract a =? 2)
  && negb (is_aaddr a =? 0) && addr_ok (is_aaddr a)
  && ((is_tamt a =? 0) || (negb (is_taddr a =? 0) && addr_ok (is_taddr a))).

Definition mk_out (amount : N) (addr : N) (bidx : N) : outp :=
  {| o_value := amount; o_assetlen := 32; o_script := Some (SWpkh 0); o_bk := addr_bk addr; o_bidx := bidx;
     o_blinded := false; o_badnonce := false; o_redeem := None; o_wscript := None; o_bip32 := [] |}.

(* the whole result is given: AddInIssuance is structural (it can add outputs) *)
Definition do_issue (p : pset) (i : Z) (a : issue_args) : pset * outcome :=
  if negb (issue_validate a) then (p, Err)
  else match p_cores p with [] => (p, Err) | _ =>
  match in_index p i true with
  | inr o => (p, o)
  | inl (n, c, ax) =>
    if a_entropy ax then (p, Err)
    else if finalized ax then (p, Err)              (* ErrInputAlreadyFinalized *)
    else if c_short c then (p, Err)                 (* GenerateEntropy: invalid tx hash length *)
    else
      let ax' := set_a_blindediss (Some (is_blinded a)) (set_a_nonce true (set_a_isskeys (is_tamt a)
                   (set_a_issval (is_aamt a) (set_a_entropy true ax)))) in
      (* on the staged copy *)
      let p1 := upd p (set_nth n ax' (p_auxs p)) (p_outs p) (g_scalars p) in
      let outs := mk_out (is_aamt a) (is_aaddr a) (Z.to_N i)
                  :: (if 0 <? is_tamt a then [mk_out (is_tamt a) (is_taddr a) (Z.to_N i)] else []) in
      match add_outputs p1 outs with
      | None => (p, Err)
      | Some p2 => publish p p2
      end
  end end.

Definition reissue_validate (a : reissue_args) : bool :=
  (ri_blinder a =? 0) && (ri_entropy a =? 0) && negb (ri_aamt a =? 0) && negb (ri_tamt a =? 0)
  && negb (ri_aaddr a =? 0) && addr_ok (ri_aaddr a) && negb (ri_taddr a =? 0) && addr_ok (ri_taddr a).

Definition do_reissue (p : pset) (i : Z) (a : reissue_args) : pset * outcome :=
  match in_index p i true with
  | inr o => (p, o)
  | inl (n, c, ax) =>
    if a_entropy ax then (p, Err)
    else if negb (reissue_validate a) then (p, Err)
    else if finalized ax then (p, Err)
    else
      let bidx addr := if addr_bk addr =? 0 then 0 else Z.to_N i in
      let outs := [mk_out (ri_aamt a) (ri_aaddr a) (bidx (ri_aaddr a)); mk_out (ri_tamt a) (ri_taddr a) (bidx (ri_taddr a))] in
      match add_outputs p outs with
      | None => (p, Err)
      | Some p1 =>
        let ax' := set_a_nonce true (set_a_issval (ri_aamt a) (set_a_entropy true ax)) in
        let p2 := upd p1 (set_nth n ax' (p_auxs p1)) (p_outs p1) (g_scalars p1) in
        publish p p2
      end
  end.

(* ---- the non-structural operations: they return the written parts ---- *)
Definition rest_sane (p : pset) (n : nat) : bool :=
  (* SanityCheck of the packet with input n taken as sane *)
  sanity_parts (set_nth n aux0 (p_auxs p)) (p_outs p) (g_scalars p).

Definition blocked (p : pset) : bool := existsb (fun o => needs_blinding_o o && negb (o_blinded o)) (p_outs p).

Definition local_step (p : pset) (o : op) : (list aux * list outp * list N) * outcome :=
  let same := (p_auxs p, p_outs p, g_scalars p) in
  match o with
  | ONwUtxo i t =>
    staged_parts p (on_input p i false (fun c a =>
      if (c_t c =? t) && negb (c_short c) then (set_a_nwrp false (set_a_nw true a), LSan) else (a, LErr)))
  | OWUtxo i u => staged_parts p (on_input p i false (fun c a => (set_a_w u a, LSan)))
  | ORedeem i s => staged_parts p (on_input p i false (fun c a => (set_a_redeem s a, LSan)))
  | OWScript i s => staged_parts p (on_input p i false (fun c a => (set_a_wscript s a, LSan)))
  | OBip32 i k pathne =>
    staged_parts p (on_input p i false (fun c a =>
      match k with
      | None => (a, LErr)
      | Some k => if key_in k (a_bip32 a) then (a, LErr) else (set_a_bip32 (a_bip32 a ++ [(k, pathne)]) a, LSan)
      end))
  | OSighash i n => staged_parts p (on_input p i false (fun c a => (set_a_sighash n a, LSan)))
  | OUtxoRp i b => staged_parts p (on_input p i false (fun c a => (set_a_urp b a, LSan)))
  | OExpAsset i lenok proof =>
    staged_parts p (on_input p i false (fun c a =>
      if negb lenok then (a, LErr) else if negb proof then (a, LErr)
      else match get_utxo c a with
           | GuNil => (a, LErr)
           | GuPanic => (a, LPanic)
           | GuSome u a' => if negb (u_conf u) then (a', LErr)
                            else (set_a_assetproof true (set_a_expasset 32 a'), LSan)
           end))
  | OExpValue i v proof =>
    staged_parts p (on_input p i false (fun c a =>
      if v =? 0 then (a, LErr) else if negb proof then (a, LErr)
      else match get_utxo c a with
           | GuNil => (a, LErr)
           | GuPanic => (a, LPanic)
           | GuSome u a' => if negb (u_conf u) then (a', LErr)
                            else (set_a_valproof true (set_a_expval v a'), LSan)
           end))
  | OTapIk i len =>
    staged_parts p (on_input p i false (fun c a => if 0 <? a_tapik a then (a, LErr) else (set_a_tapik len a, LSan)))
  | OTapMr i len =>
    staged_parts p (on_input p i false (fun c a => if 0 <? a_tapmr a then (a, LErr) else (set_a_tapmr len a, LSan)))
  | OTapLeaf i l =>
    staged_parts p (on_input p i false (fun c a =>
      if existsb (fun x => x =? l) (a_tapleaves a) then (a, LErr) else (set_a_tapleaves (a_tapleaves a ++ [l]) a, LSan)))
  | OTapBip32 i d =>
    staged_parts p (on_input p i false (fun c a =>
      if existsb (fun x => tb_key x =? tb_key d) (a_tapbip32 a) then (a, LErr)     (* fix cc83b33 *)
      else (set_a_tapbip32 (a_tapbip32 a ++ [d]) a, LSan)))
  | OOutBip32 i k pathne =>
    staged_parts p (on_output p i (fun o =>
      match k with
      | None => (o, LErr)
      | Some k => if key_in k (o_bip32 o) then (o, LErr) else (set_o_bip32 (o_bip32 o ++ [(k, pathne)]) o, LSan)
      end))
  | OOutRedeem i s => staged_parts p (on_output p i (fun o => (set_o_redeem s o, LSan)))
  | OOutWScript i s => staged_parts p (on_output p i (fun o => (set_o_wscript s o, LSan)))
  | OSign i sigok h k rs ws =>
    match in_index p i true with
    | inr o => (same, o)
    | inl (n, _, _) => staged_parts p (on_input p i true (sign_local (rest_sane p n) (blocked p) sigok h k rs ws))
    end
  | OTapKeySig i len =>
    staged_parts p (on_input p i true (fun c a =>
      if finalized a then (a, LOk)
      else match a_tapss a with [] => (set_a_tapkeysig len a, LSan) | _ => (a, LErr) end))
  | OTapScriptSig i s =>
    staged_parts p (on_input p i true (fun c a =>
      if finalized a then (a, LOk)
      else if 0 <? a_tapkeysig a then (a, LErr)
      (* the parser's checks (fix cc83b33): key and leaf hash 32 bytes, signature 64/65, no second (key, leaf) pair *)
      else if negb ((ts_pklen s =? 32) && (ts_lhlen s =? 32)) then (a, LErr)
      else if negb (siglen_ok (ts_siglen s)) then (a, LErr)
      else if existsb (fun x => (ts_pk x =? ts_pk s) && (ts_leaf x =? ts_leaf s)) (a_tapss a) then (a, LErr)
      else (set_a_tapss (a_tapss a ++ [s]) a, LSan)))
  | OBlind a => do_blind p a
  | OFinalize i =>
    (* Finalize indexes p.Inputs directly *)
    if (i <? 0)%Z || (Z.of_nat (length (p_auxs p)) <=? i)%Z then (same, Panic)
    else match nth_error (p_cores p) (Z.to_nat i), nth_error (p_auxs p) (Z.to_nat i) with
         | Some c, Some a =>
           let '(a', r) := finalize_local c a in
           let auxs := set_nth (Z.to_nat i) a' (p_auxs p) in
           ((auxs, p_outs p, g_scalars p), finish r (sanity_parts auxs (p_outs p) (g_scalars p)))
         | _, _ => (same, Panic)
         end
  | OMaybeFinalize i =>
    if (i <? 0)%Z || (Z.of_nat (length (p_auxs p)) <=? i)%Z then (same, Panic)
    else match nth_error (p_cores p) (Z.to_nat i), nth_error (p_auxs p) (Z.to_nat i) with
         | Some c, Some a =>
           let '(a', r) := maybe_finalize_local c a in
           let auxs := set_nth (Z.to_nat i) a' (p_auxs p) in
           ((auxs, p_outs p, g_scalars p), finish r (sanity_parts auxs (p_outs p) (g_scalars p)))
         | _, _ => (same, Panic)
         end
  | OFinalizeAll =>
    (* on an independent copy, assigned back when every Finalize succeeded *)
    let '(auxs, o) := finalize_loop finalize_local (p_cores p) 0 (length (p_cores p)) (p_auxs p) (p_outs p) (g_scalars p) in
    staged_parts p ((auxs, p_outs p, g_scalars p), o)
  | OMaybeFinalizeAll =>
    let '(auxs, o) := finalize_loop maybe_finalize_local (p_cores p) 0 (length (p_cores p)) (p_auxs p) (p_outs p) (g_scalars p) in
    ((auxs, p_outs p, g_scalars p), o)
  | _ => (same, Ok)
  end.

Definition set_flags (p : pset) (f : option N) : pset :=
  {| g_nin := g_nin p; g_nout := g_nout p; g_flags := f; g_fallback := g_fallback p; g_scalars := g_scalars p;
     p_cores := p_cores p; p_auxs := p_auxs p; p_outs := p_outs p |}.

Definition step (p : pset) (o : op) : pset * outcome :=
  match o with
  | OSetMod f => (set_flags p f, Ok)
  | OAddInputs l =>
    if negb (forallb (fun a => ia_cls a =? 0) l) then (p, Err)
    else match add_inputs p l with
         | None => (p, Err)
         | Some p' => publish p p'
         end
  | OAddOutputs l =>
    if negb (forallb outarg_valid l) then (p, Err)
    else match add_outputs p (map to_outp l) with
         | None => (p, Err)
         | Some p' => publish p p'
         end
  | OIssue i a => do_issue p i a
  | OReissue i a => do_reissue p i a
  | _ => let '((auxs, outs, scalars), r) := local_step p o in (upd p auxs outs scalars, r)
  end.

Definition run (p : pset) (ops : list op) : pset := fold_left (fun p o => fst (step p o)) ops p.

(* ---------- "serialises and re-parses to itself" ---------- *)
Fixpoint nodup_n (l : list N) : bool :=
  match l with [] => true | x :: l' => negb (existsb (fun y => y =? x) l') && nodup_n l' end.

Definition core_reparses (c : core) : bool :=
  negb (c_short c).                                  (* a 31-byte txid is written but not read back *)

(* (a derivation with an empty path is read back since fix 2b1b006) *)
Fixpoint nodup_pairs (l : list (N * N)) : bool :=
  match l with
  | [] => true
  | x :: l' => negb (existsb (fun y => (fst y =? fst x) && (snd y =? snd x)) l') && nodup_pairs l'
  end.

Definition aux_reparses (a : aux) : bool :=
  forallb (fun s => ts_pklen s + ts_lhlen s =? 64) (a_tapss a)
  && nodup_pairs (map (fun s => (ts_pk s, ts_leaf s)) (a_tapss a))     (* duplicate = same key AND same leaf hash *)
  && nodup_n (map tb_key (a_tapbip32 a))
  && negb (a_issbad a).          (* an issuance value commitment that is not 33 bytes *)

Definition out_reparses (o : outp) : bool :=
  (o_assetlen o =? 32) && negb (o_bk o =? 2)
  && negb (o_badnonce o).        (* an ecdh pubkey (nonce commitment) that is not a curve point *)

Definition rt (p : pset) : bool :=
  sanity p
  && (g_nin p =? N.of_nat (length (p_cores p))) && (g_nout p =? N.of_nat (length (p_outs p)))
  && (match g_flags p with None => true | Some f => f <? 8 end)
  && nodup_n (g_scalars p)
  && forallb core_reparses (p_cores p) && forallb aux_reparses (p_auxs p) && forallb out_reparses (p_outs p).

(* the class the harness prints: "diff" (parses, but not to the same packet) has no counterpart in the
   model since fix c50dc2e: any such answer of the implementation is a disagreement *)
Inductive rtc := RtSame | RtDiff | RtFail.
Definition rt_class (p : pset) : rtc := if rt p then RtSame else RtFail.

End R11.
