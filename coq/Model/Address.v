(* Model/Address.v — address/address.go's own logic (layouts, version and length rules,
   type and network detection, scripts, confidential <-> unconfidential conversion) and the
   address methods of payment/payment.go, payment/p2tr.go.
   Definitions only.

   External code (btcutil base58check, btcutil bech32 and its ConvertBits) enters as the
   five Section variables below; theorems take their round-trip laws as hypotheses
   (Proofs/Address.v), the differential check instantiates them with the executable
   re-implementations of Model/AddrCodecs.v.  blech32 is the model of C15 (Model/Blech32.v).
   Network constants and the address-type enumeration come from Gen/NetConsts.v and
   Gen/AddressConsts.v (regenerated from the Go source on every run). *)
From GE Require Export Lib.Bytes.
From GE Require Import Gen.NetConsts Gen.AddressConsts Model.Blech32.
Open Scope N_scope.

Module Addr.
Import B32.

Inductive res (A : Type) : Type :=
  | Ok (a : A)
  | Err
  | Panic.
Arguments Ok {A} a.
Arguments Err {A}.
Arguments Panic {A}.

(* ---------- networks (network/network.go) ---------- *)
Record net := mk_net {
  n_id : N;               (* 0 liquid, 1 regtest, 2 testnet: only used to name the result *)
  n_bech32 : bytes;
  n_blech32 : bytes;
  n_pkh : byte;
  n_sh : byte;
  n_conf : byte
}.
Definition zs (l : list Z) : bytes := map (fun z => b8 (Z.to_N z)) l.
Definition zb (z : Z) : byte := b8 (Z.to_N z).
Definition liquid : net :=
  mk_net 0 (zs g_Liquid_Bech32) (zs g_Liquid_Blech32) (zb g_Liquid_PubKeyHash) (zb g_Liquid_ScriptHash) (zb g_Liquid_Confidential).
Definition regtest : net :=
  mk_net 1 (zs g_Regtest_Bech32) (zs g_Regtest_Blech32) (zb g_Regtest_PubKeyHash) (zb g_Regtest_ScriptHash) (zb g_Regtest_Confidential).
Definition testnet : net :=
  mk_net 2 (zs g_Testnet_Bech32) (zs g_Testnet_Blech32) (zb g_Testnet_PubKeyHash) (zb g_Testnet_ScriptHash) (zb g_Testnet_Confidential).
Definition nets : list net := [liquid; regtest; testnet].

(* ---------- address types (the iota block of address.go) ---------- *)
Definition P2Pkh : N := Z.to_N g_P2Pkh.
Definition P2Sh : N := Z.to_N g_P2Sh.
Definition ConfidentialP2Pkh : N := Z.to_N g_ConfidentialP2Pkh.
Definition ConfidentialP2Sh : N := Z.to_N g_ConfidentialP2Sh.
Definition P2Wpkh : N := Z.to_N g_P2Wpkh.
Definition P2Wsh : N := Z.to_N g_P2Wsh.
Definition ConfidentialP2Wpkh : N := Z.to_N g_ConfidentialP2Wpkh.
Definition ConfidentialP2Wsh : N := Z.to_N g_ConfidentialP2Wsh.
Definition P2TR : N := Z.to_N g_P2TR.
Definition ConfidentialP2TR : N := Z.to_N g_ConfidentialP2TR.

(* segwitPrefix: what precedes the LAST '1' ("" when there is none); a network is recognised by the
   whole human-readable part (fix 233bf85), compared case-sensitively *)
Definition segwit_prefix (s : bytes) : bytes :=
  match last_index sep s with None => [] | Some i => firstn i s end.
(* segwitPrefix(address) == p *)
Definition is_hrp (s p : bytes) : bool := bytes_eqb (segwit_prefix s) p.

Definition lenb (l : bytes) (n : nat) : bool := Nat.eqb (length l) n.

(* ---------- scripts (txscript.ScriptBuilder, external; canonical pushes up to 75 bytes) ---------- *)
Definition OP_0 : byte := x00.
Definition OP_1 : byte := x51.
Definition OP_DUP : byte := x76.
Definition OP_HASH160 : byte := xa9.
Definition OP_EQUAL : byte := x87.
Definition OP_EQUALVERIFY : byte := x88.
Definition OP_CHECKSIG : byte := xac.

Definition add_data (d : bytes) : option bytes :=
  match d with
  | [] => Some [OP_0]
  | [b] =>
      if n8 b =? 0 then Some [OP_0]
      else if n8 b <=? 16 then Some [b8 (0x50 + n8 b)]
      else if n8 b =? 0x81 then Some [x4f]
      else Some [x01; b]
  | _ => if (length d <=? 75)%nat then Some (b8 (N.of_nat (length d)) :: d) else None
  end.

Definition script_p2pkh (h : bytes) : option bytes :=
  match add_data h with Some p => Some ([OP_DUP; OP_HASH160] ++ p ++ [OP_EQUALVERIFY; OP_CHECKSIG]) | None => None end.
Definition script_p2sh (h : bytes) : option bytes :=
  match add_data h with Some p => Some ([OP_HASH160] ++ p ++ [OP_EQUAL]) | None => None end.
Definition script_segwit (version : byte) (program : bytes) : option bytes :=
  match add_data program with
  | Some p => Some ((if n8 version =? 1 then OP_1 else OP_0) :: p)
  | None => None
  end.

Section Codecs.
(* btcutil base58.CheckEncode(input, version) / CheckDecode *)
Variable b58enc : bytes -> byte -> bytes.
Variable b58dec : bytes -> option (bytes * byte).
(* btcutil bech32.DecodeGeneric (90-character limit; the flag says which constant matched:
   false = bech32, true = bech32m) and Encode / EncodeM *)
Variable bech_dec : bytes -> option (bytes * bytes * bool).
Variable bech_enc : bool -> bytes -> bytes -> option bytes.
(* btcutil bech32.ConvertBits *)
Variable bcb : bytes -> N -> N -> bool -> option bytes.

(* ---------- base58 ---------- *)
(* FromBase58: (version, data) *)
Definition from_base58 (s : bytes) : res (byte * bytes) :=
  match b58dec s with
  | None => Err
  | Some (d, v) => if lenb d 20 then Ok (v, d) else Err
  end.
Definition to_base58 (v : byte) (d : bytes) : bytes := b58enc d v.

(* FromBase58Confidential: (confidential version, inner version, blinding key, hash) *)
Definition from_base58_conf (s : bytes) : res (byte * byte * bytes * bytes) :=
  match b58dec s with
  | None => Err
  | Some (d, v) =>
      if lenb d 54 then
        match d with
        | [] => Panic
        | d0 :: _ => Ok (v, d0, firstn 33 (skipn 1 d), skipn 34 d)
        end
      else Err
  end.
(* ToBase58Confidential: prefix | key | hash under the confidential version *)
Definition to_base58_conf (cv v : byte) (key d : bytes) : bytes := b58enc ([v] ++ key ++ d) cv.

(* ---------- bech32 ---------- *)
(* FromBech32: (prefix = the lower-case hrp returned by bech32.DecodeGeneric, version, program).
   Version 0 must carry the bech32 constant, every later version bech32m (fix e7c9f3c). *)
Definition from_bech32 (s : bytes) : res (bytes * byte * bytes) :=
  match last_index sep s with
  | None => Err
  | Some one =>
      if (one <=? 1)%nat then Err else
      match bech_dec s with
      | None => Err
      | Some (prefix, data, m) =>
          match data with
          | [] => Err
          | v :: rest =>
              if 16 <? n8 v then Err else
              if negb (Bool.eqb (n8 v =? 0) (negb m)) then Err else
              match bcb rest 5 8 false with
              | None => Err
              | Some rg =>
                  if ((length rg <? 2) || (40 <? length rg))%nat then Err else
                  if (n8 v =? 0) && negb (lenb rg 20) && negb (lenb rg 32) then Err else
                  Ok (prefix, v, rg)
              end
          end
      end
  end.

Definition to_bech32 (prefix : bytes) (v : byte) (program : bytes) : res bytes :=
  match bcb program 8 5 true with
  | None => Err
  | Some conv =>
      if n8 v =? 0 then match bech_enc false prefix (v :: conv) with Some s => Ok s | None => Err end
      else if n8 v =? 1 then match bech_enc true prefix (v :: conv) with Some s => Ok s | None => Err end
      else Err
  end.

(* ---------- blech32 ---------- *)
(* FromBlech32: (prefix = the lower-case hrp returned by blech32.Decode, version, blinding key, program) *)
Definition from_blech32 (s : bytes) : res (bytes * byte * bytes * bytes) :=
  match last_index sep s with
  | None => Err
  | Some one =>
      if (one <=? 1)%nat then Err else
      match decode s with
      | DErr => Err
      | DPanic => Panic
      | DOk prefix data =>
          match data with
          | [] => Err
          | v :: rest =>
              if 16 <? n8 v then Err else
              match convert_bits rest 5 8 false with
              | None => Err
              | Some rg =>
                  if ((length rg <? 2 + 33) || (40 + 33 <? length rg))%nat then Err else
                  if (n8 v =? 0) && negb (lenb rg 53) && negb (lenb rg 65) then Err else
                  Ok (prefix, v, firstn 33 rg, skipn 33 rg)   (* regrouped[:33], regrouped[33:] *)
              end
          end
      end
  end.

Definition to_blech32 (prefix : bytes) (v : byte) (key program : bytes) : res bytes :=
  match convert_bits (key ++ program) 8 5 true with
  | None => Err
  | Some conv =>
      match encoding_of_version v with
      | None => Err
      | Some enc =>
          match encode prefix (v :: conv) enc with
          | None => Err
          | Some s =>
              (* "Check validity by decoding the created address." *)
              match from_blech32 s with
              | Err => Err
              | Panic => Panic
              | Ok (_, v', k', p') =>
                  if beqb v' v && bytes_eqb (k' ++ p') (key ++ program) then Ok s else Err
              end
          end
      end
  end.

(* ---------- NetworkForAddress ---------- *)
Definition net_by_hrp (s : bytes) : option net :=
  find (fun n => is_hrp s (n_bech32 n) || is_hrp s (n_blech32 n)) nets.
Definition net_by_version (p : byte) : option net :=
  find (fun n => beqb p (n_conf n) || beqb p (n_pkh n) || beqb p (n_sh n)) nets.

Definition network_for_address (s : bytes) : res net :=
  match net_by_hrp s with
  | Some n => Ok n
  | None =>
      match b58dec s with
      | None => Err
      | Some (_, p) => match net_by_version p with Some n => Ok n | None => Err end
      end
  end.

(* ---------- DecodeType ---------- *)
Definition decode_segwit_type (t0_20 t0_32 t1 : N) (v : byte) (program : bytes) : res N :=
  if n8 v =? 0 then
    (if lenb program 20 then Ok t0_20 else if lenb program 32 then Ok t0_32 else Err)
  else if n8 v =? 1 then Ok t1 else Err.

Definition decode_blech32 (s : bytes) : res N :=
  match from_blech32 s with
  | Err => Err | Panic => Panic
  | Ok (_, v, _, p) => decode_segwit_type ConfidentialP2Wpkh ConfidentialP2Wsh ConfidentialP2TR v p
  end.
Definition decode_bech32 (s : bytes) : res N :=
  match from_bech32 s with
  | Err => Err | Panic => Panic
  | Ok (_, v, p) => decode_segwit_type P2Wpkh P2Wsh P2TR v p
  end.

Definition pick_type (is_pkh is_sh : bool) (tp ts : N) : res N :=
  if is_pkh && is_sh then Err else if is_pkh then Ok tp else if is_sh then Ok ts else Err.

Definition decode_base58 (s : bytes) (n : net) : res N :=
  match b58dec s with
  | None => Err
  | Some (d, id) =>
      if beqb id (n_conf n) then
        if (length d <? 34)%nat then Err
        else if lenb (skipn 34 d) 20 then
          match d with
          | [] => Panic
          | p :: _ => pick_type (beqb p (n_pkh n)) (beqb p (n_sh n)) ConfidentialP2Pkh ConfidentialP2Sh
          end
        else Err
      else if lenb d 20 then pick_type (beqb id (n_pkh n)) (beqb id (n_sh n)) P2Pkh P2Sh
      else Err
  end.

Definition decode_type (s : bytes) : res N :=
  match network_for_address s with
  | Err => Err | Panic => Panic
  | Ok n =>
      if is_hrp s (n_blech32 n) then decode_blech32 s
      else if is_hrp s (n_bech32 n) then decode_bech32 s
      else decode_base58 s n
  end.

Definition is_conf_type (t : N) : bool :=
  (t =? ConfidentialP2Pkh) || (t =? ConfidentialP2Sh) || (t =? ConfidentialP2Wpkh) ||
  (t =? ConfidentialP2Wsh) || (t =? ConfidentialP2TR).

Definition is_confidential (s : bytes) : res bool :=
  match decode_type s with Err => Err | Panic => Panic | Ok t => Ok (is_conf_type t) end.

(* ---------- ToOutputScript ---------- *)
Definition of_opt {A} (o : option A) : res A := match o with Some a => Ok a | None => Err end.

Definition to_output_script (s : bytes) : res bytes :=
  match decode_type s with
  | Err => Err | Panic => Panic
  | Ok t =>
      if t =? P2Pkh then
        match b58dec s with Some (d, _) => of_opt (script_p2pkh d) | None => Err end
      else if t =? P2Sh then
        match b58dec s with Some (d, _) => of_opt (script_p2sh d) | None => Err end
      else if t =? ConfidentialP2Pkh then
        match b58dec s with
        | Some (d, _) => if (length d <? 34)%nat then Panic else of_opt (script_p2pkh (skipn 34 d))
        | None => Err end
      else if t =? ConfidentialP2Sh then
        match b58dec s with
        | Some (d, _) => if (length d <? 34)%nat then Panic else of_opt (script_p2sh (skipn 34 d))
        | None => Err end
      else if (t =? P2Wpkh) || (t =? P2Wsh) || (t =? P2TR) then
        match from_bech32 s with
        | Ok (_, v, p) => of_opt (script_segwit v p) | Err => Err | Panic => Panic end
      else if (t =? ConfidentialP2Wpkh) || (t =? ConfidentialP2Wsh) || (t =? ConfidentialP2TR) then
        match from_blech32 s with
        | Ok (_, v, _, p) => of_opt (script_segwit v p) | Err => Err | Panic => Panic end
      else Err
  end.

(* ---------- FromConfidential / ToConfidential ---------- *)
(* (unconfidential address, blinding key, script); the error of ToOutputScript is dropped *)
Definition from_confidential (s : bytes) : res (bytes * bytes * bytes) :=
  match network_for_address s with
  | Err => Err | Panic => Panic
  | Ok n =>
      match decode_type s with
      | Err => Err | Panic => Panic
      | Ok t =>
          let finish (addr key : bytes) : res (bytes * bytes * bytes) :=
            match to_output_script addr with
            | Ok scr => Ok (addr, key, scr)
            | Err => Ok (addr, key, [])
            | Panic => Panic
            end in
          if (t =? ConfidentialP2Pkh) || (t =? ConfidentialP2Sh) then
            match from_base58_conf s with
            | Err => Err | Panic => Panic
            | Ok (_, v, key, d) => finish (to_base58 v d) key
            end
          else if (t =? ConfidentialP2Wpkh) || (t =? ConfidentialP2Wsh) || (t =? ConfidentialP2TR) then
            match from_blech32 s with
            | Err => Err | Panic => Panic
            | Ok (_, v, key, p) =>
                match to_bech32 (n_bech32 n) v p with
                | Err => Err | Panic => Panic
                | Ok addr => finish addr key
                end
            end
          else Err
      end
  end.

Definition to_confidential (addr key : bytes) : res bytes :=
  match network_for_address addr with
  | Err => Err | Panic => Panic
  | Ok n =>
      if is_hrp addr (n_bech32 n) then
        match from_bech32 addr with
        | Ok (_, v, p) => to_blech32 (n_blech32 n) v key p
        | Err => Err | Panic => Panic
        end
      else
        match from_base58 addr with
        | Ok (v, d) => Ok (to_base58_conf (n_conf n) v key d)
        | Err => Err | Panic => Panic
        end
  end.

(* ---------- payment: address methods (payment.go:186-317, p2tr.go:137-218) ---------- *)
(* kind: 0 PubKeyHash, 1 ConfidentialPubKeyHash, 2 ScriptHash, 3 ConfidentialScriptHash,
   4 WitnessPubKeyHash, 5 ConfidentialWitnessPubKeyHash, 6 WitnessScriptHash,
   7 ConfidentialWitnessScriptHash, 8 TaprootAddress, 9 ConfidentialTaprootAddress.
   Some methods return ("", nil) when the encoder fails: modelled as Ok []. *)
Definition swallow (r : res bytes) : res bytes := match r with Err => Ok [] | x => x end.
Definition nonempty_b (l : bytes) : bool := match l with [] => false | _ => true end.

Definition pay_address (kind : N) (n : net) (hash whash tapkey key : bytes) : res bytes :=
  if kind =? 0 then (if nonempty_b hash then Ok (to_base58 (n_pkh n) hash) else Err)
  else if kind =? 1 then (if nonempty_b hash then Ok (b58enc ([n_pkh n] ++ key ++ hash) (n_conf n)) else Err)
  else if kind =? 2 then (if nonempty_b hash then Ok (to_base58 (n_sh n) hash) else Err)
  else if kind =? 3 then (if nonempty_b hash then Ok (b58enc ([n_sh n] ++ key ++ hash) (n_conf n)) else Err)
  else if kind =? 4 then (if nonempty_b whash then swallow (to_bech32 (n_bech32 n) x00 whash) else Err)
  else if kind =? 5 then (if nonempty_b whash then to_blech32 (n_blech32 n) x00 key whash else Err)
  else if kind =? 6 then (if nonempty_b whash then to_bech32 (n_bech32 n) x00 whash else Err)
  else if kind =? 7 then (if nonempty_b whash then swallow (to_blech32 (n_blech32 n) x00 key whash) else Err)
  else if kind =? 8 then (if lenb tapkey 32 then to_bech32 (n_bech32 n) x01 tapkey else Err)
  else if kind =? 9 then (if lenb tapkey 32 then swallow (to_blech32 (n_blech32 n) x01 key tapkey) else Err)
  else Err.

End Codecs.
End Addr.
