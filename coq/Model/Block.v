(* Model/Block.v — Elements block header (signed-block proof form and dynamic-federation
   form, compact and full parameters) and whole blocks: block/serialize.go,
   block/deserialize.go (after fix 246dd82).  Definitions only.
   The Go structs allow values the wire format cannot express (a parameter struct with
   both or neither of Compact/Full set, nil pointers where the serializer dereferences);
   the model's types are exactly the expressible values: DNull / DCompact / DFull. *)
From GE Require Export Lib.Bytes Lib.Varint Model.Tx.
Open Scope N_scope.

Record bproof := mk_bproof { p_challenge : bytes; p_solution : bytes }.
Record compact_params := mk_cp { cp_script : bytes; cp_limit : N; cp_root : bytes }.
Record full_params := mk_fp { fp_script : bytes; fp_limit : N; fp_program : bytes; fp_fedscript : bytes; fp_ext : list bytes }.
Inductive dparams := DNull | DCompact (c : compact_params) | DFull (f : full_params).
Record dynafed := mk_dyna { d_current : dparams; d_proposed : dparams; d_witness : list bytes }.
Inductive extdata := EProof (p : bproof) | EDyna (d : dynafed).
Record header := mk_header {
  h_version : N; h_prev : bytes; h_merkle : bytes; h_time : N; h_height : N; h_ext : extdata }.
Record block := mk_block { b_header : header; b_txs : list tx }.

Definition DYNAFED_HF_MASK : N := 0x80000000.

Definition ser_dparams (p : dparams) : bytes :=
  match p with
  | DNull => [b8 0]
  | DCompact c => [b8 1] ++ var_slice (cp_script c) ++ le_enc 4 (cp_limit c) ++ cp_root c
  | DFull f => [b8 2] ++ var_slice (fp_script f) ++ le_enc 4 (fp_limit f) ++ var_slice (fp_program f) ++
               var_slice (fp_fedscript f) ++ vector (fp_ext f)
  end.

Definition ser_ext (for_hash : bool) (e : extdata) : bytes :=
  match e with
  | EProof p => var_slice (p_challenge p) ++ (if for_hash then [] else var_slice (p_solution p))
  | EDyna d => ser_dparams (d_current d) ++ ser_dparams (d_proposed d) ++
               (if for_hash then [] else vector (d_witness d))
  end.

Definition is_dyna (e : extdata) : bool := match e with EDyna _ => true | EProof _ => false end.

Definition ser_header (for_hash : bool) (h : header) : bytes :=
  le_enc 4 (if is_dyna (h_ext h) then N.lor (h_version h) DYNAFED_HF_MASK else h_version h) ++
  h_prev h ++ h_merkle h ++ le_enc 4 (h_time h) ++ le_enc 4 (h_height h) ++ ser_ext for_hash (h_ext h).

Definition ser_block (b : block) : bytes :=
  ser_header false (b_header b) ++ varint (lenL (b_txs b)) ++ enc_list ser_full (b_txs b).

(* ---------- parsers ---------- *)
Definition p_dparams : parser dparams :=
  ty <- p_u8 ;;
  if ty =? 0 then ret DNull
  else if ty =? 1 then
    (s <- p_var_slice ;; l <- p_le 4 ;; r <- take 32 ;; ret (DCompact (mk_cp s l r)))
  else if ty =? 2 then
    (s <- p_var_slice ;; l <- p_le 4 ;; pr <- p_var_slice ;; fs <- p_var_slice ;; e <- p_vector ;;
     ret (DFull (mk_fp s l pr fs e)))
  else pfail.

Definition p_ext (dyna : bool) : parser extdata :=
  if dyna then
    (c <- p_dparams ;; p <- p_dparams ;; w <- p_vector ;; ret (EDyna (mk_dyna c p w)))
  else
    (c <- p_var_slice ;; s <- p_var_slice ;; ret (EProof (mk_bproof c s))).

Definition parse_header : parser header :=
  v <- p_le 4 ;;
  let dyna := N.testbit v 31 in
  let ver := if dyna then N.land v 0x7fffffff else v in
  prev <- take 32 ;; mr <- take 32 ;; ts <- p_le 4 ;; ht <- p_le 4 ;;
  e <- p_ext dyna ;;
  ret (mk_header ver prev mr ts ht e).

Definition parse_block : parser block :=
  h <- parse_header ;; n <- p_varint ;; txs <- p_list parse_tx n ;; ret (mk_block h txs).

(* ---------- well-formedness ---------- *)
Definition wf_dparams (p : dparams) : bool :=
  match p with
  | DNull => true
  | DCompact c => wf_slice (cp_script c) && (cp_limit c <? two32) && (length (cp_root c) =? 32)%nat
  | DFull f => wf_slice (fp_script f) && (fp_limit f <? two32) && wf_slice (fp_program f) &&
               wf_slice (fp_fedscript f) && wf_vec (fp_ext f)
  end.

Definition wf_ext (e : extdata) : bool :=
  match e with
  | EProof p => wf_slice (p_challenge p) && wf_slice (p_solution p)
  | EDyna d => wf_dparams (d_current d) && wf_dparams (d_proposed d) && wf_vec (d_witness d)
  end.

Definition wf_header (h : header) : bool :=
  (h_version h <? 0x80000000) && (length (h_prev h) =? 32)%nat && (length (h_merkle h) =? 32)%nat &&
  (h_time h <? two32) && (h_height h <? two32) && wf_ext (h_ext h).

Definition wf_block (b : block) : bool :=
  wf_header (b_header b) && (lenL (b_txs b) <? two64) && forallb wf_tx (b_txs b).

Definition norm_block (b : block) : block := mk_block (b_header b) (map norm_tx (b_txs b)).
