(* Model/PsetV2.v — PSET v2 codec (psetv2/key_pair.go, global.go, input.go, output.go,
   pset.go, bitset.go, bip32.go, partialsig.go, utils.go readTxOut/writeTxOut).
   Definitions only.

   Shape of the model.  The three Go structs (Global, Input, Output) are modelled by ONE
   store type [sec] driven by a per-section *field table* ([global_tbl], [input_tbl],
   [output_tbl]) that lists the fields of the struct in the exact order getKeyPairs emits
   them.  Table position i describes one struct field:
     - a single-valued field (SS kind always): s_vals[i] holds the field as the canonical
       wire encoding of its value, [] when the Go presence test fails (nil pointer, zero
       integer, empty slice — whichever test the code uses for that field);
     - a multi-valued field (MS kind: slices of sigs / derivations / tap fields, the four
       pre-image maps, xpubs, scalars): s_lists[i] holds (key data, value) pairs in slice
       order (for the Go maps: in any listing order; they are written in key order).
   The model follows /repo after the fix: commits c50dc2e 78a1990 1bba04e 221cf1d 08af252 2b1b006 39b15af.
   ProprietaryData and Unknowns are the two remaining lists of every struct.
   Every guard of the deserialize switches (duplicate tests, length tests, external
   validators) and every emission guard of getKeyPairs is a function of the field kind.
   Externally decoded values: Elements transactions (non-witness UTXO) and outputs (witness
   UTXO) use Model/Tx.v; btcd wire.MsgTx (peg-in tx), btcec.ParsePubKey,
   ecdsa.ParseDERSignature and schnorr.ParsePubKey are Section variables (oracles without
   laws), supplied per case by the harness from the real libraries. *)
From GE Require Export Lib.Bytes Lib.Varint Model.Tx.
From GE Require Import Gen.PsetV2Consts Gen.PsetV2GlobalConsts Gen.PsetV2InputConsts Gen.PsetV2OutputConsts.
Open Scope N_scope.

(* ---------- outcomes ---------- *)
Inductive cres (A : Type) : Type := ROk (a : A) | RErr | RPanic.
Arguments ROk {A} a. Arguments RErr {A}. Arguments RPanic {A}.
Definition cbind {A B} (x : cres A) (f : A -> cres B) : cres B :=
  match x with ROk a => f a | RErr => RErr | RPanic => RPanic end.

(* ---------- constants (regenerated from psetv2/pset.go) ---------- *)
Definition PsetProprietary : N := Z.to_N g_PsetProprietary.
Definition maxKeyLen : N := Z.to_N g_maxPsbtKeyLength.
Definition pset_magic : bytes := map (fun z => b8 (Z.to_N z)) g_magicPrefix.
Definition magic_sep : bytes := pset_magic ++ [b8 0xff].
Definition pset_sep : byte := b8 (Z.to_N g_separator).

(* ---------- key pairs (key_pair.go) ---------- *)
Record kpair := mk_kpair { k_type : N; k_data : bytes; k_val : bytes }.

(* KeyPair.serialize *)
Definition ser_kp (k : kpair) : bytes :=
  var_slice (b8 (k_type k) :: k_data k) ++ var_slice (k_val k).

(* KeyPair.deserialize: ErrNoMoreKeyPairs on an empty key, ErrKeyInvalidSize above maxPsbtKeyLength *)
Inductive kpread := KEnd (rest : bytes) | KGot (k : kpair) (rest : bytes) | KErr.
Definition read_kp (bs : bytes) : kpread :=
  match p_var_slice bs with
  | None => KErr
  | Some (key, r) =>
      match key with
      | [] => KEnd r
      | t :: kd =>
          if maxKeyLen <? lenN key then KErr else
          match p_var_slice r with
          | None => KErr
          | Some (v, r') => KGot (mk_kpair (n8 t) kd v) r'
          end
      end
  end.

(* proprietaryKeyWithIdentifier(identifier, subType, keyData); an empty identifier means "pset" *)
Definition prop_key_id (id : bytes) (sub : N) (kd : bytes) : bytes := var_slice id ++ [b8 sub] ++ kd.
Definition eff_id (id : bytes) : bytes := match id with [] => pset_magic | _ => id end.
(* proprietaryKey(subType, keyData) *)
Definition prop_key (sub : N) (kd : bytes) : bytes := prop_key_id pset_magic sub kd.

Record pdata := mk_pd { pd_id : bytes; pd_sub : N; pd_kd : bytes; pd_val : bytes }.

(* ProprietaryData.fromKeyPair (the key type is tested by the caller's switch) *)
Definition parse_prop (k : kpair) : option pdata :=
  match p_varint (k_data k) with
  | None => None
  | Some (n, r) =>
      if n =? 0 then None else
      match takeN n r with
      | None => None
      | Some (id, r2) =>
          match r2 with
          | [] => None
          | s :: kd => Some (mk_pd id (n8 s) kd (k_val k))
          end
      end
  end.

(* ---------- the section store ---------- *)
Definition mentry := (bytes * bytes)%type.
Record sec := mk_sec {
  s_vals : list bytes;          (* single-valued fields, by table position *)
  s_lists : list (list mentry);  (* multi-valued fields, by table position *)
  s_props : list pdata;         (* ProprietaryData *)
  s_unks : list kpair              (* Unknowns *)
}.

(* positional update; positions outside the table do not exist (no effect) *)
Fixpoint lset {A} (i : nat) (x : A) (l : list A) : list A :=
  match l, i with
  | [], _ => []
  | _ :: r, O => x :: r
  | y :: r, S j => y :: lset j x r
  end.
(* positional read of the store (a table position, not a Go index expression) *)
Definition val_at (i : nat) (s : sec) : bytes := nth i (s_vals s) [].
Definition list_at (i : nat) (s : sec) : list mentry := nth i (s_lists s) [].
Definition set_val (i : nat) (b : bytes) (s : sec) : sec :=
  mk_sec (lset i b (s_vals s)) (s_lists s) (s_props s) (s_unks s).
Definition set_list (i : nat) (l : list mentry) (s : sec) : sec :=
  mk_sec (s_vals s) (lset i l (s_lists s)) (s_props s) (s_unks s).
Definition add_prop (p : pdata) (s : sec) : sec :=
  mk_sec (s_vals s) (s_lists s) (s_props s ++ [p]) (s_unks s).
Definition add_unk (k : kpair) (s : sec) : sec :=
  mk_sec (s_vals s) (s_lists s) (s_props s) (s_unks s ++ [k]).

(* ---------- field kinds ---------- *)
Inductive lenreq := LAny | LEq (n : nat) | LEq2 (n m : nat).
Definition len_ok (l : lenreq) (v : bytes) : bool :=
  match l with
  | LAny => true
  | LEq n => (length v =? n)%nat
  | LEq2 n m => (length v =? n)%nat || (length v =? m)%nat
  end.

Inductive skind :=
  | KBytes (l : lenreq)  (* []byte; present iff len > 0; optional exact-length test on decode *)
  | KInt (n : nat)       (* uintN little endian; present iff != 0 *)
  | KPtr (n : nat)       (* pointer / nil-tested value of n bytes (FallbackLocktime, TxModifiable bit set) *)
  | KModif               (* Global.Modifiable: nil-tested on decode, emitted only when Uint8() > 0 *)
  | KBool                (* *bool: one byte, decoded as (b == 1) *)
  | KCount               (* InputCount/OutputCount: wire.WriteVarInt / readCompactSize (exactly one canonical compact size) *)
  | KTx                  (* *transaction.Transaction: Serialize / NewTxFromBuffer (Model/Tx.v) *)
  | KTxOut               (* *transaction.TxOutput: writeTxOut / readTxOut *)
  | KMsgTx               (* *wire.MsgTx: BtcEncode / BtcDecode (oracle) *)
  | KVec                 (* [][]byte: WriteVector / ReadVector; present iff len > 0 *)
  | KPub.                (* []byte tested with validatePubkey on decode *)

Inductive mkind :=
  | MXpub | MScalar | MPartialSig | MBip32 | MMap (n : nat) | MTapScriptSig | MTapLeaf | MTapBip32.

Inductive slotk := SS (k : skind) (always : bool) | MS (m : mkind).

Inductive keyid := KStd (t : N) | KProp (sub : N).
Definition keyid_eqb (a b : keyid) : bool :=
  match a, b with
  | KStd x, KStd y => x =? y
  | KProp x, KProp y => x =? y
  | _, _ => false
  end.

(* ekey: the key the emitter writes; dkey: the case label of the decode switch *)
Record slot := mk_slot { sl_ekey : keyid; sl_dkey : keyid; sl_k : slotk }.

Definition nonemptyb {A} (l : list A) : bool := match l with [] => false | _ => true end.

(* readBip32Derivation accepts: len % 4 == 0 && len/4 - 1 >= 0 (a fingerprint and any path, also empty) *)
Definition bip32_ok (v : bytes) : bool := (Nat.modulo (length v) 4 =? 0)%nat && (4 <=? length v)%nat.

(* copy(hash[:], keyData): zero-padded / truncated to the array length *)
Definition fixlen (n : nat) (kd : bytes) : bytes := firstn n (kd ++ repeat x00 n).

Fixpoint map_put (k v : bytes) (l : list mentry) : list mentry :=
  match l with
  | [] => [(k, v)]
  | (k', v') :: r => if bytes_eqb k' k then (k', v) :: r else (k', v') :: map_put k v r
  end.

Definition has_key (k : bytes) (l : list mentry) : bool := existsb (fun e => bytes_eqb (fst e) k) l.

(* readTxOut (utils.go) followed by writeTxOut: the canonical bytes of the parsed output *)
Definition read_txout (v : bytes) : option bytes :=
  if (length v <? 44)%nat then None else
  match p_asset v with
  | None => None
  | Some (a, r1) =>
      match p_value r1 with
      | None => None
      | Some (val, r2) =>
          match p_nonce r2 with
          | None => None
          | Some (n, r3) =>
              match p_var_slice r3 with
              | None => None
              | Some (s, _) => Some (a ++ val ++ n ++ var_slice s)
              end
          end
      end
  end.

(* big-endian value of a key: for keys of one length, bytes.Compare orders them as these numbers *)
Definition key_num (e : mentry) : N := be_dec (fst e).
Fixpoint ins_entry (e : mentry) (l : list mentry) : list mentry :=
  match l with
  | [] => [e]
  | x :: r => if key_num e <? key_num x then e :: x :: r else x :: ins_entry e r
  end.
(* sort.Slice(keys, bytes.Compare(...) < 0) over the keys of a Go map (distinct, one length) *)
Definition sort_entries (l : list mentry) : list mentry := fold_right ins_entry [] l.

Section Codec.
(* external validators, supplied by the harness from the real libraries; no laws assumed *)
Variable pk_ok : bytes -> bool.      (* btcec.ParsePubKey succeeds *)
Variable der_ok : bytes -> bool.     (* ecdsa.ParseDERSignature succeeds *)
Variable xonly_ok : bytes -> bool.   (* schnorr.ParsePubKey succeeds (32 bytes) *)
Variable msgtx_canon : bytes -> option bytes. (* wire.MsgTx BtcDecode then BtcEncode *)

(* ----- single-valued fields ----- *)
(* decode switch arm after the duplicate test: wire value -> stored value *)
Definition s_dec (k : skind) (v : bytes) : cres bytes :=
  match k with
  | KBytes l => if len_ok l v then ROk v else RErr
  | KInt n =>
      if (length v =? n)%nat then ROk (if le_dec v =? 0 then [] else v) else RErr
  | KPtr n => if (length v =? n)%nat then ROk v else RErr
  | KModif => if (length v =? 1)%nat then ROk v else RErr
  | KBool => match v with [b] => ROk [if n8 b =? 1 then x01 else x00] | _ => RErr end
  | KCount => match p_varint v with
              | Some (n, []) => ROk (if n =? 0 then [] else le_enc 8 n)
              | _ => RErr end
  | KTx => match parse_tx v with Some (t, _) => ROk (ser_full t) | None => RErr end
  | KTxOut => match read_txout v with Some b => ROk b | None => RErr end
  | KMsgTx => match msgtx_canon v with Some c => ROk c | None => RErr end
  | KVec => match p_vector v with
            | Some (l, _) => ROk (match l with [] => [] | _ => vector l end)
            | None => RErr end
  | KPub => if pk_ok v then ROk v else RErr
  end.

(* getKeyPairs: stored value -> wire value *)
Definition s_emit (k : skind) (b : bytes) : bytes :=
  match k with
  | KInt n => match b with [] => repeat x00 n | _ => b end
  | KCount => varint (le_dec b)
  | _ => b
  end.
(* emission guard *)
Definition s_emits (k : skind) (always : bool) (b : bytes) : bool :=
  always || match k with KModif => negb (le_dec b =? 0) | _ => nonemptyb b end.

(* ----- multi-valued fields: one decode-switch arm, given the entries already present ----- *)
Definition m_step (m : mkind) (kd v : bytes) (l : list mentry) : cres (list mentry) :=
  match m with
  | MXpub =>
      if (length kd =? Z.to_nat g_pubKeyLength)%nat then
        if bip32_ok v then ROk (l ++ [(kd, v)]) else RErr
      else RErr
  | MScalar => if (length kd =? 32)%nat then ROk (l ++ [(kd, [])]) else RErr
  | MPartialSig =>
      if pk_ok kd && der_ok v then
        if has_key kd l then RErr else ROk (l ++ [(kd, v)])
      else RErr
  | MBip32 =>
      if pk_ok kd then
        if bip32_ok v then
          if has_key kd l then RErr else ROk (l ++ [(kd, v)])
        else RErr
      else RErr
  | MMap n => ROk (map_put (fixlen n kd) v l)
  | MTapScriptSig =>
      if (length kd =? 64)%nat then
        if has_key kd l then RErr    (* same x-only key AND same leaf hash *)
        else if (length v =? 64)%nat || (length v =? 65)%nat then ROk (l ++ [(kd, v)]) else RErr
      else RErr
  | MTapLeaf =>
      match kd with
      | [] => RErr                                  (* (len-1) % 32 == -1 *)
      | c0 :: tl =>
          if negb (Nat.modulo (length tl) 32 =? 0)%nat then RErr
          else if (length kd <? 33)%nat then RErr             (* ControlBlockBaseSize *)
          else if (4129 <? length kd)%nat then RErr            (* ControlBlockMaxSize *)
          else if negb (xonly_ok (firstn 32 tl)) then RErr
          else match rev v with
               | [] => RErr                                   (* len(kp.Value) == 0 *)
               | lv :: _ =>
                   if N.land (n8 c0) 0xfe =? n8 lv then ROk (l ++ [(kd, v)]) else RErr
               end
      end
  | MTapBip32 =>
      if (length kd =? 33)%nat then
        if has_key kd l then RErr else
        match p_varint v with
        | None => RErr
        | Some (n, r) =>
            match p_list (take 32) n r with
            | None => RErr
            | Some (_, deriv) => if bip32_ok deriv then ROk (l ++ [(kd, v)]) else RErr
            end
        end
      else RErr
  end.

(* ----- table lookup: the decode switch ----- *)
Fixpoint find_slot_from (i : nat) (key : keyid) (tbl : list slot) : option (nat * slot) :=
  match tbl with
  | [] => None
  | sl :: r => if keyid_eqb (sl_dkey sl) key then Some (i, sl) else find_slot_from (S i) key r
  end.
Definition find_slot := find_slot_from 0.

Definition apply_slot (i : nat) (sl : slot) (kd v : bytes) (s : sec) : cres sec :=
  match sl_k sl with
  | SS k _ =>
      if nonemptyb (val_at i s) then RErr   (* ErrDuplicatedField *)
      else cbind (s_dec k v) (fun b => ROk (set_val i b s))
  | MS m => cbind (m_step m kd v (list_at i s)) (fun l => ROk (set_list i l s))
  end.

(* one iteration of the deserialize loop *)
Definition sec_step (tbl : list slot) (s : sec) (k : kpair) : cres sec :=
  if k_type k =? PsetProprietary then
    match parse_prop k with
    | None => RErr
    | Some pd =>
        if bytes_eqb (pd_id pd) pset_magic then
          match find_slot (KProp (pd_sub pd)) tbl with
          | Some (i, sl) => apply_slot i sl (pd_kd pd) (k_val k) s
          | None => ROk (add_prop pd s)
          end
        else ROk (add_prop pd s)   (* an entry of another identifier: kept as it is *)
    end
  else
    match find_slot (KStd (k_type k)) tbl with
    | Some (i, sl) => apply_slot i sl (k_data k) (k_val k) s
    | None => ROk (add_unk k s)
    end.

Definition empty_sec (tbl : list slot) : sec :=
  mk_sec (repeat [] (length tbl)) (repeat [] (length tbl)) [] [].

(* the deserialize loop; fuel = bytes left + 1 (every key pair consumes at least two bytes) *)
Fixpoint parse_kps (tbl : list slot) (fuel : nat) (s : sec) (bs : bytes) : cres (sec * bytes) :=
  match fuel with
  | O => RErr
  | S f =>
      match read_kp bs with
      | KErr => RErr
      | KEnd r => ROk (s, r)
      | KGot k r => cbind (sec_step tbl s k) (fun s' => parse_kps tbl f s' r)
      end
  end.

Definition parse_section (tbl : list slot) (sanity : sec -> bool) (bs : bytes) : cres (sec * bytes) :=
  cbind (parse_kps tbl (S (length bs)) (empty_sec tbl) bs)
        (fun sr => if sanity (fst sr) then ROk sr else RErr).

(* ----- emission: getKeyPairs ----- *)
(* the entries a multi-valued field writes.  Slices are written as they are; the four pre-image
   maps are written one key per entry in sorted key order. *)
Definition m_emit (m : mkind) (l : list mentry) : list mentry :=
  match m with
  | MMap _ => sort_entries l
  | _ => l
  end.

Definition mk_kp_id (key : keyid) (kd v : bytes) : kpair :=
  match key with
  | KStd t => mk_kpair t kd v
  | KProp sub => mk_kpair PsetProprietary (prop_key sub kd) v
  end.

Definition emit_slot (i : nat) (sl : slot) (s : sec) : cres (list kpair) :=
  match sl_k sl with
  | SS k al =>
      let b := val_at i s in
      if s_emits k al b then ROk [mk_kp_id (sl_ekey sl) [] (s_emit k b)] else ROk []
  | MS m => ROk (map (fun e => mk_kp_id (sl_ekey sl) (fst e) (snd e)) (m_emit m (list_at i s)))
  end.

Fixpoint emit_slots (i : nat) (tbl : list slot) (s : sec) : cres (list kpair) :=
  match tbl with
  | [] => ROk []
  | sl :: r => cbind (emit_slot i sl s) (fun a => cbind (emit_slots (S i) r s) (fun b => ROk (a ++ b)))
  end.

Definition prop_kp (p : pdata) : kpair :=
  mk_kpair PsetProprietary (prop_key_id (eff_id (pd_id p)) (pd_sub p) (pd_kd p)) (pd_val p).

Definition kps_of (tbl : list slot) (s : sec) : cres (list kpair) :=
  cbind (emit_slots 0 tbl s) (fun a => ROk (a ++ map prop_kp (s_props s) ++ s_unks s)).

Definition enc_kps (l : list kpair) : bytes := concat (map ser_kp l).

Definition ser_section (tbl : list slot) (s : sec) : cres bytes :=
  cbind (kps_of tbl s) (fun l => ROk (enc_kps l ++ [pset_sep])).

(* ---------- the three tables, in getKeyPairs emission order ---------- *)
Definition kS (z : Z) : keyid := KStd (Z.to_N z).
Definition kP (z : Z) : keyid := KProp (Z.to_N z).
Definition sl (key : keyid) (k : slotk) : slot := mk_slot key key k.

Definition global_tbl : list slot := [
  (* 0 Xpubs *)            sl (kS g_GlobalXpub) (MS MXpub);
  (* 1 TxVersion *)        sl (kS g_GlobalTxVersion) (SS (KInt 4) true);
  (* 2 FallbackLocktime *) sl (kS g_GlobalFallbackLocktime) (SS (KPtr 4) false);
  (* 3 InputCount *)       sl (kS g_GlobalInputCount) (SS KCount true);
  (* 4 OutputCount *)      sl (kS g_GlobalOutputCount) (SS KCount true);
  (* 5 TxModifiable *)     sl (kS g_GlobalTxModifiable) (SS (KPtr 1) false);
  (* 6 Scalars *)          sl (kP g_GlobalScalar) (MS MScalar);
  (* 7 Version *)          sl (kS g_GlobalVersion) (SS (KInt 4) true);
  (* 8 Modifiable *)       sl (kP g_GlobalModifiable) (SS KModif false) ].

Definition gXpubs := 0%nat. Definition gTxVersion := 1%nat. Definition gFallback := 2%nat.
Definition gInputCount := 3%nat. Definition gOutputCount := 4%nat. Definition gTxModifiable := 5%nat.
Definition gScalars := 6%nat. Definition gVersion := 7%nat. Definition gModifiable := 8%nat.

Definition input_tbl : list slot := [
  (*  0 NonWitnessUtxo *)     sl (kS g_InputNonWitnessUtxo) (SS KTx false);
  (*  1 WitnessUtxo *)        sl (kS g_InputWitnessUtxo) (SS KTxOut false);
  (*  2 PartialSigs *)        sl (kS g_InputPartialSig) (MS MPartialSig);
  (*  3 SigHashType *)        sl (kS g_InputSighashType) (SS (KInt 4) false);
  (*  4 RedeemScript *)       sl (kS g_InputRedeemScript) (SS (KBytes LAny) false);
  (*  5 WitnessScript *)      sl (kS g_InputWitnessScript) (SS (KBytes LAny) false);
  (*  6 Bip32Derivation *)    sl (kS g_InputBip32Derivation) (MS MBip32);
  (*  7 FinalScriptSig *)     sl (kS g_InputFinalScriptsig) (SS (KBytes LAny) false);
  (*  8 FinalScriptWitness *) sl (kS g_InputFinalScriptwitness) (SS (KBytes LAny) false);
  (*  9 Ripemd160Preimages *) sl (kS g_InputRipemd160) (MS (MMap 20));
  (* 10 Sha256Preimages *)    sl (kS g_InputSha256) (MS (MMap 32));
  (* 11 Hash160Preimages *)   sl (kS g_InputHash160) (MS (MMap 20));
  (* 12 Hash256Preimages *)   sl (kS g_InputHash256) (MS (MMap 32));
  (* 13 PreviousTxid *)       sl (kS g_InputPreviousTxid) (SS (KBytes (LEq 32)) true);
  (* 14 PreviousTxIndex *)    sl (kS g_InputPreviousTxIndex) (SS (KInt 4) true);
  (* 15 Sequence *)           sl (kS g_InputSequence) (SS (KInt 4) false);
  (* 16 RequiredTimeLocktime *) sl (kS g_InputRequiredTimeLocktime) (SS (KInt 4) false);
  (* 17 RequiredHeightLocktime *) sl (kS g_InputRequiredHeightLocktime) (SS (KInt 4) false);
  (* 18 IssuanceValue *)      sl (kP g_InputIssuanceValue) (SS (KInt 8) false);
  (* 19 IssuanceValueCommitment *) sl (kP g_InputIssuanceValueCommitment) (SS (KBytes (LEq 33)) false);
  (* 20 IssuanceValueRangeproof *) sl (kP g_InputIssuanceValueRangeproof) (SS (KBytes LAny) false);
  (* 21 IssuanceInflationKeysRangeproof *) sl (kP g_InputIssuanceInflationKeysRangeproof) (SS (KBytes LAny) false);
  (* 22 PeginTx *)            sl (kP g_InputPeginTx) (SS KMsgTx false);
  (* 23 PeginTxoutProof *)    sl (kP g_InputPeginTxoutProof) (SS (KBytes LAny) false);
  (* 24 PeginGenesisHash *)   sl (kP g_InputPeginGenesis) (SS (KBytes (LEq 32)) false);
  (* 25 PeginClaimScript *)   sl (kP g_InputPeginClaimScript) (SS (KBytes LAny) false);
  (* 26 PeginValue *)         sl (kP g_InputPeginValue) (SS (KInt 8) false);
  (* 27 PeginWitness *)       sl (kP g_InputPeginWitness) (SS KVec false);
  (* 28 IssuanceInflationKeys *) sl (kP g_InputIssuanceInflationKeys) (SS (KInt 8) false);
  (* 29 IssuanceInflationKeysCommitment *) sl (kP g_InputIssuanceInflationKeysCommitment) (SS (KBytes (LEq 33)) false);
  (* 30 IssuanceBlindingNonce *) sl (kP g_InputIssuanceBlindingNonce) (SS (KBytes (LEq 32)) false);
  (* 31 IssuanceAssetEntropy *) sl (kP g_InputIssuanceAssetEntropy) (SS (KBytes (LEq 32)) false);
  (* 32 UtxoRangeProof *)     sl (kP g_InputUtxoRangeProof) (SS (KBytes LAny) false);
  (* 33 IssuanceBlindValueProof *) sl (kP g_InputIssuanceBlindValueProof) (SS (KBytes LAny) false);
  (* 34 IssuanceBlindInflationKeysProof *) sl (kP g_InputIssuanceBlindInflationKeysProof) (SS (KBytes LAny) false);
  (* 35 ExplicitValue *)      sl (kP g_InputExplicitValue) (SS (KInt 8) false);
  (* 36 ValueProof *)         sl (kP g_InputValueProof) (SS (KBytes LAny) false);
  (* 37 ExplicitAsset *)      sl (kP g_InputExplicitAsset) (SS (KBytes (LEq 32)) false);
  (* 38 AssetProof *)         sl (kP g_InputAssetProof) (SS (KBytes LAny) false);
  (* 39 BlindedIssuance *)    sl (kP g_InputBlindedIssuanceValue) (SS KBool false);
  (* 40 TapKeySig *)          sl (kS g_InputTapKeySig) (SS (KBytes (LEq2 64 65)) false);
  (* 41 TapScriptSig *)       sl (kS g_InputTapScriptSig) (MS MTapScriptSig);
  (* 42 TapLeafScript *)      sl (kS g_InputTapLeafScript) (MS MTapLeaf);
  (* 43 TapBip32Derivation *) sl (kS g_InputTapBip32Derivation) (MS MTapBip32);
  (* 44 TapInternalKey *)     sl (kS g_InputTapInternalKey) (SS (KBytes (LEq 32)) false);
  (* 45 TapMerkleRoot *)      sl (kS g_InputTapMerkleRoot) (SS (KBytes (LEq 32)) false) ].

Definition iNonWitnessUtxo := 0%nat. Definition iWitnessUtxo := 1%nat. Definition iPartialSigs := 2%nat.
Definition iWitnessScript := 5%nat. Definition iFinalScriptWitness := 8%nat.
Definition iPreviousTxid := 13%nat. Definition iTimeLock := 16%nat. Definition iHeightLock := 17%nat.
Definition iIssuanceValue := 18%nat. Definition iIssuanceValueCommitment := 19%nat.
Definition iPeginValue := 26%nat.
Definition iIssuanceInflationKeys := 28%nat. Definition iIssuanceInflationKeysCommitment := 29%nat.
Definition iIssuanceBlindValueProof := 33%nat. Definition iIssuanceBlindInflationKeysProof := 34%nat.
Definition iExplicitValue := 35%nat. Definition iValueProof := 36%nat.
Definition iExplicitAsset := 37%nat. Definition iAssetProof := 38%nat.
Definition iTapKeySig := 40%nat. Definition iTapScriptSig := 41%nat. Definition iTapLeafScript := 42%nat.
Definition iTapBip32 := 43%nat. Definition iTapInternalKey := 44%nat. Definition iTapMerkleRoot := 45%nat.

Definition output_tbl : list slot := [
  (*  0 RedeemScript *)    sl (kS g_OutputRedeemScript) (SS (KBytes LAny) false);
  (*  1 WitnessScript *)   sl (kS g_OutputWitnessScript) (SS (KBytes LAny) false);
  (*  2 Bip32Derivation *) sl (kS g_OutputBip32Derivation) (MS MBip32);
  (*  3 Value *)           sl (kS g_OutputAmount) (SS (KInt 8) true);
  (*  4 Script *)          sl (kS g_OutputScript) (SS (KBytes LAny) true);
  (*  5 ValueCommitment *) sl (kP g_OutputValueCommitment) (SS (KBytes (LEq 33)) false);
  (*  6 AssetCommitment *) sl (kP g_OutputAssetCommitment) (SS (KBytes (LEq 33)) false);
  (*  7 Asset *)           sl (kP g_OutputAsset) (SS (KBytes (LEq 32)) false);
  (*  8 ValueRangeproof *) sl (kP g_OutputValueRangeproof) (SS (KBytes LAny) false);
  (*  9 AssetSurjectionProof *) sl (kP g_OutputAssetSurjectionProof) (SS (KBytes LAny) false);
  (* 10 BlindingPubkey *)  sl (kP g_OutputBlindingPubkey) (SS KPub false);
  (* 11 EcdhPubkey *)      sl (kP g_OutputEcdhPubkey) (SS KPub false);
  (* 12 BlinderIndex *)    sl (kP g_OutputBlinderIndex) (SS (KInt 4) true);
  (* 13 BlindValueProof *) sl (kP g_OutputBlindValueProof) (SS (KBytes LAny) false);
  (* 14 BlindAssetProof *) sl (kP g_OutputBlindAssetProof) (SS (KBytes LAny) false) ].

Definition oValue := 3%nat. Definition oValueCommitment := 5%nat. Definition oAssetCommitment := 6%nat.
Definition oAsset := 7%nat. Definition oValueRangeproof := 8%nat. Definition oAssetSurjectionProof := 9%nat.
Definition oBlindingPubkey := 10%nat. Definition oEcdhPubkey := 11%nat. Definition oBlinderIndex := 12%nat.
Definition oBlindValueProof := 13%nat. Definition oBlindAssetProof := 14%nat.

(* ---------- sanity checks ---------- *)
Definition has_val (i : nat) (s : sec) : bool := nonemptyb (val_at i s).
Definition num_val (i : nat) (s : sec) : N := le_dec (val_at i s).

Fixpoint dup_keys (l : list mentry) : bool :=
  match l with
  | [] => false
  | e :: r => has_key (fst e) r || dup_keys r
  end.

(* Global.SanityCheck *)
Definition global_sanity (g : sec) : bool :=
  negb (num_val gTxVersion g <? 2) &&
  (num_val gVersion g =? 2) &&
  negb (dup_keys (list_at gXpubs g)) &&
  negb (7 <? num_val gTxModifiable g) &&
  negb (has_val gModifiable g && negb (num_val gModifiable g =? 0)) &&
  negb (dup_keys (list_at gScalars g)).

(* TapLeafScript.sanityCheck: len(Script) == 0, the script being the value minus its last byte *)
Definition tapleaf_ok (e : mentry) : bool := (2 <=? length (snd e))%nat.
(* TapScriptSig.sanityCheck on the split key data *)
Definition tapsig_ok (e : mentry) : bool :=
  (length (firstn 32 (fst e)) =? 32)%nat &&
  ((length (snd e) =? 64)%nat || (length (snd e) =? 65)%nat).
(* TapDerivationPathWithPubKey.sanityCheck: at least one leaf hash (their length is fixed by the codec) *)
Definition tapbip_ok (e : mentry) : bool :=
  match p_varint (snd e) with Some (n, _) => negb (n =? 0) | None => false end.

Definition xorb' (a b : bool) : bool := negb (Bool.eqb a b).

(* Input.SanityCheck *)
Definition input_sanity (i : sec) : bool :=
  negb (negb (has_val iWitnessUtxo i) && has_val iWitnessScript i) &&
  negb (negb (has_val iWitnessUtxo i) && has_val iFinalScriptWitness i) &&
  has_val iPreviousTxid i &&
  negb (has_val iIssuanceValue i && xorb' (has_val iIssuanceValueCommitment i) (has_val iIssuanceBlindValueProof i)) &&
  negb (has_val iIssuanceInflationKeys i &&
        xorb' (has_val iIssuanceInflationKeysCommitment i) (has_val iIssuanceBlindInflationKeysProof i)) &&
  negb (xorb' (has_val iExplicitValue i) (has_val iValueProof i)) &&
  negb (xorb' (has_val iExplicitAsset i) (has_val iAssetProof i)) &&
  negb (has_val iTapInternalKey i && negb (length (val_at iTapInternalKey i) =? 32)%nat) &&
  negb (has_val iTapMerkleRoot i && negb (length (val_at iTapMerkleRoot i) =? 32)%nat) &&
  negb (has_val iTapKeySig i && negb (len_ok (LEq2 64 65) (val_at iTapKeySig i))) &&
  forallb tapleaf_ok (list_at iTapLeafScript i) &&
  forallb tapsig_ok (list_at iTapScriptSig i) &&
  forallb tapbip_ok (list_at iTapBip32 i).

Definition out_partially_blinded (o : sec) : bool :=
  has_val oValueCommitment o || has_val oAssetCommitment o || has_val oValueRangeproof o ||
  has_val oAssetSurjectionProof o || has_val oEcdhPubkey o.
Definition out_fully_blinded (o : sec) : bool :=
  has_val oValueCommitment o && has_val oAssetCommitment o && has_val oValueRangeproof o &&
  has_val oAssetSurjectionProof o && has_val oEcdhPubkey o.
Definition out_needs_blinding (o : sec) : bool := has_val oBlindingPubkey o.

(* Output.SanityCheck *)
Definition output_sanity (o : sec) : bool :=
  negb (has_val oValue o && xorb' (has_val oValueCommitment o) (has_val oBlindValueProof o)) &&
  negb (negb (has_val oAssetCommitment o) && negb (has_val oAsset o)) &&
  negb (has_val oAsset o && xorb' (has_val oAssetCommitment o) (has_val oBlindAssetProof o)) &&
  negb (out_partially_blinded o && negb (out_fully_blinded o)) &&
  negb (out_fully_blinded o && has_val oBlinderIndex o).

(* ---------- the packet ---------- *)
Record pset := mk_pset { p_global : sec; p_ins : list sec; p_outs : list sec }.

(* Pset.SanityCheck *)
Definition pset_needs_blinding (p : pset) : bool :=
  existsb (fun o => out_needs_blinding o && negb (out_fully_blinded o)) (p_outs p).
Definition pset_sanity (p : pset) : bool :=
  forallb input_sanity (p_ins p) && forallb output_sanity (p_outs p) &&
  negb (existsb out_fully_blinded (p_outs p) &&
        negb (nonemptyb (list_at gScalars (p_global p))) && pset_needs_blinding p).

(* `for i := 0; i < int(count); i++ { section.deserialize(buf) }` *)
Fixpoint parse_secs (tbl : list slot) (sanity : sec -> bool) (fuel : nat) (n : N) (bs : bytes)
  : cres (list sec * bytes) :=
  if n =? 0 then ROk ([], bs) else
  match fuel with
  | O => RErr
  | S f =>
      cbind (parse_section tbl sanity bs) (fun sr =>
      cbind (parse_secs tbl sanity f (N.pred n) (snd sr)) (fun lr =>
      ROk (fst sr :: fst lr, snd lr)))
  end.

(* deserialize (pset.go); bytes after the last output section are ignored *)
Definition parse_pset (bs : bytes) : cres pset :=
  match take 5 bs with
  | None => RErr
  | Some (m, r) =>
      if bytes_eqb m magic_sep then
        cbind (parse_section global_tbl global_sanity r) (fun gr =>
        let g := fst gr in
        cbind (parse_secs input_tbl input_sanity (S (length (snd gr))) (num_val gInputCount g) (snd gr)) (fun ir =>
        cbind (parse_secs output_tbl output_sanity (S (length (snd ir))) (num_val gOutputCount g) (snd ir)) (fun or_ =>
        let p := mk_pset g (fst ir) (fst or_) in
        if pset_sanity p then ROk p else RErr)))
      else RErr
  end.

(* the same decoder, also returning the bytes it did not look at (what is left in the bytes.Buffer
   when deserialize returns): parse_pset bs is parse_pset_rest bs with the remainder dropped *)
Definition parse_pset_rest (bs : bytes) : cres (pset * bytes) :=
  match take 5 bs with
  | None => RErr
  | Some (m, r) =>
      if bytes_eqb m magic_sep then
        cbind (parse_section global_tbl global_sanity r) (fun gr =>
        let g := fst gr in
        cbind (parse_secs input_tbl input_sanity (S (length (snd gr))) (num_val gInputCount g) (snd gr)) (fun ir =>
        cbind (parse_secs output_tbl output_sanity (S (length (snd ir))) (num_val gOutputCount g) (snd ir)) (fun or_ =>
        let p := mk_pset g (fst ir) (fst or_) in
        if pset_sanity p then ROk (p, snd or_) else RErr)))
      else RErr
  end.

Fixpoint ser_secs (tbl : list slot) (l : list sec) : cres bytes :=
  match l with
  | [] => ROk []
  | s :: r => cbind (ser_section tbl s) (fun a => cbind (ser_secs tbl r) (fun b => ROk (a ++ b)))
  end.

(* Pset.serialize: len(p.Inputs) input sections, whatever Global.InputCount says *)
Definition ser_pset (p : pset) : cres bytes :=
  cbind (ser_section global_tbl (p_global p)) (fun g =>
  cbind (ser_secs input_tbl (p_ins p)) (fun i =>
  cbind (ser_secs output_tbl (p_outs p)) (fun o =>
  ROk (magic_sep ++ g ++ i ++ o)))).

(* ---------- normal form and well-formedness ---------- *)
(* what parse returns for a field that is not emitted: the absent value *)
Fixpoint norm_vals (tbl : list slot) (vs : list bytes) : list bytes :=
  match tbl, vs with
  | sl :: tr, b :: vr =>
      (match sl_k sl with SS k al => if s_emits k al b then b else [] | MS _ => b end) :: norm_vals tr vr
  | _, _ => vs
  end.
(* a map comes back in the order it was written (sorted); an empty Identifier comes back as "pset" *)
Fixpoint norm_lists (tbl : list slot) (ls : list (list mentry)) : list (list mentry) :=
  match tbl, ls with
  | sl :: tr, l :: lr => (match sl_k sl with MS m => m_emit m l | SS _ _ => l end) :: norm_lists tr lr
  | _, _ => ls
  end.
Definition norm_pd (p : pdata) : pdata := mk_pd (eff_id (pd_id p)) (pd_sub p) (pd_kd p) (pd_val p).
Definition norm_sec (tbl : list slot) (s : sec) : sec :=
  mk_sec (norm_vals tbl (s_vals s)) (norm_lists tbl (s_lists s)) (map norm_pd (s_props s)) (s_unks s).
Definition norm_pset (p : pset) : pset :=
  mk_pset (norm_sec global_tbl (p_global p)) (map (norm_sec input_tbl) (p_ins p)) (map (norm_sec output_tbl) (p_outs p)).

Definition cres_bytes_eqb (a : cres bytes) (b : bytes) : bool :=
  match a with ROk x => bytes_eqb x b | _ => false end.

(* a single-valued field is representable iff its own decoder returns it unchanged *)
Definition s_wf (k : skind) (al : bool) (b : bytes) : bool :=
  if s_emits k al b then cres_bytes_eqb (s_dec k (s_emit k b)) b && (lenN (s_emit k b) <? two64)
  else true.

Definition entry_eqb (a b : mentry) : bool := bytes_eqb (fst a) (fst b) && bytes_eqb (snd a) (snd b).
Fixpoint entries_eqb (a b : list mentry) : bool :=
  match a, b with
  | [], [] => true
  | x :: a', y :: b' => entry_eqb x y && entries_eqb a' b'
  | _, _ => false
  end.

(* replaying the entries through the decode arm, starting from `acc` *)
Fixpoint m_replay (m : mkind) (acc : list mentry) (todo : list mentry) : cres (list mentry) :=
  match todo with
  | [] => ROk acc
  | e :: r => cbind (m_step m (fst e) (snd e) acc) (fun acc' => m_replay m acc' r)
  end.
(* a multi-valued field is representable iff replaying what it writes through its decoder rebuilds
   exactly what was written (for a map: its entries in key order) *)
Definition m_wf (m : mkind) (l : list mentry) : bool :=
  match m_replay m [] (m_emit m l) with ROk l' => entries_eqb l' (m_emit m l) | _ => false end.

(* framing limits of one key pair: key length guard and 64-bit lengths *)
Definition frame_ok (k : kpair) : bool :=
  (k_type k <? 256) && (1 + lenN (k_data k) <=? maxKeyLen) && (lenN (k_val k) <? two64).

Definition slot_wf (i : nat) (sl : slot) (s : sec) : bool :=
  match sl_k sl with
  | SS k al =>
      s_wf k al (val_at i s) && (match list_at i s with [] => true | _ => false end) &&
      (keyid_eqb (sl_ekey sl) (sl_dkey sl) || negb (s_emits k al (val_at i s)))
  | MS m =>
      (match val_at i s with [] => true | _ => false end) && m_wf m (list_at i s) &&
      keyid_eqb (sl_ekey sl) (sl_dkey sl) &&
      forallb (fun e => frame_ok (mk_kp_id (sl_ekey sl) (fst e) (snd e))) (m_emit m (list_at i s))
  end.
Fixpoint slots_wf (i : nat) (tbl : list slot) (s : sec) : bool :=
  match tbl with
  | [] => true
  | sl :: r => slot_wf i sl s && slots_wf (S i) r s
  end.

(* a "pset" entry must not carry the subtype of a field (it would be decoded into that field) *)
Definition prop_wf (tbl : list slot) (p : pdata) : bool :=
  (pd_sub p <? 256) &&
  (if bytes_eqb (eff_id (pd_id p)) pset_magic
   then match find_slot (KProp (pd_sub p)) tbl with None => true | Some _ => false end
   else true) &&
  frame_ok (prop_kp p).
Definition unk_wf (tbl : list slot) (k : kpair) : bool :=
  negb (k_type k =? PsetProprietary) &&
  (match find_slot (KStd (k_type k)) tbl with None => true | Some _ => false end) &&
  frame_ok k.

Definition wf_sec (tbl : list slot) (sanity : sec -> bool) (s : sec) : bool :=
  (length (s_vals s) =? length tbl)%nat && (length (s_lists s) =? length tbl)%nat &&
  slots_wf 0 tbl s && forallb (prop_wf tbl) (s_props s) && forallb (unk_wf tbl) (s_unks s) &&
  sanity (norm_sec tbl s).

Definition wf_pset (p : pset) : bool :=
  wf_sec global_tbl global_sanity (p_global p) &&
  forallb (wf_sec input_tbl input_sanity) (p_ins p) &&
  forallb (wf_sec output_tbl output_sanity) (p_outs p) &&
  (num_val gInputCount (p_global p) =? lenL (p_ins p)) &&
  (num_val gOutputCount (p_global p) =? lenL (p_outs p)) &&
  pset_sanity (norm_pset p).

End Codec.
