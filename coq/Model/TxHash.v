(* Model/TxHash.v — transaction id and witness hash (TxHash, WitnessHash). *)
From GE Require Export Lib.Sha256 Model.Tx.
Open Scope N_scope.

Definition txid (t : tx) : bytes := dsha256 (ser_txid t).
Definition wtxid (t : tx) : bytes := dsha256 (ser_wtxid t).
