(* Model/SigValidate.v — partial-signature validation of a PSET input, as coded in
   pset/pset.go (v0) and psetv2/pset.go (v2): ValidateAllSignatures,
   ValidateInputSignatures, validatePartialSignature, getHashAndScriptForSignature,
   verifyScriptForPubKey, with address.GetScriptType, payment.FromScript (StP2WPKH
   branch) and btcd's txscript script tokenizer / DisasmString (v0.24, one-line form).
   Follows /repo after the fixes a910e27 and 9415d49 (previous-tx id equality in v0, prevout
   amount in the P2WPKH branch, bounds and empty-signature checks, redeem / witness script
   commitments).  Every remaining unchecked Go index / nil expression yields VPanic <site>.
   The signature hash, DER and public-key parsing, HASH160 and ECDSA verification are
   Section variables (instantiated by oracle tables / the executable HASH160 in K).
   Definitions only. *)
From GE Require Export Lib.Bytes Lib.Varint Lib.Sha256 Model.Tx Model.TxHash.
Open Scope N_scope.

(* ---------- outcomes ---------- *)
Inductive vsite :=
| VPInputIndex      (* p.Inputs[inputIndex] *)
| VPSigNil          (* v0: nil *psbt.PartialSig element dereferenced *)
| VPTxInputIndex    (* v0: p.UnsignedTx.Inputs[inputIndex] *)
| VPDigestIndex.    (* HashForWitnessV0: tx.Inputs[inIndex] *)

Inductive vres (A : Type) :=
| VOk (a : A)
| VErr
| VPanic (s : vsite).
Arguments VOk {A} a.
Arguments VErr {A}.
Arguments VPanic {A} s.

Definition vbind {A B} (x : vres A) (f : A -> vres B) : vres B :=
  match x with VOk a => f a | VErr => VErr | VPanic s => VPanic s end.
Notation "x <-- p ;;; q" := (vbind p (fun x => q)) (at level 61, p at next level, right associativity).

(* ---------- txscript.DisasmString ---------- *)
(* one-line names of the non-push opcodes (OP_0, OP_1NEGATE, OP_1..OP_16 already
   replaced by their values as disasmOpcode(compact) does); entries 0x01..0x4e are
   data pushes and unused.  Table dumped from btcd v0.24.0; K family `vs_disasm`
   compares every entry with the library. *)
Definition vs_opnames : list bytes := [
  [x30]; (* 00 0 *)
  []; (* 01  *)
  []; (* 02  *)
  []; (* 03  *)
  []; (* 04  *)
  []; (* 05  *)
  []; (* 06  *)
  []; (* 07  *)
  []; (* 08  *)
  []; (* 09  *)
  []; (* 0a  *)
  []; (* 0b  *)
  []; (* 0c  *)
  []; (* 0d  *)
  []; (* 0e  *)
  []; (* 0f  *)
  []; (* 10  *)
  []; (* 11  *)
  []; (* 12  *)
  []; (* 13  *)
  []; (* 14  *)
  []; (* 15  *)
  []; (* 16  *)
  []; (* 17  *)
  []; (* 18  *)
  []; (* 19  *)
  []; (* 1a  *)
  []; (* 1b  *)
  []; (* 1c  *)
  []; (* 1d  *)
  []; (* 1e  *)
  []; (* 1f  *)
  []; (* 20  *)
  []; (* 21  *)
  []; (* 22  *)
  []; (* 23  *)
  []; (* 24  *)
  []; (* 25  *)
  []; (* 26  *)
  []; (* 27  *)
  []; (* 28  *)
  []; (* 29  *)
  []; (* 2a  *)
  []; (* 2b  *)
  []; (* 2c  *)
  []; (* 2d  *)
  []; (* 2e  *)
  []; (* 2f  *)
  []; (* 30  *)
  []; (* 31  *)
  []; (* 32  *)
  []; (* 33  *)
  []; (* 34  *)
  []; (* 35  *)
  []; (* 36  *)
  []; (* 37  *)
  []; (* 38  *)
  []; (* 39  *)
  []; (* 3a  *)
  []; (* 3b  *)
  []; (* 3c  *)
  []; (* 3d  *)
  []; (* 3e  *)
  []; (* 3f  *)
  []; (* 40  *)
  []; (* 41  *)
  []; (* 42  *)
  []; (* 43  *)
  []; (* 44  *)
  []; (* 45  *)
  []; (* 46  *)
  []; (* 47  *)
  []; (* 48  *)
  []; (* 49  *)
  []; (* 4a  *)
  []; (* 4b  *)
  []; (* 4c  *)
  []; (* 4d  *)
  []; (* 4e  *)
  [x2d;x31]; (* 4f -1 *)
  [x4f;x50;x5f;x52;x45;x53;x45;x52;x56;x45;x44]; (* 50 OP_RESERVED *)
  [x31]; (* 51 1 *)
  [x32]; (* 52 2 *)
  [x33]; (* 53 3 *)
  [x34]; (* 54 4 *)
  [x35]; (* 55 5 *)
  [x36]; (* 56 6 *)
  [x37]; (* 57 7 *)
  [x38]; (* 58 8 *)
  [x39]; (* 59 9 *)
  [x31;x30]; (* 5a 10 *)
  [x31;x31]; (* 5b 11 *)
  [x31;x32]; (* 5c 12 *)
  [x31;x33]; (* 5d 13 *)
  [x31;x34]; (* 5e 14 *)
  [x31;x35]; (* 5f 15 *)
  [x31;x36]; (* 60 16 *)
  [x4f;x50;x5f;x4e;x4f;x50]; (* 61 OP_NOP *)
  [x4f;x50;x5f;x56;x45;x52]; (* 62 OP_VER *)
  [x4f;x50;x5f;x49;x46]; (* 63 OP_IF *)
  [x4f;x50;x5f;x4e;x4f;x54;x49;x46]; (* 64 OP_NOTIF *)
  [x4f;x50;x5f;x56;x45;x52;x49;x46]; (* 65 OP_VERIF *)
  [x4f;x50;x5f;x56;x45;x52;x4e;x4f;x54;x49;x46]; (* 66 OP_VERNOTIF *)
  [x4f;x50;x5f;x45;x4c;x53;x45]; (* 67 OP_ELSE *)
  [x4f;x50;x5f;x45;x4e;x44;x49;x46]; (* 68 OP_ENDIF *)
  [x4f;x50;x5f;x56;x45;x52;x49;x46;x59]; (* 69 OP_VERIFY *)
  [x4f;x50;x5f;x52;x45;x54;x55;x52;x4e]; (* 6a OP_RETURN *)
  [x4f;x50;x5f;x54;x4f;x41;x4c;x54;x53;x54;x41;x43;x4b]; (* 6b OP_TOALTSTACK *)
  [x4f;x50;x5f;x46;x52;x4f;x4d;x41;x4c;x54;x53;x54;x41;x43;x4b]; (* 6c OP_FROMALTSTACK *)
  [x4f;x50;x5f;x32;x44;x52;x4f;x50]; (* 6d OP_2DROP *)
  [x4f;x50;x5f;x32;x44;x55;x50]; (* 6e OP_2DUP *)
  [x4f;x50;x5f;x33;x44;x55;x50]; (* 6f OP_3DUP *)
  [x4f;x50;x5f;x32;x4f;x56;x45;x52]; (* 70 OP_2OVER *)
  [x4f;x50;x5f;x32;x52;x4f;x54]; (* 71 OP_2ROT *)
  [x4f;x50;x5f;x32;x53;x57;x41;x50]; (* 72 OP_2SWAP *)
  [x4f;x50;x5f;x49;x46;x44;x55;x50]; (* 73 OP_IFDUP *)
  [x4f;x50;x5f;x44;x45;x50;x54;x48]; (* 74 OP_DEPTH *)
  [x4f;x50;x5f;x44;x52;x4f;x50]; (* 75 OP_DROP *)
  [x4f;x50;x5f;x44;x55;x50]; (* 76 OP_DUP *)
  [x4f;x50;x5f;x4e;x49;x50]; (* 77 OP_NIP *)
  [x4f;x50;x5f;x4f;x56;x45;x52]; (* 78 OP_OVER *)
  [x4f;x50;x5f;x50;x49;x43;x4b]; (* 79 OP_PICK *)
  [x4f;x50;x5f;x52;x4f;x4c;x4c]; (* 7a OP_ROLL *)
  [x4f;x50;x5f;x52;x4f;x54]; (* 7b OP_ROT *)
  [x4f;x50;x5f;x53;x57;x41;x50]; (* 7c OP_SWAP *)
  [x4f;x50;x5f;x54;x55;x43;x4b]; (* 7d OP_TUCK *)
  [x4f;x50;x5f;x43;x41;x54]; (* 7e OP_CAT *)
  [x4f;x50;x5f;x53;x55;x42;x53;x54;x52]; (* 7f OP_SUBSTR *)
  [x4f;x50;x5f;x4c;x45;x46;x54]; (* 80 OP_LEFT *)
  [x4f;x50;x5f;x52;x49;x47;x48;x54]; (* 81 OP_RIGHT *)
  [x4f;x50;x5f;x53;x49;x5a;x45]; (* 82 OP_SIZE *)
  [x4f;x50;x5f;x49;x4e;x56;x45;x52;x54]; (* 83 OP_INVERT *)
  [x4f;x50;x5f;x41;x4e;x44]; (* 84 OP_AND *)
  [x4f;x50;x5f;x4f;x52]; (* 85 OP_OR *)
  [x4f;x50;x5f;x58;x4f;x52]; (* 86 OP_XOR *)
  [x4f;x50;x5f;x45;x51;x55;x41;x4c]; (* 87 OP_EQUAL *)
  [x4f;x50;x5f;x45;x51;x55;x41;x4c;x56;x45;x52;x49;x46;x59]; (* 88 OP_EQUALVERIFY *)
  [x4f;x50;x5f;x52;x45;x53;x45;x52;x56;x45;x44;x31]; (* 89 OP_RESERVED1 *)
  [x4f;x50;x5f;x52;x45;x53;x45;x52;x56;x45;x44;x32]; (* 8a OP_RESERVED2 *)
  [x4f;x50;x5f;x31;x41;x44;x44]; (* 8b OP_1ADD *)
  [x4f;x50;x5f;x31;x53;x55;x42]; (* 8c OP_1SUB *)
  [x4f;x50;x5f;x32;x4d;x55;x4c]; (* 8d OP_2MUL *)
  [x4f;x50;x5f;x32;x44;x49;x56]; (* 8e OP_2DIV *)
  [x4f;x50;x5f;x4e;x45;x47;x41;x54;x45]; (* 8f OP_NEGATE *)
  [x4f;x50;x5f;x41;x42;x53]; (* 90 OP_ABS *)
  [x4f;x50;x5f;x4e;x4f;x54]; (* 91 OP_NOT *)
  [x4f;x50;x5f;x30;x4e;x4f;x54;x45;x51;x55;x41;x4c]; (* 92 OP_0NOTEQUAL *)
  [x4f;x50;x5f;x41;x44;x44]; (* 93 OP_ADD *)
  [x4f;x50;x5f;x53;x55;x42]; (* 94 OP_SUB *)
  [x4f;x50;x5f;x4d;x55;x4c]; (* 95 OP_MUL *)
  [x4f;x50;x5f;x44;x49;x56]; (* 96 OP_DIV *)
  [x4f;x50;x5f;x4d;x4f;x44]; (* 97 OP_MOD *)
  [x4f;x50;x5f;x4c;x53;x48;x49;x46;x54]; (* 98 OP_LSHIFT *)
  [x4f;x50;x5f;x52;x53;x48;x49;x46;x54]; (* 99 OP_RSHIFT *)
  [x4f;x50;x5f;x42;x4f;x4f;x4c;x41;x4e;x44]; (* 9a OP_BOOLAND *)
  [x4f;x50;x5f;x42;x4f;x4f;x4c;x4f;x52]; (* 9b OP_BOOLOR *)
  [x4f;x50;x5f;x4e;x55;x4d;x45;x51;x55;x41;x4c]; (* 9c OP_NUMEQUAL *)
  [x4f;x50;x5f;x4e;x55;x4d;x45;x51;x55;x41;x4c;x56;x45;x52;x49;x46;x59]; (* 9d OP_NUMEQUALVERIFY *)
  [x4f;x50;x5f;x4e;x55;x4d;x4e;x4f;x54;x45;x51;x55;x41;x4c]; (* 9e OP_NUMNOTEQUAL *)
  [x4f;x50;x5f;x4c;x45;x53;x53;x54;x48;x41;x4e]; (* 9f OP_LESSTHAN *)
  [x4f;x50;x5f;x47;x52;x45;x41;x54;x45;x52;x54;x48;x41;x4e]; (* a0 OP_GREATERTHAN *)
  [x4f;x50;x5f;x4c;x45;x53;x53;x54;x48;x41;x4e;x4f;x52;x45;x51;x55;x41;x4c]; (* a1 OP_LESSTHANOREQUAL *)
  [x4f;x50;x5f;x47;x52;x45;x41;x54;x45;x52;x54;x48;x41;x4e;x4f;x52;x45;x51;x55;x41;x4c]; (* a2 OP_GREATERTHANOREQUAL *)
  [x4f;x50;x5f;x4d;x49;x4e]; (* a3 OP_MIN *)
  [x4f;x50;x5f;x4d;x41;x58]; (* a4 OP_MAX *)
  [x4f;x50;x5f;x57;x49;x54;x48;x49;x4e]; (* a5 OP_WITHIN *)
  [x4f;x50;x5f;x52;x49;x50;x45;x4d;x44;x31;x36;x30]; (* a6 OP_RIPEMD160 *)
  [x4f;x50;x5f;x53;x48;x41;x31]; (* a7 OP_SHA1 *)
  [x4f;x50;x5f;x53;x48;x41;x32;x35;x36]; (* a8 OP_SHA256 *)
  [x4f;x50;x5f;x48;x41;x53;x48;x31;x36;x30]; (* a9 OP_HASH160 *)
  [x4f;x50;x5f;x48;x41;x53;x48;x32;x35;x36]; (* aa OP_HASH256 *)
  [x4f;x50;x5f;x43;x4f;x44;x45;x53;x45;x50;x41;x52;x41;x54;x4f;x52]; (* ab OP_CODESEPARATOR *)
  [x4f;x50;x5f;x43;x48;x45;x43;x4b;x53;x49;x47]; (* ac OP_CHECKSIG *)
  [x4f;x50;x5f;x43;x48;x45;x43;x4b;x53;x49;x47;x56;x45;x52;x49;x46;x59]; (* ad OP_CHECKSIGVERIFY *)
  [x4f;x50;x5f;x43;x48;x45;x43;x4b;x4d;x55;x4c;x54;x49;x53;x49;x47]; (* ae OP_CHECKMULTISIG *)
  [x4f;x50;x5f;x43;x48;x45;x43;x4b;x4d;x55;x4c;x54;x49;x53;x49;x47;x56;x45;x52;x49;x46;x59]; (* af OP_CHECKMULTISIGVERIFY *)
  [x4f;x50;x5f;x4e;x4f;x50;x31]; (* b0 OP_NOP1 *)
  [x4f;x50;x5f;x43;x48;x45;x43;x4b;x4c;x4f;x43;x4b;x54;x49;x4d;x45;x56;x45;x52;x49;x46;x59]; (* b1 OP_CHECKLOCKTIMEVERIFY *)
  [x4f;x50;x5f;x43;x48;x45;x43;x4b;x53;x45;x51;x55;x45;x4e;x43;x45;x56;x45;x52;x49;x46;x59]; (* b2 OP_CHECKSEQUENCEVERIFY *)
  [x4f;x50;x5f;x4e;x4f;x50;x34]; (* b3 OP_NOP4 *)
  [x4f;x50;x5f;x4e;x4f;x50;x35]; (* b4 OP_NOP5 *)
  [x4f;x50;x5f;x4e;x4f;x50;x36]; (* b5 OP_NOP6 *)
  [x4f;x50;x5f;x4e;x4f;x50;x37]; (* b6 OP_NOP7 *)
  [x4f;x50;x5f;x4e;x4f;x50;x38]; (* b7 OP_NOP8 *)
  [x4f;x50;x5f;x4e;x4f;x50;x39]; (* b8 OP_NOP9 *)
  [x4f;x50;x5f;x4e;x4f;x50;x31;x30]; (* b9 OP_NOP10 *)
  [x4f;x50;x5f;x43;x48;x45;x43;x4b;x53;x49;x47;x41;x44;x44]; (* ba OP_CHECKSIGADD *)
  [x4f;x50;x5f;x55;x4e;x4b;x4e;x4f;x57;x4e;x31;x38;x37]; (* bb OP_UNKNOWN187 *)
  [x4f;x50;x5f;x55;x4e;x4b;x4e;x4f;x57;x4e;x31;x38;x38]; (* bc OP_UNKNOWN188 *)
  [x4f;x50;x5f;x55;x4e;x4b;x4e;x4f;x57;x4e;x31;x38;x39]; (* bd OP_UNKNOWN189 *)
  [x4f;x50;x5f;x55;x4e;x4b;x4e;x4f;x57;x4e;x31;x39;x30]; (* be OP_UNKNOWN190 *)
  [x4f;x50;x5f;x55;x4e;x4b;x4e;x4f;x57;x4e;x31;x39;x31]; (* bf OP_UNKNOWN191 *)
  [x4f;x50;x5f;x55;x4e;x4b;x4e;x4f;x57;x4e;x31;x39;x32]; (* c0 OP_UNKNOWN192 *)
  [x4f;x50;x5f;x55;x4e;x4b;x4e;x4f;x57;x4e;x31;x39;x33]; (* c1 OP_UNKNOWN193 *)
  [x4f;x50;x5f;x55;x4e;x4b;x4e;x4f;x57;x4e;x31;x39;x34]; (* c2 OP_UNKNOWN194 *)
  [x4f;x50;x5f;x55;x4e;x4b;x4e;x4f;x57;x4e;x31;x39;x35]; (* c3 OP_UNKNOWN195 *)
  [x4f;x50;x5f;x55;x4e;x4b;x4e;x4f;x57;x4e;x31;x39;x36]; (* c4 OP_UNKNOWN196 *)
  [x4f;x50;x5f;x55;x4e;x4b;x4e;x4f;x57;x4e;x31;x39;x37]; (* c5 OP_UNKNOWN197 *)
  [x4f;x50;x5f;x55;x4e;x4b;x4e;x4f;x57;x4e;x31;x39;x38]; (* c6 OP_UNKNOWN198 *)
  [x4f;x50;x5f;x55;x4e;x4b;x4e;x4f;x57;x4e;x31;x39;x39]; (* c7 OP_UNKNOWN199 *)
  [x4f;x50;x5f;x55;x4e;x4b;x4e;x4f;x57;x4e;x32;x30;x30]; (* c8 OP_UNKNOWN200 *)
  [x4f;x50;x5f;x55;x4e;x4b;x4e;x4f;x57;x4e;x32;x30;x31]; (* c9 OP_UNKNOWN201 *)
  [x4f;x50;x5f;x55;x4e;x4b;x4e;x4f;x57;x4e;x32;x30;x32]; (* ca OP_UNKNOWN202 *)
  [x4f;x50;x5f;x55;x4e;x4b;x4e;x4f;x57;x4e;x32;x30;x33]; (* cb OP_UNKNOWN203 *)
  [x4f;x50;x5f;x55;x4e;x4b;x4e;x4f;x57;x4e;x32;x30;x34]; (* cc OP_UNKNOWN204 *)
  [x4f;x50;x5f;x55;x4e;x4b;x4e;x4f;x57;x4e;x32;x30;x35]; (* cd OP_UNKNOWN205 *)
  [x4f;x50;x5f;x55;x4e;x4b;x4e;x4f;x57;x4e;x32;x30;x36]; (* ce OP_UNKNOWN206 *)
  [x4f;x50;x5f;x55;x4e;x4b;x4e;x4f;x57;x4e;x32;x30;x37]; (* cf OP_UNKNOWN207 *)
  [x4f;x50;x5f;x55;x4e;x4b;x4e;x4f;x57;x4e;x32;x30;x38]; (* d0 OP_UNKNOWN208 *)
  [x4f;x50;x5f;x55;x4e;x4b;x4e;x4f;x57;x4e;x32;x30;x39]; (* d1 OP_UNKNOWN209 *)
  [x4f;x50;x5f;x55;x4e;x4b;x4e;x4f;x57;x4e;x32;x31;x30]; (* d2 OP_UNKNOWN210 *)
  [x4f;x50;x5f;x55;x4e;x4b;x4e;x4f;x57;x4e;x32;x31;x31]; (* d3 OP_UNKNOWN211 *)
  [x4f;x50;x5f;x55;x4e;x4b;x4e;x4f;x57;x4e;x32;x31;x32]; (* d4 OP_UNKNOWN212 *)
  [x4f;x50;x5f;x55;x4e;x4b;x4e;x4f;x57;x4e;x32;x31;x33]; (* d5 OP_UNKNOWN213 *)
  [x4f;x50;x5f;x55;x4e;x4b;x4e;x4f;x57;x4e;x32;x31;x34]; (* d6 OP_UNKNOWN214 *)
  [x4f;x50;x5f;x55;x4e;x4b;x4e;x4f;x57;x4e;x32;x31;x35]; (* d7 OP_UNKNOWN215 *)
  [x4f;x50;x5f;x55;x4e;x4b;x4e;x4f;x57;x4e;x32;x31;x36]; (* d8 OP_UNKNOWN216 *)
  [x4f;x50;x5f;x55;x4e;x4b;x4e;x4f;x57;x4e;x32;x31;x37]; (* d9 OP_UNKNOWN217 *)
  [x4f;x50;x5f;x55;x4e;x4b;x4e;x4f;x57;x4e;x32;x31;x38]; (* da OP_UNKNOWN218 *)
  [x4f;x50;x5f;x55;x4e;x4b;x4e;x4f;x57;x4e;x32;x31;x39]; (* db OP_UNKNOWN219 *)
  [x4f;x50;x5f;x55;x4e;x4b;x4e;x4f;x57;x4e;x32;x32;x30]; (* dc OP_UNKNOWN220 *)
  [x4f;x50;x5f;x55;x4e;x4b;x4e;x4f;x57;x4e;x32;x32;x31]; (* dd OP_UNKNOWN221 *)
  [x4f;x50;x5f;x55;x4e;x4b;x4e;x4f;x57;x4e;x32;x32;x32]; (* de OP_UNKNOWN222 *)
  [x4f;x50;x5f;x55;x4e;x4b;x4e;x4f;x57;x4e;x32;x32;x33]; (* df OP_UNKNOWN223 *)
  [x4f;x50;x5f;x55;x4e;x4b;x4e;x4f;x57;x4e;x32;x32;x34]; (* e0 OP_UNKNOWN224 *)
  [x4f;x50;x5f;x55;x4e;x4b;x4e;x4f;x57;x4e;x32;x32;x35]; (* e1 OP_UNKNOWN225 *)
  [x4f;x50;x5f;x55;x4e;x4b;x4e;x4f;x57;x4e;x32;x32;x36]; (* e2 OP_UNKNOWN226 *)
  [x4f;x50;x5f;x55;x4e;x4b;x4e;x4f;x57;x4e;x32;x32;x37]; (* e3 OP_UNKNOWN227 *)
  [x4f;x50;x5f;x55;x4e;x4b;x4e;x4f;x57;x4e;x32;x32;x38]; (* e4 OP_UNKNOWN228 *)
  [x4f;x50;x5f;x55;x4e;x4b;x4e;x4f;x57;x4e;x32;x32;x39]; (* e5 OP_UNKNOWN229 *)
  [x4f;x50;x5f;x55;x4e;x4b;x4e;x4f;x57;x4e;x32;x33;x30]; (* e6 OP_UNKNOWN230 *)
  [x4f;x50;x5f;x55;x4e;x4b;x4e;x4f;x57;x4e;x32;x33;x31]; (* e7 OP_UNKNOWN231 *)
  [x4f;x50;x5f;x55;x4e;x4b;x4e;x4f;x57;x4e;x32;x33;x32]; (* e8 OP_UNKNOWN232 *)
  [x4f;x50;x5f;x55;x4e;x4b;x4e;x4f;x57;x4e;x32;x33;x33]; (* e9 OP_UNKNOWN233 *)
  [x4f;x50;x5f;x55;x4e;x4b;x4e;x4f;x57;x4e;x32;x33;x34]; (* ea OP_UNKNOWN234 *)
  [x4f;x50;x5f;x55;x4e;x4b;x4e;x4f;x57;x4e;x32;x33;x35]; (* eb OP_UNKNOWN235 *)
  [x4f;x50;x5f;x55;x4e;x4b;x4e;x4f;x57;x4e;x32;x33;x36]; (* ec OP_UNKNOWN236 *)
  [x4f;x50;x5f;x55;x4e;x4b;x4e;x4f;x57;x4e;x32;x33;x37]; (* ed OP_UNKNOWN237 *)
  [x4f;x50;x5f;x55;x4e;x4b;x4e;x4f;x57;x4e;x32;x33;x38]; (* ee OP_UNKNOWN238 *)
  [x4f;x50;x5f;x55;x4e;x4b;x4e;x4f;x57;x4e;x32;x33;x39]; (* ef OP_UNKNOWN239 *)
  [x4f;x50;x5f;x55;x4e;x4b;x4e;x4f;x57;x4e;x32;x34;x30]; (* f0 OP_UNKNOWN240 *)
  [x4f;x50;x5f;x55;x4e;x4b;x4e;x4f;x57;x4e;x32;x34;x31]; (* f1 OP_UNKNOWN241 *)
  [x4f;x50;x5f;x55;x4e;x4b;x4e;x4f;x57;x4e;x32;x34;x32]; (* f2 OP_UNKNOWN242 *)
  [x4f;x50;x5f;x55;x4e;x4b;x4e;x4f;x57;x4e;x32;x34;x33]; (* f3 OP_UNKNOWN243 *)
  [x4f;x50;x5f;x55;x4e;x4b;x4e;x4f;x57;x4e;x32;x34;x34]; (* f4 OP_UNKNOWN244 *)
  [x4f;x50;x5f;x55;x4e;x4b;x4e;x4f;x57;x4e;x32;x34;x35]; (* f5 OP_UNKNOWN245 *)
  [x4f;x50;x5f;x55;x4e;x4b;x4e;x4f;x57;x4e;x32;x34;x36]; (* f6 OP_UNKNOWN246 *)
  [x4f;x50;x5f;x55;x4e;x4b;x4e;x4f;x57;x4e;x32;x34;x37]; (* f7 OP_UNKNOWN247 *)
  [x4f;x50;x5f;x55;x4e;x4b;x4e;x4f;x57;x4e;x32;x34;x38]; (* f8 OP_UNKNOWN248 *)
  [x4f;x50;x5f;x55;x4e;x4b;x4e;x4f;x57;x4e;x32;x34;x39]; (* f9 OP_UNKNOWN249 *)
  [x4f;x50;x5f;x53;x4d;x41;x4c;x4c;x49;x4e;x54;x45;x47;x45;x52]; (* fa OP_SMALLINTEGER *)
  [x4f;x50;x5f;x50;x55;x42;x4b;x45;x59;x53]; (* fb OP_PUBKEYS *)
  [x4f;x50;x5f;x55;x4e;x4b;x4e;x4f;x57;x4e;x32;x35;x32]; (* fc OP_UNKNOWN252 *)
  [x4f;x50;x5f;x50;x55;x42;x4b;x45;x59;x48;x41;x53;x48]; (* fd OP_PUBKEYHASH *)
  [x4f;x50;x5f;x50;x55;x42;x4b;x45;x59]; (* fe OP_PUBKEY *)
  [x4f;x50;x5f;x49;x4e;x56;x41;x4c;x49;x44;x4f;x50;x43;x4f;x44;x45] (* ff OP_INVALIDOPCODE *)
].

Definition vs_opname (op : N) : bytes :=
  match nth_error vs_opnames (N.to_nat op) with Some n => n | None => [] end.   (* op = n8 b < 256 *)

(* ScriptTokenizer.Next + disasmOpcode; None = tokenizer error *)
(* ScriptTokenizer.Next: (opcode, data) per token, data = None for an opcode that carries
   none (tokenizer.Data() == nil; includes OP_0); None = tokenizer error *)
Fixpoint vs_tokenize (fuel : nat) (s : bytes) : option (list (N * option bytes)) :=
  match fuel with
  | O => None
  | S f =>
    match s with
    | [] => Some []
    | b :: r =>
      let op := n8 b in
      let push (lenlen : nat) : option (list (N * option bytes)) :=
        match p_le lenlen r with
        | None => None
        | Some (n, r1) =>
          if 0x80000000 <=? n then None            (* int32 sign *)
          else match takeN n r1 with
               | None => None
               | Some (d, r2) => match vs_tokenize f r2 with Some ts => Some ((op, Some d) :: ts) | None => None end
               end
        end in
      if (1 <=? op) && (op <=? 75) then
        match takeN op r with
        | None => None
        | Some (d, r2) => match vs_tokenize f r2 with Some ts => Some ((op, Some d) :: ts) | None => None end
        end
      else if op =? 76 then push 1%nat
      else if op =? 77 then push 2%nat
      else if op =? 78 then push 4%nat
      else match vs_tokenize f r with Some ts => Some ((op, None) :: ts) | None => None end
    end
  end.

Definition vs_script_tokens (s : bytes) : option (list (N * option bytes)) :=
  vs_tokenize (S (length s)) s.

(* disasmOpcode, one-line form: hex of the data for pushes, the opcode name otherwise *)
Definition vs_token_text (t : N * option bytes) : bytes :=
  match snd t with Some d => to_hex d | None => vs_opname (fst t) end.

Fixpoint vs_join (ts : list bytes) : bytes :=
  match ts with
  | [] => []
  | [t] => t
  | t :: r => t ++ x20 :: vs_join r
  end.

Definition vs_disasm (s : bytes) : option bytes :=
  match vs_script_tokens s with Some ts => Some (vs_join (map vs_token_text ts)) | None => None end.

(* ---------- address.GetScriptType ---------- *)
Inductive vstype := StP2WPKH | StP2WSH | StP2TR | StP2SH | StP2PKH | StOther.

(* after fix 1acccfe: an empty script is in the default (legacy) class; OP_0 scripts are
   P2WPKH iff they are 22 bytes long, else in the P2WSH class; no slicing *)
Definition vs_script_type (s : bytes) : vstype :=
  match s with
  | [] => StOther
  | b :: _ =>
    let n := n8 b in
    if n =? 0 then (if (length s =? 22)%nat then StP2WPKH else StP2WSH)
    else if n =? 0x51 then StP2TR
    else if n =? 0xa9 then StP2SH
    else if n =? 0x76 then StP2PKH
    else StOther
  end.

(* payment.FromScript(script).Script in the StP2WPKH case: buildScript(script[2:], "p2pkh")
   = OP_DUP OP_HASH160 <push of the 20 bytes> OP_EQUALVERIFY OP_CHECKSIG *)
Definition vs_p2pkh_code (h : bytes) : bytes :=
  [x76; xa9] ++ b8 (lenN h) :: h ++ [x88; xac].

(* ---------- packets ---------- *)
Record vsig := mk_vsig {
  svg_pub : option bytes;       (* None = nil slice *)
  svg_sig : bytes
}.

Record vinput := mk_vinput {
  svi_nonwit : option tx;             (* NonWitnessUtxo *)
  svi_wit : option txout;             (* WitnessUtxo (Script and Value are read) *)
  svi_redeem : option bytes;          (* RedeemScript, None = nil *)
  svi_witscript : option bytes;       (* WitnessScript, None = nil *)
  svi_sigs : list (option vsig);      (* PartialSigs; None = nil pointer (v0 only) *)
  svi_prev_txid : bytes;              (* v2: PreviousTxid *)
  svi_prev_index : N                  (* v2: PreviousTxIndex (uint32) *)
}.

(* svp_tx: v0 the UnsignedTx field; v2 the result of UnsignedTx() (never fails) *)
Record vpacket := mk_vpacket { svp_tx : tx; svp_ins : list vinput }.

Inductive vver := VsV0 | VsV2.
Inductive valgo := VLegacy | VSegwitV0.

Definition vs_opt (o : option bytes) : bytes := match o with Some b => b | None => [] end.

(* the strict script forms tested by isRedeemScriptOf / isWitnessScriptOf:
   23 bytes OP_HASH160 OP_DATA_20 <20> OP_EQUAL; 34 bytes OP_0 OP_DATA_32 <32> *)
Definition vs_p2sh_prog (s : bytes) : option bytes :=
  match s with
  | a :: b :: r =>
      if (n8 a =? 0xa9) && (n8 b =? 0x14) && (length r =? 21)%nat && bytes_eqb (skipn 20 r) [x87]
      then Some (firstn 20 r) else None
  | _ => None
  end.
Definition vs_p2wsh_prog (s : bytes) : option bytes :=
  match s with
  | a :: b :: r => if (n8 a =? 0) && (n8 b =? 0x20) && (length r =? 32)%nat then Some r else None
  | _ => None
  end.
(* isWitnessScriptOf(witnessScript, program) *)
Definition vs_is_witness_of (ws program : bytes) : bool :=
  match vs_p2wsh_prog program with Some prog => bytes_eqb (sha256 ws) prog | None => false end.

Section Validate.
  (* HashForSignature / HashForWitnessV0 (tx, input index, script code, amount, hash type) *)
  Variable digest : valgo -> tx -> nat -> bytes -> bytes -> N -> bytes.
  (* btcec.ParsePubKey followed by SerializeCompressed; None = parse error *)
  Variable parse_pk : bytes -> option bytes.
  (* ecdsa.ParseDERSignature succeeds *)
  Variable der_ok : bytes -> bool.
  (* pSig.Verify(hash, pubKey): compressed key, digest, DER bytes *)
  Variable verify : bytes -> bytes -> bytes -> bool.
  (* payment.Hash160 *)
  Variable hash160 : bytes -> bytes.

  Definition vs_outpoint (v : vver) (p : vpacket) (i : nat) (inp : vinput) : vres (bytes * N) :=
    match v with
    | VsV2 => VOk (svi_prev_txid inp, svi_prev_index inp)
    | VsV0 =>
        match nth_error (t_ins (svp_tx p)) i with
        | Some ti => VOk (in_hash ti, in_index ti)
        | None => VPanic VPTxInputIndex
        end
    end.

  (* !bytes.Equal(prevoutHash, utxoHash) is the error (v0 and v2) *)
  Definition vs_prev_id_ok (prevout_hash utxo_hash : bytes) : bool :=
    bytes_eqb prevout_hash utxo_hash.

  (* isRedeemScriptOf(redeem, spent) *)
  Definition vs_is_redeem_of (redeem spent : bytes) : bool :=
    match vs_p2sh_prog spent with Some prog => bytes_eqb (hash160 redeem) prog | None => false end.

  (* the script that is classified: the redeem script if present and committed to by the
     spent script, else the spent script *)
  Definition vs_pick_script (inp : vinput) (spent : bytes) : vres bytes :=
    match svi_redeem inp with
    | Some r => if vs_is_redeem_of r spent then VOk r else VErr
    | None => VOk spent
    end.

  Definition vs_digest_v0 (p : vpacket) (i : nat) (script amount : bytes) (ht : N) : vres bytes :=
    if (i <? length (t_ins (svp_tx p)))%nat
    then VOk (digest VSegwitV0 (svp_tx p) i script amount ht)
    else VPanic VPDigestIndex.

  (* getHashAndScriptForSignature *)
  Definition vs_hash_and_script (v : vver) (p : vpacket) (i : nat) (inp : vinput) (ht : N)
    : vres (bytes * bytes) :=
    match svi_nonwit inp with
    | Some prev =>
        op <-- vs_outpoint v p i inp ;;;
        if negb (vs_prev_id_ok (fst op) (txid prev)) then VErr else
        if lenL (t_outs prev) <=? snd op then VErr else
        match nth_error (t_outs prev) (N.to_nat (snd op)) with
        | None => VErr                                   (* unreachable: bound checked above *)
        | Some prevout =>
            script <-- vs_pick_script inp (o_script prevout) ;;;
            match vs_script_type script with
            | StP2WSH =>
                match svi_witscript inp with
                | None => VErr
                | Some ws =>
                    if negb (vs_is_witness_of ws script) then VErr else
                    d <-- vs_digest_v0 p i ws (o_value prevout) ht ;;; VOk (d, ws)
                end
            | StP2WPKH =>
                d <-- vs_digest_v0 p i (vs_p2pkh_code (skipn 2 script)) (o_value prevout) ht ;;; VOk (d, script)
            | _ => VOk (digest VLegacy (svp_tx p) i script [] ht, script)
            end
        end
    | None =>
        match svi_wit inp with
        | Some w =>
            script <-- vs_pick_script inp (o_script w) ;;;
            match vs_script_type script with
            | StP2WPKH =>
                d <-- vs_digest_v0 p i (vs_p2pkh_code (skipn 2 script)) (o_value w) ht ;;; VOk (d, script)
            | StP2WSH =>
                let ws := vs_opt (svi_witscript inp) in
                if negb (vs_is_witness_of ws script) then VErr else
                d <-- vs_digest_v0 p i ws (o_value w) ht ;;; VOk (d, ws)
            | _ => VErr
            end
        | None => VErr
        end
    end.

  (* verifyScriptForPubKey after fix 2d9b577: some data push of the tokenized script equals
     the compressed key or HASH160(pubKey) *)
  Definition vs_key_in_pushes (ck pub : bytes) (ts : list (N * option bytes)) : bool :=
    existsb (fun t => match snd t with
                      | Some d => bytes_eqb d ck || bytes_eqb d (hash160 pub)
                      | None => false
                      end) ts.

  Definition vs_verify_script (script pub : bytes) : vres bool :=
    match parse_pk pub with
    | None => VErr
    | Some ck =>
        match vs_script_tokens script with
        | None => VErr                                   (* DisasmString error = tokenizer error *)
        | Some ts => VOk (vs_key_in_pushes ck pub ts)
        end
    end.

  (* the `PubKey == nil` (v0) / `len(PubKey) == 0` (v2) guard *)
  Definition vs_pub_missing (v : vver) (s : vsig) : bool :=
    match svg_pub s, v with
    | None, _ => true
    | Some [], VsV2 => true
    | Some _, _ => false
    end.

  Definition vs_validate_sig (v : vver) (p : vpacket) (i : nat) (inp : vinput)
             (os : option vsig) : vres bool :=
    match os with
    | None => VPanic VPSigNil
    | Some s =>
        if vs_pub_missing v s then VErr else
        let pub := vs_opt (svg_pub s) in
        match rev (svg_sig s) with
        | [] => VErr                                   (* empty partial signature *)
        | last :: rder =>
            let ht := n8 last in
            let der := rev rder in
            hs <-- vs_hash_and_script v p i inp ht ;;;
            inscript <-- vs_verify_script (snd hs) pub ;;;
            if negb inscript then VOk false else
            if negb (der_ok der) then VOk false else
            match parse_pk pub with
            | None => VOk false
            | Some ck => VOk (verify ck (fst hs) der)
            end
        end
    end.

  Fixpoint vs_validate_sigs (v : vver) (p : vpacket) (i : nat) (inp : vinput)
           (sigs : list (option vsig)) : vres bool :=
    match sigs with
    | [] => VOk true
    | s :: r =>
        match vs_validate_sig v p i inp s with
        | VOk true => vs_validate_sigs v p i inp r
        | VOk false => VOk false
        | VErr => VErr
        | VPanic x => VPanic x
        end
    end.

  (* ValidateInputSignatures *)
  Definition vs_validate_input (v : vver) (p : vpacket) (i : nat) : vres bool :=
    match nth_error (svp_ins p) i with
    | None => VPanic VPInputIndex
    | Some inp =>
        match svi_sigs inp with
        | [] => VOk false
        | _ :: _ => vs_validate_sigs v p i inp (svi_sigs inp)
        end
    end.

  (* ValidateAllSignatures *)
  Fixpoint vs_validate_from (v : vver) (p : vpacket) (k n : nat) : vres bool :=
    match n with
    | O => VOk true
    | S n' =>
        match vs_validate_input v p k with
        | VOk true => vs_validate_from v p (S k) n'
        | r => r
        end
    end.
  Definition vs_validate_all (v : vver) (p : vpacket) : vres bool :=
    vs_validate_from v p 0 (length (svp_ins p)).
End Validate.
