(* Model/Scalar.v — the blinding-scalar helpers of confidential/confidential.go
   (CalculateScalarOffset, SubtractScalars, ComputeAndAddToScalarOffset; the
   zkpGenerator methods of confidential/zkp_generator.go forward to them unchanged)
   together with the three libsecp256k1 calls they are built from, as wrapped by
   go-secp256k1-zkp (ecdh.go) around secp256k1-zkp/src/secp256k1.c.
   Scalars are byte strings (nil = None); arithmetic is Z modulo the group order.
   Every buffer carries its owner so that an in-place libsecp call on memory the
   caller owns shows up in a write log.  Definitions only. *)
From GE Require Export Lib.Bytes.
Open Scope Z_scope.

(* order of the secp256k1 group *)
Definition secp_n : Z := 0xFFFFFFFFFFFFFFFFFFFFFFFFFFFFFFFEBAAEDCE6AF48A03BBFD25E8CD0364141.

(* secp256k1_scalar_set_b32 reads 32 big-endian bytes; secp256k1_scalar_get_b32 writes them *)
Definition sc (b : bytes) : Z := Z.of_N (be_dec b).
Definition enc32 (z : Z) : bytes := be_enc 32 (Z.to_N z).
Definition zero32 : bytes := repeat x00 32.
Definition len32 (b : bytes) : bool := (length b =? 32)%nat.

(* ---- go-secp256k1-zkp wrappers: (result == 1 && err == nil, contents of seckey afterwards) ---- *)

(* EcPrivKeyNegate: length check in Go; the C function reduces modulo n, negates, always returns 1 *)
Definition ec_negate (k : bytes) : bool * bytes :=
  if len32 k then (true, enc32 ((- (sc k mod secp_n)) mod secp_n)) else (false, k).

(* EcPrivKeyTweakAdd: tweak length, key length (Go); tweak >= n or a zero sum fail, and the C
   function has then already overwritten the key with zeros *)
Definition ec_tweak_add (k t : bytes) : bool * bytes :=
  if negb (len32 t) then (false, k)
  else if negb (len32 k) then (false, k)
  else if secp_n <=? sc t then (false, zero32)
  else let s := (sc k mod secp_n + sc t) mod secp_n in
       if s =? 0 then (false, zero32) else (true, enc32 s).

(* EcPrivKeyTweakMul: tweak >= n or tweak = 0 fail (key zeroed); a zero key is accepted *)
Definition ec_tweak_mul (k t : bytes) : bool * bytes :=
  if negb (len32 t) then (false, k)
  else if negb (len32 k) then (false, k)
  else if secp_n <=? sc t then (false, zero32)
  else if sc t =? 0 then (false, zero32)
  else (true, enc32 ((sc k mod secp_n * sc t) mod secp_n)).

(* ---- buffers with owners ---- *)
Inductive sowner := SCaller (i : nat) | SGlobal | SLocal.
Record sbuf := mk_sbuf { sb_own : sowner; sb_dat : bytes }.
Definition swlog := list (sowner * bytes).        (* writes to memory that is not a fresh local *)

(* `var x []byte; if a != nil { x = make([]byte, len(a)); copy(x, a) }` *)
Definition scopy (b : option sbuf) : option sbuf :=
  match b with None => None | Some x => Some (mk_sbuf SLocal (sb_dat x)) end.

(* len()/bytes.Equal view of a possibly nil slice *)
Definition sdat (b : option sbuf) : bytes := match b with Some x => sb_dat x | None => [] end.
Definition sbuf_eqb (a b : option sbuf) : bool := bytes_eqb (sdat a) (sdat b).

(* an in-place libsecp call on b (nil has length 0, so the length check of every wrapper fails) *)
Definition sinplace (f : bytes -> bool * bytes) (b : option sbuf) (w : swlog) : bool * option sbuf * swlog :=
  match b with
  | None => (fst (f []), None, w)
  | Some x =>
      let r := f (sb_dat x) in
      (fst r, Some (mk_sbuf (sb_own x) (snd r)),
       match sb_own x with SLocal => w | o => (o, snd r) :: w end)
  end.

(* confidential.Zero, the package-level 32-byte slice; since fc52213 results are fresh zero32() slices, never Zero itself *)
Definition szero_buf : sbuf := mk_sbuf SGlobal zero32.

Inductive sres := SOk (r : option sbuf) | SErr.

(* val := make([]byte, 32); binary.BigEndian.PutUint64(val[24:], amount) *)
Definition val32 (amount : N) : bytes := repeat x00 24 ++ be_enc 8 amount.

(* CalculateScalarOffset(amount, assetBlinder, valueBlinder) *)
Definition calc_offset_w (amount : N) (assetBlinder valueBlinder : option sbuf) (w : swlog) : sres * swlog :=
  let ab := scopy assetBlinder in
  let vb := scopy valueBlinder in
  match ab with
  | None => (SOk vb, w)
  | Some _ =>
      let result := ab in
      let val := val32 amount in
      if (0 <? amount)%N then
        let '(ok, result, w) := sinplace (fun k => ec_tweak_mul k val) result w in
        if negb ok then (SErr, w) else
        match vb with
        | None => (SOk result, w)                             (* an absent value blinder adds nothing *)
        | Some _ =>
            let vn := scopy valueBlinder in
            let '(ok, vn, w) := sinplace ec_negate vn w in
            if negb ok then (SErr, w) else
            if sbuf_eqb vn result then (SOk (Some (mk_sbuf SLocal zero32)), w) else
            let '(ok, result, w) := sinplace (fun k => ec_tweak_add k (sdat vb)) result w in
            if negb ok then (SErr, w) else (SOk result, w)
        end
      else (SOk vb, w)
  end.

(* SubtractScalars(a, b) *)
Definition sub_scalars_w (a b : option sbuf) (w : swlog) : sres * swlog :=
  let aa := scopy a in
  let bb := scopy b in
  match bb with
  | None => (SOk aa, w)
  | Some _ =>
      (* a - a: `aa != nil && bytes.Equal(aa, bb)` returns make([]byte, 32) *)
      if (match aa with Some _ => true | None => false end) && sbuf_eqb aa bb
      then (SOk (Some (mk_sbuf SLocal zero32)), w) else
      let '(ok, bb, w) := sinplace ec_negate bb w in
      if negb ok then (SErr, w) else
      match aa with
      | None => (SOk bb, w)
      | Some _ =>
          let '(ok, aa, w) := sinplace (fun k => ec_tweak_add k (sdat bb)) aa w in
          if negb ok then (SErr, w) else (SOk aa, w)
      end
  end.

(* ComputeAndAddToScalarOffset(scalar, value, assetBlinder, valueBlinder) *)
Definition add_offset_w (scalar : option sbuf) (value : N) (assetBlinder valueBlinder : option sbuf) (w : swlog)
  : sres * swlog :=
  let s := scopy scalar in
  let ab := scopy assetBlinder in
  let vb := scopy valueBlinder in
  match ab, vb with
  | None, None => (SOk s, w)
  | _, _ =>
      let '(r, w) := calc_offset_w value ab vb w in
      match r with
      | SErr => (SErr, w)
      | SOk scalarOffset =>
          match scalarOffset with
          | None => (SOk s, w)          (* a zero amount without value blinder contributes nothing *)
          | Some _ =>
          match s with
          | None => (SOk scalarOffset, w)
          | Some _ =>
              let nv := scopy scalarOffset in
              let '(ok, nv, w) := sinplace ec_negate nv w in
              if negb ok then (SErr, w) else
              if sbuf_eqb s nv then (SOk (Some (mk_sbuf SLocal zero32)), w) else
              let '(ok, s, w) := sinplace (fun k => ec_tweak_add k (sdat scalarOffset)) s w in
              if negb ok then (SErr, w) else (SOk s, w)
          end
          end
      end
  end.

(* ---- the exported functions on caller-owned argument slices ---- *)
Definition sarg (i : nat) (o : option bytes) : option sbuf := option_map (mk_sbuf (SCaller i)) o.

Inductive soutcome := SOOk (r : option bytes) | SOErr.
Definition sout_of (r : sres) : soutcome :=
  match r with SOk o => SOOk (option_map sb_dat o) | SErr => SOErr end.

Definition go_calc_offset (amount : N) (ab vb : option bytes) : sres * swlog :=
  calc_offset_w amount (sarg 0 ab) (sarg 1 vb) [].
Definition go_sub_scalars (a b : option bytes) : sres * swlog :=
  sub_scalars_w (sarg 0 a) (sarg 1 b) [].
Definition go_add_offset (s : option bytes) (value : N) (ab vb : option bytes) : sres * swlog :=
  add_offset_w (sarg 0 s) value (sarg 1 ab) (sarg 2 vb) [].

Definition calc_offset (amount : N) (ab vb : option bytes) : soutcome := sout_of (fst (go_calc_offset amount ab vb)).
Definition sub_scalars (a b : option bytes) : soutcome := sout_of (fst (go_sub_scalars a b)).
Definition add_offset (s : option bytes) (value : N) (ab vb : option bytes) : soutcome :=
  sout_of (fst (go_add_offset s value ab vb)).

(* contents of argument i after the call, given its contents before *)
Fixpoint sarg_after (i : nat) (before : option bytes) (w : swlog) : option bytes :=
  match w with
  | [] => before
  | (SCaller j, d) :: w' =>
      match sarg_after i before w' with
      | None => None
      | Some x => if (i =? j)%nat then Some d else Some x
      end
  | _ :: w' => sarg_after i before w'
  end.
(* whether the call returned the package-level Zero slice itself (the caller then holds shared memory) *)
Definition sreturns_global (r : sres) : bool :=
  match r with SOk (Some (mk_sbuf SGlobal _)) => true | _ => false end.
