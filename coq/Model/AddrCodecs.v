(* Model/AddrCodecs.v — executable re-implementations of the EXTERNAL codecs used by
   address/address.go: btcutil base58 (Encode, Decode, CheckEncode, CheckDecode) and btcutil
   bech32 (DecodeGeneric with the 90-character limit, Encode, EncodeM).  They are not part of
   the repository; the C14 theorems assume their round-trip laws (Section hypotheses in
   Proofs/Address.v).  These definitions exist so that the differential check can run the
   address model; they are compared with the real libraries on every case.  Definitions only. *)
From GE Require Export Lib.Bytes Lib.Sha256.
From GE Require Import Model.Blech32.
Open Scope N_scope.

Module XC.
Import B32.

(* ---------- base58 ---------- *)
Definition b58_alphabet : bytes :=
  map b8 [49;50;51;52;53;54;55;56;57;65;66;67;68;69;70;71;72;74;75;76;77;78;80;81;82;83;84;85;86;87;88;89;90;
          97;98;99;100;101;102;103;104;105;106;107;109;110;111;112;113;114;115;116;117;118;119;120;121;122].

Fixpoint b58_value (s : bytes) (acc : N) : option N :=
  match s with
  | [] => Some acc
  | c :: r => match index_of c b58_alphabet 0 with
              | None => None
              | Some d => b58_value r (acc * 58 + d)
              end
  end.

Fixpoint be_bytes (fuel : nat) (x : N) : bytes :=
  match fuel with
  | O => []
  | S f => if x =? 0 then [] else be_bytes f (x / 256) ++ [b8 x]
  end.

Fixpoint leading (c : byte) (s : bytes) : nat :=
  match s with
  | x :: r => if beqb x c then S (leading c r) else O
  | [] => O
  end.

(* base58.Decode: the empty slice on any character outside the alphabet *)
Definition b58_decode (s : bytes) : bytes :=
  match b58_value s 0 with
  | None => []
  | Some v => repeat x00 (leading "1"%byte s) ++ be_bytes (length s) v
  end.

Fixpoint b58_digits (fuel : nat) (x : N) : bytes :=
  match fuel with
  | O => []
  | S f => if x =? 0 then [] else
           b58_digits f (x / 58) ++ match nth_opt b58_alphabet (x mod 58) with Some c => [c] | None => [] end
  end.

Definition b58_encode (b : bytes) : bytes :=
  repeat "1"%byte (leading x00 b) ++ b58_digits (2 * length b + 1) (be_dec b).

Definition check_encode (input : bytes) (version : byte) : bytes :=
  let b := version :: input in b58_encode (b ++ firstn 4 (dsha256 b)).

Definition check_decode (s : bytes) : option (bytes * byte) :=
  let d := b58_decode s in
  if (length d <? 5)%nat then None else
  match d with
  | [] => None
  | version :: _ =>
      let body := firstn (length d - 4) d in
      if bytes_eqb (firstn 4 (dsha256 body)) (skipn (length d - 4) d)
      then Some (skipn 1 body, version) else None
  end.

(* ---------- bech32 ---------- *)
Definition bech_gen : list N := [0x3b6a57b2; 0x26508e6d; 0x1ea119fa; 0x3d4233dd; 0x2a1462b3].
Definition bech_const (m : bool) : N := if m then 0x2bc830a3 else 1.

Definition bech_step (chk v : N) : N :=
  let b := N.shiftr chk 25 in
  let c := N.lxor (N.shiftl (N.land chk 0x1ffffff) 5) v in
  fst (fold_left (fun (st : N * N) g => (if N.testbit b (snd st) then N.lxor (fst st) g else fst st, snd st + 1))
                 bech_gen (c, 0)).

Definition bech_polymod (hrp : bytes) (values : list N) : N :=
  fold_left bech_step (hrp_expand hrp ++ values) 1.

Definition bech_checksum (hrp data : bytes) (m : bool) : bytes :=
  let pm := N.lxor (bech_polymod hrp (ints data ++ repeat 0 6)) (bech_const m) in
  map (fun i => b8 (N.land (N.shiftr pm (5 * (5 - i))) 31)) [0; 1; 2; 3; 4; 5].

Definition has_lower (s : bytes) : bool := existsb (fun c => (97 <=? n8 c) && (n8 c <=? 122)) s.
Definition has_upper (s : bytes) : bool := existsb (fun c => (65 <=? n8 c) && (n8 c <=? 90)) s.

(* bech32.DecodeGeneric: (hrp in lower case, data without checksum, true = bech32m constant) *)
Definition bech_decode (s : bytes) : option (bytes * bytes * bool) :=
  if (90 <? length s)%nat then None else
  if (length s <? 8)%nat then None else
  if negb (forallb char_ok s) then None else
  if has_lower s && has_upper s then None else
  let lower := map to_lower s in
  match last_index sep lower with
  | None => None
  | Some one =>
      if ((one <? 1) || (length lower <? one + 7))%nat then None else
      let hrp := firstn one lower in
      match to_bytes (skipn (one + 1) lower) with
      | None => None
      | Some decoded =>
          let pm := bech_polymod hrp (ints decoded) in
          let data := firstn (length decoded - 6) decoded in
          if pm =? bech_const false then Some (hrp, data, false)
          else if pm =? bech_const true then Some (hrp, data, true)
          else None
      end
  end.

(* bech32.Encode (m = false) / EncodeM (m = true) *)
Definition bech_encode (m : bool) (hrp data : bytes) : option bytes :=
  let hrp := map to_lower hrp in
  match to_chars data with
  | None => None
  | Some cs =>
      match to_chars (bech_checksum hrp data m) with
      | None => None
      | Some ck => Some (hrp ++ [sep] ++ cs ++ ck)
      end
  end.

End XC.
