(* Model/Descriptor.v — descriptor/parser.go, descriptor/wpkh.go (descriptor.Parse and the Wallet
   methods of the one wallet kind it builds), as the code is.  Definitions only.

   Text is `list byte` (the bytes of the Go string).  Domain on which the model is compared with the
   implementation: valid UTF-8 text whose white space is ASCII white space (tab, LF, VT, FF, CR, space).
   unicode.IsSpace additionally knows U+0085, U+00A0 and the space characters above U+1680, and
   strings.Map rewrites invalid UTF-8 to U+FFFD; the generator of the correspondence check produces
   neither (the oracle S runs the implementation on such inputs too, without the model).  Bytes >= 0x80
   are opaque non-space, non-word characters here, which is what they are to the Go code on that domain:
   every delimiter the parser looks for is ASCII and \w of Go's regexp is ASCII-only.

   Every Go index or slice expression is a partial operation here (`index`, `slice_from`, `slice_to`,
   `le_uint32`, the dereference of the index pointer of the options in Script); when it is out of range (nil)
   the outcome is Panic.  The guards of the Go code stand where they stand in the source; Proofs/Descriptor.v shows that
   they make Panic unreachable in Parse and in Script.

   Code below the repository enters as the record `oracles` (no laws): btcec.ParsePubKey (verdict),
   btcutil.DecodeWIF (verdict and the compressed public key of the decoded private key), hdkeychain
   (NewKeyFromString + Derive along a path: verdict; the same followed by ECPubKey: compressed key).
   encoding/hex, strings.Split/HasPrefix/HasSuffix/TrimSuffix/TrimSpace/Map, regexp
   `(\w+)\((.+)\)` with FindStringSubmatch, math/big Int.SetString(_, 0), binary.LittleEndian.Uint32 and
   the script builder (OP_0 <20 bytes>) are written out here. *)
From GE Require Export Lib.Bytes.
From GE Require Import Lib.Sha256 Model.Ripemd160.
Require Coq.Strings.String.
Import ListNotations.
Open Scope N_scope.

Module Desc.

(* string literals, evaluated to explicit byte lists at definition time (no `string` reaches extraction) *)
Module Lit.
Import Coq.Strings.String.
Definition elsh : bytes := Eval compute in list_byte_of_string "elsh".
Definition elwsh : bytes := Eval compute in list_byte_of_string "elwsh".
Definition elpk : bytes := Eval compute in list_byte_of_string "elpk".
Definition elpkh : bytes := Eval compute in list_byte_of_string "elpkh".
Definition elwpkh : bytes := Eval compute in list_byte_of_string "elwpkh".
Definition elcombo : bytes := Eval compute in list_byte_of_string "elcombo".
Definition elmulti : bytes := Eval compute in list_byte_of_string "elmulti".
Definition elsortedmulti : bytes := Eval compute in list_byte_of_string "elsortedmulti".
Definition elmulti_a : bytes := Eval compute in list_byte_of_string "elmulti_a".
Definition elsortedmulti_a : bytes := Eval compute in list_byte_of_string "elsortedmulti_a".
Definition eltr : bytes := Eval compute in list_byte_of_string "eltr".
Definition eladdr : bytes := Eval compute in list_byte_of_string "eladdr".
Definition elraw : bytes := Eval compute in list_byte_of_string "elraw".
Definition xprv : bytes := Eval compute in list_byte_of_string "xprv".
Definition xpub : bytes := Eval compute in list_byte_of_string "xpub".
Definition lbracket : bytes := Eval compute in list_byte_of_string "[".
Definition quote : bytes := Eval compute in list_byte_of_string "'".
Definition aitch : bytes := Eval compute in list_byte_of_string "h".
Definition slash_star : bytes := Eval compute in list_byte_of_string "/*".
End Lit.

(* ---------- outcomes ---------- *)
Inductive res (A : Type) : Type := Ok (a : A) | Err | Panic.
Arguments Ok {A} a. Arguments Err {A}. Arguments Panic {A}.

(* ---------- Go slice and index expressions ---------- *)
Definition index {A} (l : list A) (i : nat) : option A := nth_error l i.            (* l[i] *)
Definition slice_from {A} (n : nat) (s : list A) : option (list A) :=                (* s[n:] *)
  if (n <=? length s)%nat then Some (skipn n s) else None.
Definition slice_to {A} (n : Z) (s : list A) : option (list A) :=                    (* s[:n], n a Go int *)
  if ((0 <=? n) && (n <=? Z.of_nat (length s)))%Z then Some (firstn (Z.to_nat n) s) else None.
Definition slice {A} (a b : nat) (s : list A) : option (list A) :=                   (* s[a:b] *)
  if ((a <=? b) && (b <=? length s))%nat then Some (firstn (b - a) (skipn a s)) else None.

(* ---------- package strings, single-byte separators ---------- *)
(* strings.Split(s, sep): always at least one piece *)
Fixpoint split (sep : byte) (s : bytes) : list bytes :=
  match s with
  | [] => [[]]
  | c :: r =>
      if beqb c sep then [] :: split sep r
      else match split sep r with
           | h :: t => (c :: h) :: t
           | [] => [[c]]
           end
  end.

Definition has_prefix (s p : bytes) : bool := bytes_eqb (firstn (length p) s) p.
Definition has_suffix (s p : bytes) : bool :=
  (length p <=? length s)%nat && bytes_eqb (skipn (length s - length p) s) p.
Definition trim_suffix (s p : bytes) : bytes :=
  if has_suffix s p then firstn (length s - length p) s else s.

(* unicode.IsSpace on the domain stated above *)
Definition is_space (c : byte) : bool := let n := n8 c in ((9 <=? n) && (n <=? 13)) || (n =? 32).

Fixpoint trim_left (s : bytes) : bytes :=
  match s with c :: r => if is_space c then trim_left r else s | [] => [] end.
Definition trim_space (s : bytes) : bytes := rev (trim_left (rev (trim_left s))).

(* strings.Map(drop white space) *)
Definition strip_spaces (s : bytes) : bytes := filter (fun c => negb (is_space c)) s.

(* ---------- encoding/hex.DecodeString ---------- *)
Definition hex_val (c : byte) : option N :=
  let n := n8 c in
  if (48 <=? n) && (n <=? 57) then Some (n - 48)
  else if (97 <=? n) && (n <=? 102) then Some (n - 87)
  else if (65 <=? n) && (n <=? 70) then Some (n - 55)
  else None.

Fixpoint hex_decode (s : bytes) : option bytes :=
  match s with
  | [] => Some []
  | a :: b :: r =>
      match hex_val a, hex_val b, hex_decode r with
      | Some x, Some y, Some t => Some (b8 (16 * x + y) :: t)
      | _, _, _ => None
      end
  | [_] => None
  end.

(* binary.LittleEndian.Uint32(b): `_ = b[3]`, then the first four bytes *)
Definition le_uint32 (b : bytes) : option N :=
  match b with
  | b0 :: b1 :: b2 :: b3 :: _ => Some (le_dec [b0; b1; b2; b3])
  | _ => None
  end.

(* ---------- regexp `(\w+)\((.+)\)`, FindStringSubmatch ---------- *)
(* \w of Go's regexp (RE2 syntax): [0-9A-Za-z_] *)
Definition is_word (c : byte) : bool :=
  let n := n8 c in
  ((48 <=? n) && (n <=? 57)) || ((65 <=? n) && (n <=? 90)) || ((97 <=? n) && (n <=? 122)) || (n =? 95).

Fixpoint span_word (s : bytes) : bytes * bytes :=
  match s with
  | c :: r => if is_word c then let '(w, t) := span_word r in (c :: w, t) else ([], s)
  | [] => ([], [])
  end.

Fixpoint last_index (c : byte) (s : bytes) : option nat :=
  match s with
  | [] => None
  | x :: r =>
      match last_index c r with
      | Some k => Some (S k)
      | None => if beqb x c then Some O else None
      end
  end.

(* a match that starts exactly here.  Leftmost-first (Perl-like) preference: \w+ takes the whole run of
   word characters (giving characters back cannot help: what follows a shorter run is a word character,
   not the parenthesis), `.+` takes everything up to the LAST closing parenthesis that leaves it at least
   one character (`.` matches every character but LF, and the subject has no LF: it was stripped).
   Result: [whole match; group 1; group 2] *)
Definition match_at (s : bytes) : option (list bytes) :=
  match span_word s with
  | ([], _) => None
  | (w, lp :: body) =>
      if beqb lp "("%byte then
        match last_index ")"%byte body with
        | Some (S k) => let inner := firstn (S k) body in
                        Some [w ++ ["("%byte] ++ inner ++ [")"%byte]; w; inner]
        | _ => None
        end
      else None
  | (_, []) => None
  end.

(* unanchored: the leftmost start position that has a match *)
Fixpoint find_submatch (s : bytes) : option (list bytes) :=
  match match_at s with
  | Some m => Some m
  | None => match s with [] => None | _ :: r => find_submatch r end
  end.

(* ---------- math/big: Int.SetString(s, 0) ---------- *)
(* digit value in nat.scan: 0-9, a-z and A-Z as 10..35 (the base never exceeds 36 here), else MaxBase+1 *)
Definition digit_val (c : byte) : N :=
  let n := n8 c in
  if (48 <=? n) && (n <=? 57) then n - 48
  else if (97 <=? n) && (n <=? 122) then n - 87
  else if (65 <=? n) && (n <=? 90) then n - 55
  else 63.

Inductive prevc := PDot | PDigit | PUnderscore.       (* the variable prev of nat.scan: '.', '0', '_' *)
Inductive bprefix := NoPrefix | PfxB | PfxO | PfxX | PfxZero.

(* the digit loop of nat.scan with base 0 given: underscores are separators, valid only after a digit;
   a character that is not a digit of base b is unread and ends the loop.
   Result: prev, invalSep, count, value, unread rest *)
Fixpoint scan_digits (b : N) (s : bytes) (prev : prevc) (inval : bool) (count acc : N)
  : prevc * bool * N * N * bytes :=
  match s with
  | [] => (prev, inval, count, acc, [])
  | ch :: r =>
      if beqb ch "_"%byte then
        scan_digits b r PUnderscore (inval || match prev with PDigit => false | _ => true end) count acc
      else
        let d := digit_val ch in
        if b <=? d then (prev, inval, count, acc, s)
        else scan_digits b r PDigit inval (count + 1) (acc * b + d)
  end.

(* nat.scan(r, 0, false): None = error; Some (value, unread rest) *)
Definition nat_scan0 (s : bytes) : option (N * bytes) :=
  let '(b, pfx, prev, count, s1) :=
    match s with
    | ch0 :: r =>
        if beqb ch0 "0"%byte then
          match r with
          | [] => (10, NoPrefix, PDigit, 1, [])
          | ch :: r2 =>
              if beqb ch "b"%byte || beqb ch "B"%byte then (2, PfxB, PDigit, 0, r2)
              else if beqb ch "o"%byte || beqb ch "O"%byte then (8, PfxO, PDigit, 0, r2)
              else if beqb ch "x"%byte || beqb ch "X"%byte then (16, PfxX, PDigit, 0, r2)
              else (8, PfxZero, PDigit, 0, r)
          end
        else (10, NoPrefix, PDot, 0, s)
    | [] => (10, NoPrefix, PDot, 0, [])
    end in
  let '(prev', inval, count', acc, rest) := scan_digits b s1 prev false count 0 in
  if inval || match prev' with PUnderscore => true | _ => false end then None        (* errInvalSep *)
  else if count' =? 0 then
    match pfx with PfxZero => Some (0, rest) | _ => None end                         (* lone octal prefix = 0; errNoDigits *)
  else Some (acc, rest).

(* Int.scan + setFromScanner: optional sign, mantissa, then the whole text must have been consumed *)
Definition int_set_string0 (s : bytes) : option Z :=
  match s with
  | [] => None
  | c :: r =>
      let '(neg, s1) :=
        if beqb c "-"%byte then (true, r) else if beqb c "+"%byte then (false, r) else (false, s) in
      match nat_scan0 s1 with
      | None => None
      | Some (v, rest) =>
          match rest with
          | [] => Some (if neg then (- Z.of_N v)%Z else Z.of_N v)
          | _ :: _ => None
          end
      end
  end.

(* ---------- parsePath ---------- *)
Definition hardened_key_start : N := 0x80000000.

Definition parse_component (comp : bytes) : res N :=
  let c := trim_space comp in
  let '(value, c1) :=
    if has_suffix c Lit.quote then (hardened_key_start, trim_space (trim_suffix c Lit.quote))
    else if has_suffix c Lit.aitch then (hardened_key_start, trim_space (trim_suffix c Lit.aitch))
    else (0, c) in
  match int_set_string0 c1 with
  | None => Err
  | Some big =>
      let max := u32max - value in
      if ((big <? 0) || (Z.of_N max <? big))%Z then Err
      else Ok ((value + (Z.to_N big mod two64) mod two32) mod two32)      (* value += uint32(bigval.Uint64()) *)
  end.

Fixpoint parse_path (cs : list bytes) : res (list N) :=
  match cs with
  | [] => Ok []
  | c :: r =>
      match parse_component c with
      | Ok v => match parse_path r with Ok l => Ok (v :: l) | Err => Err | Panic => Panic end
      | Err => Err
      | Panic => Panic
      end
  end.

(* ---------- key expressions ---------- *)
Record key_origin := mk_origin { ko_fingerprint : N; ko_path : list N }.
Inductive key_type := XPrv | XPub.
Record ext_key := mk_ext { ek_key : bytes; ek_path : list N; ek_type : key_type; ek_range : bool }.
(* keyInfo: three optional parts, as in the Go struct *)
Record key_info := mk_ki {
  ki_origin : option key_origin;
  ki_pub : option bytes;
  ki_wif : option bytes;
  ki_ext : option ext_key }.

Record oracles := mk_oracles {
  o_pub : bytes -> bool;                         (* btcec.ParsePubKey(raw) succeeds *)
  o_wif : bytes -> option bytes;                 (* btcutil.DecodeWIF(text): compressed public key of the private key *)
  o_hd_ok : bytes -> list N -> bool;             (* hdkeychain.NewKeyFromString(text) and Derive along the path succeed *)
  o_hd_pub : bytes -> list N -> option bytes }.  (* the same followed by ECPubKey: compressed key *)

(* parseKeyOriginInfo.  `old_guard` selects the test in front of the fingerprint: false = the code as it
   is (strings.HasPrefix), true = the code before commit a950a3e (keyExpressionSplit[0][0:1] != "[") *)
Definition parse_key_origin_info (old_guard : bool) (ke : bytes) : res (option key_origin) :=
  let sp := split "]"%byte ke in
  match length sp with
  | 1%nat => Ok None
  | 2%nat =>
      match index sp 0 with
      | None => Panic
      | Some p0 =>
          let guard : res bool :=
            if old_guard then
              match slice 0 1 p0 with None => Panic | Some x => Ok (bytes_eqb x Lit.lbracket) end
            else Ok (has_prefix p0 Lit.lbracket) in
          match guard with
          | Panic => Panic
          | Err => Err
          | Ok false => Err
          | Ok true =>
              let kos := split "/"%byte p0 in
              match index kos 0 with
              | None => Panic
              | Some k0 =>
                  match slice_from 1 k0 with
                  | None => Panic
                  | Some fp =>
                      if negb (length fp =? 8)%nat then Err
                      else
                        match hex_decode fp with
                        | None => Err
                        | Some fb =>
                            match le_uint32 fb with
                            | None => Panic
                            | Some m =>
                                if (1 <? length kos)%nat then
                                  match slice_from 1 kos with
                                  | None => Panic
                                  | Some comps =>
                                      match parse_path comps with
                                      | Ok p => Ok (Some (mk_origin m p))
                                      | Err => Err
                                      | Panic => Panic
                                      end
                                  end
                                else Ok (Some (mk_origin m []))
                            end
                        end
                  end
              end
          end
      end
  | _ => Err
  end.

Definition trim_key_origin_info (ke : bytes) : res bytes :=
  let sp := split "]"%byte ke in
  match length sp with
  | 1%nat => match index sp 0 with Some x => Ok x | None => Panic end
  | 2%nat => match index sp 1 with Some x => Ok x | None => Panic end
  | _ => Err
  end.

Definition is_pub_key (o : oracles) (k : bytes) : bool :=
  match hex_decode k with None => false | Some raw => o_pub o raw end.
Definition is_wif (o : oracles) (k : bytes) : bool :=
  match o_wif o k with Some _ => true | None => false end.
Definition is_extended (k : bytes) : bool := has_prefix k Lit.xprv || has_prefix k Lit.xpub.

(* parseKey: (pubKey, wif, extendedKeyInfo) *)
Definition parse_key (o : oracles) (ke : bytes) : res (option bytes * option bytes * option ext_key) :=
  let sp := split "/"%byte ke in
  match index sp 0 with
  | None => Panic
  | Some key =>
      match (if (length sp =? 1)%nat then Some [] else slice_from (length key) ke) with
      | None => Panic
      | Some path_str =>
          if is_pub_key o key then Ok (Some key, None, None)
          else if is_wif o key then Ok (None, Some key, None)
          else if is_extended key then
            let kt := if has_prefix key Lit.xprv then XPrv else XPub in
            match path_str with
            | [] => Ok (None, None, Some (mk_ext key [] kt false))
            | _ :: _ =>
                match slice_from 1 path_str with                                    (* pathStr[1:] *)
                | None => Panic
                | Some ps =>
                    let '(rng, ps1) :=
                      if has_suffix ps Lit.slash_star
                      then (true, slice_to (Z.of_nat (length ps) - 2) ps)            (* pathStr[:len(pathStr)-2] *)
                      else (false, Some ps) in
                    match ps1 with
                    | None => Panic
                    | Some ps2 =>
                        match parse_path (split "/"%byte ps2) with
                        | Ok p => Ok (None, None, Some (mk_ext key p kt rng))
                        | Err => Err
                        | Panic => Panic
                        end
                    end
                end
            end
          else Err
      end
  end.

Definition parse_key_expression (old_guard : bool) (o : oracles) (ke : bytes) : res key_info :=
  match parse_key_origin_info old_guard ke with
  | Panic => Panic
  | Err => Err
  | Ok origin =>
      match trim_key_origin_info ke with
      | Panic => Panic
      | Err => Err
      | Ok trimmed =>
          match parse_key o trimmed with
          | Panic => Panic
          | Err => Err
          | Ok (p, w, e) => Ok (mk_ki origin p w e)
          end
      end
  end.

(* ---------- script expressions ---------- *)
(* what Parse hands back: a wallet, an error, neither (nil, nil), or a run-time panic *)
Inductive presult := POk (w : key_info) | PErr | PNilNil | PPanic.

(* splitFuncAndScriptExpression: (matches[1], matches[2]) *)
Definition split_func_and_script (s : bytes) : res (bytes * bytes) :=
  match find_submatch (strip_spaces s) with
  | None => Err
  | Some matches =>
      if negb (length matches =? 3)%nat then Err
      else match index matches 1, index matches 2 with
           | Some f, Some inner => Ok (f, inner)
           | _, _ => Panic
           end
  end.

Definition unsupported_names : list bytes :=
  [Lit.elsh; Lit.elwsh; Lit.elpk; Lit.elpkh; Lit.elcombo; Lit.elmulti; Lit.elsortedmulti;
   Lit.elmulti_a; Lit.elsortedmulti_a; Lit.eltr; Lit.eladdr].

(* parseScriptExpression.  `unsup` is what the switch returns for the names it knows but does not
   implement: PErr in the code as it is, PNilNil before commit 8813a4b *)
Definition parse_script_expression (old_guard : bool) (unsup : presult) (o : oracles) (d : bytes) : presult :=
  match split_func_and_script d with
  | Panic => PPanic
  | Err => PErr
  | Ok (f, inner) =>
      if existsb (bytes_eqb f) unsupported_names then unsup
      else if bytes_eqb f Lit.elwpkh then
        match parse_key_expression old_guard o inner with
        | Ok ki => POk ki
        | Err => PErr
        | Panic => PPanic
        end
      else if bytes_eqb f Lit.elraw then PErr          (* falls out of the switch: "invalid op" *)
      else PErr                                         (* default: "unknown expression" *)
  end.

(* trimAndValidateChecksum: only the length of the checksum is looked at *)
Definition trim_and_validate_checksum (d : bytes) : res bytes :=
  let str := split "#"%byte d in
  match length str with
  | 1%nat => match index str 0 with Some x => Ok x | None => Panic end
  | 2%nat =>
      match index str 1 with
      | None => Panic
      | Some ck =>
          if negb (length ck =? 8)%nat then Err
          else match index str 0 with Some x => Ok x | None => Panic end
      end
  | _ => Err
  end.

Definition parse_gen (old_guard : bool) (unsup : presult) (o : oracles) (d : bytes) : presult :=
  match trim_and_validate_checksum d with
  | Panic => PPanic
  | Err => PErr
  | Ok body => parse_script_expression old_guard unsup o body
  end.

(* descriptor.Parse, the code as it is *)
Definition parse (o : oracles) (d : bytes) : presult := parse_gen false PErr o d.
(* ... before commit a950a3e (key-origin guard by slicing) and before commit 8813a4b ((nil, nil)) *)
Definition parse_before_a950a3e (o : oracles) (d : bytes) : presult := parse_gen true PErr o d.
Definition parse_before_8813a4b (o : oracles) (d : bytes) : presult := parse_gen true PNilNil o d.

(* ---------- WpkhWallet (wpkh.go) ---------- *)
Definition is_range (w : key_info) : bool :=
  match ki_ext w with Some e => ek_range e | None => false end.

(* a ScriptOpts pointer as a caller can build it: nil, WithIndex(i), WithRange(n), and the zero value &ScriptOpts{} *)
Inductive script_opts := ONil | OIndex (i : N) | ORange (n : Z) | OZero.

(* wpkhScriptFromBytes: OP_0 <hash160(pubkey)> *)
Definition wpkh_script (pub : bytes) : bytes := x00 :: x14 :: hash160 pub.

(* derivationPath(index) *)
Definition derivation_path (w : key_info) (idx : N) : list N :=
  (match ki_origin w with Some ko => ko_fingerprint ko :: ko_path ko | None => [] end)
  ++ (match ki_ext w with Some e => ek_path e | None => [] end)
  ++ [idx].

(* the loop `for i := 0; i < n; i++` over Derive(uint32(i)): i counts up from `i`, `todo` iterations left *)
Fixpoint range_scripts (o : oracles) (w : key_info) (e : ext_key) (i : N) (todo : nat)
  : res (list (list N * bytes)) :=
  match todo with
  | O => Ok []
  | S t =>
      let idx := i mod two32 in
      match o_hd_pub o (ek_key e) (ek_path e ++ [idx]) with
      | None => Err
      | Some pub =>
          match range_scripts o w e (i + 1) t with
          | Ok l => Ok ((derivation_path w idx, wpkh_script pub) :: l)
          | Err => Err
          | Panic => Panic
          end
      end
  end.

(* Script(opts): list of (DerivationPath, Script); DerivationPath nil is [].
   `index_guard`: true = the code as it is (`else if opts.index != nil`, commit 84bb833: options with neither
   field behave like nil options), false = the code before that commit (`else { index = *opts.index }`) *)
Definition script_gen (index_guard : bool) (o : oracles) (w : key_info) (opts : script_opts)
  : res (list (list N * bytes)) :=
  (* numOfScriptsToBeGenerated, index, generateMoreScripts *)
  let setup : res (Z * N * bool) :=
    if is_range w then
      match opts with
      | ONil => Ok (100%Z, 0, false)
      | ORange n => Ok (n, 0, true)
      | OIndex i => Ok (100%Z, i, false)
      | OZero => if index_guard then Ok (100%Z, 0, false)
                 else Panic                              (* *opts.index with opts.index == nil *)
      end
    else Ok (1%Z, 0, false) in
  match setup with
  | Panic => Panic
  | Err => Err
  | Ok (num, idx, more) =>
      match ki_pub w with
      | Some k =>
          match hex_decode k with
          | None => Err
          | Some raw => Ok [([], wpkh_script raw)]
          end
      | None =>
          match ki_wif w with
          | Some k =>
              match o_wif o k with
              | None => Err
              | Some pub => Ok [([], wpkh_script pub)]
              end
          | None =>
              match ki_ext w with
              | Some e =>
                  if negb (o_hd_ok o (ek_key e) (ek_path e)) then Err
                  else if ek_range e then
                    if more then range_scripts o w e 0 (Z.to_nat num)
                    else
                      match o_hd_pub o (ek_key e) (ek_path e ++ [idx]) with
                      | None => Err
                      | Some pub => Ok [(derivation_path w idx, wpkh_script pub)]
                      end
                  else
                    match o_hd_pub o (ek_key e) (ek_path e) with
                    | None => Err
                    | Some pub => Ok [(derivation_path w idx, wpkh_script pub)]
                    end
              | None => Err                              (* "parser didnt recognised ..." *)
              end
          end
      end
  end.

Definition script := script_gen true.
Definition script_before_84bb833 := script_gen false.

End Desc.
