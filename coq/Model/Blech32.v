(* Model/Blech32.v — blech32/blech32.go: polymod, hrp expansion, createChecksum,
   verifyChecksum, DecodeGeneric, Decode, Encode, toBytes, toChars, ConvertBits.
   Definitions only.  The generator constants, the two checksum constants and the
   character set are taken from Gen/Blech32Consts.v (regenerated from the Go source
   on every run), so every theorem about them is re-checked against the code.

   Words: the Go code computes in int64; all intermediate values are non-negative and
   below 2^60 (Proofs/Blech32.v, polymod_step_bound), so N with N.lxor / N.shiftl /
   N.shiftr / N.land is exact. *)
From GE Require Export Lib.Bytes.
From GE Require Import Gen.Blech32Consts.
Open Scope N_scope.

(* a module of its own so that the extracted names (B32.decode, ...) cannot clash with other models *)
Module B32.

Definition BLECH32 : N := Z.to_N g_BLECH32.
Definition BLECH32M : N := Z.to_N g_BLECH32M.
Definition gen : list N := map Z.to_N g_gen.
Definition charset : bytes := map (fun z => b8 (Z.to_N z)) g_charset.

(* EncodingTypeFromSegwitVersion *)
Definition encoding_of_version (v : byte) : option N :=
  if n8 v =? 0 then Some BLECH32 else if n8 v =? 1 then Some BLECH32M else None.

(* ---------- polymod ---------- *)
(* for i := 0; i < 5; i++ { if (b>>uint(i))&1 == 1 { chk ^= gen[i] } }   (len(gen) = 5: gen_length) *)
Fixpoint apply_gen (b : N) (gs : list N) (i : N) (acc : N) : N :=
  match gs with
  | [] => acc
  | g :: r => apply_gen b r (i + 1) (if N.testbit b i then N.lxor acc g else acc)
  end.

Definition mask55 : N := 0x7fffffffffffff.

(* b := chk >> 55; chk = (chk & 0x7fffffffffffff) << 5 ^ v; ... *)
Definition polymod_step (chk v : N) : N :=
  let b := N.shiftr chk 55 in
  apply_gen b gen 0 (N.lxor (N.shiftl (N.land chk mask55) 5) v).

Definition polymod_from (chk : N) (values : list N) : N := fold_left polymod_step values chk.
Definition polymod (values : list N) : N := polymod_from 1 values.

(* blech32HrpExpand *)
Definition hrp_expand (hrp : bytes) : list N :=
  map (fun c => N.shiftr (n8 c) 5) hrp ++ [0] ++ map (fun c => N.land (n8 c) 31) hrp.

Definition ints (data : bytes) : list N := map n8 data.

Definition idx12 : list N := [0; 1; 2; 3; 4; 5; 6; 7; 8; 9; 10; 11].

(* res[i] = byte((polymod >> uint(5*(11-i))) & 31) *)
Definition checksum_symbols (pm : N) : bytes :=
  map (fun i => b8 (N.land (N.shiftr pm (5 * (11 - i))) 31)) idx12.

(* createChecksum *)
Definition create_checksum (hrp data : bytes) (enc : N) : bytes :=
  let values := hrp_expand hrp ++ ints data ++ repeat 0 12 in
  checksum_symbols (N.lxor (polymod values) enc).

(* verifyChecksum *)
Definition verify_checksum (hrp data : bytes) (enc : N) : bool :=
  polymod (hrp_expand hrp ++ ints data) =? enc.

(* ---------- characters ---------- *)
Fixpoint index_of (c : byte) (l : bytes) (i : N) : option N :=
  match l with
  | [] => None
  | x :: r => if beqb x c then Some i else index_of c r (i + 1)
  end.

(* toBytes *)
Fixpoint to_bytes (chars : bytes) : option bytes :=
  match chars with
  | [] => Some []
  | c :: r =>
      match index_of c charset 0 with
      | None => None
      | Some i => match to_bytes r with None => None | Some d => Some (b8 i :: d) end
      end
  end.

Fixpoint nth_opt {A} (l : list A) (i : N) : option A :=
  match l with
  | [] => None
  | x :: r => if i =? 0 then Some x else nth_opt r (i - 1)
  end.

(* toChars: int(b) >= len(charset) is an error *)
Fixpoint to_chars (data : bytes) : option bytes :=
  match data with
  | [] => Some []
  | b :: r =>
      match nth_opt charset (n8 b) with
      | None => None
      | Some c => match to_chars r with None => None | Some s => Some (c :: s) end
      end
  end.

Definition to_lower (c : byte) : byte :=
  if (65 <=? n8 c) && (n8 c <=? 90) then b8 (n8 c + 32) else c.
Definition to_upper (c : byte) : byte :=
  if (97 <=? n8 c) && (n8 c <=? 122) then b8 (n8 c - 32) else c.

Definition sep : byte := "1"%byte.

(* strings.LastIndexByte *)
Fixpoint last_index_from (c : byte) (s : bytes) (i : nat) (acc : option nat) : option nat :=
  match s with
  | [] => acc
  | x :: r => last_index_from c r (S i) (if beqb x c then Some i else acc)
  end.
Definition last_index (c : byte) (s : bytes) : option nat := last_index_from c s O None.

(* ---------- DecodeGeneric ---------- *)
Inductive gres :=
  | GOk (hrp data checksum : bytes)
  | GErr
  | GPanic.

Definition char_ok (c : byte) : bool := (33 <=? n8 c) && (n8 c <=? 126).

Definition decode_generic (s : bytes) : gres :=
  if ((length s <? 8) || (1000 <? length s))%nat then GErr else
  if negb (forallb char_ok s) then GErr else
  let lower := map to_lower s in
  let upper := map to_upper s in
  if negb (bytes_eqb s lower) && negb (bytes_eqb s upper) then GErr else
  match last_index sep lower with
  | None => GErr                                   (* one = -1 < 1 *)
  | Some one =>
      if ((one <? 1) || (length lower <? one + 13))%nat then GErr else
      let hrp := firstn one lower in
      let data := skipn (one + 1) lower in
      match to_bytes data with
      | None => GErr
      | Some decoded =>
          (* decoded[:len(decoded)-12], decoded[len(decoded)-12:] *)
          if (length decoded <? 12)%nat then GPanic else
          GOk hrp (firstn (length decoded - 12) decoded) (skipn (length decoded - 12) decoded)
      end
  end.

(* ---------- Decode ---------- *)
Inductive dres :=
  | DOk (hrp data : bytes)
  | DErr
  | DPanic.

Definition decode (s : bytes) : dres :=
  match decode_generic s with
  | GErr => DErr
  | GPanic => DPanic
  | GOk hrp data checksum =>
      match data with
      | [] => DErr                                   (* "missing witness version" (fix 4672273) *)
      | v :: _ =>
          match encoding_of_version v with
          | None => DErr
          | Some enc => if verify_checksum hrp (data ++ checksum) enc then DOk hrp data else DErr
          end
      end
  end.

(* ---------- Encode ---------- *)
Definition encode (hrp data : bytes) (enc : N) : option bytes :=
  let checksum := create_checksum hrp data enc in
  match to_chars (data ++ checksum) with
  | None => None
  | Some cs => Some (hrp ++ [sep] ++ cs)
  end.

(* ---------- ConvertBits ---------- *)
(* uint8 arithmetic: every shift result is truncated to 8 bits *)
Definition u8 (x : N) : N := x mod 256.

Record cb_state := mk_cb {
  cb_out : bytes;        (* regrouped, in reverse order *)
  cb_next : N;           (* nextByte *)
  cb_filled : N          (* filledBits *)
}.

(* the inner loop "for remFromBits > 0"; every pass extracts at least one bit, so
   fuel = fromBits (<= 8) passes are enough; with fuel 0 the remainder is 0 *)
Fixpoint cb_inner (fuel : nat) (to_bits : N) (b rem : N) (st : cb_state) : cb_state :=
  match fuel with
  | O => st
  | S f =>
      if rem =? 0 then st else
      let rem_to := to_bits - cb_filled st in
      let to_extract := if rem_to <? rem then rem_to else rem in
      let next := u8 (N.lor (u8 (N.shiftl (cb_next st) to_extract)) (N.shiftr b (8 - to_extract))) in
      let b' := u8 (N.shiftl b to_extract) in
      let rem' := rem - to_extract in
      let filled := cb_filled st + to_extract in
      if filled =? to_bits
      then cb_inner f to_bits b' rem' (mk_cb (b8 next :: cb_out st) 0 0)
      else cb_inner f to_bits b' rem' (mk_cb (cb_out st) next filled)
  end.

Definition cb_byte (from_bits to_bits : N) (st : cb_state) (x : byte) : cb_state :=
  let b := u8 (N.shiftl (n8 x) (8 - from_bits)) in
  cb_inner 8 to_bits b from_bits st.

Definition convert_bits (data : bytes) (from_bits to_bits : N) (pad : bool) : option bytes :=
  if (from_bits <? 1) || (8 <? from_bits) || (to_bits <? 1) || (8 <? to_bits) then None else
  let st := fold_left (cb_byte from_bits to_bits) data (mk_cb [] 0 0) in
  let st' :=
    if pad && (0 <? cb_filled st)
    then mk_cb (b8 (u8 (N.shiftl (cb_next st) (to_bits - cb_filled st))) :: cb_out st) 0 0
    else st in
  if (0 <? cb_filled st') && ((4 <? cb_filled st') || negb (cb_next st' =? 0)) then None
  else Some (rev (cb_out st')).

End B32.
