(* Model/Pegin.v — /repo/pegin/pegin.go: Claim, createPeginInput,
   GetPeginTxOutIndexAndAmount (output search), createPeginWitness, SerializeValue.
   Definitions only.

   What btcd/btcutil compute from the bitcoin transaction and the contract is an input of
   the model (record btc_view: txid, witness-stripped serialization, outputs, main-chain
   script); None stands for "the transaction or the fedpeg script does not parse".
   The fee is uint64(float64(vsize) * rate): the float product is an oracle
   (fee_of : vsize -> fee); fee_dyadic is the exact value for rates num/2^k. *)
From GE Require Export Lib.Bytes Lib.Varint Lib.Sha256 Model.Tx Model.Merkle.
Open Scope N_scope.

Record btc_view := mk_bv {
  bv_txid : bytes;                 (* tx.TxHash(), internal byte order *)
  bv_stripped : bytes;             (* StripWitnessFromBtcTx *)
  bv_outs : list (N * bytes);      (* TxOut: uint64(Value), PkScript *)
  bv_main_script : bytes           (* mainChainScript built from the contract *)
}.

Definition DefaultSequence : N := 0xffffffff.

(* elementsutil.ValueToBytes: 0x01 followed by the value, big endian *)
Definition value_bytes (v : N) : bytes := b8 1 :: be_enc 8 v.
(* elementsutil.ValueFromBytes on a 9-byte explicit value *)
Definition value_of (x : bytes) : N := match x with [] => 0 | _ :: r => be_dec r end.

(* SerializeValue: reverse(ValueToBytes(v)) without its last byte *)
Definition serialize_value (v : N) : bytes := removelast (rev (value_bytes v)).

(* the output loop of GetPeginTxOutIndexAndAmount: no break, the last match wins *)
Fixpoint find_out (outs : list (N * bytes)) (script : bytes) (i : N) (acc : option (N * N)) : option (N * N) :=
  match outs with
  | [] => acc
  | (v, s) :: r => find_out r script (i + 1) (if bytes_eqb s script then Some (i mod two32, v) else acc)
  end.

(* transaction.NewTxInput: index masked unless it is MinusOne; default sequence; the rest nil *)
Definition new_index (idx : N) : N := if idx =? MinusOne then idx else N.land idx OutpointIndexMask.
(* NewTxInput(hash, idx) followed by IsPegin = true, PeginWitness = wit *)
Definition pegin_input (hash : bytes) (idx : N) (wit : list bytes) : txin :=
  mk_in hash (new_index idx) DefaultSequence [] [] true wit None [] [].

Inductive pegres (X : Type) := PgOk (x : X) | PgErr | PgPanic.
Arguments PgOk {X}. Arguments PgErr {X}. Arguments PgPanic {X}.

(* createPeginInput (with createPeginWitness inlined) *)
Definition create_pegin_input (asset genesis claim_script proof : bytes) (bv : option btc_view) : pegres (txin * N) :=
  match parse_merkle_block proof with
  | None => PgErr
  | Some (mb, _) =>
      match extract_mb mb with
      | None => PgErr
      | Some (root, ms) =>
          if negb (bytes_eqb (header_root (mb_header mb)) root) then PgErr
          else match bv with
          | None => PgErr
          | Some v =>
              match ms with
              | [m0] =>
                  if negb (bytes_eqb (bv_txid v) m0) then PgErr
                  else match find_out (bv_outs v) (bv_main_script v) 0 None with
                  | None => PgErr
                  | Some (idx, amount) =>
                      match asset with
                      | [] => PgPanic                       (* peggedAsset[1:] *)
                      | _ :: asset_tail =>
                          PgOk (pegin_input m0 idx
                                 [serialize_value amount; asset_tail; rev genesis; claim_script;
                                  bv_stripped v; proof], amount)
                      end
                  end
              | _ => PgErr
              end
          end
      end
  end.

Definition claim_out0 (asset claim_script : bytes) (v : N) : txout := mk_out asset (value_bytes v) claim_script [x00] [] [].
Definition claim_out1 (asset : bytes) (v : N) : txout := mk_out asset (value_bytes v) [] [x00] [] [].

(* the tail of Claim once the input is there; amount is uint64(amount) *)
Definition claim_tx (input : txin) (asset claim_script : bytes) (amount : N) (fee_of : N -> N) : tx :=
  let dummy := mk_tx 2 0 0 [input] [claim_out0 asset claim_script amount; claim_out1 asset 0] in
  let fee := fee_of (vsize dummy) in
  let final := (amount + two64 - fee) mod two64 in      (* uint64(amount) - feeValue *)
  mk_tx 2 0 0 [input] [claim_out0 asset claim_script final; claim_out1 asset fee].

(* after fix 858a1b0: a negative amount (uint64(amount) >= 2^63) or a fee above the amount is an error *)
Definition claim_fee (input : txin) (asset claim_script : bytes) (amount : N) (fee_of : N -> N) : N :=
  fee_of (vsize (mk_tx 2 0 0 [input] [claim_out0 asset claim_script amount; claim_out1 asset 0])).

Definition claim (asset genesis claim_script proof : bytes) (bv : option btc_view) (fee_of : N -> N) : pegres tx :=
  match create_pegin_input asset genesis claim_script proof bv with
  | PgOk (input, amount) =>
      if (0x8000000000000000 <=? amount) || (amount <? claim_fee input asset claim_script amount fee_of)
      then PgErr else PgOk (claim_tx input asset claim_script amount fee_of)
  | PgErr => PgErr
  | PgPanic => PgPanic
  end.

(* uint64(float64(vs) * (num / 2^k)), exact while vs * num < 2^53 *)
Definition fee_dyadic (num k vs : N) : N := ((vs * num) / 2 ^ k) mod two64.

(* ---------- entry points used by the model driver (distinctive names) ---------- *)
From GE Require Import Spec.PartialMerkle.
(* Bitcoin's builder on 32-byte ids with double SHA-256: the serialized merkle block *)
Definition mkl_build (header : bytes) (l : list (bytes * bool)) : option bytes :=
  match build bytes node_hash l with
  | None => None
  | Some (bits, hashes) => Some (ser_merkle_block (mk_mb header (lenL l) hashes (flags_of_bits bits)))
  end.
Definition mkl_root (l : list bytes) : option bytes := merkle_root bytes node_hash l.
Definition mkl_run (blob : bytes) : proof_result := run_proof blob.
Definition mkl_claim (asset genesis cs proof : bytes) (bv : option btc_view) (num k : N) : pegres tx :=
  claim asset genesis cs proof bv (fee_dyadic num k).
