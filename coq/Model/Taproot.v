(* Model/Taproot.v — taproot script trees, control blocks and key tweaks.
   Follows taproot/taproot.go (TapElementsLeaf.TapHash, tapElementsBranchHash,
   AssembleTaprootScriptTree, leafDescendants, ControlBlock.RootHash,
   TapscriptElementsProof.ToControlBlock, VerifyTaprootLeafCommitment,
   ParseControlBlock, TweakTaprootPrivKey, ComputeTaprootOutputKey), btcd
   txscript.ControlBlock.ToBytes / txscript.ParseControlBlock (which the wrapper
   calls) and the tap-leaf-script key pair of psetv2/input.go.
   Definitions only.

   Hashes.  TapHash() is a pure function of a node that Go recomputes on every
   call; the model stores its value in the node when the node is built
   (mk_leaf / mk_branch are the only constructors the algorithm uses) and
   Proofs/Taproot.v shows that the stored value is the recursively recomputed one
   (tap_hash) for every node the algorithm builds.

   Panics.  `toutcome` distinguishes a normal result, a Go run-time panic (index
   out of range) and fuel exhaustion of the merge loop; Proofs shows that neither
   of the last two is reachable.

   Elliptic curve.  Point operations are Section variables (Section EC); the
   executable instance used by the correspondence check receives the values that
   need curve arithmetic (x-only output key, parities) as oracle arguments. *)
From GE Require Export Lib.Bytes Lib.Varint Lib.Sha256.
From GE Require Import Gen.TaprootConsts.
Open Scope N_scope.

(* ---------- bytes.Compare ---------- *)
Fixpoint bytes_compare (a b : bytes) : comparison :=
  match a, b with
  | [], [] => Eq
  | [], _ :: _ => Lt
  | _ :: _, [] => Gt
  | x :: a', y :: b' =>
      match N.compare (n8 x) (n8 y) with
      | Eq => bytes_compare a' b'
      | c => c
      end
  end.

Definition bytes_gt (a b : bytes) : bool :=
  match bytes_compare a b with Gt => true | _ => false end.

(* ---------- tags (regenerated from taproot.go into Gen/TaprootConsts.v) ---------- *)
Definition tag_of (l : list Z) : bytes := map (fun z => b8 (Z.to_N z)) l.
Definition tag_leaf : bytes := tag_of g_TagTapLeafElements.
Definition tag_branch : bytes := tag_of g_TagTapBranchElements.
Definition tag_tweak : bytes := tag_of g_TagTapTweakElements.
Definition base_leaf_version : byte := b8 (Z.to_N g_BaseElementsLeafVersion).

(* ---------- leaves ---------- *)
Record tapleaf := mk_tapleaf {
  tlf_version : byte;        (* txscript.TapscriptLeafVersion (uint8) *)
  tlf_script : bytes
}.

(* BIP-340 tagged hash with the work that depends only on the tag done once:
   tagged_hash tag msg = SHA256(SHA256(tag) || SHA256(tag) || msg); the first 64-byte block
   is the same for every message, so its chaining value is a constant of the tag.
   Proofs/Taproot.v: tagged_from_mid (tag_prefix tag) (tag_mid tag) msg = tagged_hash tag msg. *)
Definition tag_prefix (tag : bytes) : bytes := let t := sha256 tag in t ++ t.
Definition tag_mid (tag : bytes) : list N := compress IV256 (tag_prefix tag).
Definition tagged_from_mid (pre : bytes) (mid : list N) (msg : bytes) : bytes :=
  let p := pad (pre ++ msg) in digest_of (blocks (length p / 64) mid (skipn 64 p)).

Definition leaf_pre : bytes := tag_prefix tag_leaf.
Definition leaf_mid : list N := tag_mid tag_leaf.
Definition branch_pre : bytes := tag_prefix tag_branch.
Definition branch_mid : list N := tag_mid tag_branch.
Definition tweak_pre : bytes := tag_prefix tag_tweak.
Definition tweak_mid : list N := tag_mid tag_tweak.

(* TapElementsLeaf.TapHash: tagged(TapLeaf/elements, version || compactsize(len script) || script) *)
Definition leaf_hash (l : tapleaf) : bytes :=
  tagged_from_mid leaf_pre leaf_mid (tlf_version l :: var_slice (tlf_script l)).

(* chainhash.TaggedHash(TagTapBranchElements, l, r) *)
Definition branch_hash_raw (l r : bytes) : bytes := tagged_from_mid branch_pre branch_mid (l ++ r).

(* ---------- toutcome ---------- *)
Inductive toutcome (A : Type) : Type :=
| Done (a : A)
| GoPanic
| OutOfFuel.
Arguments Done {A} a.
Arguments GoPanic {A}.
Arguments OutOfFuel {A}.

Definition tobind {A B} (x : toutcome A) (f : A -> toutcome B) : toutcome B :=
  match x with Done a => f a | GoPanic => GoPanic | OutOfFuel => OutOfFuel end.

(* s[i] = f(s[i]); index out of range panics *)
Fixpoint tupd {A} (i : nat) (f : A -> A) (l : list A) : toutcome (list A) :=
  match l, i with
  | [], _ => GoPanic
  | x :: r, O => Done (f x :: r)
  | x :: r, S i' => tobind (tupd i' f r) (fun r' => Done (x :: r'))
  end.

(* (s[:len-1], s[len-1]) *)
Fixpoint split_last {A} (l : list A) : option (list A * A) :=
  match l with
  | [] => None
  | [x] => Some ([], x)
  | x :: r => match split_last r with Some (i, y) => Some (x :: i, y) | None => None end
  end.

Section Tree.
  Variable LH : tapleaf -> bytes.            (* leaf hash *)
  Variable BHR : bytes -> bytes -> bytes.    (* tagged branch hash of l || r, before ordering *)

  (* tapElementsBranchHash: swap when bytes.Compare(l, r) > 0 *)
  Definition branch (l r : bytes) : bytes :=
    if bytes_gt l r then BHR r l else BHR l r.

  (* a txscript.TapNode together with the value its TapHash() returns *)
  Inductive tnode : Type :=
  | TLeaf (h : bytes) (l : tapleaf)
  | TBranch (h : bytes) (a b : tnode).

  Definition tnode_hash (n : tnode) : bytes :=
    match n with TLeaf h _ => h | TBranch h _ _ => h end.

  Definition mk_leaf (l : tapleaf) : tnode := TLeaf (LH l) l.
  Definition mk_branch (a b : tnode) : tnode := TBranch (branch (tnode_hash a) (tnode_hash b)) a b.

  (* what TapHash() recomputes *)
  Fixpoint tap_hash (n : tnode) : bytes :=
    match n with
    | TLeaf _ l => LH l
    | TBranch _ a b => branch (tap_hash a) (tap_hash b)
    end.

  (* leafDescendants *)
  Fixpoint leaves_of (n : tnode) : list tnode :=
    match n with
    | TLeaf _ _ => [n]
    | TBranch _ a b => leaves_of a ++ leaves_of b
    end.

  (* TapscriptElementsProof without the RootNode pointer (set for all at the end) *)
  Record proof_entry := mk_pe {
    pe_leaf : tapleaf;
    pe_proof : bytes          (* InclusionProof: 32-byte nodes appended one after the other *)
  }.
  Definition zero_entry : proof_entry := mk_pe (mk_tapleaf x00 []) [].
  Definition add_proof (h : bytes) (e : proof_entry) : proof_entry :=
    mk_pe (pe_leaf e) (pe_proof e ++ h).
  Definition set_leaf_add (l : tapleaf) (h : bytes) (e : proof_entry) : proof_entry :=
    mk_pe l (pe_proof e ++ h).

  (* LeafProofIndex map[chainhash.Hash]int: later assignments win, a miss reads 0 *)
  Definition index := list (bytes * nat).
  Fixpoint idx_get (ix : index) (h : bytes) : nat :=
    match ix with
    | [] => O
    | (k, v) :: r => if bytes_eqb k h then v else idx_get r h
    end.
  Fixpoint build_index (i : nat) (ls : list tapleaf) (ix : index) : index :=
    match ls with
    | [] => ix
    | l :: r => build_index (S i) r ((LH l, i) :: ix)
    end.

  (* a TapElementsBranch: its two children *)
  Definition tbranch := (tnode * tnode)%type.
  Definition bnode (b : tbranch) : tnode := mk_branch (fst b) (snd b).

  (* first loop of AssembleTaprootScriptTree *)
  Fixpoint pair_pass (ix : index) (i : nat) (ls : list tapleaf) (brs : list tbranch)
           (st : list proof_entry) : toutcome (list tbranch * list proof_entry) :=
    match ls with
    | [] => Done (brs, st)
    | [leaf] =>
        (* i == len(leaves)-1: merge with the last branch *)
        match split_last brs with
        | None => GoPanic                         (* branches[len(branches)-1] on empty *)
        | Some (ini, btm) =>
            let bt := bnode btm in
            let lf := mk_leaf leaf in
            let brs' := ini ++ [(bt, lf)] in
            tobind (tupd i (set_leaf_add leaf (tnode_hash bt)) st) (fun st1 =>
            tobind (tupd (idx_get ix (tnode_hash (fst btm))) (add_proof (tnode_hash lf)) st1) (fun st2 =>
            tobind (tupd (idx_get ix (tnode_hash (snd btm))) (add_proof (tnode_hash lf)) st2) (fun st3 =>
            Done (brs', st3))))
        end
    | l :: r :: rest =>
        let ln := mk_leaf l in
        let rn := mk_leaf r in
        tobind (tupd i (set_leaf_add l (tnode_hash rn)) st) (fun st1 =>
        tobind (tupd (S i) (set_leaf_add r (tnode_hash ln)) st1) (fun st2 =>
        pair_pass ix (S (S i)) rest (brs ++ [(ln, rn)]) st2))
    end.

  (* for _, leaf := range descendants { proofs[index[leaf.TapHash()]].InclusionProof += h } *)
  Fixpoint add_to_leaves (ix : index) (ds : list tnode) (h : bytes) (st : list proof_entry)
    : toutcome (list proof_entry) :=
    match ds with
    | [] => Done st
    | d :: r => tobind (tupd (idx_get ix (tnode_hash d)) (add_proof h) st) (add_to_leaves ix r h)
    end.

  (* second loop: FIFO merging of the branches; fuel = number of branches *)
  Fixpoint merge_phase (ix : index) (fuel : nat) (brs : list tbranch) (st : list proof_entry)
    : toutcome (option tnode * list proof_entry) :=
    match brs with
    | [] => Done (None, st)
    | [b] => Done (Some (bnode b), st)
    | l :: r :: rest =>
        match fuel with
        | O => OutOfFuel
        | S f =>
            let L := bnode l in
            let R := bnode r in
            tobind (add_to_leaves ix (leaves_of L) (tnode_hash R) st) (fun st1 =>
            tobind (add_to_leaves ix (leaves_of R) (tnode_hash L) st1) (fun st2 =>
            merge_phase ix f (rest ++ [(L, R)]) st2))
        end
    end.

  (* AssembleTaprootScriptTree: (RootNode, LeafMerkleProofs) *)
  Definition assemble (ls : list tapleaf) : toutcome (option tnode * list proof_entry) :=
    match ls with
    | [leaf] => Done (Some (mk_leaf leaf), [mk_pe leaf []])
    | _ =>
        let ix := build_index O ls [] in
        let st0 := repeat zero_entry (length ls) in
        tobind (pair_pass ix O ls [] st0) (fun p =>
        merge_phase ix (length (fst p)) (fst p) (snd p))
    end.

  (* ControlBlock.RootHash: numNodes = len(proof)/32 *)
  Fixpoint root_from (k : nat) (acc proof : bytes) : bytes :=
    match k with
    | O => acc
    | S k' => root_from k' (branch acc (firstn 32 proof)) (skipn 32 proof)
    end.
  Definition proof_root (proof : bytes) (leafh : bytes) : bytes :=
    root_from (length proof / 32)%nat leafh proof.
End Tree.


(* ---------- control blocks ---------- *)
Record cblock := mk_cblock {
  cb_key : bytes;          (* schnorr.SerializePubKey(InternalKey) *)
  cb_odd : bool;           (* OutputKeyYIsOdd *)
  cb_version : byte;       (* LeafVersion *)
  cb_proof : bytes         (* InclusionProof *)
}.

(* txscript.ControlBlock.ToBytes *)
Definition ser_cb (c : cblock) : bytes :=
  b8 (N.lor (n8 (cb_version c)) (if cb_odd c then 1 else 0)) :: cb_key c ++ cb_proof c.

Definition cb_base_size : nat := 33.
Definition cb_node_size : nat := 32.
Definition cb_max_size : nat := 33 + 32 * 128.

(* secp256k1 field prime and group order *)
Definition tap_p : Z := 0xFFFFFFFFFFFFFFFFFFFFFFFFFFFFFFFFFFFFFFFFFFFFFFFFFFFFFFFEFFFFFC2F%Z.
Definition tap_n : Z := 0xFFFFFFFFFFFFFFFFFFFFFFFFFFFFFFFEBAAEDCE6AF48A03BBFD25E8CD0364141%Z.

Fixpoint powmod_pos (b : Z) (e : positive) (m : Z) : Z :=
  match e with
  | xH => (b mod m)%Z
  | xO e' => let r := powmod_pos b e' m in ((r * r) mod m)%Z
  | xI e' => let r := powmod_pos b e' m in ((((r * r) mod m) * b) mod m)%Z
  end.

(* schnorr.ParsePubKey on 32 bytes: x < p and x^3 + 7 is a square mod p (Euler) *)
Definition x_on_curve (kx : bytes) : bool :=
  let x := Z.of_N (be_dec kx) in
  (Nat.eqb (length kx) 32) && (x <? tap_p)%Z &&
  (match ((tap_p - 1) / 2)%Z with
   | Zpos e => (powmod_pos ((x * x * x + 7) mod tap_p)%Z e tap_p =? 1)%Z
   | _ => false
   end).

(* txscript.ParseControlBlock (called by taproot.ParseControlBlock) *)
Definition parse_cb (liftable : bytes -> bool) (bs : bytes) : option cblock :=
  let n := length bs in
  if (n <? cb_base_size)%nat then None
  else if (cb_max_size <? n)%nat then None
  else if negb (Nat.eqb ((n - cb_base_size) mod cb_node_size) 0) then None
  else match bs with
       | [] => None
       | b0 :: rest =>
           let key := firstn 32 rest in
           if liftable key then
             Some (mk_cblock key (N.testbit (n8 b0) 0) (b8 (N.land (n8 b0) 0xfe)) (skipn 32 rest))
           else None
       end.

(* TapscriptElementsProof.ToControlBlock; the parity of the output key is computed
   on the curve (see Section EC) *)
Definition to_cb (e : proof_entry) (keyx : bytes) (odd : bool) : cblock :=
  mk_cblock keyx odd (tlf_version (pe_leaf e)) (pe_proof e).

(* ControlBlock.RootHash(revealedScript) *)
Definition cb_root (LH : tapleaf -> bytes) (BHR : bytes -> bytes -> bytes) (c : cblock) (script : bytes) : bytes :=
  proof_root BHR (cb_proof c) (LH (mk_tapleaf (cb_version c) script)).

(* ---------- psetv2 input key pair InputTapLeafScript (0x15) ---------- *)
(* serializer: KeyData = control block bytes, Value = script || leaf version of the leaf *)
Definition tapleaf_kv (l : tapleaf) (c : cblock) : bytes * bytes :=
  (ser_cb c, tlf_script l ++ [tlf_version l]).

Inductive kv_result := KvOk (l : tapleaf) (c : cblock) | KvErr | KvPanic.

Definition parse_tapleaf_kv (liftable : bytes -> bool) (key value : bytes) : kv_result :=
  if negb (Z.rem (Z.of_nat (length key) - 1) 32 =? 0)%Z then KvErr
  else match parse_cb liftable key with
       | None => KvErr
       | Some c =>
           match split_last value with
           | None => KvPanic                          (* kp.Value[len(kp.Value)-1] on empty *)
           | Some (script, ver) =>
               if negb (beqb (cb_version c) ver) then KvErr
               else KvOk (mk_tapleaf (cb_version c) script) c
           end
       end.

(* ---------- scalars ---------- *)
(* ModNScalar.SetBytes / SetByteSlice: big-endian, reduced mod n *)
Definition scalar_of_bytes (b : bytes) : Z := (Z.of_N (be_dec b) mod tap_n)%Z.
Definition scalar_to_bytes (z : Z) : bytes := be_enc 32 (Z.to_N z).

(* tagged(TapTweak/elements, xonly key || root) as a scalar *)
Definition tweak_hash (kx root : bytes) : bytes := tagged_from_mid tweak_pre tweak_mid (kx ++ root).
Definition tweak_scalar (kx root : bytes) : Z := scalar_of_bytes (tweak_hash kx root).

(* TweakTaprootPrivKey.  privKeyScalar := privKey.Key is a COPY of the caller's scalar
   (fix fefe606): Negate() and Add() work in place on the copy.
   Returns (returned key, caller's key afterwards).
   pk_odd / pkx: parity and x-only bytes of d*G (curve arithmetic: supplied). *)
Definition tweak_priv_with (TS : bytes -> bytes -> Z) (pk_odd : bool) (pkx : bytes) (d : Z) (root : bytes) : Z * Z :=
  let d1 := if pk_odd then ((tap_n - d) mod tap_n)%Z else d in
  let t := TS pkx root in
  let d2 := ((d1 + t) mod tap_n)%Z in
  (d2, d).
Definition tweak_priv := tweak_priv_with tweak_scalar.

(* ---------- curve-level functions over an abstract group ---------- *)
Section EC.
  Variable point : Type.
  Variable padd : point -> point -> point.
  Variable mulG : Z -> point.
  Variable lift_x : bytes -> option point.     (* schnorr.ParsePubKey: the even-y point *)
  Variable xonly : point -> bytes.             (* schnorr.SerializePubKey *)
  Variable odd_y : point -> bool.              (* SerializeCompressed()[0] == 0x03 *)
  Variable TS : bytes -> bytes -> Z.           (* tweak scalar *)
  Variable LH : tapleaf -> bytes.
  Variable BHR : bytes -> bytes -> bytes.

  (* ComputeTaprootOutputKey on the x-only bytes of the key; None = nil dereference
     (the error of ParsePubKey is dropped) *)
  Definition output_key_x (kx : bytes) (root : bytes) : option point :=
    match lift_x kx with
    | None => None
    | Some p0 => Some (padd p0 (mulG (TS (xonly p0) root)))
    end.
  Definition output_key (p : point) (root : bytes) : option point := output_key_x (xonly p) root.

  (* VerifyTaprootLeafCommitment: Some true = nil error *)
  Definition verify_commitment (c : cblock) (program script : bytes) : option bool :=
    match output_key_x (cb_key c) (cb_root LH BHR c script) with
    | None => None
    | Some q => Some (bytes_eqb (xonly q) program && Bool.eqb (cb_odd c) (odd_y q))
    end.

  (* ToControlBlock *)
  Definition to_control_block (e : proof_entry) (p : point) (root : bytes) : option cblock :=
    match output_key p root with
    | None => None
    | Some q => Some (to_cb e (xonly p) (odd_y q))
    end.

  (* TweakTaprootPrivKey with the public key computed on the curve *)
  Definition tweak_priv_ec (d : Z) (root : bytes) : Z * Z :=
    tweak_priv_with TS (odd_y (mulG d)) (xonly (mulG d)) d root.
End EC.

(* verdict of VerifyTaprootLeafCommitment given the output key computed by the curve
   library for (cb_key, model root): x-only bytes and parity *)
Definition verify_with_oracle (c : cblock) (program : bytes) (qx : bytes) (qodd : bool) : bool :=
  bytes_eqb qx program && Bool.eqb (cb_odd c) qodd.

(* ---------- executable instances ---------- *)
Definition assemble_c := assemble leaf_hash branch_hash_raw.
Definition cb_root_c := cb_root leaf_hash branch_hash_raw.
Definition branch_c := branch branch_hash_raw.
Definition parse_cb_c := parse_cb x_on_curve.
Definition parse_tapleaf_kv_c := parse_tapleaf_kv x_on_curve.
