(* Model/Alias.v — heap-level models (Lib/Heap.v) of every C18-anchored call site,
   following the Go code as it is now (after fix commits 39b15af and 7d6e201).
   Each model threads the heap through exactly the make / copy / append / index
   operations of the Go function; pure computations in between (SHA-256 mid-state,
   blech32 checksum, ConvertBits, base58check, varint) are the executable models of the
   other properties applied to what is READ from the heap at that point.
   The shapes the code had before the fixes are kept as `*_prefix` (used only by the
   Examples that show what the heap model catches).  Definitions only. *)
From GE Require Export Lib.Heap.
From GE Require Import Lib.Varint Lib.Sha256 Model.Blech32 Model.AddrCodecs Model.Address.
Open Scope nat_scope.

Module Al.

(* append(append([]T{}, a...), b...) — the idiom of the fixed sites *)
Definition concat2 (g : policy) (h : heap) (a b : slice) : heap * slice :=
  let '(h1, t) := go_lit h [] in
  let '(h2, t1) := go_append g h1 t (rd h1 a) in
  go_append g h2 t1 (rd h2 b).
(* append(a, b...) — the idiom before the fixes *)
Definition concat2_prefix (g : policy) (h : heap) (a b : slice) : heap * slice :=
  go_append g h a (rd h b).

(* ---------- transaction/issuance.go ---------- *)
(* ComputeAsset: buf := make([]byte, len(entropy)+32); copy(buf, entropy); MidState256(buf) *)
Definition compute_asset (h : heap) (e : slice) : heap * option slice :=
  if negb (s_len e =? 32) then (h, None) else
  let '(h1, buf) := go_make h (s_len e + 32) (s_len e + 32) in
  let '(h2, _) := go_copy h1 buf e in
  let '(h3, out) := go_lit h2 (midstate256 (rd h2 buf)) in
  (h3, Some out).
Definition compute_asset_prefix (g : policy) (h : heap) (e : slice) : heap * option slice :=
  if negb (s_len e =? 32) then (h, None) else
  let '(h1, buf) := go_append g h e (zeros 32) in
  let '(h2, out) := go_lit h1 (midstate256 (rd h1 buf)) in
  (h2, Some out).

(* ComputeReissuanceToken: buf := make(32); buf[0] = flag+1; buf = append(append([]byte{}, entropy...), buf...) *)
Definition compute_token (g : policy) (h : heap) (e : slice) (flag : N) : heap * option slice :=
  if negb (s_len e =? 32) then (h, None) else
  if negb ((flag =? 0) || (flag =? 1))%N then (h, None) else
  let '(h1, buf) := go_make h 32 32 in
  match go_set h1 buf 0 (b8 (flag + 1)) with
  | None => (h1, None)
  | Some h2 =>
      let '(h3, t2) := concat2 g h2 e buf in
      let '(h4, out) := go_lit h3 (midstate256 (rd h3 t2)) in
      (h4, Some out)
  end.

(* ---------- confidential/confidential.go ---------- *)
(* finalValueBlindingFactor: values := append(append([]uint64{}, InValues...), OutValues...)
   ([]uint64 arrays are byte arrays with 8 bytes per element; offsets/lengths in bytes).
   The result is the `values` slice handed to libsecp. *)
Definition final_vbf_values (g : policy) (h : heap) (inv outv : slice) : heap * slice := concat2 g h inv outv.
(* rangeProof: message := append(append([]byte{}, Asset...), AssetBlindingFactor...) *)
Definition range_proof_message (g : policy) (h : heap) (asset abf : slice) : heap * slice := concat2 g h asset abf.

(* ---------- blech32/blech32.go ---------- *)
(* Encode: combined := append(append([]byte{}, data...), checksum...); toChars(combined) *)
Definition b32_encode (g : policy) (h : heap) (hrp : bytes) (data : slice) (enc : N) : heap * option slice :=
  let '(h1, ck) := go_lit h (B32.create_checksum hrp (rd h data) enc) in
  let '(h2, combined) := concat2 g h1 data ck in
  match B32.to_chars (rd h2 combined) with
  | None => (h2, None)
  | Some cs => let '(h3, out) := go_lit h2 (hrp ++ [B32.sep] ++ cs) in (h3, Some out)
  end.
Definition b32_encode_prefix (g : policy) (h : heap) (hrp : bytes) (data : slice) (enc : N) : heap * option slice :=
  let '(h1, ck) := go_lit h (B32.create_checksum hrp (rd h data) enc) in
  let '(h2, combined) := concat2_prefix g h1 data ck in
  match B32.to_chars (rd h2 combined) with
  | None => (h2, None)
  | Some cs => let '(h3, out) := go_lit h2 (hrp ++ [B32.sep] ++ cs) in (h3, Some out)
  end.

(* Decode: decoded := make([]byte, 0, n) filled by appends (toBytes); data := decoded[:n-12];
   checksum := decoded[n-12:]; verifyChecksum(hrp, append(data, checksum...), enc): this append
   lands IN PLACE on the local array and rewrites the checksum with itself.
   Returns (hrp, data slice); the 12 checksum symbols stay behind it as spare capacity. *)
Inductive dres := DOk (hrp : bytes) (data : slice) | DErr | DPanic.
Definition b32_decode (g : policy) (h : heap) (s : bytes) : heap * dres :=
  match B32.decode_generic s with
  | B32.GErr => (h, DErr)
  | B32.GPanic => (h, DPanic)
  | B32.GOk hrp data checksum =>
      let n := length data + length checksum in
      let '(h1, d0) := go_make h 0 n in
      let '(h2, decoded) := go_append g h1 d0 (data ++ checksum) in
      match go_sub decoded 0 (n - 12), go_sub decoded (n - 12) n with
      | Some sdata, Some sck =>
          match rd h2 sdata with
          | [] => (h2, DErr)
          | v :: _ =>
              match B32.encoding_of_version v with
              | None => (h2, DErr)
              | Some enc =>
                  let '(h3, all) := go_append g h2 sdata (rd h2 sck) in
                  if B32.verify_checksum hrp (rd h3 all) enc then (h3, DOk hrp sdata) else (h3, DErr)
              end
          end
      | _, _ => (h2, DPanic)
      end
  end.

(* ---------- address/address.go ---------- *)
(* ToBase58Confidential: data := append([]byte{version}, PublicKey...); data = append(data, Data...) *)
Definition to_base58_conf (g : policy) (h : heap) (ver cver : byte) (pk data : slice) : heap * slice :=
  let '(h1, t) := go_lit h [ver] in
  let '(h2, t1) := go_append g h1 t (rd h1 pk) in
  let '(h3, t2) := go_append g h2 t1 (rd h2 data) in
  go_lit h3 (XC.check_encode (rd h3 t2) cver).

(* ToBlech32 *)
Definition to_blech32_gen (cat : policy -> heap -> slice -> slice -> heap * slice)
           (g : policy) (h : heap) (prefix : bytes) (v : byte) (pk prog : slice) : heap * option slice :=
  let '(h1, kp) := cat g h pk prog in
  match B32.convert_bits (rd h1 kp) 8 5 true with
  | None => (h1, None)
  | Some conv =>
      let '(h2, converted) := go_lit h1 conv in
      let '(h3, combined) := go_make h2 (length conv + 1) (length conv + 1) in
      match go_set h3 combined 0 v, go_sub combined 1 (s_len combined) with
      | Some h4, Some tail =>
          let '(h5, _) := go_copy h4 tail converted in
          match B32.encoding_of_version v with
          | None => (h5, None)
          | Some enc =>
              match b32_encode g h5 prefix combined enc with
              | (h6, None) => (h6, None)
              | (h6, Some addr) =>
                  match Addr.from_blech32 (rd h6 addr) with
                  | Addr.Ok (_, v', k', p') =>
                      (* blech.PublicKey = regrouped[:33], blech.Program = regrouped[33:] *)
                      let '(h7, rg) := go_lit h6 (k' ++ p') in
                      match go_sub rg 0 33, go_sub rg 33 (s_len rg) with
                      | Some bk, Some bp =>
                          let '(h8, blech_data) := cat g h7 bk bp in
                          let '(h9, bl_data) := cat g h8 pk prog in
                          if Byte.eqb v' v && bytes_eqb (rd h9 blech_data) (rd h9 bl_data)
                          then (h9, Some addr) else (h9, None)
                      | _, _ => (h7, None)
                      end
                  | _ => (h6, None)
                  end
              end
          end
      | _, _ => (h3, None)
      end
  end.
Definition to_blech32 := to_blech32_gen concat2.
Definition to_blech32_prefix := to_blech32_gen concat2_prefix.

(* ---------- psetv2/input.go getKeyPairs: tap emitters ---------- *)
(* for _, s := range TapScriptSig { KeyData: append(append([]byte{}, s.PubKey...), s.LeafHash...) }
   All pairs are built first and serialized afterwards: the KeyData slices are read at the end. *)
Fixpoint tap_script_sigs_gen (cat : policy -> heap -> slice -> slice -> heap * slice)
         (g : policy) (h : heap) (sigs : list (slice * slice)) : heap * list slice :=
  match sigs with
  | [] => (h, [])
  | (pk, leaf) :: r =>
      let '(h1, kd) := cat g h pk leaf in
      let '(h2, kds) := tap_script_sigs_gen cat g h1 r in
      (h2, kd :: kds)
  end.
Definition tap_script_sigs := tap_script_sigs_gen concat2.
Definition tap_script_sigs_prefix := tap_script_sigs_gen concat2_prefix.

(* Value: append(append([]byte{}, leaf.Script...), byte(leaf.LeafVersion)) *)
Definition append_byte (g : policy) (h : heap) (s : slice) (b : byte) : heap * slice :=
  let '(h1, t) := go_lit h [] in
  let '(h2, t1) := go_append g h1 t (rd h1 s) in
  go_append g h2 t1 [b].
Definition append_byte_prefix (g : policy) (h : heap) (s : slice) (b : byte) : heap * slice :=
  go_append g h s [b].
Fixpoint tap_leaf_scripts_gen (ab : policy -> heap -> slice -> byte -> heap * slice)
         (g : policy) (h : heap) (leaves : list (slice * byte)) : heap * list slice :=
  match leaves with
  | [] => (h, [])
  | (scr, ver) :: r =>
      let '(h1, v) := ab g h scr ver in
      let '(h2, vs) := tap_leaf_scripts_gen ab g h1 r in
      (h2, v :: vs)
  end.
Definition tap_leaf_scripts := tap_leaf_scripts_gen append_byte.
Definition tap_leaf_scripts_prefix := tap_leaf_scripts_gen append_byte_prefix.

(* ---------- psetv2 Input.GetUtxo ---------- *)
(* TxOutput objects live in an object store (a pointer is an index); only the RangeProof
   field matters here, the other five slice headers are carried along. *)
Record txo := mk_txo { txo_rest : list slice; txo_rp : slice }.
Definition ostore := list txo.
Record v2in := mk_v2in {
  i_witness_utxo : option nat;            (* *TxOutput *)
  i_nonwitness_outs : option (list nat);  (* NonWitnessUtxo.Outputs *)
  i_prev_index : nat;
  i_utxo_rp : slice                       (* UtxoRangeProof *)
}.
Inductive gres := GNil | GPtr (p : nat) | GPanic.
Definition pick_utxo (i : v2in) : gres :=
  match i_witness_utxo i, i_nonwitness_outs i with
  | None, None => GNil
  | Some p, _ => GPtr p
  | None, Some outs => match nth_error outs (i_prev_index i) with Some p => GPtr p | None => GPanic end
  end.
(* now: withProof := *utxo; withProof.RangeProof = i.UtxoRangeProof; return &withProof *)
Definition get_utxo (os : ostore) (i : v2in) : ostore * gres :=
  match pick_utxo i with
  | GPtr p =>
      match nth_error os p with
      | Some u => (os ++ [mk_txo (txo_rest u) (i_utxo_rp i)], GPtr (length os))
      | None => (os, GPanic)
      end
  | r => (os, r)
  end.
Fixpoint set_nth {A} (l : list A) (k : nat) (x : A) : list A :=
  match l, k with
  | [], _ => []
  | _ :: t, O => x :: t
  | y :: t, S k' => y :: set_nth t k' x
  end.
(* before 7d6e201: utxo.RangeProof = i.UtxoRangeProof; return utxo *)
Definition get_utxo_prefix (os : ostore) (i : v2in) : ostore * gres :=
  match pick_utxo i with
  | GPtr p =>
      match nth_error os p with
      | Some u => (set_nth os p (mk_txo (txo_rest u) (i_utxo_rp i)), GPtr p)
      | None => (os, GPanic)
      end
  | r => (os, r)
  end.

(* ---------- elementsutil/elementsutil.go ---------- *)
(* the swap loop of ReverseBytes: for i := len/2 - 1; i >= 0; i-- { tmp[i], tmp[j] = tmp[j], tmp[i] } *)
Fixpoint rev_loop (h : heap) (tmp : slice) (k : nat) : option heap :=
  match k with
  | O => Some h
  | S i =>
      let j := s_len tmp - 1 - i in
      match go_get h tmp i, go_get h tmp j with
      | Some bi, Some bj =>
          match go_set h tmp i bj with
          | Some h1 => match go_set h1 tmp j bi with Some h2 => rev_loop h2 tmp i | None => None end
          | None => None
          end
      | _, _ => None
      end
  end.
(* ReverseBytes: an empty argument is returned as is (the result aliases the argument) *)
Definition reverse_bytes (h : heap) (buf : slice) : heap * option slice :=
  if s_len buf <? 1 then (h, Some buf) else
  let '(h1, tmp) := go_make h (s_len buf) (s_len buf) in
  let '(h2, _) := go_copy h1 tmp buf in
  match rev_loop h2 tmp (s_len tmp / 2) with
  | Some h3 => (h3, Some tmp)
  | None => (h2, None)
  end.
Inductive vres := VOk (v : N) | VErr | VPanic.
(* ValueFromBytes *)
Definition value_from_bytes (h : heap) (val : slice) : heap * vres :=
  if negb (s_len val =? 9) then (h, VErr) else
  match go_get h val 0 with
  | None => (h, VPanic)
  | Some b0 =>
      if negb (n8 b0 =? 1)%N then (h, VErr) else
      match go_sub val 1 (s_len val) with
      | None => (h, VPanic)
      | Some tl =>
          match reverse_bytes h tl with
          | (h1, Some r) => (h1, VOk (le_dec (rd h1 r)))
          | (h1, None) => (h1, VPanic)
          end
      end
  end.
(* AssetHashFromBytes: ReverseBytes(buffer[1:]) (hex of the result) *)
Definition asset_hash_from_bytes (h : heap) (buf : slice) : heap * option slice :=
  match go_sub buf 1 (s_len buf) with
  | None => (h, None)                       (* slice bounds out of range: panic *)
  | Some tl => reverse_bytes h tl
  end.
(* TxIDFromBytes: ReverseBytes(buffer) *)
Definition txid_from_bytes (h : heap) (buf : slice) : heap * option slice := reverse_bytes h buf.

(* ---------- internal/bufferutil Serializer ---------- *)
(* the serializer owns a bytes.Buffer; Write(p) is buf = append(buf, p...) on its own array;
   integers go through an 8-byte scratch buffer of the free list (Model/FreeList.v) *)
Definition ser_new (h : heap) : heap * slice := go_lit h [].
Definition ser_write_slice (g : policy) (h : heap) (sb val : slice) : heap * slice :=
  go_append g h sb (rd h val).
Definition ser_write_varint (g : policy) (h : heap) (sb : slice) (n : N) : heap * slice :=
  let '(h1, scratch) := go_lit h (varint n) in
  go_append g h1 sb (rd h1 scratch).
Definition ser_write_var_slice (g : policy) (h : heap) (sb val : slice) : heap * slice :=
  let '(h1, sb1) := ser_write_varint g h sb (N.of_nat (s_len val)) in
  ser_write_slice g h1 sb1 val.
Fixpoint ser_write_items (g : policy) (h : heap) (sb : slice) (v : list slice) : heap * slice :=
  match v with
  | [] => (h, sb)
  | x :: r => let '(h1, sb1) := ser_write_var_slice g h sb x in ser_write_items g h1 sb1 r
  end.
Definition ser_write_vector (g : policy) (h : heap) (sb : slice) (v : list slice) : heap * slice :=
  let '(h1, sb1) := ser_write_varint g h sb (N.of_nat (length v)) in
  ser_write_items g h1 sb1 v.
(* NewSerializer(nil); WriteVector(v); Bytes() *)
Definition ser_vector (g : policy) (h : heap) (v : list slice) : heap * slice :=
  let '(h1, sb) := ser_new h in ser_write_vector g h1 sb v.

(* ---------- Transaction.Copy at heap level ---------- *)
(* A transaction reaches its bytes through a tree of slices (inputs: hash, script, witness
   items, peg-in witness items, two range proofs, four issuance fields; outputs: six
   fields).  Copy() applies copyBytes (make + copy) to every one of them, so at heap level
   it is a map over the leaves in traversal order; the tree shape plays no role in aliasing. *)
Definition copy_bytes (h : heap) (src : slice) : heap * slice :=
  let '(h1, dst) := go_make h (s_len src) (s_len src) in
  let '(h2, _) := go_copy h1 dst src in (h2, dst).
Fixpoint copy_all (h : heap) (l : list slice) : heap * list slice :=
  match l with
  | [] => (h, [])
  | s :: r => let '(h1, d) := copy_bytes h s in let '(h2, ds) := copy_all h1 r in (h2, d :: ds)
  end.
Definition read_all (h : heap) (l : list slice) : list bytes := map (rd h) l.
(* the shape of the mutant "copy(newInput.Witness, input.Witness)": slice HEADERS are copied *)
Definition shallow_copy_all (h : heap) (l : list slice) : heap * list slice := (h, l).

(* ---------- taproot.TweakTaprootPrivKey ---------- *)
(* privKeyScalar := privKey.Key copies the 32-byte scalar VALUE; Negate() and Add() then work in
   place on that copy.  The arithmetic is the model of C16 (Model/Taproot.v tweak_priv); here only
   the write pattern: `result` (the scalar after negate/add) is stored into the working scalar. *)
Definition tweak_priv_writes (h : heap) (key : slice) (result : bytes) : heap * slice :=
  let '(h1, work) := copy_bytes h key in
  let '(h2, r) := go_lit h1 result in
  let '(h3, _) := go_copy h2 work r in (h3, work).
(* before fefe606: privKeyScalar := &privKey.Key, the in-place operations hit the caller's key *)
Definition tweak_priv_writes_prefix (h : heap) (key : slice) (result : bytes) : heap * slice :=
  let '(h1, r) := go_lit h result in
  let '(h2, _) := go_copy h1 key r in (h2, key).

(* ---------- package-level values ---------- *)
(* every exported package-level var of slice / array / struct-with-array type in the
   non-test packages of the library; in the model they are arrays of the initial heap *)
Definition of_codes (l : list N) : bytes := map b8 l.
Definition pkg_tx_one : bytes := zeros 31 ++ [x01].                  (* transaction.One  [32]byte *)
Definition pkg_tx_zero : bytes := zeros 32.                          (* transaction.Zero [32]byte *)
Definition pkg_max_conf_value : bytes := repeat xff 8.               (* transaction.MaxConfidentialValue *)
Definition pkg_conf_zero : bytes := zeros 32.                        (* confidential.Zero (psetv2 zeroBlinder is the same shape) *)
Definition pkg_tag_leaf : bytes := of_codes [84; 97; 112; 76; 101; 97; 102; 47; 101; 108; 101; 109; 101; 110; 116; 115]%N.  (* taproot "TapLeaf/elements" *)
Definition pkg_tag_branch : bytes := of_codes [84; 97; 112; 66; 114; 97; 110; 99; 104; 47; 101; 108; 101; 109; 101; 110; 116; 115]%N.  (* taproot "TapBranch/elements" *)
Definition pkg_tag_sighash : bytes := of_codes [84; 97; 112; 83; 105; 103; 104; 97; 115; 104; 47; 101; 108; 101; 109; 101; 110; 116; 115]%N.  (* taproot "TapSighash/elements" *)
Definition pkg_tag_tweak : bytes := of_codes [84; 97; 112; 84; 119; 101; 97; 107; 47; 101; 108; 101; 109; 101; 110; 116; 115]%N.  (* taproot "TapTweak/elements" *)
Definition pkg_liquid_hdpub : bytes := of_codes [4; 136; 178; 30]%N.
Definition pkg_liquid_hdprv : bytes := of_codes [4; 136; 173; 228]%N.
Definition pkg_regtest_hdpub : bytes := of_codes [4; 53; 135; 207]%N.
Definition pkg_regtest_hdprv : bytes := of_codes [4; 53; 131; 148]%N.
Definition pkg_testnet_hdpub : bytes := of_codes [4; 53; 135; 207]%N.
Definition pkg_testnet_hdprv : bytes := of_codes [4; 53; 131; 148]%N.
Definition pkg_globals : heap :=
  [pkg_tx_one; pkg_tx_zero; pkg_max_conf_value; pkg_conf_zero;
   pkg_tag_leaf; pkg_tag_branch; pkg_tag_sighash; pkg_tag_tweak;
   pkg_liquid_hdpub; pkg_liquid_hdprv; pkg_regtest_hdpub; pkg_regtest_hdprv; pkg_testnet_hdpub; pkg_testnet_hdprv].

(* what the caller can see of its arguments: each argument's WHOLE array
   (in front of the slice, the slice, and its spare capacity) *)
Definition caller_view (h : heap) (args : list slice) : list bytes := map (fun s => arr h (s_arr s)) args.

End Al.
