(* Model/Unblind.v — blinding / unblinding wrappers of confidential/confidential.go and
   confidential/zkp_generator.go (NonceHash, AssetCommitment, ValueCommitment, RangeProof,
   VerifyRangeProof, unblindOutput, UnblindOutputWithKey, UnblindOutputWithNonce,
   UnblindIssuance, and the per-output / per-issuance blinding sequence of BlindOutputs /
   BlindIssuances / LastValueRangeProof).

   The primitives of libsecp256k1-zkp (and crypto/sha256 as used by nonceHash) are the
   fields of the record [prims]; the wrappers are plain functions of a [prims] value.
   Proofs/Unblind.v states the laws of the primitives as Section hypotheses; the
   executable instance used by the correspondence check is [oracle_prims] at the end of
   this file (hash = the executable SHA-256, forward primitives = recorded input/output
   of the real primitives, rewind/verify = the ideal inverse of the recorded signing
   calls).  Definitions only. *)
From GE Require Export Lib.Bytes Lib.Sha256 Model.Tx.
Open Scope N_scope.

(* ---------- primitives ---------- *)
Record prims (G C : Type) := mk_prims {
  p_hash : bytes -> bytes;                       (* sha256.Sum256 *)
  p_ecdh : bytes -> bytes -> option bytes;       (* EcPubkeyParse(pub) then Ecdh(pub, priv) *)
  p_gen_parse : bytes -> option G;               (* GeneratorParse / GeneratorFromBytes *)
  p_gen_ser : G -> bytes;                        (* Generator.Bytes *)
  p_gen_generate : bytes -> option G;            (* GeneratorGenerate(seed) *)
  p_gen_blinded : bytes -> bytes -> option G;    (* GeneratorGenerateBlinded(seed, blind) *)
  p_commit_parse : bytes -> option C;            (* CommitmentParse *)
  p_commit_ser : C -> bytes;                     (* Commitment.Bytes *)
  p_commit : bytes -> N -> G -> option C;        (* Commit(blind, value, gen) *)
  (* RangeProofSign(minValue, commit, blind, nonce, exp, minBits, value, message, extraCommit, gen) *)
  p_sign : N -> C -> bytes -> bytes -> Z -> Z -> N -> bytes -> bytes -> G -> option bytes;
  (* RangeProofRewind(commit, proof, nonce, extraCommit, gen) = (blind, value, message) *)
  p_rewind : C -> bytes -> bytes -> bytes -> G -> option (bytes * N * bytes);
  (* RangeProofVerify(proof, commit, extraCommit, gen) *)
  p_verify : C -> bytes -> bytes -> G -> bool
}.
Arguments p_hash {G C}. Arguments p_ecdh {G C}. Arguments p_gen_parse {G C}.
Arguments p_gen_ser {G C}. Arguments p_gen_generate {G C}. Arguments p_gen_blinded {G C}.
Arguments p_commit_parse {G C}. Arguments p_commit_ser {G C}. Arguments p_commit {G C}.
Arguments p_sign {G C}. Arguments p_rewind {G C}. Arguments p_verify {G C}.

(* outcome of a wrapper that can return an error or hit a Go slice expression out of range *)
Inductive ures (A : Type) := UOk (a : A) | UErr | UPanic.
Arguments UOk {A}. Arguments UErr {A}. Arguments UPanic {A}.

Definition ub_zero32 : bytes := repeat x00 32.

(* copy(dst[:n], src) into a zeroed [n]byte *)
Definition ub_fit (n : nat) (bs : bytes) : bytes := firstn n (bs ++ repeat x00 n).

Definition ub_obind {A B} (o : option A) (f : A -> option B) : option B :=
  match o with Some a => f a | None => None end.

(* UnblindOutputResult *)
Record unb_result := mk_unb {
  u_value : N;
  u_asset : bytes;
  u_vbf : bytes;      (* ValueBlindingFactor *)
  u_abf : bytes       (* AssetBlindingFactor *)
}.

(* RangeProofArgs; Nonce and ValueBlindFactor are [32]byte in Go *)
Record rp_args := mk_rpa {
  ra_value : N;
  ra_nonce : bytes;
  ra_asset : bytes;
  ra_abf : bytes;
  ra_vbf : bytes;
  ra_vcommit : bytes;
  ra_script : bytes;
  ra_exp : Z;
  ra_minbits : Z
}.

Definition UB_OP_RETURN : N := 0x6a.
Definition ub_maxScriptSize : N := 10000.

(* isUnSpendable *)
Definition is_unspendable (script : bytes) : bool :=
  match script with
  | [] => true
  | b :: _ => (n8 b =? UB_OP_RETURN) || (ub_maxScriptSize <? lenN script)
  end.

(* RangeProofArgs.minValue / exp / minBits *)
Definition ra_min_value (a : rp_args) : N :=
  if ra_value a =? 0 then 0 else if is_unspendable (ra_script a) then 0 else 1.
Definition ra_exp_eff (a : rp_args) : Z :=
  if ((ra_exp a <? -1) || (18 <? ra_exp a))%Z then 0%Z else ra_exp a.
Definition ra_minbits_eff (a : rp_args) : Z :=
  if (ra_minbits a <=? 0)%Z then 52%Z else ra_minbits a.

(* elementsutil.ValueFromBytes *)
Definition value_from_bytes (v : bytes) : option N :=
  match v with
  | p :: r => if (length v =? 9)%nat && (n8 p =? 1) then Some (be_dec r) else None
  | [] => None
  end.

Section Wrappers.
Context {G C : Type} (P : prims G C).

(* nonceHash *)
Definition nonce_hash (pub priv : bytes) : option bytes :=
  option_map (p_hash P) (p_ecdh P pub priv).

(* outAssetGenerator / assetCommitment *)
Definition asset_commitment (asset factor : bytes) : option bytes :=
  option_map (p_gen_ser P) (p_gen_blinded P asset factor).

(* valueCommitment *)
Definition value_commitment (value : N) (generator factor : bytes) : option bytes :=
  ub_obind (p_gen_parse P generator) (fun g =>
  option_map (p_commit_ser P) (p_commit P factor value g)).

(* rangeProof *)
Definition range_proof (a : rp_args) : option bytes :=
  ub_obind (p_gen_blinded P (ra_asset a) (ra_abf a)) (fun g =>
  let message := ra_asset a ++ ra_abf a in
  ub_obind (p_commit_parse P (ra_vcommit a)) (fun c =>
  p_sign P (ra_min_value a) c (ra_vbf a) (ra_nonce a) (ra_exp_eff a) (ra_minbits_eff a)
         (ra_value a) message (ra_script a) g)).

(* verifyRangeProof *)
Definition verify_range_proof (vcommit acommit script proof : bytes) : bool :=
  match p_commit_parse P vcommit with
  | None => false
  | Some c => match p_gen_parse P acommit with
              | None => false
              | Some g => p_verify P c proof script g
              end
  end.

(* unblindOutput *)
Definition unblind_output (o : txout) (nonce : bytes) : ures unb_result :=
  if (length (o_rp o) =? 0)%nat then UErr else
  match p_commit_parse P (o_value o) with
  | None => UErr
  | Some c =>
    match (if (length (o_asset o) =? 33)%nat then p_gen_parse P (o_asset o)
           else p_gen_generate P (o_asset o)) with
    | None => UErr
    | Some g =>
      match p_rewind P c (o_rp o) nonce (o_script o) g with
      | None => UErr
      | Some (vbf, v, message) =>
          if (length message <? 32)%nat then UPanic      (* message[:32] *)
          else UOk (mk_unb v (firstn 32 message) vbf (skipn 32 message))
      end
    end
  end.

(* the !out.IsConfidential() branch shared by UnblindOutputWithKey / WithNonce *)
Definition unblind_explicit (o : txout) : ures unb_result :=
  match value_from_bytes (o_value o) with
  | None => UErr
  | Some v => match o_asset o with
              | [] => UPanic                            (* out.Asset[1:] *)
              | _ :: a => UOk (mk_unb v a ub_zero32 ub_zero32)
              end
  end.

Definition unblind_with_key (o : txout) (blind_key : bytes) : ures unb_result :=
  if negb (is_conf_out o) then unblind_explicit o else
  match nonce_hash (o_nonce o) blind_key with
  | None => UErr
  | Some nonce => unblind_output o nonce
  end.

Definition unblind_with_nonce (o : txout) (nonce : bytes) : ures unb_result :=
  if negb (is_conf_out o) then unblind_explicit o else unblind_output o (ub_fit 32 nonce).

(* ---------- issuance ids (transaction/issuance.go) ---------- *)
Definition ub_is_reissuance (s : issuance) : bool := negb (bytes_eqb (iss_nonce s) ub_zero32).
Definition has_token_amount (s : issuance) : bool := (1 <? length (iss_token s))%nat.

Definition ub_compute_entropy (hash : bytes) (index : N) (contract : bytes) : option bytes :=
  if (length hash =? 32)%nat
  then Some (midstate256 (dsha256 (hash ++ le_enc 4 index) ++ contract))
  else None.
Definition ub_compute_asset (entropy : bytes) : option bytes :=
  if (length entropy =? 32)%nat then Some (midstate256 (entropy ++ ub_zero32)) else None.
Definition ub_compute_token (entropy : bytes) (flag : N) : option bytes :=
  if (length entropy =? 32)%nat
  then Some (midstate256 (entropy ++ b8 (flag + 1) :: repeat x00 31))
  else None.

(* NewTxIssuanceFromInput: the entropy the ids are derived from *)
Definition issuance_entropy (i : txin) (s : issuance) : option bytes :=
  if ub_is_reissuance s then Some (iss_entropy s)
  else ub_compute_entropy (in_hash i) (in_index i) (iss_entropy s).
Definition calc_asset_hash (i : txin) (s : issuance) : option bytes :=
  ub_obind (issuance_entropy i s) ub_compute_asset.
Definition calc_token_hash (i : txin) (s : issuance) : option bytes :=
  ub_obind (issuance_entropy i s) (fun e => ub_compute_token e 1).

(* one iteration of the loop of unblindIssuance *)
Definition unblind_issuance_amount (o : txout) (key : bytes) : ures unb_result :=
  match unblind_output o (ub_fit 32 key) with
  | UOk u => UOk (mk_unb (u_value u) (o_asset o) (u_vbf u) ub_zero32)
  | UErr => UErr
  | UPanic => UPanic
  end.

(* unblindIssuance *)
Definition unblind_issuance (i : txin) (blind_keys : list bytes) : ures (unb_result * option unb_result) :=
  match blind_keys with
  | [] | [_] => UErr
  | k0 :: k1 :: _ =>
    match in_iss i with
    | None => UErr
    | Some s =>
      if (length (in_irp i) =? 0)%nat then UErr else
      if has_token_amount s && (length (in_inrp i) =? 0)%nat then UErr else
      match calc_asset_hash i s with
      | None => UErr
      | Some asset =>
        let oa := mk_out asset (iss_amount s) [] [] (in_irp i) [] in
        if has_token_amount s then
          match calc_token_hash i s with
          | None => UErr
          | Some token =>
            let ot := mk_out token (iss_token s) [] [] (in_inrp i) [] in
            match unblind_issuance_amount oa k0 with
            | UOk ua => match unblind_issuance_amount ot k1 with
                        | UOk ut => UOk (ua, Some ut)
                        | UErr => UErr
                        | UPanic => UPanic
                        end
            | UErr => UErr
            | UPanic => UPanic
            end
          end
        else
          match unblind_issuance_amount oa k0 with
          | UOk ua => UOk (ua, None)
          | UErr => UErr
          | UPanic => UPanic
          end
      end
    end
  end.

(* ---------- the blinding sequences of zkp_generator.go ---------- *)
Record ub_blinded := mk_bl {
  bl_asset : bytes;    (* asset commitment *)
  bl_value : bytes;    (* value commitment *)
  bl_nonce : bytes;    (* ecdh nonce handed to RangeProof *)
  bl_proof : bytes
}.

(* BlindOutputs, one output: AssetCommitment, ValueCommitment, NonceHash(out.BlindingPubkey,
   ephemeral key), RangeProof{..., Exp, MinBits} *)
Definition blind_output (value : N) (asset abf vbf script blinding_pub eph_priv : bytes)
           (exp minbits : Z) : option ub_blinded :=
  ub_obind (asset_commitment asset abf) (fun ac =>
  ub_obind (value_commitment value ac vbf) (fun vc =>
  ub_obind (nonce_hash blinding_pub eph_priv) (fun nonce =>
  ub_obind (range_proof (mk_rpa value nonce asset abf (ub_fit 32 vbf) vc script exp minbits)) (fun proof =>
  Some (mk_bl ac vc nonce proof))))).

(* the transaction output carrying a ub_blinded amount *)
Definition out_of_blinded (b : ub_blinded) (script eph_pub sp : bytes) : txout :=
  mk_out (bl_asset b) (bl_value b) script eph_pub (bl_proof b) sp.

(* BlindIssuances, one amount (asset or token): AssetCommitment(id, Zero), ValueCommitment,
   RangeProof{Nonce: blinding key, AssetBlindingFactor: Zero, ScriptPubkey: empty, Exp 0, MinBits 52} *)
Definition blind_issuance_amount (value : N) (asset vbf key : bytes) : option ub_blinded :=
  ub_obind (asset_commitment asset ub_zero32) (fun ac =>
  ub_obind (value_commitment value ac vbf) (fun vc =>
  ub_obind (range_proof (mk_rpa value (ub_fit 32 key) asset ub_zero32 (ub_fit 32 vbf) vc [] 0%Z 52%Z)) (fun proof =>
  Some (mk_bl ac vc (ub_fit 32 key) proof)))).

(* LastValueRangeProof *)
Definition last_value_range_proof (value : N) (asset abf vcommit vbf script nonce : bytes) : option bytes :=
  range_proof (mk_rpa value (ub_fit 32 nonce) asset abf (ub_fit 32 vbf) vcommit script 0%Z 52%Z).

End Wrappers.

(* ---------- executable instance for the correspondence check ---------- *)
(* Recorded input/output of the real primitives (computed by the harness with direct calls
   of go-secp256k1-zkp, outside the repository); a result of None records that the
   primitive returned an error, an absent entry is treated the same way. *)
Record sign_entry := mk_se {
  se_min : N; se_commit : bytes; se_vbf : bytes; se_nonce : bytes; se_exp : Z; se_mb : Z;
  se_value : N; se_msg : bytes; se_extra : bytes; se_gen : bytes; se_proof : option bytes
}.
Record ub_oracle := mk_or {
  or_ecdh : list (bytes * bytes * option bytes);        (* pub, priv -> secret *)
  or_genb : list (bytes * bytes * option bytes);        (* seed, blind -> generator *)
  or_geng : list (bytes * option bytes);                (* seed -> generator *)
  or_commit : list (bytes * N * bytes * option bytes);  (* blind, value, generator -> commitment *)
  or_sign : list sign_entry
}.

Definition obytes_eqb (a b : option bytes) : bool :=
  match a, b with Some x, Some y => bytes_eqb x y | None, None => true | _, _ => false end.

Fixpoint lookup2 (l : list (bytes * bytes * option bytes)) (a b : bytes) : option bytes :=
  match l with
  | [] => None
  | (x, y, r) :: l' => if bytes_eqb x a && bytes_eqb y b then r else lookup2 l' a b
  end.
Fixpoint lookup1 (l : list (bytes * option bytes)) (a : bytes) : option bytes :=
  match l with
  | [] => None
  | (x, r) :: l' => if bytes_eqb x a then r else lookup1 l' a
  end.
Fixpoint lookup_commit (l : list (bytes * N * bytes * option bytes)) (blind : bytes) (v : N) (g : bytes) : option bytes :=
  match l with
  | [] => None
  | (x, w, y, r) :: l' =>
      if bytes_eqb x blind && (w =? v) && bytes_eqb y g then r else lookup_commit l' blind v g
  end.

Definition se_args_eqb (e : sign_entry) (mn : N) (c vbf nonce : bytes) (ex mb : Z) (v : N) (msg extra g : bytes) : bool :=
  (se_min e =? mn) && bytes_eqb (se_commit e) c && bytes_eqb (se_vbf e) vbf &&
  bytes_eqb (se_nonce e) nonce && (se_exp e =? ex)%Z && (se_mb e =? mb)%Z && (se_value e =? v) &&
  bytes_eqb (se_msg e) msg && bytes_eqb (se_extra e) extra && bytes_eqb (se_gen e) g.

Fixpoint lookup_sign (l : list sign_entry) (mn : N) (c vbf nonce : bytes) (ex mb : Z) (v : N) (msg extra g : bytes) : option bytes :=
  match l with
  | [] => None
  | e :: l' => if se_args_eqb e mn c vbf nonce ex mb v msg extra g then se_proof e
               else lookup_sign l' mn c vbf nonce ex mb v msg extra g
  end.

(* the signing call that produced this proof, if any *)
Fixpoint find_proof (l : list sign_entry) (proof : bytes) : option sign_entry :=
  match l with
  | [] => None
  | e :: l' => if obytes_eqb (se_proof e) (Some proof) then Some e else find_proof l' proof
  end.

Definition has_prefix (b : bytes) (p q : N) : bool :=
  match b with x :: _ => (n8 x =? p) || (n8 x =? q) | [] => false end.

(* ideal rewind: succeeds exactly on a recorded proof presented with the commitment, nonce,
   extra commitment and generator it was signed with; returns what was signed, the message
   as the binding returns it (64-byte buffer) *)
Definition oracle_rewind (T : ub_oracle) (c proof nonce extra g : bytes) : option (bytes * N * bytes) :=
  match find_proof (or_sign T) proof with
  | None => None
  | Some e =>
      if bytes_eqb (se_commit e) c && bytes_eqb (se_nonce e) nonce &&
         bytes_eqb (se_extra e) extra && bytes_eqb (se_gen e) g
      then Some (se_vbf e, se_value e, ub_fit 64 (se_msg e)) else None
  end.
Definition oracle_verify (T : ub_oracle) (c proof extra g : bytes) : bool :=
  match find_proof (or_sign T) proof with
  | None => false
  | Some e => bytes_eqb (se_commit e) c && bytes_eqb (se_extra e) extra && bytes_eqb (se_gen e) g
  end.

Definition oracle_prims (T : ub_oracle) : prims bytes bytes :=
  mk_prims bytes bytes
    sha256
    (lookup2 (or_ecdh T))
    (fun b => if (length b =? 33)%nat && has_prefix b 10 11 then Some b else None)
    (fun g => g)
    (lookup1 (or_geng T))
    (lookup2 (or_genb T))
    (fun b => if (length b =? 33)%nat && has_prefix b 8 9 then Some b else None)
    (fun c => c)
    (lookup_commit (or_commit T))
    (lookup_sign (or_sign T))
    (oracle_rewind T)
    (oracle_verify T).

(* entry points for the driver *)
Definition o_nonce_hash (T : ub_oracle) := nonce_hash (oracle_prims T).
Definition o_asset_commitment (T : ub_oracle) := asset_commitment (oracle_prims T).
Definition o_value_commitment (T : ub_oracle) := value_commitment (oracle_prims T).
Definition o_range_proof (T : ub_oracle) := range_proof (oracle_prims T).
Definition o_verify_range_proof (T : ub_oracle) := verify_range_proof (oracle_prims T).
Definition o_blind_output (T : ub_oracle) := blind_output (oracle_prims T).
Definition o_blind_issuance_amount (T : ub_oracle) := blind_issuance_amount (oracle_prims T).
Definition o_unblind_with_key (T : ub_oracle) := unblind_with_key (oracle_prims T).
Definition o_unblind_with_nonce (T : ub_oracle) := unblind_with_nonce (oracle_prims T).
Definition o_unblind_issuance (T : ub_oracle) := unblind_issuance (oracle_prims T).
Definition o_last_value_range_proof (T : ub_oracle) := last_value_range_proof (oracle_prims T).

(* ---------- zkpGenerator.UnblindInputs (zkp_generator.go) ---------- *)
(* psetv2.OwnedInput; Asset is the hex string of the reversed id in Go, kept here as the id *)
Record owned_input := mk_owned {
  ow_index : N; ow_value : N; ow_asset : bytes; ow_vbf : bytes; ow_abf : bytes
}.

(* the key material a generator instance is built from: NewZKPGeneratorFromBlindingKeys (keys
   tried in order) or NewZKPGeneratorFromMasterBlindingKey (SLIP-77: one key derived from the
   script of the prevout) *)
Inductive gen_keys := GKeys (keys : list bytes) | GMaster (derive : bytes -> bytes).

Section Generator.
Context {G C : Type} (P : prims G C).

Definition keys_for (gk : gen_keys) (o : txout) : list bytes :=
  match gk with GKeys ks => ks | GMaster d => [d (o_script o)] end.

(* the loop over blindingkeys of zkpGenerator.unblindOutput: errors skip to the next key *)
Fixpoint try_keys (ks : list bytes) (o : txout) : ures unb_result :=
  match ks with
  | [] => UErr
  | k :: r => match unblind_with_key P o k with
              | UOk u => UOk u
              | UErr => try_keys r o
              | UPanic => UPanic
              end
  end.

(* zkpGenerator.unblindOutput *)
Definition gen_unblind_output (gk : gen_keys) (o : txout) : ures unb_result :=
  if negb (is_conf_out o) then
    match o_asset o with
    | [] => UPanic                                   (* AssetHashFromBytes: buffer[1:] *)
    | _ :: a =>
      UOk (mk_unb (match value_from_bytes (o_value o) with Some v => v | None => 0 end)
                  a ub_zero32 ub_zero32)              (* the error of ValueFromBytes is dropped *)
    end
  else try_keys (keys_for gk o) o.

Fixpoint unblind_each (gk : gen_keys) (prevouts : list txout) (idxs : list N) : ures (list owned_input) :=
  match idxs with
  | [] => UOk []
  | i :: r =>
    match nth_error prevouts (N.to_nat i) with
    | None => UPanic
    | Some o =>
      match gen_unblind_output gk o with
      | UOk u =>
        match unblind_each gk prevouts r with
        | UOk l => UOk (mk_owned i (u_value u) (u_asset u) (u_vbf u) (u_abf u) :: l)
        | UErr => UErr
        | UPanic => UPanic
        end
      | UErr => UErr
      | UPanic => UPanic
      end
    end
  end.

(* zkpGenerator.UnblindInputs for a generator without owned inputs, on a packet whose inputs
   all carry a prevout: a function of the packet (its prevouts), the indexes and the keys *)
Definition unblind_inputs (gk : gen_keys) (prevouts : list txout) (idxs : list N) : ures (list owned_input) :=
  if existsb (fun i => N.of_nat (length prevouts) <=? i) idxs then UErr   (* validateInputIndexes *)
  else
    let idxs' := match idxs with [] => map N.of_nat (seq 0 (length prevouts)) | _ => idxs end in
    unblind_each gk prevouts idxs'.

(* a generator instance as an object with a history: its state is what the constructor stored;
   UnblindInputs reads it and leaves it as it is *)
Definition packet : Type := (list txout * list N)%type.
Definition gen_step (st : gen_keys) (p : packet) : gen_keys * ures (list owned_input) :=
  (st, unblind_inputs st (fst p) (snd p)).
Fixpoint gen_run (st : gen_keys) (h : list packet) : gen_keys * list (ures (list owned_input)) :=
  match h with
  | [] => (st, [])
  | p :: r => let (st1, res) := gen_step st p in
              let (st2, rs) := gen_run st1 r in (st2, res :: rs)
  end.
End Generator.

Definition o_gen_run (T : ub_oracle) := gen_run (oracle_prims T).
