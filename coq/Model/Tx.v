(* Model/Tx.v — Elements transaction: values, serializer, parser, sizes.
   Follows transaction/transaction.go (serialize, NewTxFromBuffer, SerializeSize,
   Weight, VirtualSize, DiscountWeight, HasWitness, Copy) and internal/bufferutil.
   Definitions only. *)
From GE Require Export Lib.Bytes Lib.Varint.
Open Scope N_scope.

Record issuance := mk_iss {
  iss_nonce : bytes;      (* AssetBlindingNonce *)
  iss_entropy : bytes;    (* AssetEntropy *)
  iss_amount : bytes;     (* AssetAmount *)
  iss_token : bytes       (* TokenAmount *)
}.

Record txin := mk_in {
  in_hash : bytes;
  in_index : N;           (* uint32 *)
  in_seq : N;             (* uint32 *)
  in_script : bytes;
  in_witness : list bytes;
  in_pegin : bool;
  in_pegwit : list bytes;
  in_iss : option issuance;
  in_irp : bytes;         (* IssuanceRangeProof *)
  in_inrp : bytes         (* InflationRangeProof *)
}.

Record txout := mk_out {
  o_asset : bytes;
  o_value : bytes;
  o_script : bytes;
  o_nonce : bytes;
  o_rp : bytes;           (* RangeProof *)
  o_sp : bytes            (* SurjectionProof *)
}.

Record tx := mk_tx {
  t_version : N;          (* uint32(tx.Version) *)
  t_flag : N;             (* tx.Flag; only "= 1" is ever tested *)
  t_locktime : N;
  t_ins : list txin;
  t_outs : list txout
}.

(* constants (checked against the source by Gen/TxConsts.v, see Proofs) *)
Definition MinusOne : N := 4294967295.
Definition OutpointIndexMask : N := 0x3fffffff.
Definition OutpointIssuanceFlag : N := 0x80000000.
Definition OutpointPeginFlag : N := 0x40000000.
Definition WitnessScaleFactor : N := 4.

Definition nonempty {A} (l : list A) : bool := match l with [] => false | _ => true end.

(* anyWitnessInput / anyConfidentialOutput / HasWitness *)
Definition any_witness_input (t : tx) : bool :=
  existsb (fun i => nonempty (in_witness i) || nonempty (in_pegwit i) ||
                    nonempty (in_irp i) || nonempty (in_inrp i)) (t_ins t).
Definition any_conf_output (t : tx) : bool :=
  existsb (fun o => nonempty (o_rp o) || nonempty (o_sp o)) (t_outs t).
Definition has_witness (t : tx) : bool :=
  (t_flag t =? 1) || any_witness_input t || any_conf_output t.

(* ---------- serialize ---------- *)
Definition raw_index (i : txin) : N :=
  let a := match in_iss i with Some _ => N.lor (in_index i) OutpointIssuanceFlag | None => in_index i end in
  if in_pegin i then N.lor a OutpointPeginFlag else a.

Definition ser_iss (s : issuance) : bytes :=
  iss_nonce s ++ iss_entropy s ++ iss_amount s ++ iss_token s.

Definition ser_in (i : txin) : bytes :=
  in_hash i ++ le_enc 4 (raw_index i) ++ var_slice (in_script i) ++ le_enc 4 (in_seq i) ++
  match in_iss i with Some s => ser_iss s | None => [] end.

Definition ser_out (sig_wit with_rp : bool) (o : txout) : bytes :=
  o_asset o ++ (if sig_wit then [] else o_value o) ++ o_nonce o ++
  (if sig_wit then le_enc 8 0 else []) ++ var_slice (o_script o) ++
  (if with_rp then var_slice (o_rp o) ++ var_slice (o_sp o) else []).

Definition ser_in_wit (i : txin) : bytes :=
  var_slice (in_irp i) ++ var_slice (in_inrp i) ++ vector (in_witness i) ++ vector (in_pegwit i).
Definition ser_out_wit (o : txout) : bytes :=
  var_slice (o_sp o) ++ var_slice (o_rp o).

(* tx.serialize(buf, allowWitness, zeroFlag, forSignature, withRangeProofs) *)
Definition ser_tx (allow_witness zero_flag for_sig with_rp : bool) (t : tx) : bytes :=
  let hasw := allow_witness && has_witness t in
  le_enc 4 (t_version t) ++
  (if for_sig then [] else [if hasw && negb zero_flag then b8 1 else b8 0]) ++
  varint (lenL (t_ins t)) ++ enc_list ser_in (t_ins t) ++
  varint (lenL (t_outs t)) ++ enc_list (ser_out (for_sig && hasw) with_rp) (t_outs t) ++
  le_enc 4 (t_locktime t) ++
  (if negb for_sig && hasw
   then enc_list ser_in_wit (t_ins t) ++ enc_list ser_out_wit (t_outs t) else []).

(* Serialize() *)
Definition ser_full (t : tx) : bytes := ser_tx true false false false t.
(* the serialization hashed by TxHash() *)
Definition ser_txid (t : tx) : bytes := ser_tx false true false false t.
(* the serialization hashed by WitnessHash() when HasWitness() *)
Definition ser_wtxid (t : tx) : bytes :=
  if has_witness t then ser_tx true true false false t else ser_txid t.

(* ---------- parse (NewTxFromBuffer) ---------- *)
Definition p_value : parser bytes :=
  fun bs => match bs with
  | [] => None
  | v :: r =>
      let n := n8 v in
      if n =? 0 then Some ([v], r)
      else if n =? 1 then match take 8 r with Some (x, r') => Some (v :: x, r') | None => None end
      else if (n =? 8) || (n =? 9) then match take 32 r with Some (x, r') => Some (v :: x, r') | None => None end
      else None
  end.

Definition p_asset : parser bytes :=
  fun bs => match bs with
  | [] => None
  | v :: r =>
      let n := n8 v in
      if (n =? 1) || (n =? 10) || (n =? 11)
      then match take 32 r with Some (x, r') => Some (v :: x, r') | None => None end
      else None
  end.

Definition p_nonce : parser bytes :=
  fun bs => match bs with
  | [] => None
  | v :: r =>
      let n := n8 v in
      if (1 <=? n) && (n <=? 3)
      then match take 32 r with Some (x, r') => Some (v :: x, r') | None => None end
      else Some ([v], r)
  end.

Definition p_issuance : parser issuance :=
  a <- take 32 ;; b <- take 32 ;; c <- p_value ;; d <- p_value ;; ret (mk_iss a b c d).

Definition p_in : parser txin :=
  h <- take 32 ;; idx <- p_le 4 ;; scr <- p_var_slice ;; sq <- p_le 4 ;;
  if idx =? MinusOne then ret (mk_in h idx sq scr [] false [] None [] [])
  else
    iss <- (if N.testbit idx 31 then (s <- p_issuance ;; ret (Some s)) else ret None) ;;
    ret (mk_in h (N.land idx OutpointIndexMask) sq scr [] (N.testbit idx 30) [] iss [] []).

Definition p_out : parser txout :=
  a <- p_asset ;; v <- p_value ;; n <- p_nonce ;; s <- p_var_slice ;;
  ret (mk_out a v s n [] []).

Record in_wit := mk_inw { w_irp : bytes; w_inrp : bytes; w_wit : list bytes; w_peg : list bytes }.
Definition p_in_wit : parser in_wit :=
  a <- p_var_slice ;; b <- p_var_slice ;; c <- p_vector ;; d <- p_vector ;; ret (mk_inw a b c d).
Definition p_out_wit : parser (bytes * bytes) :=
  s <- p_var_slice ;; r <- p_var_slice ;; ret (s, r).

Definition set_in_wit (i : txin) (w : in_wit) : txin :=
  mk_in (in_hash i) (in_index i) (in_seq i) (in_script i) (w_wit w) (in_pegin i) (w_peg w)
        (in_iss i) (w_irp w) (w_inrp w).
Definition set_out_wit (o : txout) (w : bytes * bytes) : txout :=
  mk_out (o_asset o) (o_value o) (o_script o) (o_nonce o) (snd w) (fst w).

Fixpoint zip_with {A B C} (f : A -> B -> C) (la : list A) (lb : list B) : list C :=
  match la, lb with a :: la', b :: lb' => f a b :: zip_with f la' lb' | _, _ => [] end.

Definition parse_tx : parser tx :=
  ver <- p_le 4 ;; flag <- p_u8 ;;
  nin <- p_varint ;; ins <- p_list p_in nin ;;
  nout <- p_varint ;; outs <- p_list p_out nout ;;
  lt <- p_le 4 ;;
  if flag =? 1 then
    iw <- p_list p_in_wit (lenL ins) ;;
    ow <- p_list p_out_wit (lenL outs) ;;
    ret (mk_tx ver flag lt (zip_with set_in_wit ins iw) (zip_with set_out_wit outs ow))
  else ret (mk_tx ver flag lt ins outs).

(* ---------- well-formedness (what the wire format can represent) ---------- *)
Definition is_value (x : bytes) : bool :=
  match x with
  | [] => false
  | v :: r => let n := n8 v in
      if n =? 0 then (length r =? 0)%nat
      else if n =? 1 then (length r =? 8)%nat
      else if (n =? 8) || (n =? 9) then (length r =? 32)%nat
      else false
  end.
Definition is_asset (x : bytes) : bool :=
  match x with
  | [] => false
  | v :: r => let n := n8 v in ((n =? 1) || (n =? 10) || (n =? 11)) && (length r =? 32)%nat
  end.
Definition is_nonce (x : bytes) : bool :=
  match x with
  | [] => false
  | v :: r => let n := n8 v in
      if (1 <=? n) && (n <=? 3) then (length r =? 32)%nat else (length r =? 0)%nat
  end.

Definition wf_iss (s : issuance) : bool :=
  (length (iss_nonce s) =? 32)%nat && (length (iss_entropy s) =? 32)%nat &&
  is_value (iss_amount s) && is_value (iss_token s).

Definition wf_slice (x : bytes) : bool := lenN x <? two64.
Definition wf_vec (v : list bytes) : bool := (lenL v <? two64) && forallb wf_slice v.

Definition wf_in (i : txin) : bool :=
  (length (in_hash i) =? 32)%nat &&
  (in_seq i <? two32) && wf_slice (in_script i) &&
  (if in_index i =? MinusOne
   then negb (in_pegin i) && match in_iss i with None => true | Some _ => false end
   else (in_index i <=? OutpointIndexMask) &&
        negb ((in_index i =? OutpointIndexMask) && in_pegin i && match in_iss i with Some _ => true | None => false end) &&
        match in_iss i with Some s => wf_iss s | None => true end) &&
  wf_slice (in_irp i) && wf_slice (in_inrp i) && wf_vec (in_witness i) && wf_vec (in_pegwit i).

Definition wf_out (o : txout) : bool :=
  is_asset (o_asset o) && is_value (o_value o) && is_nonce (o_nonce o) &&
  wf_slice (o_script o) && wf_slice (o_rp o) && wf_slice (o_sp o).

Definition no_wit_in (i : txin) : bool :=
  negb (nonempty (in_witness i)) && negb (nonempty (in_pegwit i)) &&
  negb (nonempty (in_irp i)) && negb (nonempty (in_inrp i)).
Definition no_wit_out (o : txout) : bool :=
  negb (nonempty (o_rp o)) && negb (nonempty (o_sp o)).

Definition wf_tx (t : tx) : bool :=
  (t_version t <? two32) && (t_locktime t <? two32) &&
  (lenL (t_ins t) <? two64) && (lenL (t_outs t) <? two64) &&
  forallb wf_in (t_ins t) && forallb wf_out (t_outs t).

(* the parsed Flag is the byte that was written *)
Definition norm_tx (t : tx) : tx :=
  mk_tx (t_version t) (if has_witness t then 1 else 0) (t_locktime t) (t_ins t) (t_outs t).

Definition canonical_flag (t : tx) : bool := (t_flag t =? 0) || (t_flag t =? 1).

(* ---------- sizes ---------- *)
Definition size_in (i : txin) : N :=
  40 + var_slice_size (in_script i) +
  match in_iss i with Some s => 64 + lenN (iss_amount s) + lenN (iss_token s) | None => 0 end.
Definition size_out (o : txout) : N :=
  lenN (o_asset o) + lenN (o_value o) + lenN (o_nonce o) + var_slice_size (o_script o).
Definition sumN {A} (f : A -> N) (l : list A) : N := fold_right (fun x acc => f x + acc) 0 l.

Definition base_size (for_sig : bool) (t : tx) : N :=
  8 + (if for_sig then 0 else 1) + varint_size (lenL (t_ins t)) + varint_size (lenL (t_outs t)) +
  sumN size_in (t_ins t) + sumN size_out (t_outs t).

Definition size_in_wit (i : txin) : N :=
  var_slice_size (in_irp i) + var_slice_size (in_inrp i) + vector_size (in_witness i) + vector_size (in_pegwit i).
Definition size_out_wit (o : txout) : N :=
  var_slice_size (o_sp o) + var_slice_size (o_rp o).

(* SerializeSize(allowWitness, forSignature) *)
Definition size_tx (allow_witness for_sig : bool) (t : tx) : N :=
  base_size for_sig t +
  (if allow_witness && has_witness t
   then sumN size_in_wit (t_ins t) + sumN size_out_wit (t_outs t) else 0).

Definition weight (t : tx) : N :=
  size_tx false false t * (WitnessScaleFactor - 1) + size_tx true false t.
Definition vsize (t : tx) : N := (weight t + WitnessScaleFactor - 1) / WitnessScaleFactor.

Definition is_conf_out (o : txout) : bool := (1 <? length (o_nonce o))%nat.

(* DiscountWeight: Go `int` arithmetic, so Z (the result can go negative on
   malformed values; see Proofs/TxSize.v for when it cannot) *)
Definition discount_out (o : txout) : Z :=
  if is_conf_out o then
    let ww := (-2 + Z.of_N (var_slice_size (o_rp o)) + Z.of_N (var_slice_size (o_sp o)))%Z in
    ((if (0 <? ww)%Z then ww else 0) + (33 - 9) * 4 + (33 - 1) * 4)%Z
  else 0%Z.
Definition discount_weight (t : tx) : Z :=
  (Z.of_N (weight t) - fold_right (fun o acc => discount_out o + acc) 0 (t_outs t))%Z.
Definition discount_vsize (t : tx) : Z :=
  ((discount_weight t + 4 - 1) / 4)%Z.   (* Go truncating division; equal to floor when the dividend is >= 0 *)
Definition discount_vsize_go (t : tx) : Z :=
  Z.quot (discount_weight t + 4 - 1) 4.

(* ---------- Copy ---------- *)
(* Transaction.Copy as coded after the peg-in witness fix (make(0,n) + append);
   nil-versus-empty is not observable by any function of this package, so the copy
   is the identity on model values. The pre-fix behaviour is copy_tx_prefix below. *)
Definition copy_in (i : txin) : txin := i.
Definition copy_tx (t : tx) : tx :=
  mk_tx (t_version t) (t_flag t) (t_locktime t) (map copy_in (t_ins t)) (t_outs t).
