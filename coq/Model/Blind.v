(* Model/Blind.v — the scalar bookkeeping of the blinders (property C05).
     psetv2/blinder.go      NewBlinder, blind (BlindNonLast / BlindLast), validateBlindingArgs (the part
                            that decides which outputs may be blinded), calculateInputScalar,
                            calculateOutputScalar, calculateLastValueBlinder, write-back, SanityCheck
     pset/blinder.go        unblindInputsToIssuanceBlindingData, blindOutputs,
                            generateOutputBlindingFactors, createBlindedOutputs (per-output arrays and
                            the positional write-back), blindInputs
     confidential/*.go      CalculateScalarOffset, SubtractScalars, ComputeAndAddToScalarOffset,
                            FinalValueBlindingFactor (libsecp blind_generator_blind_sum), and which
                            tag lists BlindOutputs / validateBlindingArgs hand to the surjection proofs
   Scalars are 32-byte strings (nil = None) interpreted big-endian modulo the group order.
   Commitments are formal linear combinations  sum_a c_a * H_a + g * G  (asset -> coefficient, plus
   the G coefficient), so that balance is decidable.  Range / surjection proofs themselves are not
   computed here: the model records the arguments, and the outcome of the library's own
   validator / prover is an input bit.  Definitions only.  All names carry the prefix bl_ / b0_. *)
From GE Require Export Lib.Bytes.
Open Scope Z_scope.

Definition bl_n : Z := 0xFFFFFFFFFFFFFFFFFFFFFFFFFFFFFFFEBAAEDCE6AF48A03BBFD25E8CD0364141.

Definition bl_sc (b : bytes) : Z := Z.of_N (be_dec b).
Definition bl_enc (z : Z) : bytes := be_enc 32 (Z.to_N z).
Definition bl_zero32 : bytes := repeat x00 32.
Definition bl_len32 (b : bytes) : bool := (length b =? 32)%nat.

Inductive bres (A : Type) := BOk (a : A) | BErr | BPanic.
Arguments BOk {A} a.
Arguments BErr {A}.
Arguments BPanic {A}.

(* ---- go-secp256k1-zkp wrappers (None = error return) ---- *)
(* EcPrivKeyNegate: length check in Go; C reduces modulo n and negates *)
Definition bl_negate (k : bytes) : option bytes :=
  if bl_len32 k then Some (bl_enc ((- bl_sc k) mod bl_n)) else None.
(* EcPrivKeyTweakAdd: tweak >= n fails, zero sum fails; key is reduced modulo n *)
Definition bl_tweak_add (k t : bytes) : option bytes :=
  if bl_len32 k && bl_len32 t then
    if bl_n <=? bl_sc t then None
    else let s := (bl_sc k + bl_sc t) mod bl_n in if s =? 0 then None else Some (bl_enc s)
  else None.
(* EcPrivKeyTweakMul with tweak = 32-byte big-endian of a uint64 amount: zero tweak fails *)
Definition bl_tweak_mul (k : bytes) (v : Z) : option bytes :=
  if bl_len32 k then if v =? 0 then None else Some (bl_enc ((bl_sc k * v) mod bl_n)) else None.

(* ---- confidential.CalculateScalarOffset / SubtractScalars / ComputeAndAddToScalarOffset ----
   result: None = error, Some s = returned slice (s = None is a nil slice) *)
Definition bl_calc_offset (amount : Z) (ab vb : option bytes) : option (option bytes) :=
  match ab with
  | None => Some vb
  | Some a =>
      if 0 <? amount then
        match bl_tweak_mul a amount with
        | None => None
        | Some r =>
            match vb with
            | None => Some (Some r)                      (* absent value blinder: the product *)
            | Some v =>
                match bl_negate v with
                | None => None
                | Some vn =>
                    if bytes_eqb vn r then Some (Some bl_zero32)
                    else match bl_tweak_add r v with None => None | Some r' => Some (Some r') end
                end
            end
        end
      else Some vb
  end.

Definition bl_sub (a b : option bytes) : option (option bytes) :=
  match b with
  | None => Some a
  | Some bb =>
      if match a with Some aa => bytes_eqb aa bb | None => false end then Some (Some bl_zero32)   (* a - a *)
      else
      match bl_negate bb with
      | None => None
      | Some nb =>
          match a with
          | None => Some (Some nb)
          | Some aa => match bl_tweak_add aa nb with None => None | Some r => Some (Some r) end
          end
      end
  end.

Definition bl_add_offset (s : option bytes) (value : Z) (ab vb : option bytes) : option (option bytes) :=
  match ab, vb with
  | None, None => Some s
  | _, _ =>
      match bl_calc_offset value ab vb with
      | None => None
      | Some so =>
          match so with
          | None => Some s                               (* zero amount without value blinder *)
          | Some o =>
          match s with
          | None => Some so
          | Some ss =>
                  match bl_negate o with
                  | None => None
                  | Some nv =>
                      if bytes_eqb ss nv then Some (Some bl_zero32)
                      else match bl_tweak_add ss o with None => None | Some r => Some (Some r) end
                  end
              end
          end
      end
  end.

(* ================= psetv2 ================= *)

Record bl_pin := bmk_pin {
  bpi_conf : bool;                 (* prevout is confidential *)
  bpi_issv : Z;                    (* IssuanceValue *)
  bpi_issk : Z;                    (* IssuanceInflationKeys *)
  bpi_vopen : option bytes;        (* value blinder once IssuanceValueCommitment is written *)
  bpi_topen : option bytes }.      (* token blinder once IssuanceInflationKeysCommitment is written *)
Record bl_pout := bmk_pout {
  bpo_value : Z;
  bpo_blind : bool;                (* BlindingPubkey present *)
  bpo_bidx : N;                    (* BlinderIndex *)
  bpo_open : option (bytes * bytes) }.   (* (abf, vbf) once fully blinded *)
Record bl_pset := bmk_pset { bps_ins : list bl_pin; bps_outs : list bl_pout; bps_scalars : list bytes }.

Record bl_owned := bmk_owned { bow_idx : N; bow_value : Z; bow_abf : option bytes; bow_vbf : option bytes }.
Record bl_issarg := bmk_issarg { bia_idx : N; bia_vbf : option bytes; bia_tbf : option bytes; bia_hasvc : bool; bia_hastc : bool }.
Record bl_outarg := bmk_outarg { boa_idx : N; boa_abf : option bytes; boa_vbf : option bytes }.

Definition bl_nth {A} (l : list A) (i : N) : option A :=
  if (i <? N.of_nat (length l))%N then nth_error l (N.to_nat i) else None.
Fixpoint bl_upd {A} (l : list A) (i : nat) (x : A) : list A :=
  match l, i with
  | [], _ => []
  | _ :: t, O => x :: t
  | h :: t, S j => h :: bl_upd t j x
  end.

Definition bl_out_needs (o : bl_pout) : bool := bpo_blind o.
Definition bl_out_full (o : bl_pout) : bool := match bpo_open o with Some _ => true | None => false end.
(* Pset.NeedsBlinding / Pset.IsFullyBlinded exactly as coded *)
Definition bl_needs_blinding (p : bl_pset) : bool :=
  existsb (fun o => bl_out_needs o && negb (bl_out_full o)) (bps_outs p).
Definition bl_is_fully_blinded (p : bl_pset) : bool :=
  if negb (bl_needs_blinding p) then false
  else negb (existsb (fun o => bl_out_needs o && negb (bl_out_full o)) (bps_outs p)).
(* Pset.SanityCheck: the clauses that blinding can change *)
Definition bl_sanity (p : bl_pset) : bool :=
  forallb (fun o => negb (bl_out_full o && negb (bpo_bidx o =? 0)%N)) (bps_outs p) &&
  negb (existsb bl_out_full (bps_outs p) && (length (bps_scalars p) =? 0)%nat && bl_needs_blinding p).

Definition bl_optlen_ok (b : option bytes) : bool :=
  match b with Some x => bl_len32 x | None => false end.

(* OwnedInput.validate *)
Definition bl_owned_ok (p : bl_pset) (o : bl_owned) : bool :=
  match bl_nth (bps_ins p) (bow_idx o) with
  | None => false
  | Some i => if bpi_conf i then negb (bow_value o =? 0) && bl_optlen_ok (bow_vbf o) && bl_optlen_ok (bow_abf o) else true
  end.

(* NewBlinder *)
Definition bl_new_blinder (p : bl_pset) (owned : list bl_owned) : bool :=
  bl_sanity p && bl_needs_blinding p && negb (length owned =? 0)%nat && forallb (bl_owned_ok p) owned.

Definition bl_has_issuance (i : bl_pin) : bool := (0 <? bpi_issv i) || (0 <? bpi_issk i).

(* InputIssuanceBlindingArgs.validate: index, token blinder presence/length *)
Definition bl_issarg_ok (p : bl_pset) (a : bl_issarg) : bool :=
  match bl_nth (bps_ins p) (bia_idx a) with
  | None => false
  | Some i => if (0 <? bpi_issk i) && bia_hastc a then bl_optlen_ok (bia_tbf a) else true
  end.

(* OutputBlindingArgs.validate: index, NeedsBlinding, blinder presence/length (proof fields are
   always present in generator-made arguments) *)
Definition bl_outarg_ok (p : bl_pset) (a : bl_outarg) : bool :=
  match bl_nth (bps_outs p) (boa_idx a) with
  | None => false
  | Some o => bl_out_needs o && bl_optlen_ok (boa_vbf a) && bl_optlen_ok (boa_abf a)
  end.

(* sort.Slice by Index (insertion sort; indexes of one call are distinct) *)
Fixpoint bl_insert (a : bl_outarg) (l : list bl_outarg) : list bl_outarg :=
  match l with
  | [] => [a]
  | h :: t => if (boa_idx a <? boa_idx h)%N then a :: l else h :: bl_insert a t
  end.
Definition bl_sort (l : list bl_outarg) : list bl_outarg := fold_right bl_insert [] l.

(* Blinder.ownOutput *)
Definition bl_own_output (owned : list bl_owned) (bidx : N) : bool :=
  existsb (fun o => (bow_idx o =? bidx)%N) owned.
(* validateBlindingArgs: ownership of every output, then the validator calls (their conjunction is
   the input bit vok) *)
Definition bl_validate_args (p : bl_pset) (owned : list bl_owned) (args : list bl_outarg) (vok : bool) : bool :=
  forallb (fun a => match bl_nth (bps_outs p) (boa_idx a) with
                    | Some o => bl_own_output owned (bpo_bidx o) | None => false end) args && vok.

Definition bl_or_zero (b : option bytes) : option bytes :=
  match b with Some x => if (length x =? 0)%nat then Some bl_zero32 else Some x | None => Some bl_zero32 end.

(* calculateInputScalar *)
Fixpoint bl_input_scalar (p : bl_pset) (iss : list bl_issarg) (owned : list bl_owned) (s : option bytes)
  : option (option bytes) :=
  match owned with
  | [] => Some s
  | o :: rest =>
      match bl_add_offset s (bow_value o) (bow_abf o) (bow_vbf o) with
      | None => None
      | Some s1 =>
          match bl_nth (bps_ins p) (bow_idx o) with
          | None => None
          | Some i =>
              let s2 :=
                if bl_has_issuance i then
                  match find (fun a => (bia_idx a =? bow_idx o)%N) iss with
                  | None => Some s1
                  | Some a =>
                      match bl_add_offset s1 (bpi_issv i) (Some bl_zero32) (bl_or_zero (bia_vbf a)) with
                      | None => None
                      | Some s' =>
                          if 0 <? bpi_issk i
                          then bl_add_offset s' (bpi_issk i) (Some bl_zero32) (bl_or_zero (bia_tbf a))
                          else Some s'
                      end
                  end
                else Some s1 in
              match s2 with None => None | Some s3 => bl_input_scalar p iss rest s3 end
          end
      end
  end.

(* the loop of calculateOutputScalar *)
Fixpoint bl_output_sum (p : bl_pset) (args : list bl_outarg) (s : option bytes) : option (option bytes) :=
  match args with
  | [] => Some s
  | a :: rest =>
      match bl_nth (bps_outs p) (boa_idx a) with
      | None => None
      | Some o =>
          match bl_add_offset s (bpo_value o) (boa_abf a) (boa_vbf a) with
          | None => None
          | Some s' => bl_output_sum p rest s'
          end
      end
  end.

(* calculateOutputScalar: every blinder, last or not, subtracts its input scalar from the sum over its
   outputs (the lastBlinder argument is no longer consulted; /repo db58bba) *)
Definition bl_output_scalar (p : bl_pset) (inS : option bytes) (args : list bl_outarg) (last : bool)
  : option (option bytes) :=
  match bl_output_sum p args None with
  | None => None
  | Some s => bl_sub s inS
  end.

(* calculateLastValueBlinder *)
Fixpoint bl_sub_all (s : option bytes) (l : list bytes) : option (option bytes) :=
  match l with
  | [] => Some s
  | x :: t => match bl_sub s (Some x) with None => None | Some s' => bl_sub_all s' t end
  end.
Definition bl_last_vbf (p : bl_pset) (lastarg : bl_outarg) (outS : option bytes) : option (option bytes) :=
  match bl_sub (boa_vbf lastarg) outS with
  | None => None
  | Some s => bl_sub_all s (bps_scalars p)
  end.

(* write-back *)
Definition bl_write_iss (ins : list bl_pin) (a : bl_issarg) : list bl_pin :=
  match bl_nth ins (bia_idx a) with
  | None => ins
  | Some i => bl_upd ins (N.to_nat (bia_idx a))
                (bmk_pin (bpi_conf i) (bpi_issv i) (bpi_issk i)
                        (if bia_hasvc a then bl_or_zero (bia_vbf a) else None)
                        (if bia_hastc a then bl_or_zero (bia_tbf a) else None))
  end.
Definition bl_write_out (outs : list bl_pout) (idx : N) (abf vbf : bytes) : list bl_pout :=
  match bl_nth outs idx with
  | None => outs
  | Some o => bl_upd outs (N.to_nat idx) (bmk_pout (bpo_value o) (bpo_blind o) 0%N (Some (abf, vbf)))
  end.
Definition bl_ob (b : option bytes) : bytes := match b with Some x => x | None => [] end.
Fixpoint bl_write_outs (outs : list bl_pout) (args : list bl_outarg) (last : bool) (lastvbf : bytes) : list bl_pout :=
  match args with
  | [] => outs
  | a :: rest =>
      let islast := last && match rest with [] => true | _ => false end in
      bl_write_outs (bl_write_out outs (boa_idx a) (bl_ob (boa_abf a)) (if islast then lastvbf else bl_ob (boa_vbf a)))
                    rest last lastvbf
  end.

Record bl_step_out := bmk_step { bso_pset : bl_pset; bso_scalar : option bytes; bso_lastvbf : option bytes }.

(* Blinder.blind *)
Definition bl_blind (p : bl_pset) (owned : list bl_owned) (iss : list bl_issarg)
  (args0 : list bl_outarg) (last vok : bool) : bres bl_step_out :=
  if bl_is_fully_blinded p then BOk (bmk_step p None None) else
  if negb (forallb (bl_issarg_ok p) iss) then BErr else
  let args := bl_sort args0 in
  if negb (forallb (bl_outarg_ok p) args) then BErr else
  if negb (bl_validate_args p owned args vok) then BErr else
  match bl_input_scalar p iss owned None with
  | None => BErr
  | Some inS =>
      match bl_output_scalar p inS args last with
      | None => BErr
      | Some outS =>
          match rev args with
          | [] => BPanic                                   (* outBlindingArgs[len-1] on an empty slice *)
          | lastarg :: _ =>
              match (if last then bl_last_vbf p lastarg outS else Some None) with
              | None => BErr
              | Some lv =>
                  let ins' := fold_left bl_write_iss iss (bps_ins p) in
                  let outs' := bl_write_outs (bps_outs p) args last (bl_ob lv) in
                  let scal' := if last then [] else bps_scalars p ++ [bl_ob outS] in
                  let p' := bmk_pset ins' outs' scal' in
                  if bl_sanity p' then BOk (bmk_step p' (if last then None else outS) lv) else BErr
              end
          end
      end
  end.

(* one party: NewBlinder then BlindLast / BlindNonLast *)
Record bl_party := bmk_party {
  bpa_genok : bool; bpa_vok : bool;
  bpa_owned : list bl_owned; bpa_iss : list bl_issarg; bpa_outs : list bl_outarg }.

Definition bl_party_step (p : bl_pset) (pa : bl_party) (last : bool) : bres bl_step_out :=
  if negb (bl_new_blinder p (bpa_owned pa)) then BErr
  else bl_blind p (bpa_owned pa) (bpa_iss pa) (bpa_outs pa) last (bpa_vok pa).

(* the whole exchange: every party but the final one calls BlindNonLast *)
Fixpoint bl_run (p : bl_pset) (ps : list bl_party) : bres bl_pset :=
  match ps with
  | [] => BOk p
  | pa :: rest =>
      let last := match rest with [] => true | _ => false end in
      match bl_party_step p pa last with
      | BOk s => bl_run (bso_pset s) rest
      | BErr => BErr
      | BPanic => BPanic
      end
  end.

(* ================= commitments as formal linear combinations ================= *)

Definition bl_lin := (list (N * Z) * Z)%type.
Definition bl_lin0 : bl_lin := ([], 0).
Definition bl_lin_add (a b : bl_lin) : bl_lin := (fst a ++ fst b, (snd a + snd b) mod bl_n).
(* commit v abf vbf a = v*H_a + (v*abf + vbf)*G *)
Definition bl_commit (asset : N) (v abf vbf : Z) : bl_lin := ([(asset, v)], (v * abf + vbf) mod bl_n).
Definition bl_explicit (asset : N) (v : Z) : bl_lin := ([(asset, v)], 0).
Fixpoint bl_coef (l : list (N * Z)) (a : N) : Z :=
  match l with
  | [] => 0
  | (b, c) :: t => ((if (a =? b)%N then c else 0) + bl_coef t a) mod bl_n
  end.
Definition bl_lin_eqb (x y : bl_lin) : bool :=
  (snd x mod bl_n =? snd y mod bl_n) &&
  forallb (fun a => bl_coef (fst x) a =? bl_coef (fst y) a) (map fst (fst x) ++ map fst (fst y)).
Definition bl_lin_sum (l : list bl_lin) : bl_lin := fold_right bl_lin_add bl_lin0 l.

(* the true openings of the spent outputs, and what is issued *)
Record bl_win := bmk_win {
  bwi_asset : N; bwi_value : Z; bwi_abf : bytes; bwi_vbf : bytes;
  bwi_iss : N;                     (* 0 none, 1 issuance, 2 reissuance *)
  bwi_issv : Z; bwi_isst : Z }.
Record bl_wout := bmk_wout { bwo_asset : N; bwo_value : Z }.

Definition bl_in_commit (w : bl_win) : bl_lin := bl_commit (bwi_asset w) (bwi_value w) (bl_sc (bwi_abf w)) (bl_sc (bwi_vbf w)).
Definition bl_amount (asset : N) (v : Z) (open : option bytes) : bl_lin :=
  match open with Some vbf => bl_commit asset v 0 (bl_sc vbf) | None => bl_explicit asset v end.
Fixpoint bl_tx_in (k : N) (ws : list bl_win) (pis : list bl_pin) : list bl_lin :=
  match ws, pis with
  | w :: ws', i :: pis' =>
      bl_in_commit w ::
      (if (bwi_iss w =? 0)%N then [] else
         (if 0 <? bwi_issv w then [bl_amount (100 + k)%N (bwi_issv w) (bpi_vopen i)] else []) ++
         (if 0 <? bwi_isst w then [bl_amount (200 + k)%N (bwi_isst w) (bpi_topen i)] else [])) ++
      bl_tx_in (k + 1)%N ws' pis'
  | _, _ => []
  end.
Fixpoint bl_tx_out (wos : list bl_wout) (pos : list bl_pout) : list bl_lin :=
  match wos, pos with
  | w :: wos', o :: pos' =>
      (match bpo_open o with
       | Some (abf, vbf) => bl_commit (bwo_asset w) (bwo_value w) (bl_sc abf) (bl_sc vbf)
       | None => bl_explicit (bwo_asset w) (bwo_value w)
       end) :: bl_tx_out wos' pos'
  | _, _ => []
  end.
Definition bl_balanced (ws : list bl_win) (wos : list bl_wout) (p : bl_pset) : bool :=
  bl_lin_eqb (bl_lin_sum (bl_tx_in 0%N ws (bps_ins p))) (bl_lin_sum (bl_tx_out wos (bps_outs p))).

(* zkpGenerator.UnblindInputs: the owned inputs a party obtains for the indexes it asks for are the
   true openings of the prevouts of THIS packet (zero blinders for an explicit prevout), whatever
   the generator was used for before *)
Definition bl_unblind_inputs (ws : list bl_win) (idxs : list N) : list bl_owned :=
  flat_map (fun i => match bl_nth ws i with
                     | Some w => [bmk_owned i (bwi_value w) (Some (bwi_abf w)) (Some (bwi_vbf w))]
                     | None => [] end) idxs.

(* ================= surjection-proof tag lists =================
   A tag is what GeneratorGenerateBlinded receives: a 32-byte seed and a blinder.  The library regenerates
   every input generator from such a pair; for an input the party does not own it passes the 33-byte
   prevout asset field and a zero blinder, of which libsecp reads the first 32 bytes. *)
Record bl_tag := bmk_tag { btg_seed : bytes; btg_blind : bytes }.
Record bl_tin := bmk_tin {
  bti_field : bytes;              (* prevout.Asset: 01||asset or the 33-byte asset commitment *)
  bti_asset : bytes;              (* 32-byte asset id *)
  bti_abf : bytes;
  bti_hasiss : bool; bti_reiss : bool; bti_keys_pos : bool;       (* HasIssuance, HasReissuance, IssuanceInflationKeys > 0 *)
  bti_amount_set : bool; bti_token_set : bool;                   (* issuance fields non-null in the transaction *)
  bti_iss_asset : bytes; bti_iss_token : bytes }.
Definition bl_take32 (b : bytes) : bytes := firstn 32 b.
(* the tag of input i as the party sees it *)
Definition bl_view_tag (owned : bool) (i : bl_tin) : bl_tag :=
  if owned then bmk_tag (bti_asset i) (bti_abf i) else bmk_tag (bl_take32 (bti_field i)) bl_zero32.
(* the tag a verifier uses: the generator on the prevout *)
Definition bl_true_tag (i : bl_tin) : bl_tag := bmk_tag (bti_asset i) (bti_abf i).
Definition bl_iss_tags_gen (i : bl_tin) : list bl_tag :=          (* zkpGenerator.BlindOutputs *)
  if bti_hasiss i then bmk_tag (bti_iss_asset i) bl_zero32 ::
                      (if negb (bti_reiss i) then [bmk_tag (bti_iss_token i) bl_zero32] else []) else [].
Definition bl_iss_tags_val (i : bl_tin) : list bl_tag :=          (* Blinder.validateBlindingArgs *)
  if bti_hasiss i then bmk_tag (bti_iss_asset i) bl_zero32 ::
                      (if bti_keys_pos i then [bmk_tag (bti_iss_token i) bl_zero32] else []) else [].
Definition bl_iss_tags_true (i : bl_tin) : list bl_tag :=         (* Elements VerifyAmounts *)
  (if bti_amount_set i then [bmk_tag (bti_iss_asset i) bl_zero32] else []) ++
  (if bti_token_set i then [bmk_tag (bti_iss_token i) bl_zero32] else []).
(* library: all inputs, then all issuance tags *)
Definition bl_tags_gen (own : list bool) (ins : list bl_tin) : list bl_tag :=
  map (fun oi => bl_view_tag (fst oi) (snd oi)) (combine own ins) ++ flat_map bl_iss_tags_gen ins.
Definition bl_tags_val (own : list bool) (ins : list bl_tin) : list bl_tag :=
  map (fun oi => bl_view_tag (fst oi) (snd oi)) (combine own ins) ++ flat_map bl_iss_tags_val ins.
(* verifier: every input followed by its own issuance tags *)
Definition bl_tags_true (ins : list bl_tin) : list bl_tag :=
  flat_map (fun i => bl_true_tag i :: bl_iss_tags_true i) ins.

(* ================= pset v0 ================= *)

Record b0_in := bmk_b0in { bi0_asset : N; bi0_value : Z; bi0_abf : bytes; bi0_vbf : bytes; bi0_iss : N; bi0_issv : Z; bi0_isst : Z }.
Record b0_out := bmk_b0out { bo0_asset : N; bo0_value : Z; bo0_noscript : bool }.

Definition b0_draw (rng : list bytes) : option (bytes * list bytes) :=
  match rng with [] => None | x :: t => Some (x, t) end.
Fixpoint b0_draws (k : nat) (rng : list bytes) : option (list bytes * list bytes) :=
  match k with
  | O => Some ([], rng)
  | S k' => match b0_draw rng with
            | None => None
            | Some (x, r) => match b0_draws k' r with None => None | Some (l, r') => Some (x :: l, r') end
            end
  end.

(* a pseudo input or input as the blinder sees it: asset, value, abf, vbf *)
Record b0_ent := bmk_ent { ben_asset : N; ben_value : Z; ben_abf : bytes; ben_vbf : bytes }.

(* unblindInputsToIssuanceBlindingData *)
Fixpoint b0_pseudo (keys : bool) (k : N) (ins : list b0_in) (rng : list bytes) : option (list b0_ent * list bytes) :=
  match ins with
  | [] => Some ([], rng)
  | i :: rest =>
      if (bi0_iss i =? 0)%N then b0_pseudo keys (k + 1)%N rest rng else
      match (if keys then b0_draw rng else Some (bl_zero32, rng)) with
      | None => None
      | Some (vbf, r1) =>
          let e1 := bmk_ent (100 + k)%N (bi0_issv i) bl_zero32 vbf in
          if (bi0_iss i =? 1)%N && (0 <? bi0_isst i) then
            match (if keys then b0_draw r1 else Some (bl_zero32, r1)) with
            | None => None
            | Some (tbf, r2) =>
                match b0_pseudo keys (k + 1)%N rest r2 with
                | None => None
                | Some (l, r3) => Some (e1 :: bmk_ent (200 + k)%N (bi0_isst i) bl_zero32 tbf :: l, r3)
                end
            end
          else
            match b0_pseudo keys (k + 1)%N rest r1 with
            | None => None
            | Some (l, r3) => Some (e1 :: l, r3)
            end
      end
  end.

(* sortedOutputIndexesToBlind *)
Fixpoint b0_ins (a : N) (l : list N) : list N :=
  match l with [] => [a] | h :: t => if (a <? h)%N then a :: l else h :: b0_ins a t end.
Definition b0_sort (l : list N) : list N := fold_right b0_ins [] l.

(* libsecp secp256k1_pedersen_blind_generator_blind_sum through the Go wrapper: the last factor is a
   fresh zero buffer; any generator blind or factor >= n fails *)
Fixpoint b0_bsum (vals : list Z) (gens facs : list bytes) (nin : nat) (acc : Z) : option Z :=
  match vals, gens with
  | v :: vals', g :: gens' =>
      let f := match facs with x :: _ => x | [] => bl_zero32 end in
      if (bl_n <=? bl_sc g) || (bl_n <=? bl_sc f) then None else
      let add := (v * bl_sc g + bl_sc f) mod bl_n in
      let add' := match nin with O => add | S _ => (- add) mod bl_n end in
      b0_bsum vals' gens' (tl facs) (pred nin) ((acc + add') mod bl_n)
  | _, _ => Some acc
  end.
Definition b0_final_vbf (inV outV : list Z) (inG outG inF outF : list bytes) : option bytes :=
  let vals := inV ++ outV in
  let gens := inG ++ outG in
  let facs := inF ++ outF in
  if negb ((length vals =? length gens)%nat && (length gens =? length facs + 1)%nat) then None else
  match b0_bsum vals gens facs (length inV) 0 with
  | None => None
  | Some s => Some (bl_enc ((- s) mod bl_n))
  end.

Record b0_result := bmk_b0res {
  br0_outs : list (option (bytes * bytes));        (* per output: (abf, vbf) written, None = left explicit *)
  br0_iss : list (option bytes * option bytes) }.  (* per input: issuance value / token blinder written *)

Fixpoint b0_zip3 (a : list Z) (b c : list bytes) : list (Z * bytes * bytes) :=
  match a, b, c with
  | x :: a', y :: b', z :: c' => (x, y, z) :: b0_zip3 a' b' c'
  | _, _, _ => []
  end.

(* the write-back loop of createBlindedOutputs: it walks the sorted selection (outputs with an empty
   script already filtered out by the caller) with a position counter into the result arrays
   (/repo 65fe84b) *)
Fixpoint b0_writeback (sel : list N) (arr : list (bytes * bytes)) (outs : list (option (bytes * bytes)))
  : bres (list (option (bytes * bytes))) :=
  match sel, arr with
  | [], _ => BOk outs
  | _ :: _, [] => BPanic                                 (* assetCommitments[pos] *)
  | idx :: rest, x :: arr' =>
      match bl_nth outs idx with
      | None => BPanic                                   (* Outputs[outputIndex] *)
      | Some _ => b0_writeback rest arr' (bl_upd outs (N.to_nat idx) (Some x))
      end
  end.

Fixpoint b0_iss_open (keys : bool) (k : N) (ins : list b0_in) (ps : list b0_ent) : list (option bytes * option bytes) :=
  match ins with
  | [] => []
  | i :: rest =>
      let look a := match find (fun e => (ben_asset e =? a)%N) ps with Some e => Some (ben_vbf e) | None => None end in
      (if keys && negb (bi0_iss i =? 0)%N
       then (look (100 + k)%N, if (bi0_iss i =? 1)%N && (0 <? bi0_isst i) then look (200 + k)%N else None)
       else (None, None)) :: b0_iss_open keys (k + 1)%N rest ps
  end.

(* Blinder.Blind.  sel = keys of blindingPubKeyByOutputIndex; keys = issuance blinding keys given;
   tokkey = they carry a token key (IssuanceBlindingPrivateKeys.TokenKey); sok = every surjection
   proof could be generated *)
Definition b0_blind (ins : list b0_in) (outs : list b0_out) (sel : list N) (keys tokkey sok : bool)
  (rng : list bytes) : bres b0_result :=
  match b0_pseudo keys 0%N ins rng with
  | None => BErr
  | Some (pseudo, r1) =>
      let ssel := b0_sort sel in
      if negb (forallb (fun i => (i <? N.of_nat (length outs))%N) ssel) then BPanic else
      let chosen := flat_map (fun i => match bl_nth outs i with Some o => if bo0_noscript o then [] else [o] | None => [] end) ssel in
      let outV := map bo0_value chosen in
      let ents := map (fun i => bmk_ent (bi0_asset i) (bi0_value i) (bi0_abf i) (bi0_vbf i)) ins ++ pseudo in
      let nout := length sel in
      match b0_draws nout r1 with
      | None => BErr
      | Some (abfs, r2) =>
          match b0_draws (pred nout) r2 with
          | None => BErr
          | Some (vbfs, r3) =>
              match b0_final_vbf (map ben_value ents) outV (map ben_abf ents) abfs (map ben_vbf ents) vbfs with
              | None => BErr
              | Some fv =>
                  let vbfs' := vbfs ++ [fv] in
                  match b0_draws (length chosen) r3 with          (* one seed per blinded output *)
                  | None => BErr
                  | Some (_, _) =>
                      if negb sok then BErr else
                      let arr := map (fun t => (snd (fst t), snd t)) (b0_zip3 outV abfs vbfs') in
                      let arr' := firstn (length chosen) arr in
                      let start := map (fun _ => None) outs in
                      match b0_writeback (filter (fun i => match bl_nth outs i with Some o => negb (bo0_noscript o) | None => false end) ssel) arr' start with
                      | BPanic => BPanic
                      | BErr => BErr
                      | BOk w =>
                          (* blindInputs: blindToken refuses a missing token key *)
                          if keys && negb tokkey && existsb (fun i => (bi0_iss i =? 1)%N && (0 <? bi0_isst i)) ins then BErr
                          else BOk (bmk_b0res w (b0_iss_open keys 0%N ins pseudo))
                      end
                  end
              end
          end
      end
  end.

Fixpoint b0_tx_in (k : N) (ins : list b0_in) (io : list (option bytes * option bytes)) : list bl_lin :=
  match ins, io with
  | i :: ins', o :: io' =>
      bl_commit (bi0_asset i) (bi0_value i) (bl_sc (bi0_abf i)) (bl_sc (bi0_vbf i)) ::
      (if (bi0_iss i =? 0)%N then [] else
         (if 0 <? bi0_issv i then [bl_amount (100 + k)%N (bi0_issv i) (fst o)] else []) ++
         (if (bi0_iss i =? 1)%N && (0 <? bi0_isst i) then [bl_amount (200 + k)%N (bi0_isst i) (snd o)] else [])) ++
      b0_tx_in (k + 1)%N ins' io'
  | _, _ => []
  end.
Fixpoint b0_tx_out (outs : list b0_out) (w : list (option (bytes * bytes))) : list bl_lin :=
  match outs, w with
  | o :: outs', x :: w' =>
      (match x with
       | Some (abf, vbf) => bl_commit (bo0_asset o) (bo0_value o) (bl_sc abf) (bl_sc vbf)
       | None => bl_explicit (bo0_asset o) (bo0_value o)
       end) :: b0_tx_out outs' w'
  | _, _ => []
  end.
Definition b0_balanced (ins : list b0_in) (outs : list b0_out) (r : b0_result) : bool :=
  bl_lin_eqb (bl_lin_sum (b0_tx_in 0%N ins (br0_iss r))) (bl_lin_sum (b0_tx_out outs (br0_outs r))).
