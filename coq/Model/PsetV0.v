(* Model/PsetV0.v — PSET v0 packet codec (package pset): values, serializer, parser.
   Follows pset/pset.go (deserialize, serialize, SanityCheck, validateUnsignedTX),
   pset/pset_input.go, pset/pset_output.go and pset/utils.go (getKey, readTxOut,
   writeTxOut, readBip32Derivation, serializeKVpair, serializeKVPairWithType) as coded.
   Definitions only.

   Values decoded by code outside the repository are opaque byte strings carrying exactly
   the validity predicate the Go code applies: [valid_pk] = btcec.ParsePubKey succeeds,
   [valid_sig] = ecdsa.ParseDERSignature succeeds. They are parameters of the model.

   Outcomes are [option] (None = the Go function returns an error).  No Panic outcome is
   modelled because every index/slice expression of the anchored code is guarded by a
   length test that the model carries: keyTypeAndData[0] after count >= 1 (getKey),
   path[:4] and path[i:i+4] after len%4 == 0 && len/4 >= 1 (readBip32Derivation),
   binary.LittleEndian.Uint32(value) after len(value) == 4, readTxOut reads through the
   error-returning bufferutil deserializer.  The malformed-input stream of K/S reports any
   panic of the implementation as a disagreement.

   nil versus empty: the Go code tests `!= nil` on RedeemScript, WitnessScript,
   FinalScriptSig, FinalScriptWitness, NonWitnessUtxo, WitnessUtxo (option here; a parsed
   empty value is a non-nil empty slice, i.e. Some []) and on key data (nil iff the key is
   the single type byte, i.e. [] here). *)
From GE Require Export Lib.Bytes Lib.Varint Model.Tx.
Open Scope N_scope.

(* ---------- constants ---------- *)
(* pset/pset.go psbtMagic; tied to Gen/PsetV0Consts.v in Proofs/PsetV0.v *)
Definition v0_magic : bytes := [x70; x73; x65; x74; xff].
(* github.com/btcsuite/btcd/btcutil/psbt v1.1.9 (external library, not regenerated):
   types.go   UnsignedTxType = 0;
              NonWitnessUtxoType = 0, WitnessUtxoType = 1, PartialSigType = 2, SighashType = 3,
              RedeemScriptInputType = 4, WitnessScriptInputType = 5, Bip32DerivationInputType = 6,
              FinalScriptSigType = 7, FinalScriptWitnessType = 8;
              RedeemScriptOutputType = 0, WitnessScriptOutputType = 1, Bip32DerivationOutputType = 2
   psbt.go    MaxPsbtKeyLength = 10000, MaxPsbtValueLength = 4000000 *)
Definition v0_T_UnsignedTx : N := 0.
Definition v0_T_NonWitnessUtxo : N := 0.
Definition v0_T_WitnessUtxo : N := 1.
Definition v0_T_PartialSig : N := 2.
Definition v0_T_Sighash : N := 3.
Definition v0_T_RedeemScript : N := 4.
Definition v0_T_WitnessScript : N := 5.
Definition v0_T_Bip32 : N := 6.
Definition v0_T_FinalScriptSig : N := 7.
Definition v0_T_FinalScriptWitness : N := 8.
Definition v0_TO_RedeemScript : N := 0.
Definition v0_TO_WitnessScript : N := 1.
Definition v0_TO_Bip32 : N := 2.
Definition v0_MaxKeyLen : N := 10000.
Definition v0_MaxValLen : N := 4000000.
(* utils.go readTxOut: `if len(txout) < 44` (33 asset + 9 explicit value + 1 null nonce + 1 empty script) *)
Definition v0_MinTxOutLen : nat := 44.

(* ---------- values ---------- *)
Record v0sig := mk_v0sig { sg_pk : bytes; sg_sig : bytes }.                 (* psbt.PartialSig *)
Record v0der := mk_v0der { dv_pk : bytes; dv_fp : N; dv_path : list N }.    (* psbt.Bip32Derivation *)
Record v0unk := mk_v0unk { uk_key : bytes; uk_val : bytes }.                (* pset.Unknown *)

Record v0in := mk_v0in {
  vi_nwu : option tx;           (* NonWitnessUtxo *)
  vi_wu : option txout;         (* WitnessUtxo *)
  vi_sigs : list v0sig;         (* PartialSigs *)
  vi_sighash : N;               (* SighashType (uint32; 0 = absent) *)
  vi_redeem : option bytes;
  vi_wscript : option bytes;
  vi_ders : list v0der;
  vi_fsig : option bytes;       (* FinalScriptSig *)
  vi_fwit : option bytes;       (* FinalScriptWitness *)
  vi_unk : list v0unk
}.
Record v0out := mk_v0out {
  vo_redeem : option bytes;
  vo_wscript : option bytes;
  vo_ders : list v0der
}.
Record v0pset := mk_v0pset {
  vp_tx : tx;                   (* UnsignedTx *)
  vp_ins : list v0in;
  vp_outs : list v0out;
  vp_unk : list v0unk           (* global Unknowns *)
}.

Definition v0_in_empty : v0in := mk_v0in None None [] 0 None None [] None None [].
Definition v0_out_empty : v0out := mk_v0out None None [].

(* field setters (used by the decode switch) *)
Definition v0_set_nwu (i : v0in) x := mk_v0in x (vi_wu i) (vi_sigs i) (vi_sighash i) (vi_redeem i) (vi_wscript i) (vi_ders i) (vi_fsig i) (vi_fwit i) (vi_unk i).
Definition v0_set_wu (i : v0in) x := mk_v0in (vi_nwu i) x (vi_sigs i) (vi_sighash i) (vi_redeem i) (vi_wscript i) (vi_ders i) (vi_fsig i) (vi_fwit i) (vi_unk i).
Definition v0_set_sigs (i : v0in) x := mk_v0in (vi_nwu i) (vi_wu i) x (vi_sighash i) (vi_redeem i) (vi_wscript i) (vi_ders i) (vi_fsig i) (vi_fwit i) (vi_unk i).
Definition v0_set_sighash (i : v0in) x := mk_v0in (vi_nwu i) (vi_wu i) (vi_sigs i) x (vi_redeem i) (vi_wscript i) (vi_ders i) (vi_fsig i) (vi_fwit i) (vi_unk i).
Definition v0_set_redeem (i : v0in) x := mk_v0in (vi_nwu i) (vi_wu i) (vi_sigs i) (vi_sighash i) x (vi_wscript i) (vi_ders i) (vi_fsig i) (vi_fwit i) (vi_unk i).
Definition v0_set_wscript (i : v0in) x := mk_v0in (vi_nwu i) (vi_wu i) (vi_sigs i) (vi_sighash i) (vi_redeem i) x (vi_ders i) (vi_fsig i) (vi_fwit i) (vi_unk i).
Definition v0_set_ders (i : v0in) x := mk_v0in (vi_nwu i) (vi_wu i) (vi_sigs i) (vi_sighash i) (vi_redeem i) (vi_wscript i) x (vi_fsig i) (vi_fwit i) (vi_unk i).
Definition v0_set_fsig (i : v0in) x := mk_v0in (vi_nwu i) (vi_wu i) (vi_sigs i) (vi_sighash i) (vi_redeem i) (vi_wscript i) (vi_ders i) x (vi_fwit i) (vi_unk i).
Definition v0_set_fwit (i : v0in) x := mk_v0in (vi_nwu i) (vi_wu i) (vi_sigs i) (vi_sighash i) (vi_redeem i) (vi_wscript i) (vi_ders i) (vi_fsig i) x (vi_unk i).
Definition v0_set_unk (i : v0in) x := mk_v0in (vi_nwu i) (vi_wu i) (vi_sigs i) (vi_sighash i) (vi_redeem i) (vi_wscript i) (vi_ders i) (vi_fsig i) (vi_fwit i) x.

Definition v0_is_some {A} (o : option A) : bool := match o with Some _ => true | None => false end.

(* ---------- ordering: psbt.PartialSigSorter / psbt.Bip32Sorter (bytes.Compare(a,b) < 0) ---------- *)
Fixpoint v0_bytes_ltb (a b : bytes) : bool :=
  match a, b with
  | _, [] => false
  | [], _ :: _ => true
  | x :: a', y :: b' =>
      if n8 x <? n8 y then true else if n8 y <? n8 x then false else v0_bytes_ltb a' b'
  end.

(* sort.Sort on the slice: the result for distinct keys is the sorted list; for equal keys the
   model is the stable order (Go's sort is insertion sort, hence stable, up to 12 elements) *)
Fixpoint v0_insert {A} (key : A -> bytes) (a : A) (l : list A) : list A :=
  match l with
  | [] => [a]
  | y :: r => if v0_bytes_ltb (key y) (key a) then y :: v0_insert key a r else a :: y :: r
  end.
Definition v0_sort {A} (key : A -> bytes) (l : list A) : list A := fold_right (v0_insert key) [] l.

(* ---------- IsSane, isFinalized, validateUnsignedTX ---------- *)
Definition v0_sane (i : v0in) : bool :=
  negb (v0_is_some (vi_nwu i) && v0_is_some (vi_wu i)) &&
  negb (negb (v0_is_some (vi_wu i)) && v0_is_some (vi_wscript i)) &&
  negb (negb (v0_is_some (vi_wu i)) && v0_is_some (vi_fwit i)).
Definition v0_finalized (i : v0in) : bool := v0_is_some (vi_fsig i) || v0_is_some (vi_fwit i).
Definition v0_unsigned_ok (t : tx) : bool :=
  forallb (fun i => negb (nonempty (in_script i)) && negb (nonempty (in_witness i))) (t_ins t).

(* finalizer.go finalizeNonWitnessInput / finalizeWitnessInput: the input is replaced by
   NewPsetInput(utxo) plus the final scripts: partial signatures, sighash type, redeem and witness
   script, derivations and unknowns are all cleared (the scripts themselves are built by code
   outside this model and are arguments here) *)
Definition v0_finalize_in (i : v0in) (fsig fwit : option bytes) : v0in :=
  mk_v0in (vi_nwu i) (vi_wu i) [] 0 None None [] fsig fwit [].
Definition v0_finalize_at (p : v0pset) (n : nat) (fsig fwit : option bytes) : v0pset :=
  mk_v0pset (vp_tx p)
    (firstn n (vp_ins p) ++
     match skipn n (vp_ins p) with [] => [] | i :: r => v0_finalize_in i fsig fwit :: r end)
    (vp_outs p) (vp_unk p).

(* ---------- serialize ---------- *)
(* serializeKVpair: wire.WriteVarBytes(key) then wire.WriteVarBytes(value) *)
Definition v0_kv (kv : bytes * bytes) : bytes := var_slice (fst kv) ++ var_slice (snd kv).

(* writeTxOut; IsConfidential() is len(Nonce) > 1 *)
Definition v0_is_conf (o : txout) : bool := (1 <? length (o_nonce o))%nat.
Definition v0_ser_wu (o : txout) : bytes :=
  ser_out false false o ++      (* asset, value, nonce, var-slice script *)
  (if v0_is_conf o then var_slice (o_sp o) ++ var_slice (o_rp o) else []).

(* psbt.SerializeBIP32Derivation *)
Definition v0_ser_bip32 (d : v0der) : bytes :=
  le_enc 4 (dv_fp d) ++ concat (map (le_enc 4) (dv_path d)).

Definition v0_opt_kv (ty : N) (o : option bytes) : list (bytes * bytes) :=
  match o with Some v => [([b8 ty], v)] | None => [] end.
Definition v0_sig_kv (s : v0sig) : bytes * bytes := (b8 v0_T_PartialSig :: sg_pk s, sg_sig s).
Definition v0_der_kv (ty : N) (d : v0der) : bytes * bytes := (b8 ty :: dv_pk d, v0_ser_bip32 d).
Definition v0_unk_kv (u : v0unk) : bytes * bytes := (uk_key u, uk_val u).

(* the key/value pairs PInput.serialize emits, in emission order *)
Definition v0_in_kvs (i : v0in) : list (bytes * bytes) :=
  (match vi_nwu i with Some t => [([b8 v0_T_NonWitnessUtxo], ser_full t)] | None => [] end) ++
  (match vi_wu i with Some o => [([b8 v0_T_WitnessUtxo], v0_ser_wu o)] | None => [] end) ++
  (if v0_finalized i then [] else
     map v0_sig_kv (v0_sort sg_pk (vi_sigs i)) ++
     (if vi_sighash i =? 0 then [] else [([b8 v0_T_Sighash], le_enc 4 (vi_sighash i))]) ++
     v0_opt_kv v0_T_RedeemScript (vi_redeem i) ++
     v0_opt_kv v0_T_WitnessScript (vi_wscript i) ++
     map (v0_der_kv v0_T_Bip32) (v0_sort dv_pk (vi_ders i))) ++
  v0_opt_kv v0_T_FinalScriptSig (vi_fsig i) ++
  v0_opt_kv v0_T_FinalScriptWitness (vi_fwit i) ++
  map v0_unk_kv (vi_unk i).

Definition v0_out_kvs (o : v0out) : list (bytes * bytes) :=
  v0_opt_kv v0_TO_RedeemScript (vo_redeem o) ++
  v0_opt_kv v0_TO_WitnessScript (vo_wscript o) ++
  map (v0_der_kv v0_TO_Bip32) (v0_sort dv_pk (vo_ders o)).

Definition v0_sep : bytes := [x00].
Definition v0_ser_section (kvs : list (bytes * bytes)) : bytes := enc_list v0_kv kvs ++ v0_sep.

(* the global section as Pset.serialize writes it: the unsigned transaction, then p.Unknowns
   as they were read (serializeKVpair on the stored key) *)
Definition v0_global_kvs (p : v0pset) : list (bytes * bytes) :=
  ([b8 v0_T_UnsignedTx], ser_full (vp_tx p)) :: map v0_unk_kv (vp_unk p).

(* Pset.serialize; None = the IsSane guard of PInput.serialize fails *)
Definition v0_ser (p : v0pset) : option bytes :=
  if forallb v0_sane (vp_ins p) then
    Some (v0_magic ++ v0_ser_section (v0_global_kvs p) ++
          concat (map (fun i => v0_ser_section (v0_in_kvs i)) (vp_ins p)) ++
          concat (map (fun o => v0_ser_section (v0_out_kvs o)) (vp_outs p)))
  else None.

(* ---------- parse ---------- *)
(* getKey: None = error, Some None = separator, Some (Some key) = type byte :: key data *)
Definition v0_p_key : parser (option bytes) :=
  n <- p_varint ;;
  if n =? 0 then ret None
  else if v0_MaxKeyLen <? n then pfail
  else k <- takeN n ;; ret (Some k).

(* wire.ReadVarBytes(r, 0, MaxPsbtValueLength, _) *)
Definition v0_p_val : parser bytes :=
  n <- p_varint ;; if v0_MaxValLen <? n then pfail else takeN n.

(* `for { getKey; if separator break; ReadVarBytes; switch ... }`; every iteration consumes at
   least one byte, so fuel = remaining length + 1 is never exhausted (Proofs: v0_p_section_fuel) *)
Fixpoint v0_p_section {St : Type} (step : St -> bytes -> bytes -> option St) (fuel : nat) (st : St) : parser St :=
  fun bs =>
    match fuel with
    | O => None
    | S f =>
        match v0_p_key bs with
        | None => None
        | Some (None, r) => Some (st, r)
        | Some (Some k, r) =>
            match v0_p_val r with
            | None => None
            | Some (v, r') =>
                match step st k v with
                | None => None
                | Some st' => v0_p_section step f st' r'
                end
            end
        end
    end.

Definition v0_section {St : Type} (step : St -> bytes -> bytes -> option St) (st : St) : parser St :=
  fun bs => v0_p_section step (S (length bs)) st bs.

(* readTxOut *)
Definition v0_read_txout (v : bytes) : option txout :=
  if (length v <? v0_MinTxOutLen)%nat then None else
  match (o <- p_out ;;           (* asset, value, nonce, var-slice script; proofs empty *)
         if v0_is_conf o
         then sp <- p_var_slice ;; rp <- p_var_slice ;;
              ret (mk_out (o_asset o) (o_value o) (o_script o) (o_nonce o) rp sp)
         else ret o) v with
  | Some (o, _) => Some o
  | None => None
  end.

(* readBip32Derivation: len%4 == 0 && len/4-1 >= 0, then 4-byte little-endian words:
   the master fingerprint followed by a possibly empty path *)
Fixpoint v0_words (bs : bytes) : option (list N) :=
  match bs with
  | [] => Some []
  | a :: b :: c :: d :: r =>
      match v0_words r with Some l => Some (le_dec [a; b; c; d] :: l) | None => None end
  | _ => None
  end.
Definition v0_read_bip32 (v : bytes) : option (N * list N) :=
  match v0_words v with
  | Some (fp :: rest) => Some (fp, rest)
  | _ => None
  end.

Definition v0_parse_tx_value (v : bytes) : option tx :=
  match parse_tx v with Some (t, _) => Some t | None => None end.

Section V0.
Variable valid_pk : bytes -> bool.     (* btcec.ParsePubKey(x) succeeds *)
Variable valid_sig : bytes -> bool.    (* ecdsa.ParseDERSignature(x) succeeds *)

Definition v0_no_kd (kd : bytes) : bool := match kd with [] => true | _ => false end.

(* one iteration of the switch in PInput.deserialize *)
Definition v0_in_step (i : v0in) (k v : bytes) : option v0in :=
  match k with
  | [] => None
  | tb :: kd =>
    let ty := n8 tb in
    if ty =? v0_T_NonWitnessUtxo then
      if v0_is_some (vi_nwu i) then None else if negb (v0_no_kd kd) then None else
      match v0_parse_tx_value v with Some t => Some (v0_set_nwu i (Some t)) | None => None end
    else if ty =? v0_T_WitnessUtxo then
      if v0_is_some (vi_wu i) then None else if negb (v0_no_kd kd) then None else
      match v0_read_txout v with Some o => Some (v0_set_wu i (Some o)) | None => None end
    else if ty =? v0_T_PartialSig then
      if negb (valid_pk kd && valid_sig v) then None else
      if existsb (fun s => bytes_eqb (sg_pk s) kd) (vi_sigs i) then None else
      Some (v0_set_sigs i (vi_sigs i ++ [mk_v0sig kd v]))
    else if ty =? v0_T_Sighash then
      if negb (vi_sighash i =? 0) then None else if negb (v0_no_kd kd) then None else
      if negb (length v =? 4)%nat then None else Some (v0_set_sighash i (le_dec v))
    else if ty =? v0_T_RedeemScript then
      if v0_is_some (vi_redeem i) then None else if negb (v0_no_kd kd) then None else
      Some (v0_set_redeem i (Some v))
    else if ty =? v0_T_WitnessScript then
      if v0_is_some (vi_wscript i) then None else if negb (v0_no_kd kd) then None else
      Some (v0_set_wscript i (Some v))
    else if ty =? v0_T_Bip32 then
      if negb (valid_pk kd) then None else
      match v0_read_bip32 v with
      | None => None
      | Some (fp, path) =>
          if existsb (fun d => bytes_eqb (dv_pk d) kd) (vi_ders i) then None else
          Some (v0_set_ders i (vi_ders i ++ [mk_v0der kd fp path]))
      end
    else if ty =? v0_T_FinalScriptSig then
      if v0_is_some (vi_fsig i) then None else if negb (v0_no_kd kd) then None else
      Some (v0_set_fsig i (Some v))
    else if ty =? v0_T_FinalScriptWitness then
      if v0_is_some (vi_fwit i) then None else if negb (v0_no_kd kd) then None else
      Some (v0_set_fwit i (Some v))
    else
      if existsb (fun u => bytes_eqb (uk_key u) k && bytes_eqb (uk_val u) v) (vi_unk i) then None else
      Some (v0_set_unk i (vi_unk i ++ [mk_v0unk k v]))
  end.

(* one iteration of the switch in POutput.deserialize *)
Definition v0_out_step (o : v0out) (k v : bytes) : option v0out :=
  match k with
  | [] => None
  | tb :: kd =>
    let ty := n8 tb in
    if ty =? v0_TO_RedeemScript then
      if v0_is_some (vo_redeem o) then None else if negb (v0_no_kd kd) then None else
      Some (mk_v0out (Some v) (vo_wscript o) (vo_ders o))
    else if ty =? v0_TO_WitnessScript then
      if v0_is_some (vo_wscript o) then None else if negb (v0_no_kd kd) then None else
      Some (mk_v0out (vo_redeem o) (Some v) (vo_ders o))
    else if ty =? v0_TO_Bip32 then
      if negb (valid_pk kd) then None else
      match v0_read_bip32 v with
      | None => None
      | Some (fp, path) =>
          if existsb (fun d => bytes_eqb (dv_pk d) kd) (vo_ders o) then None else
          Some (mk_v0out (vo_redeem o) (vo_wscript o) (vo_ders o ++ [mk_v0der kd fp path]))
      end
    else None
  end.

(* the loop over global unknowns in deserialize (no duplicate test there) *)
Definition v0_gunk_step (l : list v0unk) (k v : bytes) : option (list v0unk) :=
  Some (l ++ [mk_v0unk k v]).

(* `for i := range msgTx.Inputs { input.deserialize(r) }` *)
Fixpoint v0_sections {St X : Type} (p : parser St) (l : list X) : parser (list St) :=
  match l with
  | [] => ret []
  | _ :: r => a <- p ;; b <- v0_sections p r ;; ret (a :: b)
  end.

(* deserialize(r io.Reader) as a stream parser: the packet and the bytes left in the reader *)
Definition v0_parse_rest : parser v0pset :=
  m <- take 5 ;;
  if negb (bytes_eqb m v0_magic) then pfail else
  k0 <- v0_p_key ;;
  match k0 with
  | Some [tb] =>
      if negb (n8 tb =? v0_T_UnsignedTx) then pfail else
      v <- v0_p_val ;;
      match v0_parse_tx_value v with
      | None => pfail
      | Some t =>
          if negb (v0_unsigned_ok t) then pfail else
          unk <- v0_section v0_gunk_step [] ;;
          ins <- v0_sections (v0_section v0_in_step v0_in_empty) (t_ins t) ;;
          outs <- v0_sections (v0_section v0_out_step v0_out_empty) (t_outs t) ;;
          (* SanityCheck *)
          if forallb v0_sane ins then ret (mk_v0pset t ins outs unk) else pfail
      end
  | _ => pfail
  end.

(* NewPsetFromHex / NewPsetFromBase64: deserialize(bytes.NewReader(decoded)); the reader is not
   checked for leftover bytes, so whatever follows the last output section is not looked at *)
Definition v0_parse (bs : bytes) : option v0pset :=
  match v0_parse_rest bs with
  | Some (p, _) => Some p
  | None => None
  end.

(* ---------- what the wire format can represent ---------- *)
Definition v0_len_ok (max : N) (x : bytes) : bool := lenN x <=? max.

Fixpoint v0_nodupb {A} (eqb : A -> A -> bool) (l : list A) : bool :=
  match l with [] => true | x :: r => negb (existsb (eqb x) r) && v0_nodupb eqb r end.

Definition v0_wf_nwu (t : tx) : bool := wf_tx t && v0_len_ok v0_MaxValLen (ser_full t).
(* a witness UTXO the codec can carry; the 44-byte floor of readTxOut is kept apart (v0_wufloor):
   it only bites on an output whose value is the one-byte null value 0x00 with a script shorter
   than 8 bytes (Proofs: v0_wufloor_nonnull) *)
Definition v0_wf_wu (o : txout) : bool := wf_out o && v0_len_ok v0_MaxValLen (v0_ser_wu o).
Definition v0_wufloor (o : txout) : bool := (v0_MinTxOutLen <=? length (v0_ser_wu o))%nat.

Definition v0_wf_sig (s : v0sig) : bool :=
  valid_pk (sg_pk s) && valid_sig (sg_sig s) &&
  (1 + lenN (sg_pk s) <=? v0_MaxKeyLen) && v0_len_ok v0_MaxValLen (sg_sig s).
Definition v0_wf_der (d : v0der) : bool :=
  valid_pk (dv_pk d) && (1 + lenN (dv_pk d) <=? v0_MaxKeyLen) &&
  (dv_fp d <? two32) && forallb (fun x => x <? two32) (dv_path d) &&
  v0_len_ok v0_MaxValLen (v0_ser_bip32 d).
Definition v0_known_in_type (ty : N) : bool := ty <=? v0_T_FinalScriptWitness.
Definition v0_wf_unk (u : v0unk) : bool :=
  match uk_key u with
  | [] => false
  | tb :: _ => negb (v0_known_in_type (n8 tb))
  end && v0_len_ok v0_MaxKeyLen (uk_key u) && v0_len_ok v0_MaxValLen (uk_val u).
(* a global unknown pair: any key type (the global loop has no type or duplicate test), but an
   empty key would be read as the separator *)
Definition v0_wf_gunk (u : v0unk) : bool :=
  nonempty (uk_key u) && v0_len_ok v0_MaxKeyLen (uk_key u) && v0_len_ok v0_MaxValLen (uk_val u).
Definition v0_wf_script (o : option bytes) : bool :=
  match o with Some s => v0_len_ok v0_MaxValLen s | None => true end.
Definition v0_unk_eqb (a b : v0unk) : bool :=
  bytes_eqb (uk_key a) (uk_key b) && bytes_eqb (uk_val a) (uk_val b).

(* everything about an input except IsSane and the 44-byte floor *)
Definition v0_wf_in_core (i : v0in) : bool :=
  match vi_nwu i with Some t => v0_wf_nwu t | None => true end &&
  match vi_wu i with Some o => v0_wf_wu o | None => true end &&
  forallb v0_wf_sig (vi_sigs i) && v0_nodupb bytes_eqb (map sg_pk (vi_sigs i)) &&
  (vi_sighash i <? two32) &&
  v0_wf_script (vi_redeem i) && v0_wf_script (vi_wscript i) &&
  forallb v0_wf_der (vi_ders i) && v0_nodupb bytes_eqb (map dv_pk (vi_ders i)) &&
  v0_wf_script (vi_fsig i) && v0_wf_script (vi_fwit i) &&
  forallb v0_wf_unk (vi_unk i) && v0_nodupb v0_unk_eqb (vi_unk i).
Definition v0_wf_out (o : v0out) : bool :=
  v0_wf_script (vo_redeem o) && v0_wf_script (vo_wscript o) &&
  forallb v0_wf_der (vo_ders o) && v0_nodupb bytes_eqb (map dv_pk (vo_ders o)).

Definition v0_wf_core (p : v0pset) : bool :=
  wf_tx (vp_tx p) && v0_unsigned_ok (vp_tx p) && v0_len_ok v0_MaxValLen (ser_full (vp_tx p)) &&
  (length (vp_ins p) =? length (t_ins (vp_tx p)))%nat &&
  (length (vp_outs p) =? length (t_outs (vp_tx p)))%nat &&
  forallb v0_wf_in_core (vp_ins p) && forallb v0_sane (vp_ins p) &&
  forallb v0_wf_out (vp_outs p) && forallb v0_wf_gunk (vp_unk p).
Definition v0_wufloor_in (i : v0in) : bool :=
  match vi_wu i with Some o => v0_wufloor o | None => true end.
Definition v0_wufloor_all (p : v0pset) : bool := forallb v0_wufloor_in (vp_ins p).
Definition v0_wf (p : v0pset) : bool := v0_wf_core p && v0_wufloor_all p.

End V0.

(* ---------- what survives one serialize/parse hop, clause by clause ---------- *)
(* readTxOut leaves both proofs empty unless the nonce is longer than one byte *)
Definition v0_norm_wu (o : txout) : txout :=
  if v0_is_conf o then o else mk_out (o_asset o) (o_value o) (o_script o) (o_nonce o) [] [].
Definition v0_norm_in (i : v0in) : v0in :=
  let fin := v0_finalized i in
  mk_v0in (option_map norm_tx (vi_nwu i)) (option_map v0_norm_wu (vi_wu i))
    (if fin then [] else v0_sort sg_pk (vi_sigs i))
    (if fin then 0 else vi_sighash i)
    (if fin then None else vi_redeem i)
    (if fin then None else vi_wscript i)
    (if fin then [] else v0_sort dv_pk (vi_ders i))
    (vi_fsig i) (vi_fwit i) (vi_unk i).
Definition v0_norm_out (o : v0out) : v0out :=
  mk_v0out (vo_redeem o) (vo_wscript o) (v0_sort dv_pk (vo_ders o)).
Definition v0_norm (p : v0pset) : v0pset :=
  mk_v0pset (norm_tx (vp_tx p)) (map v0_norm_in (vp_ins p)) (map v0_norm_out (vp_outs p)) (vp_unk p).

(* structural conditions under which the hop is the identity *)
Fixpoint v0_sortedb {A} (key : A -> bytes) (l : list A) : bool :=
  match l with
  | [] => true
  | a :: r => match r with [] => true | b :: _ => negb (v0_bytes_ltb (key b) (key a)) end && v0_sortedb key r
  end.
Definition v0_flag_canon (t : tx) : bool := t_flag t =? (if has_witness t then 1 else 0).
Definition v0_wu_canon (o : txout) : bool :=
  v0_is_conf o || (negb (nonempty (o_rp o)) && negb (nonempty (o_sp o))).
Definition v0_canon_in (i : v0in) : bool :=
  match vi_nwu i with Some t => v0_flag_canon t | None => true end &&
  match vi_wu i with Some o => v0_wu_canon o | None => true end &&
  (if v0_finalized i
   then negb (nonempty (vi_sigs i)) && (vi_sighash i =? 0) && negb (v0_is_some (vi_redeem i)) &&
        negb (v0_is_some (vi_wscript i)) && negb (nonempty (vi_ders i))
   else v0_sortedb sg_pk (vi_sigs i) && v0_sortedb dv_pk (vi_ders i)).
Definition v0_canon (p : v0pset) : bool :=
  v0_flag_canon (vp_tx p) &&
  forallb v0_canon_in (vp_ins p) && forallb (fun o => v0_sortedb dv_pk (vo_ders o)) (vp_outs p).
