(* Model/Ripemd160.v — executable RIPEMD-160 over byte lists and HASH160 =
   RIPEMD-160 (SHA-256 x) as used by btcutil.Hash160.  Checked against the
   standard test vectors at the end of the file (inside the kernel, vm_compute). *)
From GE Require Export Lib.Bytes Lib.Sha256.
Open Scope N_scope.

Definition rotl32 (n x : N) : N :=
  N.lor (N.land (N.shiftl x n) mask32) (N.shiftr x (32 - n)).

(* the five boolean functions, selected by round group 0..4 *)
Definition rmd_f (j : nat) (x y z : N) : N :=
  match j with
  | 0%nat => N.lxor (N.lxor x y) z
  | 1%nat => N.lor (N.land x y) (N.land (not32 x) z)
  | 2%nat => N.lxor (N.lor x (not32 y)) z
  | 3%nat => N.lor (N.land x z) (N.land y (not32 z))
  | _ => N.lxor x (N.lor y (not32 z))
  end.

Definition rmd_KL : list N := [0x00000000; 0x5a827999; 0x6ed9eba1; 0x8f1bbcdc; 0xa953fd4e].
Definition rmd_KR : list N := [0x50a28be6; 0x5c4dd124; 0x6d703ef3; 0x7a6d76e9; 0x00000000].

Definition rmd_RL : list nat := [
  0; 1; 2; 3; 4; 5; 6; 7; 8; 9; 10; 11; 12; 13; 14; 15;
  7; 4; 13; 1; 10; 6; 15; 3; 12; 0; 9; 5; 2; 14; 11; 8;
  3; 10; 14; 4; 9; 15; 8; 1; 2; 7; 0; 6; 13; 11; 5; 12;
  1; 9; 11; 10; 0; 8; 12; 4; 13; 3; 7; 15; 14; 5; 6; 2;
  4; 0; 5; 9; 7; 12; 2; 10; 14; 1; 3; 8; 11; 6; 15; 13]%nat.
Definition rmd_RR : list nat := [
  5; 14; 7; 0; 9; 2; 11; 4; 13; 6; 15; 8; 1; 10; 3; 12;
  6; 11; 3; 7; 0; 13; 5; 10; 14; 15; 8; 12; 4; 9; 1; 2;
  15; 5; 1; 3; 7; 14; 6; 9; 11; 8; 12; 2; 10; 0; 4; 13;
  8; 6; 4; 1; 3; 11; 15; 0; 5; 12; 2; 13; 9; 7; 10; 14;
  12; 15; 10; 4; 1; 5; 8; 7; 6; 2; 13; 14; 0; 3; 9; 11]%nat.
Definition rmd_SL : list N := [
  11; 14; 15; 12; 5; 8; 7; 9; 11; 13; 14; 15; 6; 7; 9; 8;
  7; 6; 8; 13; 11; 9; 7; 15; 7; 12; 15; 9; 11; 7; 13; 12;
  11; 13; 6; 7; 14; 9; 13; 15; 14; 8; 13; 6; 5; 12; 7; 5;
  11; 12; 14; 15; 14; 15; 9; 8; 9; 14; 5; 6; 8; 6; 5; 12;
  9; 15; 5; 11; 6; 8; 13; 12; 5; 12; 13; 14; 11; 8; 5; 6].
Definition rmd_SR : list N := [
  8; 9; 9; 11; 13; 15; 15; 5; 7; 7; 8; 11; 14; 14; 12; 6;
  9; 13; 15; 7; 12; 8; 9; 11; 7; 7; 12; 7; 6; 15; 13; 11;
  9; 7; 15; 11; 8; 6; 6; 14; 12; 13; 5; 14; 13; 13; 7; 5;
  15; 5; 8; 11; 14; 14; 6; 14; 6; 9; 12; 9; 12; 5; 15; 8;
  8; 5; 12; 9; 12; 5; 14; 6; 8; 13; 6; 5; 15; 13; 11; 11].

(* little-endian words of a byte list (length a multiple of 4) *)
Fixpoint le_words_of (fuel : nat) (bs : bytes) : list N :=
  match fuel with
  | O => []
  | S f => match bs with
           | a :: b :: c :: d :: r => (((n8 d * 256 + n8 c) * 256 + n8 b) * 256 + n8 a) :: le_words_of f r
           | _ => []
           end
  end.

Definition rmd_state : Type := (N * N * N * N * N)%type.

(* one step of one line: j = step number 0..79 *)
Definition rmd_step (left : bool) (x : list N) (st : rmd_state) (j : nat) : rmd_state :=
  let '(a, b, c, d, e) := st in
  let g := (j / 16)%nat in
  let fj := if left then rmd_f g b c d else rmd_f (4 - g)%nat b c d in
  let k := if left then nth g rmd_KL 0 else nth g rmd_KR 0 in
  let r := if left then nth j rmd_RL 0%nat else nth j rmd_RR 0%nat in
  let s := if left then nth j rmd_SL 0 else nth j rmd_SR 0 in
  let t := add32 (rotl32 s (add32 (add32 a fj) (add32 (nthN x r) k))) e in
  (e, t, b, rotl32 10 c, d).

Definition rmd_compress (st : rmd_state) (block : bytes) : rmd_state :=
  let x := le_words_of 16 block in
  let '(h0, h1, h2, h3, h4) := st in
  let '(al, bl, cl, dl, el) := fold_left (rmd_step true x) (seq 0 80) st in
  let '(ar, br, cr, dr, er) := fold_left (rmd_step false x) (seq 0 80) st in
  (add32 (add32 h1 cl) dr, add32 (add32 h2 dl) er, add32 (add32 h3 el) ar,
   add32 (add32 h4 al) br, add32 (add32 h0 bl) cr).

Fixpoint rmd_blocks (fuel : nat) (st : rmd_state) (bs : bytes) : rmd_state :=
  match fuel with
  | O => st
  | S f => match bs with
           | [] => st
           | _ => rmd_blocks f (rmd_compress st (firstn 64 bs)) (skipn 64 bs)
           end
  end.

Definition rmd_pad (msg : bytes) : bytes :=
  let l := length msg in
  let k := ((64 - ((l + 9) mod 64)) mod 64)%nat in
  msg ++ x80 :: repeat x00 k ++ le_enc 8 (8 * N.of_nat l).

Definition rmd_IV : rmd_state := (0x67452301, 0xefcdab89, 0x98badcfe, 0x10325476, 0xc3d2e1f0).

Definition rmd_digest_of (st : rmd_state) : bytes :=
  let '(a, b, c, d, e) := st in
  le_enc 4 a ++ le_enc 4 b ++ le_enc 4 c ++ le_enc 4 d ++ le_enc 4 e.

Definition ripemd160 (msg : bytes) : bytes :=
  let p := rmd_pad msg in rmd_digest_of (rmd_blocks (S (length p / 64)) rmd_IV p).

(* btcutil.Hash160 *)
Definition hash160 (msg : bytes) : bytes := ripemd160 (sha256 msg).

Lemma ripemd160_length msg : length (ripemd160 msg) = 20%nat.
Proof.
  unfold ripemd160. destruct (rmd_blocks _ _ _) as [[[[a b] c] d] e].
  unfold rmd_digest_of. rewrite !app_length, !le_enc_length. reflexivity.
Qed.

Lemma hash160_length msg : length (hash160 msg) = 20%nat.
Proof. apply ripemd160_length. Qed.

(* "" -> 9c1185a5c5e9fc54612808977ee8f548b2258d31 *)
Lemma ripemd160_vec_empty :
  ripemd160 [] =
  map b8 [0x9c;0x11;0x85;0xa5;0xc5;0xe9;0xfc;0x54;0x61;0x28;0x08;0x97;0x7e;0xe8;0xf5;0x48;0xb2;0x25;0x8d;0x31].
Proof. vm_compute. reflexivity. Qed.

(* "abc" -> 8eb208f7e05d987a9b044a8e98c6b087f15a0bfc *)
Lemma ripemd160_vec_abc :
  ripemd160 (map b8 [97;98;99]) =
  map b8 [0x8e;0xb2;0x08;0xf7;0xe0;0x5d;0x98;0x7a;0x9b;0x04;0x4a;0x8e;0x98;0xc6;0xb0;0x87;0xf1;0x5a;0x0b;0xfc].
Proof. vm_compute. reflexivity. Qed.

(* "abcdbcdecdefdefgefghfghighijhijkijkljklmklmnlmnomnopnopq" (two blocks)
   -> 12a053384a9c0c88e405a06c27dcf49ada62eb2b *)
Lemma ripemd160_vec_two_blocks :
  ripemd160 (map b8 [97;98;99;100;98;99;100;101;99;100;101;102;100;101;102;103;101;102;103;104;102;103;104;105;
                  103;104;105;106;104;105;106;107;105;106;107;108;106;107;108;109;107;108;109;110;108;109;110;111;
                  109;110;111;112;110;111;112;113]) =
  map b8 [0x12;0xa0;0x53;0x38;0x4a;0x9c;0x0c;0x88;0xe4;0x05;0xa0;0x6c;0x27;0xdc;0xf4;0x9a;0xda;0x62;0xeb;0x2b].
Proof. vm_compute. reflexivity. Qed.
