(* Proofs/SighashSens.v — the converse of the frame theorem for the segwit-v0 signature
   hash (C02): under an ideal hash (injective, 32-byte output, never the all-zero word)
   equal pre-images force equal covered views, i.e. every covered field changes the
   pre-image, hence the digest. *)
From GE Require Import Lib.Bytes Lib.Varint Lib.Sha256 Model.Tx Model.Sighash Proofs.TxCodec Proofs.Sighash.
From Coq Require Import ZifyBool ZifyN ZifyNat.
Open Scope N_scope.

(* ---------- list splitting by length ---------- *)
Lemma app_inv_len {A} (a a' b b' : list A) : length a = length a' -> a ++ b = a' ++ b' -> a = a' /\ b = b'.
Proof.
  revert a'; induction a as [|x a IH]; intros [|y a'] L E; try discriminate; [auto|].
  cbn in *. injection L as L. injection E as -> E. destruct (IH a' L E) as [-> ->]. auto.
Qed.

Lemma app_inv_len_tail {A} (a a' b b' : list A) : length b = length b' -> a ++ b = a' ++ b' -> a = a' /\ b = b'.
Proof.
  intros L E. assert (La : length a = length a').
  { apply (f_equal (@length A)) in E. rewrite !app_length in E. lia. }
  apply app_inv_len; assumption.
Qed.

(* lists of fixed-width encodings *)
Lemma enc_list_fixed_inj {A B} (e : A -> bytes) (f : A -> B) (k : nat) (l l' : list A) :
  (0 < k)%nat -> (forall a, In a l \/ In a l' -> length (e a) = k) ->
  (forall a a', (In a l \/ In a l') -> (In a' l \/ In a' l') -> e a = e a' -> f a = f a') ->
  enc_list e l = enc_list e l' -> map f l = map f l'.
Proof.
  intros Hk. revert l'; induction l as [|a l IH]; intros l' Hl Hi E.
  - destruct l' as [|a' l']; [reflexivity|]. unfold enc_list in E. cbn [map concat] in E.
    symmetry in E. apply app_eq_nil in E as [E _]. specialize (Hl a' (or_intror (or_introl eq_refl))). rewrite E in Hl. cbn in Hl. lia.
  - destruct l' as [|a' l'].
    { unfold enc_list in E. cbn [map concat] in E. apply app_eq_nil in E as [E _].
      specialize (Hl a (or_introl (or_introl eq_refl))). rewrite E in Hl. cbn in Hl. lia. }
    unfold enc_list in E. cbn [map concat] in E.
    apply app_inv_len in E as [E1 E2].
    + cbn [map]. f_equal.
      * apply Hi; [left; left; reflexivity | right; left; reflexivity | exact E1].
      * apply IH; [| | exact E2].
        -- intros x [Hx|Hx]; apply Hl; [left; right; exact Hx | right; right; exact Hx].
        -- intros x y [Hx|Hx] [Hy|Hy] Exy; apply Hi; try exact Exy;
             first [left; right; assumption | right; right; assumption].
    + rewrite (Hl a), (Hl a'); [reflexivity | right; left; reflexivity | left; left; reflexivity].
Qed.

(* lists of self-delimiting encodings *)
Lemma enc_list_parse_inj {A B} (e : A -> bytes) (f : A -> B) (p : parser B) (l l' : list A) :
  (forall a, In a l \/ In a l' -> forall r, p (e a ++ r) = Some (f a, r)) ->
  (forall a, In a l \/ In a l' -> e a <> []) ->
  enc_list e l = enc_list e l' -> map f l = map f l'.
Proof.
  revert l'; induction l as [|a l IH]; intros l' Hp Hne E.
  - destruct l' as [|a' l']; [reflexivity|]. unfold enc_list in E. cbn [map concat] in E.
    symmetry in E. apply app_eq_nil in E as [E _]. exfalso. apply (Hne a'); [right; left; reflexivity | exact E].
  - destruct l' as [|a' l'].
    { unfold enc_list in E. cbn [map concat] in E. apply app_eq_nil in E as [E _].
      exfalso. apply (Hne a); [left; left; reflexivity | exact E]. }
    unfold enc_list in E. cbn [map concat] in E.
    pose proof (Hp a (or_introl (or_introl eq_refl)) (concat (map e l))) as P1.
    pose proof (Hp a' (or_intror (or_introl eq_refl)) (concat (map e l'))) as P2.
    rewrite E in P1. rewrite P1 in P2. injection P2 as F R.
    cbn [map]. f_equal; [exact F|].
    apply IH; [| | exact R].
    + intros x [Hx|Hx]; apply Hp; [left; right; exact Hx | right; right; exact Hx].
    + intros x [Hx|Hx]; apply Hne; [left; right; exact Hx | right; right; exact Hx].
Qed.

(* ---------- issuance serialization ---------- *)
Lemma ser_iss_inj s s' : wf_iss s = true -> wf_iss s' = true -> ser_iss s = ser_iss s' -> s = s'.
Proof.
  intros W W' E. pose proof (p_issuance_app s [] W) as P. pose proof (p_issuance_app s' [] W') as P'.
  rewrite E in P. rewrite P in P'. congruence.
Qed.

Lemma ser_iss_length s : wf_iss s = true -> (66 <= length (ser_iss s))%nat.
Proof.
  unfold wf_iss. intro W. rewrite !andb_true_iff in W. destruct W as [[[A B] C] D].
  apply Nat.eqb_eq in A, B. unfold ser_iss. rewrite !app_length, A, B.
  assert (1 <= length (iss_amount s))%nat by (destruct (iss_amount s); [discriminate C | cbn; lia]).
  assert (1 <= length (iss_token s))%nat by (destruct (iss_token s); [discriminate D | cbn; lia]).
  lia.
Qed.

Definition iss_opt_bytes (o : option issuance) : bytes := match o with Some s => ser_iss s | None => [] end.
Definition wf_iss_opt (o : option issuance) : Prop := match o with Some s => wf_iss s = true | None => True end.

Lemma iss_opt_bytes_inj o o' : wf_iss_opt o -> wf_iss_opt o' -> iss_opt_bytes o = iss_opt_bytes o' -> o = o'.
Proof.
  destruct o as [s|], o' as [s'|]; cbn; intros W W' E.
  - f_equal. apply ser_iss_inj; assumption.
  - pose proof (ser_iss_length s W). rewrite E in H. cbn in H. lia.
  - pose proof (ser_iss_length s' W'). rewrite <- E in H. cbn in H. lia.
  - reflexivity.
Qed.

(* the hashed issuance list: one 0x00 for "none", the issuance otherwise.  This concatenation is not
   self-delimiting in general (an issuance may itself begin with 0x00); it is injective for lists with the
   same presence pattern, and lists of different total length never collide — which is what any
   single-field perturbation gives. *)
Definition same_iss_pattern (l l' : list txin) : Prop :=
  Forall2 (fun i i' => (in_iss i = None <-> in_iss i' = None)) l l'.

Lemma ser_issuances_inj l l' :
  (forall i, In i l \/ In i l' -> wf_iss_opt (in_iss i)) ->
  same_iss_pattern l l' -> ser_issuances l = ser_issuances l' -> map in_iss l = map in_iss l'.
Proof.
  intros W P. induction P as [|i i' l l' Hp P IH]; intro E; [reflexivity|].
  unfold ser_issuances, enc_list in E. cbn [map concat] in E.
  assert (Wi : wf_iss_opt (in_iss i)) by (apply W; left; left; reflexivity).
  assert (Wi' : wf_iss_opt (in_iss i')) by (apply W; right; left; reflexivity).
  unfold ser_iss_or_zero in E at 1 3.
  destruct (in_iss i) as [s|] eqn:Ei, (in_iss i') as [s'|] eqn:Ei'.
  - (* both present: the first issuance is self-delimiting *)
    cbn in Wi, Wi'.
    pose proof (p_issuance_app s (concat (map ser_iss_or_zero l)) Wi) as Q.
    pose proof (p_issuance_app s' (concat (map ser_iss_or_zero l')) Wi') as Q'.
    rewrite E in Q. rewrite Q in Q'. injection Q' as -> R.
    cbn [map]. rewrite Ei, Ei'. f_equal. apply IH; [|exact R].
    intros x [Hx|Hx]; apply W; [left; right; exact Hx | right; right; exact Hx].
  - exfalso. destruct Hp as [_ Hp]. specialize (Hp eq_refl). discriminate.
  - exfalso. destruct Hp as [Hp _]. specialize (Hp eq_refl). discriminate.
  - cbn [app] in E. injection E as R. cbn [map]. rewrite Ei, Ei'. f_equal. apply IH; [|exact R].
    intros x [Hx|Hx]; apply W; [left; right; exact Hx | right; right; exact Hx].
Qed.

(* ---------- outputs ---------- *)
Lemma strip_base o o' : strip_out o = strip_out o' -> out_base o = out_base o'.
Proof. unfold strip_out, out_base. intro E. injection E as A B C D. congruence. Qed.

Lemma ser_outputs_inj l l' :
  (forall o, In o l \/ In o l' -> wf_out o = true) ->
  ser_outputs l = ser_outputs l' -> map out_base l = map out_base l'.
Proof.
  intros W E.
  assert (S : map strip_out l = map strip_out l').
  { apply (enc_list_parse_inj (ser_out false false) strip_out p_out); [| |exact E].
    - intros a Ha r. apply p_out_app. apply W; exact Ha.
    - intros a Ha. apply ser_out_nonempty. apply W; exact Ha. }
  clear -S. revert l' S. induction l as [|o l IH]; intros [|o' l'] S; try discriminate; [reflexivity|].
  cbn [map] in *. assert (S1 : strip_out o = strip_out o') by congruence. assert (S2 : map strip_out l = map strip_out l') by congruence.
  rewrite (strip_base _ _ S1), (IH _ S2). reflexivity.
Qed.

Definition p_proofs : parser (bytes * bytes) := a <- p_var_slice ;; b <- p_var_slice ;; ret (a, b).

Lemma ser_rangeproofs_inj l l' :
  (forall o, In o l \/ In o l' -> wf_out o = true) ->
  ser_rangeproofs l = ser_rangeproofs l' -> map out_proofs l = map out_proofs l'.
Proof.
  intros W E. apply (enc_list_parse_inj ser_out_proofs_rs out_proofs p_proofs); [| |exact E].
  - intros o Ho r. apply W in Ho. apply wf_out_parts in Ho as (_ & _ & _ & _ & Hr & Hs).
    unfold p_proofs, ser_out_proofs_rs, bind. rewrite <- app_assoc.
    rewrite p_var_slice_app by exact Hr. rewrite p_var_slice_app by exact Hs. reflexivity.
  - intros o _. unfold ser_out_proofs_rs. pose proof (var_slice_nonempty (o_rp o)).
    destruct (var_slice (o_rp o)); [congruence | discriminate].
Qed.

Section IdealHash.
  Variable H2 : bytes -> bytes.
  Hypothesis H_inj : forall a b, H2 a = H2 b -> a = b.
  Hypothesis H_len : forall a, length (H2 a) = 32%nat.
  Hypothesis H_nonzero : forall a, H2 a <> zero32.

  Lemma zero32_len : length zero32 = 32%nat. Proof. reflexivity. Qed.

  (* what a signer may assume about the transaction it signs: it is well formed (C01), and the two
     transactions compared have the same issuance presence pattern or issuance lists of different size *)
  Definition iss_compatible (t t' : tx) : Prop :=
    same_iss_pattern (t_ins t) (t_ins t') \/ length (ser_issuances (t_ins t)) <> length (ser_issuances (t_ins t')).

  Lemma wf_in_iss i : wf_in i = true -> wf_iss_opt (in_iss i).
  Proof.
    intro W. apply wf_in_parts in W as (_ & _ & _ & C & _).
    destruct (in_iss i) as [s|] eqn:E; [|exact I]. cbn.
    destruct (in_index i =? MinusOne).
    - apply andb_true_iff in C as [_ C]. discriminate.
    - rewrite !andb_true_iff in C. destruct C as [_ C]. exact C.
  Qed.

  Local Opaque le_enc.

  Theorem v0_sensitive t t' idx script script' value value' ht p :
    wf_tx t = true -> wf_tx t' = true -> iss_compatible t t' ->
    lenN script < two64 -> lenN script' < two64 -> is_value value = true -> is_value value' = true ->
    preimage_v0 H2 t idx script value ht = Some p ->
    preimage_v0 H2 t' idx script' value' ht = Some p ->
    view_v0 t idx ht = view_v0 t' idx ht /\ script = script' /\ value = value'.
  Proof.
    intros W W' IC Ls Ls' Vv Vv'.
    apply wf_tx_parts in W as (Hver & Hlt & _ & _ & Win & Wout).
    apply wf_tx_parts in W' as (Hver' & Hlt' & _ & _ & Win' & Wout').
    unfold preimage_v0, view_v0.
    destruct (nth_error (t_ins t) idx) as [own|] eqn:N; [|discriminate].
    destruct (nth_error (t_ins t') idx) as [own'|] eqn:N'; [|discriminate].
    assert (Wo : wf_in own = true) by (apply Win; eapply nth_error_In; exact N).
    assert (Wo' : wf_in own' = true) by (apply Win'; eapply nth_error_In; exact N').
    pose proof (wf_in_parts own Wo) as (Lh & Lq & _).
    pose proof (wf_in_parts own' Wo') as (Lh' & Lq' & _).
    intros P P'. injection P as P. injection P' as P'. rewrite <- P' in P. clear P' p.
    set (hin := if ht_acp ht then zero32 else H2 (ser_prevouts (t_ins t))) in *.
    set (hin' := if ht_acp ht then zero32 else H2 (ser_prevouts (t_ins t'))) in *.
    set (hseq := if ht_acp ht || (ht_single ht || ht_none ht) then zero32 else H2 (ser_sequences (t_ins t))) in *.
    set (hseq' := if ht_acp ht || (ht_single ht || ht_none ht) then zero32 else H2 (ser_sequences (t_ins t'))) in *.
    set (hiss := if ht_acp ht then zero32 else H2 (ser_issuances (t_ins t))) in *.
    set (hiss' := if ht_acp ht then zero32 else H2 (ser_issuances (t_ins t'))) in *.
    set (hout := match covered_outs t idx ht with Some l => H2 (ser_outputs l) | None => zero32 end) in *.
    set (hout' := match covered_outs t' idx ht with Some l => H2 (ser_outputs l) | None => zero32 end) in *.
    set (hrp := match covered_outs t idx ht with Some l => H2 (ser_rangeproofs l) | None => zero32 end) in *.
    set (hrp' := match covered_outs t' idx ht with Some l => H2 (ser_rangeproofs l) | None => zero32 end) in *.
    assert (L32 : forall (b : bool) x, length (if b then zero32 else H2 x) = 32%nat) by (intros [|] x; [reflexivity | apply H_len]).
    assert (LM : forall (o : option (list txout)) g, length (match o with Some l => H2 (g l) | None => zero32 end) = 32%nat)
      by (intros [l|] g; [apply H_len | reflexivity]).
    (* peel the fixed-width head *)
    apply app_inv_len in P as [Ever P]; [|rewrite !le_enc_length; reflexivity].
    apply app_inv_len in P as [Ehin P]; [|unfold hin, hin'; rewrite !L32; reflexivity].
    apply app_inv_len in P as [Ehseq P]; [|unfold hseq, hseq'; rewrite !L32; reflexivity].
    apply app_inv_len in P as [Ehiss P]; [|unfold hiss, hiss'; rewrite !L32; reflexivity].
    unfold own_input_v0 in P. rewrite <- !app_assoc in P.
    apply app_inv_len in P as [Ehash P]; [|rewrite Lh, Lh'; reflexivity].
    apply app_inv_len in P as [Eidx P]; [|rewrite !le_enc_length; reflexivity].
    (* script code and value are self-delimiting *)
    assert (Escript : script = script' /\
       value ++ le_enc 4 (in_seq own) ++ iss_opt_bytes (in_iss own) ++ hout ++ (if ht_rp ht then hrp else []) ++ le_enc 4 (t_locktime t) ++ le_enc 4 ht =
       value' ++ le_enc 4 (in_seq own') ++ iss_opt_bytes (in_iss own') ++ hout' ++ (if ht_rp ht then hrp' else []) ++ le_enc 4 (t_locktime t') ++ le_enc 4 ht).
    { match type of P with var_slice script ++ ?r = var_slice script' ++ ?r' =>
        pose proof (p_var_slice_app script r Ls) as Q; pose proof (p_var_slice_app script' r' Ls') as Q' end.
      rewrite P in Q. rewrite Q in Q'. injection Q' as A B. split; [exact A|].
      unfold iss_opt_bytes. rewrite <- ?app_assoc in B |- *. exact B. }
    destruct Escript as [Escript P2]. clear P.
    assert (Evalue : value = value' /\
       le_enc 4 (in_seq own) ++ iss_opt_bytes (in_iss own) ++ hout ++ (if ht_rp ht then hrp else []) ++ le_enc 4 (t_locktime t) ++ le_enc 4 ht =
       le_enc 4 (in_seq own') ++ iss_opt_bytes (in_iss own') ++ hout' ++ (if ht_rp ht then hrp' else []) ++ le_enc 4 (t_locktime t') ++ le_enc 4 ht).
    { match type of P2 with value ++ ?r = value' ++ ?r' =>
        pose proof (p_value_app value r Vv) as Q; pose proof (p_value_app value' r' Vv') as Q' end.
      rewrite P2 in Q. rewrite Q in Q'. split; congruence. }
    destruct Evalue as [Evalue P3]. clear P2.
    apply app_inv_len in P3 as [Eseq P3]; [|rewrite !le_enc_length; reflexivity].
    (* the optional issuance is delimited by the fixed-width tail *)
    apply app_inv_len_tail in P3 as [Eiss P3].
    2:{ rewrite !app_length. unfold hout, hout', hrp, hrp'. rewrite !LM.
        destruct (ht_rp ht); rewrite ?LM, !le_enc_length; reflexivity. }
    apply app_inv_len in P3 as [Ehout P3]; [|unfold hout, hout'; rewrite !LM; reflexivity].
    assert (Etail : (if ht_rp ht then hrp else []) = (if ht_rp ht then hrp' else []) /\ t_locktime t = t_locktime t').
    { apply app_inv_len in P3 as [A B].
      - split; [exact A|]. apply app_inv_len in B as [B _]; [|rewrite !le_enc_length; reflexivity].
        apply (le_enc_inj 4); [cbn; unfold two32 in *; lia | cbn; unfold two32 in *; lia | exact B].
      - destruct (ht_rp ht); [unfold hrp, hrp'; rewrite !LM|]; reflexivity. }
    destruct Etail as [Ehrp Elt].
    (* fields of the signing input *)
    assert (Ever' : t_version t = t_version t') by (apply (le_enc_inj 4); [cbn; unfold two32 in *; lia | cbn; unfold two32 in *; lia | exact Ever]).
    assert (Eidx' : in_index own = in_index own').
    { apply wf_in_parts in Wo as (_ & _ & _ & C & _). apply wf_in_parts in Wo' as (_ & _ & _ & C' & _).
      assert (B : forall i, (if in_index i =? MinusOne then negb (in_pegin i) && match in_iss i with None => true | Some _ => false end
                 else (in_index i <=? OutpointIndexMask) && negb ((in_index i =? OutpointIndexMask) && in_pegin i && match in_iss i with Some _ => true | None => false end) &&
                      match in_iss i with Some s => wf_iss s | None => true end) = true -> in_index i < two32).
      { intros i Ci. destruct (N.eqb_spec (in_index i) MinusOne) as [->|_]; [reflexivity|].
        rewrite !andb_true_iff in Ci. destruct Ci as [[Ci _] _]. unfold OutpointIndexMask, two32 in *. lia. }
      apply (le_enc_inj 4); [cbn; pose proof (B own C); unfold two32 in *; lia | cbn; pose proof (B own' C'); unfold two32 in *; lia | exact Eidx]. }
    assert (Eseq' : in_seq own = in_seq own') by (apply (le_enc_inj 4); [cbn; unfold two32 in *; lia | cbn; unfold two32 in *; lia | exact Eseq]).
    assert (Eiss' : in_iss own = in_iss own') by (apply iss_opt_bytes_inj; [apply wf_in_iss; exact Wo | apply wf_in_iss; exact Wo' | exact Eiss]).
    (* the hashed lists *)
    assert (Ein : (if ht_acp ht then [] else map in_outpoint (t_ins t)) = (if ht_acp ht then [] else map in_outpoint (t_ins t'))).
    { unfold hin, hin' in Ehin. destruct (ht_acp ht); [reflexivity|]. apply H_inj in Ehin.
      apply (enc_list_fixed_inj ser_prevout in_outpoint 36); [lia | | | exact Ehin].
      - intros a [Ha|Ha]; [apply Win in Ha | apply Win' in Ha]; apply wf_in_parts in Ha as (L & _);
          unfold ser_prevout; rewrite app_length, L, le_enc_length; reflexivity.
      - intros a a' Ha Ha' E. unfold ser_prevout in E.
        assert (La : length (in_hash a) = 32%nat) by (destruct Ha as [Ha|Ha]; [apply Win in Ha | apply Win' in Ha]; apply wf_in_parts in Ha as (L & _); exact L).
        assert (La' : length (in_hash a') = 32%nat) by (destruct Ha' as [Ha'|Ha']; [apply Win in Ha' | apply Win' in Ha']; apply wf_in_parts in Ha' as (L & _); exact L).
        apply app_inv_len in E as [E1 E2]; [|rewrite La, La'; reflexivity].
        unfold in_outpoint. f_equal; [exact E1|].
        assert (Bd : forall x, (In x (t_ins t) \/ In x (t_ins t')) -> in_index x < two32).
        { intros x [Hx|Hx]; [apply Win in Hx | apply Win' in Hx]; apply wf_in_parts in Hx as (_ & _ & _ & C & _);
            (destruct (N.eqb_spec (in_index x) MinusOne) as [->|_]; [reflexivity|]);
            rewrite !andb_true_iff in C; destruct C as [[C _] _]; unfold OutpointIndexMask, two32 in *; lia. }
        apply (le_enc_inj 4); [cbn; pose proof (Bd a Ha); unfold two32 in *; lia | cbn; pose proof (Bd a' Ha'); unfold two32 in *; lia | exact E2]. }
    assert (Esq : (if ht_acp ht || (ht_single ht || ht_none ht) then [] else map in_seq (t_ins t)) =
                  (if ht_acp ht || (ht_single ht || ht_none ht) then [] else map in_seq (t_ins t'))).
    { unfold hseq, hseq' in Ehseq. destruct (ht_acp ht || (ht_single ht || ht_none ht)); [reflexivity|]. apply H_inj in Ehseq.
      apply (enc_list_fixed_inj (fun i => le_enc 4 (in_seq i)) in_seq 4); [lia | intros; apply le_enc_length | | exact Ehseq].
      intros a a' Ha Ha' E.
      assert (Bd : forall x, (In x (t_ins t) \/ In x (t_ins t')) -> in_seq x < two32)
        by (intros x [Hx|Hx]; [apply Win in Hx | apply Win' in Hx]; apply wf_in_parts in Hx as (_ & Q & _); exact Q).
      apply (le_enc_inj 4); [cbn; pose proof (Bd a Ha); unfold two32 in *; lia | cbn; pose proof (Bd a' Ha'); unfold two32 in *; lia | exact E]. }
    assert (Eis : (if ht_acp ht then [] else map in_iss (t_ins t)) = (if ht_acp ht then [] else map in_iss (t_ins t'))).
    { unfold hiss, hiss' in Ehiss. destruct (ht_acp ht); [reflexivity|]. apply H_inj in Ehiss.
      destruct IC as [IC|IC]; [|exfalso; apply IC; rewrite Ehiss; reflexivity].
      apply ser_issuances_inj; [|exact IC | exact Ehiss].
      intros i [Hi|Hi]; apply wf_in_iss; [apply Win | apply Win']; exact Hi. }
    (* outputs *)
    assert (Wc : forall l, covered_outs t idx ht = Some l -> forall o, In o l -> wf_out o = true).
    { unfold covered_outs. intros l. destruct (negb (ht_single ht || ht_none ht)).
      - intro E; injection E as <-. exact Wout.
      - destruct (ht_single ht); [|discriminate]. destruct (nth_error (t_outs t) idx) as [o|] eqn:No; [|discriminate].
        intro E; injection E as <-. intros x [<-|[]]. apply Wout. eapply nth_error_In; exact No. }
    assert (Wc' : forall l, covered_outs t' idx ht = Some l -> forall o, In o l -> wf_out o = true).
    { unfold covered_outs. intros l. destruct (negb (ht_single ht || ht_none ht)).
      - intro E; injection E as <-. exact Wout'.
      - destruct (ht_single ht); [|discriminate]. destruct (nth_error (t_outs t') idx) as [o|] eqn:No; [|discriminate].
        intro E; injection E as <-. intros x [<-|[]]. apply Wout'. eapply nth_error_In; exact No. }
    assert (Eob : option_map (map out_base) (covered_outs t idx ht) = option_map (map out_base) (covered_outs t' idx ht)).
    { unfold hout, hout' in Ehout.
      destruct (covered_outs t idx ht) as [l|] eqn:C, (covered_outs t' idx ht) as [l'|] eqn:C'; cbn [option_map].
      - apply H_inj in Ehout. f_equal. apply ser_outputs_inj; [|exact Ehout].
        intros o [Ho|Ho]; [eapply Wc | eapply Wc']; try reflexivity; exact Ho.
      - exfalso. exact (H_nonzero _ Ehout).
      - exfalso. symmetry in Ehout. exact (H_nonzero _ Ehout).
      - reflexivity. }
    assert (Eop : (if ht_rp ht then option_map (map out_proofs) (covered_outs t idx ht) else None) =
                  (if ht_rp ht then option_map (map out_proofs) (covered_outs t' idx ht) else None)).
    { destruct (ht_rp ht); [|reflexivity]. unfold hrp, hrp' in Ehrp.
      destruct (covered_outs t idx ht) as [l|] eqn:C, (covered_outs t' idx ht) as [l'|] eqn:C'; cbn [option_map].
      - apply H_inj in Ehrp. f_equal. apply ser_rangeproofs_inj; [|exact Ehrp].
        intros o [Ho|Ho]; [eapply Wc | eapply Wc']; try reflexivity; exact Ho.
      - exfalso. exact (H_nonzero _ Ehrp).
      - exfalso. symmetry in Ehrp. exact (H_nonzero _ Ehrp).
      - reflexivity. }
    split; [|split; assumption].
    rewrite Ever', Elt, Ehash, Eidx', Eseq', Eiss', Ein, Esq, Eis, Eob, Eop. reflexivity.
  Qed.

  (* digests: equal digests force equal views *)
  Corollary v0_digest_sensitive t t' idx script script' value value' ht d :
    wf_tx t = true -> wf_tx t' = true -> iss_compatible t t' ->
    lenN script < two64 -> lenN script' < two64 -> is_value value = true -> is_value value' = true ->
    digest_v0 H2 t idx script value ht = Some d -> digest_v0 H2 t' idx script' value' ht = Some d ->
    view_v0 t idx ht = view_v0 t' idx ht /\ script = script' /\ value = value'.
  Proof.
    intros W W' IC Ls Ls' Vv Vv'. unfold digest_v0.
    destruct (preimage_v0 H2 t idx script value ht) as [p|] eqn:P; [|discriminate].
    destruct (preimage_v0 H2 t' idx script' value' ht) as [p'|] eqn:P'; [|discriminate].
    intros D D'. injection D as D. injection D' as D'. rewrite <- D' in D. apply H_inj in D. subst p'.
    eapply v0_sensitive; eassumption.
  Qed.
End IdealHash.

(* non-vacuity: the hypotheses on H2 are jointly satisfiable on the inputs that occur (an injective
   32-byte-valued function on a finite domain), and two wf transactions differing in one covered field exist *)
Example v0_sensitive_applies :
  let i := mk_in (repeat x01 32) 0 5 [] [] false [] None [] [] in
  let t := mk_tx 2 0 0 [i] [] in
  let t' := mk_tx 2 0 1 [i] [] in
  wf_tx t = true /\ wf_tx t' = true /\ same_iss_pattern (t_ins t) (t_ins t') /\ view_v0 t 0 1 <> view_v0 t' 0 1.
Proof. cbn. repeat split; try reflexivity. - repeat constructor; intro; reflexivity. - discriminate. Qed.

(* ====================== legacy ====================== *)
(* The legacy pre-image is the signature form of a modified copy followed by the hash type; without the
   RANGEPROOF bit that form is the id serialization of the copy minus the marker byte, so the injectivity
   of the id serialization (C04) carries over. *)
From GE Require Import Proofs.TxId.

Lemma ser_sig_to_txid c :
  ser_txid c = firstn 4 (ser_tx false true true false c) ++ [b8 0] ++ skipn 4 (ser_tx false true true false c).
Proof.
  unfold ser_txid, ser_tx. cbn [andb negb].
  assert (L : length (le_enc 4 (t_version c)) = 4%nat) by apply le_enc_length.
  set (v := le_enc 4 (t_version c)) in *.
  do 5 (destruct v as [|? v]; try discriminate L). cbn [app firstn skipn]. reflexivity.
Qed.

Lemma same_base_sig_view c c' : same_base c c' -> sig_view false c = sig_view false c'.
Proof.
  intros (Ev & El & Ei & Eo). unfold sig_view. rewrite Ev, El.
  assert (A : map sig_in_view (t_ins c) = map sig_in_view (t_ins c')).
  { clear -Ei. revert Ei. generalize (t_ins c) (t_ins c'). induction l as [|i l IH]; intros [|i' l'] E; try discriminate; [reflexivity|].
    cbn [map] in *. assert (E1 : strip_in i = strip_in i') by congruence. assert (E2 : map strip_in l = map strip_in l') by congruence.
    rewrite (IH _ E2). f_equal. unfold strip_in in E1. unfold sig_in_view, raw_index. injection E1 as X1 X2 X3 X4 X5 X6. rewrite X1, X2, X3, X4, X5, X6. reflexivity. }
  assert (B : map out_base (t_outs c) = map out_base (t_outs c')).
  { clear -Eo. revert Eo. generalize (t_outs c) (t_outs c'). induction l as [|o l IH]; intros [|o' l'] E; try discriminate; [reflexivity|].
    cbn [map] in *. assert (E1 : strip_out o = strip_out o') by congruence. assert (E2 : map strip_out l = map strip_out l') by congruence.
    rewrite (IH _ E2), (strip_base _ _ E1). reflexivity. }
  rewrite A, B. reflexivity.
Qed.

Opaque le_enc.
Theorem legacy_sensitive t t' idx script script' ht c c' p :
  ht_rp ht = false ->
  legacy_tx t idx script ht = Some c -> legacy_tx t' idx script' ht = Some c' ->
  wf_tx c = true -> wf_tx c' = true ->
  preimage_legacy t idx script ht = Some p -> preimage_legacy t' idx script' ht = Some p ->
  sig_view false c = sig_view false c'.
Proof.
  intros RP C C' W W'. unfold preimage_legacy. rewrite C, C', RP.
  intros P P'. injection P as P. injection P' as P'. rewrite <- P' in P.
  apply app_inv_len_tail in P as [P _]; [|reflexivity].
  apply same_base_sig_view. apply txid_sensitive; [exact W | exact W'|].
  rewrite (ser_sig_to_txid c), (ser_sig_to_txid c'), P. reflexivity.
Qed.

Transparent le_enc.

(* with the RANGEPROOF bit every output is followed by its two proofs; the signature form is then parsed by
   its own reader (outputs with proofs), which gives injectivity on version, inputs, outputs, proofs, locktime *)
Definition p_out_rp : parser (txout * (bytes * bytes)) := o <- p_out ;; pr <- p_proofs ;; ret (o, pr).
Definition p_sig_rp : parser (N * list txin * list (txout * (bytes * bytes)) * N) :=
  ver <- p_le 4 ;; nin <- p_varint ;; ins <- p_list p_in nin ;;
  nout <- p_varint ;; outs <- p_list p_out_rp nout ;; lt <- p_le 4 ;; ret (ver, ins, outs, lt).

Lemma p_out_rp_app o r : wf_out o = true ->
  p_out_rp (ser_out false true o ++ r) = Some ((strip_out o, out_proofs o), r).
Proof.
  intro W. pose proof (wf_out_parts o W) as (_ & _ & _ & _ & Hr & Hs).
  unfold p_out_rp, bind.
  assert (E : ser_out false true o ++ r = ser_out false false o ++ (var_slice (o_rp o) ++ var_slice (o_sp o)) ++ r).
  { unfold ser_out. cbn [app]. rewrite app_nil_r. rewrite <- !app_assoc. reflexivity. }
  rewrite E.
  rewrite (p_out_app o _ W). unfold p_proofs, bind. rewrite <- app_assoc.
  rewrite p_var_slice_app by exact Hr. rewrite p_var_slice_app by exact Hs. reflexivity.
Qed.

Lemma p_sig_rp_ser c rest : wf_tx c = true ->
  p_sig_rp (ser_tx false true true true c ++ rest) =
  Some ((t_version c, map strip_in (t_ins c), map (fun o => (strip_out o, out_proofs o)) (t_outs c), t_locktime c), rest).
Proof.
  intro W. apply wf_tx_parts in W as (Hv & Hl & Hni & Hno & H1 & H2).
  unfold p_sig_rp, ser_tx, bind. cbn [andb negb app]. rewrite <- !app_assoc.
  rewrite p_le_app by (cbn; unfold two32 in *; lia).
  rewrite p_varint_app by lia.
  rewrite (p_list_app_map ser_in strip_in p_in);
    [| intros; apply p_in_app; apply H1; assumption | intros; apply ser_in_nonempty; apply H1; assumption].
  rewrite p_varint_app by lia.
  rewrite (p_list_app_map (ser_out false true) (fun o => (strip_out o, out_proofs o)) p_out_rp);
    [| intros; apply p_out_rp_app; apply H2; assumption | intros; apply ser_out_nonempty; apply H2; assumption].
  cbn [app]. rewrite p_le_app by (cbn; unfold two32 in *; lia). reflexivity.
Qed.

Lemma strip_sig_in i i' : strip_in i = strip_in i' -> sig_in_view i = sig_in_view i'.
Proof.
  intro E1. unfold strip_in in E1. unfold sig_in_view, raw_index. injection E1 as X1 X2 X3 X4 X5 X6.
  rewrite X1, X2, X3, X4, X5, X6. reflexivity.
Qed.

Opaque le_enc.
Theorem legacy_rp_sensitive t t' idx script script' ht c c' p :
  ht_rp ht = true ->
  legacy_tx t idx script ht = Some c -> legacy_tx t' idx script' ht = Some c' ->
  wf_tx c = true -> wf_tx c' = true ->
  preimage_legacy t idx script ht = Some p -> preimage_legacy t' idx script' ht = Some p ->
  sig_view true c = sig_view true c'.
Proof.
  intros RP C C' W W'. unfold preimage_legacy. rewrite C, C', RP.
  intros P P'. injection P as P. injection P' as P'. rewrite <- P' in P.
  apply app_inv_len_tail in P as [P _]; [|reflexivity].
  pose proof (p_sig_rp_ser c [] W) as Q. pose proof (p_sig_rp_ser c' [] W') as Q'.
  rewrite P in Q. rewrite Q in Q'. injection Q' as Ev Ei Eo El.
  unfold sig_view. rewrite Ev, El.
  assert (A : map sig_in_view (t_ins c) = map sig_in_view (t_ins c')).
  { clear -Ei. revert Ei. generalize (t_ins c) (t_ins c'). induction l as [|i l IH]; intros [|i' l'] E; try discriminate; [reflexivity|].
    cbn [map] in *. assert (E1 : strip_in i = strip_in i') by congruence. assert (E2 : map strip_in l = map strip_in l') by congruence.
    rewrite (IH _ E2), (strip_sig_in _ _ E1). reflexivity. }
  assert (B : map out_base (t_outs c) = map out_base (t_outs c') /\ map out_proofs (t_outs c) = map out_proofs (t_outs c')).
  { clear -Eo. revert Eo. generalize (t_outs c) (t_outs c'). induction l as [|o l IH]; intros [|o' l'] E; try discriminate; [split; reflexivity|].
    cbn [map] in *. assert (E1 : strip_out o = strip_out o') by congruence. assert (E1' : out_proofs o = out_proofs o') by congruence.
    assert (E2 : map (fun o => (strip_out o, out_proofs o)) l = map (fun o => (strip_out o, out_proofs o)) l') by congruence.
    destruct (IH _ E2) as [I1 I2]. rewrite I1, I2, (strip_base _ _ E1), E1'. split; reflexivity. }
  destruct B as [B1 B2]. rewrite A, B1, B2. reflexivity.
Qed.
Transparent le_enc.

(* any hash type: equal legacy pre-images force equal covered views *)
Theorem legacy_sensitive_any t t' idx script script' ht c c' p :
  legacy_tx t idx script ht = Some c -> legacy_tx t' idx script' ht = Some c' ->
  wf_tx c = true -> wf_tx c' = true ->
  preimage_legacy t idx script ht = Some p -> preimage_legacy t' idx script' ht = Some p ->
  sig_view (ht_rp ht) c = sig_view (ht_rp ht) c'.
Proof.
  intros C C' W W' P P'. destruct (ht_rp ht) eqn:RP.
  - eapply legacy_rp_sensitive; eassumption.
  - eapply legacy_sensitive; eassumption.
Qed.

(* non-vacuity: the hypotheses are met by a transaction with a confidential output and the RANGEPROOF bit *)
Example legacy_rp_sensitive_applies :
  let i := mk_in (repeat x01 32) 0 5 [] [] false [] None [] [] in
  let o := mk_out (x01 :: repeat x01 32) (x01 :: repeat x00 8) [] [x00] [x01] [x01] in
  let t := mk_tx 2 0 0 [i] [o] in
  exists c p, ht_rp 0x41 = true /\ legacy_tx t 0 [] 0x41 = Some c /\ wf_tx c = true /\ preimage_legacy t 0 [] 0x41 = Some p.
Proof. cbn. eexists. eexists. repeat split. Qed.

(* SIGHASH_SINGLE above index 0: the hashed copy carries idx blanked outputs (not wire-representable, so the copy is
   outside wf_tx) followed by the one real output.  Both sides carry the same blanks, so they cancel; what is left is
   injective as before.  The hypothesis is well-formedness of the copy WITHOUT its blanked outputs. *)
Definition blank : txout := mk_out zero32 max_conf_value [] zero32 [] [].
Lemma map_blank l : map blank_out l = repeat blank (length l).
Proof. induction l as [|o l IH]; [reflexivity|]. cbn [map length repeat]. rewrite IH. reflexivity. Qed.

Lemma enc_list_app {A} (e : A -> bytes) l1 l2 : enc_list e (l1 ++ l2) = enc_list e l1 ++ enc_list e l2.
Proof. unfold enc_list. rewrite map_app, concat_app. reflexivity. Qed.

Definition p_head : parser (N * list txin) :=
  ver <- p_le 4 ;; nin <- p_varint ;; ins <- p_list p_in nin ;; ret (ver, ins).

Lemma p_head_ser v ins R : v < two32 -> lenL ins < two64 -> (forall i, In i ins -> wf_in i = true) ->
  p_head (le_enc 4 v ++ varint (lenL ins) ++ enc_list ser_in ins ++ R) = Some ((v, map strip_in ins), R).
Proof.
  intros Hv Hn H1. unfold p_head, bind.
  rewrite p_le_app by (cbn; unfold two32 in *; lia).
  rewrite p_varint_app by lia.
  rewrite (p_list_app_map ser_in strip_in p_in);
    [| intros; apply p_in_app; apply H1; assumption | intros; apply ser_in_nonempty; apply H1; assumption].
  reflexivity.
Qed.

Lemma le4_inj a b : a < two32 -> b < two32 -> le_enc 4 a = le_enc 4 b -> a = b.
Proof.
  intros Ha Hb E.
  assert (X : p_le 4 (le_enc 4 a ++ []) = Some (a, [])) by (apply p_le_app; cbn; unfold two32 in *; lia).
  assert (Y : p_le 4 (le_enc 4 b ++ []) = Some (b, [])) by (apply p_le_app; cbn; unfold two32 in *; lia).
  rewrite E in X. rewrite X in Y. congruence.
Qed.

Definition single_core (c : tx) (k : nat) : tx :=
  mk_tx (t_version c) (t_flag c) (t_locktime c) (t_ins c) (skipn k (t_outs c)).

Opaque le_enc.
Lemma single_blanks_sensitive rp (c c' : tx) (pre pre' : list txout) (o o' : txout) :
  t_outs c = map blank_out pre ++ [o] -> t_outs c' = map blank_out pre' ++ [o'] ->
  length pre = length pre' ->
  wf_tx (single_core c (length pre)) = true -> wf_tx (single_core c' (length pre')) = true ->
  ser_tx false true true rp c = ser_tx false true true rp c' ->
  sig_view rp c = sig_view rp c'.
Proof.
  intros O O' L W W' E.
  assert (K : skipn (length pre) (t_outs c) = [o]).
  { rewrite O. rewrite skipn_app, map_length, Nat.sub_diag. rewrite skipn_all2 by (rewrite map_length; lia). reflexivity. }
  assert (K' : skipn (length pre') (t_outs c') = [o']).
  { rewrite O'. rewrite skipn_app, map_length, Nat.sub_diag. rewrite skipn_all2 by (rewrite map_length; lia). reflexivity. }
  apply wf_tx_parts in W as (Hv & Hl & Hni & _ & H1 & H2).
  apply wf_tx_parts in W' as (Hv' & Hl' & Hni' & _ & H1' & H2').
  unfold single_core in *. cbn [t_version t_locktime t_ins t_outs] in *. rewrite K in H2. rewrite K' in H2'.
  assert (Wo : wf_out o = true) by (apply H2; left; reflexivity).
  assert (Wo' : wf_out o' = true) by (apply H2'; left; reflexivity).
  unfold ser_tx in E. cbn [andb negb app] in E. rewrite !app_nil_r in E.
  (* head: version and inputs *)
  pose proof (p_head_ser (t_version c) (t_ins c)
    (varint (lenL (t_outs c)) ++ enc_list (ser_out false rp) (t_outs c) ++ le_enc 4 (t_locktime c)) Hv Hni H1) as P.
  pose proof (p_head_ser (t_version c') (t_ins c')
    (varint (lenL (t_outs c')) ++ enc_list (ser_out false rp) (t_outs c') ++ le_enc 4 (t_locktime c')) Hv' Hni' H1') as P'.
  rewrite E in P. rewrite P in P'. injection P' as Ev Ei R. clear P E.
  (* outputs: same count, same blanks *)
  assert (LO : lenL (t_outs c) = lenL (t_outs c')).
  { unfold lenL. rewrite O, O', !app_length, !map_length, L. reflexivity. }
  rewrite LO in R. apply app_inv_head in R.
  rewrite O, O', !enc_list_app, !map_blank, L, <- !app_assoc in R. apply app_inv_head in R.
  unfold enc_list in R. cbn [map concat] in R. rewrite !app_nil_r in R.
  unfold sig_view. rewrite Ev.
  assert (A : map sig_in_view (t_ins c) = map sig_in_view (t_ins c')).
  { clear -Ei. revert Ei. generalize (t_ins c) (t_ins c'). induction l as [|i l IH]; intros [|i' l'] E; try discriminate; [reflexivity|].
    cbn [map] in *. assert (E1 : strip_in i = strip_in i') by congruence. assert (E2 : map strip_in l = map strip_in l') by congruence.
    rewrite (IH _ E2), (strip_sig_in _ _ E1). reflexivity. }
  rewrite A, O, O', !map_app, !map_blank, L. cbn [map].
  destruct rp.
  - pose proof (p_out_rp_app o (le_enc 4 (t_locktime c)) Wo) as Q.
    pose proof (p_out_rp_app o' (le_enc 4 (t_locktime c')) Wo') as Q'.
    rewrite R in Q. rewrite Q in Q'.
    assert (El : le_enc 4 (t_locktime c) = le_enc 4 (t_locktime c')) by congruence.
    assert (Eo : strip_out o = strip_out o') by congruence.
    assert (Ep : out_proofs o = out_proofs o') by congruence.
    assert (Lk : t_locktime c = t_locktime c') by (apply le4_inj; assumption).
    rewrite Lk, (strip_base _ _ Eo), Ep. reflexivity.
  - pose proof (p_out_app o (le_enc 4 (t_locktime c)) Wo) as Q.
    pose proof (p_out_app o' (le_enc 4 (t_locktime c')) Wo') as Q'.
    rewrite R in Q. rewrite Q in Q'.
    assert (El : le_enc 4 (t_locktime c) = le_enc 4 (t_locktime c')) by congruence.
    assert (Eo : strip_out o = strip_out o') by congruence.
    assert (Lk : t_locktime c = t_locktime c') by (apply le4_inj; assumption).
    rewrite Lk, (strip_base _ _ Eo). reflexivity.
Qed.
Transparent le_enc.

Lemma legacy_tx_single_shape t idx script ht c :
  ht_single ht = true -> legacy_tx t idx script ht = Some c ->
  exists o, t_outs c = map blank_out (firstn idx (t_outs t)) ++ [o] /\ length (firstn idx (t_outs t)) = idx.
Proof.
  intros S. assert (Nn : ht_none ht = false).
  { unfold ht_single, ht_none in *. apply N.eqb_eq in S. rewrite S. reflexivity. }
  unfold legacy_tx. destruct (nth_error (t_ins t) idx); [|discriminate]. rewrite Nn, S.
  destruct (Nat.leb_spec (length (t_outs t)) idx) as [|Lt]; [discriminate|].
  intro E. injection E as <-. cbn [t_outs].
  destruct (skipn idx (t_outs t)) as [|o rest] eqn:K.
  { apply (f_equal (@length txout)) in K. rewrite skipn_length in K. cbn in K. lia. }
  exists o. split; [reflexivity|]. apply firstn_length_le. lia.
Qed.

Opaque le_enc.
Theorem legacy_single_sensitive t t' idx script script' ht c c' p :
  ht_single ht = true ->
  legacy_tx t idx script ht = Some c -> legacy_tx t' idx script' ht = Some c' ->
  wf_tx (single_core c idx) = true -> wf_tx (single_core c' idx) = true ->
  preimage_legacy t idx script ht = Some p -> preimage_legacy t' idx script' ht = Some p ->
  sig_view (ht_rp ht) c = sig_view (ht_rp ht) c'.
Proof.
  intros S C C' W W'. unfold preimage_legacy. rewrite C, C'.
  intros P P'. injection P as P. injection P' as P'. rewrite <- P' in P.
  apply app_inv_len_tail in P as [P _]; [|reflexivity].
  destruct (legacy_tx_single_shape _ _ _ _ _ S C) as (o & O & L).
  destruct (legacy_tx_single_shape _ _ _ _ _ S C') as (o' & O' & L').
  apply (single_blanks_sensitive (ht_rp ht) c c' _ _ o o' O O'); [congruence | rewrite L; exact W | rewrite L'; exact W' | exact P].
Qed.
Transparent le_enc.

(* every hash type and every index: equal legacy pre-images force equal covered views.  For SINGLE the hashed copy
   is required to be well formed once its blanked outputs are dropped (single_core); otherwise as a whole. *)
Definition legacy_core (ht : N) (idx : nat) (c : tx) : tx := if ht_single ht then single_core c idx else c.

Theorem legacy_sensitive_full t t' idx script script' ht c c' p :
  legacy_tx t idx script ht = Some c -> legacy_tx t' idx script' ht = Some c' ->
  wf_tx (legacy_core ht idx c) = true -> wf_tx (legacy_core ht idx c') = true ->
  preimage_legacy t idx script ht = Some p -> preimage_legacy t' idx script' ht = Some p ->
  sig_view (ht_rp ht) c = sig_view (ht_rp ht) c'.
Proof.
  unfold legacy_core. destruct (ht_single ht) eqn:S; intros C C' W W' P P'.
  - eapply legacy_single_sensitive; eassumption.
  - eapply legacy_sensitive_any; eassumption.
Qed.

(* non-vacuity: SINGLE on input 1 of a two-input, two-output transaction *)
Example legacy_single_sensitive_applies :
  let i := mk_in (repeat x01 32) 0 5 [] [] false [] None [] [] in
  let o := mk_out (x01 :: repeat x01 32) (x01 :: repeat x00 8) [] [x00] [] [] in
  let t := mk_tx 2 0 0 [i; i] [o; o] in
  exists c p, ht_single 3 = true /\ legacy_tx t 1 [] 3 = Some c /\ wf_tx (single_core c 1) = true /\
              wf_tx c = false /\ preimage_legacy t 1 [] 3 = Some p.
Proof. cbn. eexists. eexists. repeat split. Qed.

(* the copy that is hashed is well formed whenever the transaction is and no earlier output is blanked *)
Lemma set_script_wf s i : wf_in i = true -> lenN s < two64 -> wf_in (set_script s i) = true.
Proof.
  intros W L. apply wf_in_parts in W as (A & B & _ & D & E & F & G & H).
  unfold wf_in, set_script, wf_slice. proj_in. rewrite A, D, G, H. cbn [Nat.eqb].
  destruct (N.ltb_spec (in_seq i) two32); [|lia]. destruct (N.ltb_spec (lenN s) two64); [|lia].
  destruct (N.ltb_spec (lenN (in_irp i)) two64); [|lia]. destruct (N.ltb_spec (lenN (in_inrp i)) two64); [|lia]. reflexivity.
Qed.

(* ====================== taproot ====================== *)
Lemma ser_out_witnesses_inj l l' :
  (forall o, In o l \/ In o l' -> wf_out o = true) ->
  ser_out_witnesses l = ser_out_witnesses l' -> map out_proofs l = map out_proofs l'.
Proof.
  intros W E.
  assert (S : map (fun o => (o_sp o, o_rp o)) l = map (fun o => (o_sp o, o_rp o)) l').
  { apply (enc_list_parse_inj (fun o => var_slice (o_sp o) ++ var_slice (o_rp o)) (fun o => (o_sp o, o_rp o)) p_proofs); [| |exact E].
    - intros o Ho r. apply W in Ho. apply wf_out_parts in Ho as (_ & _ & _ & _ & Hr & Hs).
      unfold p_proofs, bind. rewrite <- app_assoc.
      rewrite p_var_slice_app by exact Hs. rewrite p_var_slice_app by exact Hr. reflexivity.
    - intros o _. pose proof (var_slice_nonempty (o_sp o)). destruct (var_slice (o_sp o)); [congruence | discriminate]. }
  clear -S. revert l' S. induction l as [|o l IH]; intros [|o' l'] S; try discriminate; [reflexivity|].
  cbn [map] in *. injection S as A B C. unfold out_proofs at 1 2. rewrite A, B. f_equal. apply IH. exact C.
Qed.

Lemma ser_issuance_proofs_inj l l' :
  (forall i, In i l \/ In i l' -> wf_in i = true) ->
  ser_issuance_proofs l = ser_issuance_proofs l' -> map in_proofs l = map in_proofs l'.
Proof.
  intros W E. apply (enc_list_parse_inj (fun i => var_slice (in_irp i) ++ var_slice (in_inrp i)) in_proofs p_proofs); [| |exact E].
  - intros i Hi r. apply W in Hi. apply wf_in_parts in Hi as (_ & _ & _ & _ & H1 & H2 & _).
    unfold p_proofs, bind. rewrite <- app_assoc. rewrite p_var_slice_app by exact H1. rewrite p_var_slice_app by exact H2. reflexivity.
  - intros i _. pose proof (var_slice_nonempty (in_irp i)). destruct (var_slice (in_irp i)); [congruence | discriminate].
Qed.

Lemma ser_scripts_inj l l' :
  (forall x, In x l \/ In x l' -> lenN x < two64) -> ser_scripts l = ser_scripts l' -> l = l'.
Proof.
  intros W E. rewrite <- (map_id l), <- (map_id l').
  apply (enc_list_parse_inj var_slice (fun x => x) p_var_slice); [| |exact E].
  - intros x Hx r. apply p_var_slice_app. apply W; exact Hx.
  - intros x _. apply var_slice_nonempty.
Qed.

Lemma input_flag_lt i : input_flag i < 256.
Proof. unfold input_flag. destruct (in_iss i), (in_pegin i); lia. Qed.

Lemma ser_flags_inj l l' : ser_flags l = ser_flags l' -> map input_flag l = map input_flag l'.
Proof.
  intro E. apply (enc_list_fixed_inj (fun i => [b8 (input_flag i)]) input_flag 1); [lia | reflexivity | | exact E].
  intros a a' _ _ X. injection X as X. apply b8_small_inj; [apply input_flag_lt | apply input_flag_lt | exact X].
Qed.

(* asset/amount pairs of the spent outputs *)
Definition p_asset_value : parser (bytes * bytes) := a <- p_asset ;; v <- p_value ;; ret (a, v).

Lemma ser_asset_amounts_inj : forall aa vv aa' vv' x,
  Forall (fun a => is_asset a = true) aa -> Forall (fun a => is_asset a = true) aa' ->
  Forall (fun v => is_value v = true) vv -> Forall (fun v => is_value v = true) vv' ->
  length aa = length vv -> length aa' = length vv' ->
  ser_asset_amounts aa vv = Some x -> ser_asset_amounts aa' vv' = Some x -> aa = aa' /\ vv = vv'.
Proof.
  induction aa as [|a aa IH]; intros vv aa' vv' x Fa Fa' Fv Fv' L L' E E'.
  - destruct vv; [|discriminate L]. cbn in E. injection E as <-.
    destruct aa' as [|a' aa']; [destruct vv'; [auto | discriminate L']|].
    destruct vv' as [|v' vv']; [discriminate L'|]. cbn in E'.
    destruct (ser_asset_amounts aa' vv'); [|discriminate]. injection E' as E'.
    inversion Fa' as [|? ? Ia _]; subst. apply is_asset_nonempty in Ia. destruct a'; [congruence | discriminate E'].
  - destruct vv as [|v vv]; [discriminate L|]. cbn in E.
    destruct (ser_asset_amounts aa vv) as [r|] eqn:R; [|discriminate]. injection E as <-.
    inversion Fa as [|? ? Ia Fa2]; subst. inversion Fv as [|? ? Iv Fv2]; subst.
    destruct aa' as [|a' aa'].
    { destruct vv'; [|discriminate L']. cbn in E'. injection E' as E'.
      apply is_asset_nonempty in Ia. destruct a; [congruence | discriminate E']. }
    destruct vv' as [|v' vv']; [discriminate L'|]. cbn in E'.
    destruct (ser_asset_amounts aa' vv') as [r'|] eqn:R'; [|discriminate]. injection E' as E'.
    inversion Fa' as [|? ? Ia' Fa2']; subst. inversion Fv' as [|? ? Iv' Fv2']; subst.
    pose proof (p_asset_app a (v ++ r) Ia) as Q. pose proof (p_asset_app a' (v' ++ r') Ia') as Q'.
    rewrite E' in Q'. rewrite Q in Q'. injection Q' as <- Q'.
    pose proof (p_value_app v r Iv) as P. pose proof (p_value_app v' r' Iv') as P'.
    rewrite <- Q' in P'. rewrite P in P'. injection P' as <- <-.
    cbn [length] in L, L'. injection L as L. injection L' as L'.
    destruct (IH vv aa' vv' r Fa2 Fa2' Fv2 Fv2' L L' R R') as [-> ->]. auto.
Qed.

Section IdealHashV1.
  Variable H1 : bytes -> bytes.
  Hypothesis H_inj : forall a b, H1 a = H1 b -> a = b.
  Hypothesis H_len : forall a, length (H1 a) = 32%nat.

  (* the caller's per-input data: one well-formed (asset, value, script) per input, 32-byte genesis and leaf hashes *)
  Definition v1_args_wf (t : tx) (a : v1_args) : Prop :=
    length (v1_scripts a) = length (t_ins t) /\ length (v1_assets a) = length (t_ins t) /\
    length (v1_values a) = length (t_ins t) /\
    Forall (fun x => is_asset x = true) (v1_assets a) /\ Forall (fun x => is_value x = true) (v1_values a) /\
    Forall (fun x => lenN x < two64) (v1_scripts a) /\
    length (v1_genesis a) = 32%nat /\
    match v1_leaf a with Some l => length l = 32%nat | None => True end /\
    match v1_annex a with Some x => lenN x < two64 | None => True end.

  Lemma v1_ins_part_inj t t' a a' ht x x' :
    v1_acp ht = false ->
    (forall i, In i (t_ins t) \/ In i (t_ins t') -> wf_in i = true) ->
    same_iss_pattern (t_ins t) (t_ins t') \/ length (ser_issuances (t_ins t)) <> length (ser_issuances (t_ins t')) ->
    v1_args_wf t a -> v1_args_wf t' a' ->
    v1_ins_part H1 t a ht = Some x -> v1_ins_part H1 t' a' ht = Some x' -> x = x' ->
    map input_flag (t_ins t) = map input_flag (t_ins t') /\ map in_outpoint (t_ins t) = map in_outpoint (t_ins t') /\
    v1_assets a = v1_assets a' /\ v1_values a = v1_values a' /\ v1_scripts a = v1_scripts a' /\
    map in_seq (t_ins t) = map in_seq (t_ins t') /\ map in_iss (t_ins t) = map in_iss (t_ins t') /\
    map in_proofs (t_ins t) = map in_proofs (t_ins t').
  Proof.
    intros ACP W IC (L1 & L2 & L3 & Fa & Fv & Fs & _) (L1' & L2' & L3' & Fa' & Fv' & Fs' & _).
    unfold v1_ins_part. rewrite ACP.
    destruct (ser_asset_amounts (v1_assets a) (v1_values a)) as [aa|] eqn:A; [|discriminate].
    destruct (ser_asset_amounts (v1_assets a') (v1_values a')) as [aa'|] eqn:A'; [|discriminate].
    intros X X' E. injection X as <-. injection X' as <-.
    apply app_inv_len in E as [E1 E]; [|rewrite !H_len; reflexivity].
    apply app_inv_len in E as [E2 E]; [|rewrite !H_len; reflexivity].
    apply app_inv_len in E as [E3 E]; [|rewrite !H_len; reflexivity].
    apply app_inv_len in E as [E4 E]; [|rewrite !H_len; reflexivity].
    apply app_inv_len in E as [E5 E]; [|rewrite !H_len; reflexivity].
    apply app_inv_len in E as [E6 E7]; [|rewrite !H_len; reflexivity].
    apply H_inj in E1, E2, E3, E4, E5, E6, E7. subst aa'.
    destruct (ser_asset_amounts_inj _ _ _ _ _ Fa Fa' Fv Fv' ltac:(congruence) ltac:(congruence) A A') as [Ea Ev].
    repeat split.
    - apply ser_flags_inj; exact E1.
    - apply (enc_list_fixed_inj ser_prevout in_outpoint 36); [lia | | | exact E2].
      + intros i Hi. apply W in Hi. apply wf_in_parts in Hi as (L & _). unfold ser_prevout. rewrite app_length, L, le_enc_length. reflexivity.
      + intros i i' Hi Hi' X. unfold ser_prevout in X.
        pose proof (W i Hi) as Wi. pose proof (W i' Hi') as Wi'.
        apply wf_in_parts in Wi as (Li & _ & _ & Ci & _). apply wf_in_parts in Wi' as (Li' & _ & _ & Ci' & _).
        apply app_inv_len in X as [X1 X2]; [|rewrite Li, Li'; reflexivity].
        unfold in_outpoint. f_equal; [exact X1|].
        assert (B : forall j, (if in_index j =? MinusOne then negb (in_pegin j) && match in_iss j with None => true | Some _ => false end
                 else (in_index j <=? OutpointIndexMask) && negb ((in_index j =? OutpointIndexMask) && in_pegin j && match in_iss j with Some _ => true | None => false end) &&
                      match in_iss j with Some s => wf_iss s | None => true end) = true -> in_index j < two32).
        { intros j Cj. destruct (N.eqb_spec (in_index j) MinusOne) as [->|_]; [reflexivity|].
          rewrite !andb_true_iff in Cj. destruct Cj as [[Cj _] _]. unfold OutpointIndexMask, two32 in *. lia. }
        apply (le_enc_inj 4); [cbn; pose proof (B i Ci); unfold two32 in *; lia | cbn; pose proof (B i' Ci'); unfold two32 in *; lia | exact X2].
    - exact Ea.
    - exact Ev.
    - apply ser_scripts_inj; [|exact E4]. intros s [Hs|Hs]; [rewrite Forall_forall in Fs; apply Fs | rewrite Forall_forall in Fs'; apply Fs']; exact Hs.
    - apply (enc_list_fixed_inj (fun i => le_enc 4 (in_seq i)) in_seq 4); [lia | intros; apply le_enc_length | | exact E5].
      intros i i' Hi Hi' X. pose proof (W i Hi) as Wi. pose proof (W i' Hi') as Wi'.
      apply wf_in_parts in Wi as (_ & Q & _). apply wf_in_parts in Wi' as (_ & Q' & _).
      apply (le_enc_inj 4); [cbn; unfold two32 in *; lia | cbn; unfold two32 in *; lia | exact X].
    - destruct IC as [IC|IC]; [|exfalso; apply IC; rewrite E6; reflexivity].
      apply ser_issuances_inj; [|exact IC | exact E6]. intros i Hi. apply wf_in_iss. apply W; exact Hi.
    - apply ser_issuance_proofs_inj; [exact W | exact E7].
  Qed.

  Lemma v1_outs_inj t t' idx ht :
    (forall o, In o (t_outs t) \/ In o (t_outs t') -> wf_out o = true) ->
    v1_outs_all H1 t ht = v1_outs_all H1 t' ht -> v1_outs_single H1 t idx ht = v1_outs_single H1 t' idx ht ->
    option_map (map out_base) (covered_outs_v1 t idx ht) = option_map (map out_base) (covered_outs_v1 t' idx ht) /\
    option_map (map out_proofs) (covered_outs_v1 t idx ht) = option_map (map out_proofs) (covered_outs_v1 t' idx ht).
  Proof.
    intros W. unfold v1_outs_all, v1_outs_single, covered_outs_v1.
    destruct (v1_out_type ht =? 2) eqn:T2, (v1_out_type ht =? 3) eqn:T3; cbn [negb andb].
    - (* impossible in practice (type both 2 and 3), but harmless *)
      intros _ E. destruct (nth_error (t_outs t) idx) as [o|] eqn:N, (nth_error (t_outs t') idx) as [o'|] eqn:N'; cbn [option_map].
      + apply app_inv_len in E as [E1 E2]; [|rewrite !H_len; reflexivity]. apply H_inj in E1, E2.
        assert (Wo : forall x, In x [o] \/ In x [o'] -> wf_out x = true).
        { intros x [[<-|[]]|[<-|[]]]; apply W; [left; eapply nth_error_In; exact N | right; eapply nth_error_In; exact N']. }
        rewrite (ser_outputs_inj [o] [o'] Wo E1), (ser_out_witnesses_inj [o] [o'] Wo E2). auto.
      + exfalso. apply (f_equal (@length byte)) in E. rewrite app_length, !H_len in E. discriminate E.
      + exfalso. apply (f_equal (@length byte)) in E. rewrite app_length, !H_len in E. discriminate E.
      + auto.
    - intros _ _. auto.
    - intros _ E. destruct (nth_error (t_outs t) idx) as [o|] eqn:N, (nth_error (t_outs t') idx) as [o'|] eqn:N'; cbn [option_map].
      + apply app_inv_len in E as [E1 E2]; [|rewrite !H_len; reflexivity]. apply H_inj in E1, E2.
        assert (Wo : forall x, In x [o] \/ In x [o'] -> wf_out x = true).
        { intros x [[<-|[]]|[<-|[]]]; apply W; [left; eapply nth_error_In; exact N | right; eapply nth_error_In; exact N']. }
        rewrite (ser_outputs_inj [o] [o'] Wo E1), (ser_out_witnesses_inj [o] [o'] Wo E2). auto.
      + exfalso. apply (f_equal (@length byte)) in E. rewrite app_length, !H_len in E. discriminate E.
      + exfalso. apply (f_equal (@length byte)) in E. rewrite app_length, !H_len in E. discriminate E.
      + auto.
    - intros E _. cbn [option_map]. apply app_inv_len in E as [E1 E2]; [|rewrite !H_len; reflexivity]. apply H_inj in E1, E2.
      rewrite (ser_outputs_inj _ _ W E1), (ser_out_witnesses_inj _ _ W E2). auto.
  Qed.
End IdealHashV1.

Section IdealHashV1Main.
  Variable H1 : bytes -> bytes.
  Hypothesis H_inj : forall a b, H1 a = H1 b -> a = b.
  Hypothesis H_len : forall a, length (H1 a) = 32%nat.

  Lemma var_slice_inj x x' : lenN x < two64 -> lenN x' < two64 -> var_slice x = var_slice x' -> x = x'.
  Proof.
    intros L L' E. pose proof (p_var_slice_app x [] L) as P. pose proof (p_var_slice_app x' [] L') as P'.
    rewrite E in P. rewrite P in P'. congruence.
  Qed.

  Lemma input_flag_inj i i' : input_flag i = input_flag i' ->
    (in_iss i = None <-> in_iss i' = None) /\ in_pegin i = in_pegin i'.
  Proof.
    unfold input_flag. destruct (in_iss i), (in_iss i'), (in_pegin i), (in_pegin i'); intro E; try lia;
      split; try reflexivity; split; intro X; try discriminate; reflexivity.
  Qed.

  Local Opaque le_enc.

  (* the signing input under ANYONECANPAY: self-delimiting given the flag byte *)
  Lemma v1_own_part_acp_inj own own' idx a a' ht op op' tail tail' :
    v1_acp ht = true -> wf_in own = true -> wf_in own' = true ->
    Forall (fun x => is_asset x = true) (v1_assets a) -> Forall (fun x => is_asset x = true) (v1_assets a') ->
    Forall (fun x => is_value x = true) (v1_values a) -> Forall (fun x => is_value x = true) (v1_values a') ->
    Forall (fun x => lenN x < two64) (v1_scripts a) -> Forall (fun x => lenN x < two64) (v1_scripts a') ->
    v1_own_part H1 own idx a ht = Some op -> v1_own_part H1 own' idx a' ht = Some op' ->
    op ++ tail = op' ++ tail' ->
    (input_flag own = input_flag own' /\ in_hash own = in_hash own' /\ in_index own = in_index own' /\
     in_seq own = in_seq own' /\ in_iss own = in_iss own' /\
     match in_iss own with Some _ => Some (in_proofs own) | None => None end =
     match in_iss own' with Some _ => Some (in_proofs own') | None => None end /\
     nth_error (v1_assets a) idx = nth_error (v1_assets a') idx /\
     nth_error (v1_values a) idx = nth_error (v1_values a') idx /\
     nth_error (v1_scripts a) idx = nth_error (v1_scripts a') idx) /\ tail = tail'.
  Proof.
    intros ACP Wo Wo' Fa Fa' Fv Fv' Fs Fs'. unfold v1_own_part. rewrite ACP.
    destruct (nth_error (v1_assets a) idx) as [ea|] eqn:A; [|discriminate].
    destruct (nth_error (v1_values a) idx) as [ev|] eqn:V; [|discriminate].
    destruct (nth_error (v1_scripts a) idx) as [es|] eqn:S; [|discriminate].
    destruct (nth_error (v1_assets a') idx) as [ea'|] eqn:A'; [|discriminate].
    destruct (nth_error (v1_values a') idx) as [ev'|] eqn:V'; [|discriminate].
    destruct (nth_error (v1_scripts a') idx) as [es'|] eqn:S'; [|discriminate].
    assert (Ia : is_asset ea = true) by (rewrite Forall_forall in Fa; apply Fa; eapply nth_error_In; exact A).
    assert (Ia' : is_asset ea' = true) by (rewrite Forall_forall in Fa'; apply Fa'; eapply nth_error_In; exact A').
    assert (Iv : is_value ev = true) by (rewrite Forall_forall in Fv; apply Fv; eapply nth_error_In; exact V).
    assert (Iv' : is_value ev' = true) by (rewrite Forall_forall in Fv'; apply Fv'; eapply nth_error_In; exact V').
    assert (Is : lenN es < two64) by (rewrite Forall_forall in Fs; apply Fs; eapply nth_error_In; exact S).
    assert (Is' : lenN es' < two64) by (rewrite Forall_forall in Fs'; apply Fs'; eapply nth_error_In; exact S').
    pose proof (wf_in_parts own Wo) as (Lh & Lq & _ & Cc & _).
    pose proof (wf_in_parts own' Wo') as (Lh' & Lq' & _ & Cc' & _).
    intros X X'. injection X as <-. injection X' as <-. intro E.
    cbn [app] in E. pose proof (f_equal (@hd byte x00) E) as Ef. apply (f_equal (@tl byte)) in E. cbn [hd tl] in Ef, E.
    rewrite <- ?app_assoc in E.
    apply b8_small_inj in Ef; [|apply input_flag_lt|apply input_flag_lt].
    apply app_inv_len in E as [Eh E]; [|rewrite Lh, Lh'; reflexivity].
    apply app_inv_len in E as [Ei E]; [|rewrite !le_enc_length; reflexivity].
    (* asset, value, script: self-delimiting *)
    assert (Eas : ea = ea').
    { match type of E with ea ++ ?r = ea' ++ ?r' =>
        pose proof (p_asset_app ea r Ia) as Q; pose proof (p_asset_app ea' r' Ia') as Q' end.
      rewrite E in Q. rewrite Q in Q'. congruence. }
    assert (E2 : ev ++ var_slice es ++ le_enc 4 (in_seq own) ++
                 match in_iss own with Some s => ser_iss s ++ H1 (ser_issuance_proofs [own]) | None => [x00] end ++ tail =
                 ev' ++ var_slice es' ++ le_enc 4 (in_seq own') ++
                 match in_iss own' with Some s => ser_iss s ++ H1 (ser_issuance_proofs [own']) | None => [x00] end ++ tail').
    { match type of E with ea ++ ?r = ea' ++ ?r' =>
        pose proof (p_asset_app ea r Ia) as Q; pose proof (p_asset_app ea' r' Ia') as Q' end.
      rewrite E in Q. rewrite Q in Q'. congruence. }
    clear E.
    assert (Evs : ev = ev').
    { match type of E2 with ev ++ ?r = ev' ++ ?r' =>
        pose proof (p_value_app ev r Iv) as Q; pose proof (p_value_app ev' r' Iv') as Q' end.
      rewrite E2 in Q. rewrite Q in Q'. congruence. }
    assert (E3 : var_slice es ++ le_enc 4 (in_seq own) ++
                 match in_iss own with Some s => ser_iss s ++ H1 (ser_issuance_proofs [own]) | None => [x00] end ++ tail =
                 var_slice es' ++ le_enc 4 (in_seq own') ++
                 match in_iss own' with Some s => ser_iss s ++ H1 (ser_issuance_proofs [own']) | None => [x00] end ++ tail').
    { match type of E2 with ev ++ ?r = ev' ++ ?r' =>
        pose proof (p_value_app ev r Iv) as Q; pose proof (p_value_app ev' r' Iv') as Q' end.
      rewrite E2 in Q. rewrite Q in Q'. congruence. }
    clear E2.
    assert (Ess : es = es').
    { match type of E3 with var_slice es ++ ?r = var_slice es' ++ ?r' =>
        pose proof (p_var_slice_app es r Is) as Q; pose proof (p_var_slice_app es' r' Is') as Q' end.
      rewrite E3 in Q. rewrite Q in Q'. congruence. }
    assert (E4 : le_enc 4 (in_seq own) ++
                 match in_iss own with Some s => ser_iss s ++ H1 (ser_issuance_proofs [own]) | None => [x00] end ++ tail =
                 le_enc 4 (in_seq own') ++
                 match in_iss own' with Some s => ser_iss s ++ H1 (ser_issuance_proofs [own']) | None => [x00] end ++ tail').
    { match type of E3 with var_slice es ++ ?r = var_slice es' ++ ?r' =>
        pose proof (p_var_slice_app es r Is) as Q; pose proof (p_var_slice_app es' r' Is') as Q' end.
      rewrite E3 in Q. rewrite Q in Q'. congruence. }
    clear E3.
    apply app_inv_len in E4 as [Eq E5]; [|rewrite !le_enc_length; reflexivity].
    assert (Bidx : forall j, (if in_index j =? MinusOne then negb (in_pegin j) && match in_iss j with None => true | Some _ => false end
                 else (in_index j <=? OutpointIndexMask) && negb ((in_index j =? OutpointIndexMask) && in_pegin j && match in_iss j with Some _ => true | None => false end) &&
                      match in_iss j with Some s => wf_iss s | None => true end) = true -> in_index j < two32).
    { intros j Cj. destruct (N.eqb_spec (in_index j) MinusOne) as [->|_]; [reflexivity|].
      rewrite !andb_true_iff in Cj. destruct Cj as [[Cj _] _]. unfold OutpointIndexMask, two32 in *. lia. }
    assert (Ei' : in_index own = in_index own')
      by (apply (le_enc_inj 4); [cbn; pose proof (Bidx own Cc); unfold two32 in *; lia | cbn; pose proof (Bidx own' Cc'); unfold two32 in *; lia | exact Ei]).
    assert (Eq' : in_seq own = in_seq own') by (apply (le_enc_inj 4); [cbn; unfold two32 in *; lia | cbn; unfold two32 in *; lia | exact Eq]).
    destruct (input_flag_inj own own' Ef) as [Pres _].
    pose proof (wf_in_iss own Wo) as Wi. pose proof (wf_in_iss own' Wo') as Wi'.
    destruct (in_iss own) as [s|] eqn:I1, (in_iss own') as [s'|] eqn:I2.
    - cbn in Wi, Wi'. rewrite <- !app_assoc in E5.
      pose proof (p_issuance_app s (H1 (ser_issuance_proofs [own]) ++ tail) Wi) as Q.
      pose proof (p_issuance_app s' (H1 (ser_issuance_proofs [own']) ++ tail') Wi') as Q'.
      rewrite E5 in Q. rewrite Q in Q'. injection Q' as <- E6.
      apply app_inv_len in E6 as [E7 E8]; [|rewrite !H_len; reflexivity]. apply H_inj in E7.
      assert (Ep : in_proofs own = in_proofs own').
      { assert (M : map in_proofs [own] = map in_proofs [own']).
        { apply ser_issuance_proofs_inj; [|exact E7]. intros x [[<-|[]]|[<-|[]]]; assumption. }
        cbn in M. congruence. }
      rewrite Ep. repeat split; congruence.
    - exfalso. destruct Pres as [_ Pres]. specialize (Pres eq_refl). discriminate.
    - exfalso. destruct Pres as [Pres _]. specialize (Pres eq_refl). discriminate.
    - cbn [app] in E5. injection E5 as E5. repeat split; congruence.
  Qed.

  Lemma v1_ins_part_length t a ht x : v1_ins_part H1 t a ht = Some x ->
    length x = if v1_acp ht then 0%nat else 224%nat.
  Proof.
    unfold v1_ins_part. destruct (v1_acp ht); [intro E; injection E as <-; reflexivity|].
    destruct (ser_asset_amounts (v1_assets a) (v1_values a)); [|discriminate].
    intro E; injection E as <-. rewrite !app_length, !H_len. reflexivity.
  Qed.

  Lemma v1_outs_all_length t ht : length (v1_outs_all H1 t ht) =
    if negb (v1_out_type ht =? 2) && negb (v1_out_type ht =? 3) then 64%nat else 0%nat.
  Proof. unfold v1_outs_all. destruct (negb _ && negb _); [rewrite app_length, !H_len|]; reflexivity. Qed.

  Lemma spend_lt a : v1_spend_type a < 256.
  Proof. unfold v1_spend_type. destruct (v1_leaf a), (v1_annex a); lia. Qed.

  Lemma spend_inj a a' : v1_spend_type a = v1_spend_type a' ->
    (v1_leaf a = None <-> v1_leaf a' = None) /\ (v1_annex a = None <-> v1_annex a' = None).
  Proof.
    unfold v1_spend_type. destruct (v1_leaf a), (v1_leaf a'), (v1_annex a), (v1_annex a'); intro E; try lia;
      split; split; intro X; try discriminate; reflexivity.
  Qed.

  Theorem v1_sensitive t t' idx a a' ht p :
    wf_tx t = true -> wf_tx t' = true ->
    (same_iss_pattern (t_ins t) (t_ins t') \/ length (ser_issuances (t_ins t)) <> length (ser_issuances (t_ins t'))) ->
    v1_args_wf t a -> v1_args_wf t' a' ->
    preimage_v1 H1 t idx a ht = Some p -> preimage_v1 H1 t' idx a' ht = Some p ->
    view_v1 t idx a ht = view_v1 t' idx a' ht.
  Proof.
    intros W W' IC AW AW'.
    pose proof AW as (L1 & L2 & L3 & Fa & Fv & Fs & Lg & Ll & Lx).
    pose proof AW' as (L1' & L2' & L3' & Fa' & Fv' & Fs' & Lg' & Ll' & Lx').
    apply wf_tx_parts in W as (Hver & Hlt & _ & _ & Win & Wout).
    apply wf_tx_parts in W' as (Hver' & Hlt' & _ & _ & Win' & Wout').
    unfold preimage_v1, view_v1.
    destruct (nth_error (t_ins t) idx) as [own|] eqn:N; [|discriminate].
    destruct (nth_error (t_ins t') idx) as [own'|] eqn:N'; [|discriminate].
    assert (Wo : wf_in own = true) by (apply Win; eapply nth_error_In; exact N).
    assert (Wo' : wf_in own' = true) by (apply Win'; eapply nth_error_In; exact N').
    destruct (v1_ins_part H1 t a ht) as [ip|] eqn:IP; [|discriminate].
    destruct (v1_own_part H1 own idx a ht) as [op|] eqn:OP; [|discriminate].
    destruct (v1_ins_part H1 t' a' ht) as [ip'|] eqn:IP'; [|discriminate].
    destruct (v1_own_part H1 own' idx a' ht) as [op'|] eqn:OP'; [|discriminate].
    intros P P'. injection P as P. injection P' as P'. rewrite <- P' in P. clear P' p.
    apply app_inv_len in P as [Eg P]; [|rewrite Lg, Lg'; reflexivity].
    apply app_inv_len in P as [_ P]; [|rewrite Lg, Lg'; reflexivity].
    cbn [app] in P. apply (f_equal (@tl byte)) in P. cbn [tl] in P.
    apply app_inv_len in P as [Ever P]; [|rewrite !le_enc_length; reflexivity].
    apply app_inv_len in P as [Elt P]; [|rewrite !le_enc_length; reflexivity].
    apply app_inv_len in P as [Eip P]; [|rewrite (v1_ins_part_length _ _ _ _ IP), (v1_ins_part_length _ _ _ _ IP'); reflexivity].
    apply app_inv_len in P as [Eoa P]; [|rewrite !v1_outs_all_length; reflexivity].
    cbn [app] in P. pose proof (f_equal (@hd byte x00) P) as Esp. apply (f_equal (@tl byte)) in P. cbn [hd tl] in Esp, P.
    apply b8_small_inj in Esp; [|apply spend_lt|apply spend_lt].
    destruct (spend_inj a a' Esp) as [Pl Pa].
    assert (Ever' : t_version t = t_version t') by (apply (le_enc_inj 4); [cbn; unfold two32 in *; lia | cbn; unfold two32 in *; lia | exact Ever]).
    assert (Elt' : t_locktime t = t_locktime t') by (apply (le_enc_inj 4); [cbn; unfold two32 in *; lia | cbn; unfold two32 in *; lia | exact Elt]).
    (* the signing input part, then the tail *)
    assert (TAIL : forall tl tl', op ++ tl = op' ++ tl' -> tl = tl' /\
      (if v1_acp ht
       then Some (input_flag own, in_hash own, in_index own, in_seq own, in_iss own,
                  match in_iss own with Some _ => Some (in_proofs own) | None => None end,
                  nth_error (v1_assets a) idx, nth_error (v1_values a) idx, nth_error (v1_scripts a) idx)
       else None) =
      (if v1_acp ht
       then Some (input_flag own', in_hash own', in_index own', in_seq own', in_iss own',
                  match in_iss own' with Some _ => Some (in_proofs own') | None => None end,
                  nth_error (v1_assets a') idx, nth_error (v1_values a') idx, nth_error (v1_scripts a') idx)
       else None)).
    { intros tl tl' E. destruct (v1_acp ht) eqn:ACP.
      - destruct (v1_own_part_acp_inj own own' idx a a' ht op op' tl tl' ACP Wo Wo' Fa Fa' Fv Fv' Fs Fs' OP OP' E)
          as [(X1 & X2 & X3 & X4 & X5 & X6 & X7 & X8 & X9) Et].
        split; [exact Et|]. rewrite X1, X2, X3, X4, X6, X5, X7, X8, X9. reflexivity.
      - unfold v1_own_part in OP, OP'. rewrite ACP in OP, OP'. injection OP as <-. injection OP' as <-.
        apply app_inv_len in E as [_ E]; [|reflexivity]. split; [exact E | reflexivity]. }
    destruct (TAIL _ _ P) as [P2 Eown]. clear TAIL P.
    (* annex *)
    assert (Eannex : v1_annex a = v1_annex a' /\
      v1_outs_single H1 t idx ht ++ match v1_leaf a with Some l => l ++ [x00] ++ le_enc 4 0xffffffff | None => [] end =
      v1_outs_single H1 t' idx ht ++ match v1_leaf a' with Some l => l ++ [x00] ++ le_enc 4 0xffffffff | None => [] end).
    { destruct (v1_annex a) as [x|] eqn:X, (v1_annex a') as [x'|] eqn:X'.
      - apply app_inv_len in P2 as [E1 E2]; [|rewrite !H_len; reflexivity]. apply H_inj in E1.
        apply var_slice_inj in E1; [subst x'; auto | exact Lx | exact Lx'].
      - exfalso. destruct Pa as [_ Pa]. specialize (Pa eq_refl). discriminate.
      - exfalso. destruct Pa as [Pa _]. specialize (Pa eq_refl). discriminate.
      - cbn [app] in P2. auto. }
    destruct Eannex as [Eannex P3]. clear P2.
    assert (Eleaf : v1_leaf a = v1_leaf a' /\ v1_outs_single H1 t idx ht = v1_outs_single H1 t' idx ht).
    { destruct (v1_leaf a) as [l|] eqn:X, (v1_leaf a') as [l'|] eqn:X'.
      - apply app_inv_len_tail in P3 as [E1 E2]; [|rewrite !app_length, Ll, Ll'; reflexivity].
        apply app_inv_len in E2 as [E2 _]; [|rewrite Ll, Ll'; reflexivity]. subst l'. auto.
      - exfalso. destruct Pl as [_ Pl]. specialize (Pl eq_refl). discriminate.
      - exfalso. destruct Pl as [Pl _]. specialize (Pl eq_refl). discriminate.
      - rewrite !app_nil_r in P3. auto. }
    destruct Eleaf as [Eleaf Eos].
    assert (Wouts : forall o, In o (t_outs t) \/ In o (t_outs t') -> wf_out o = true) by (intros o [Ho|Ho]; [apply Wout | apply Wout']; exact Ho).
    destruct (v1_outs_inj H1 H_inj H_len t t' idx ht Wouts Eoa Eos) as [Eob Eop].
    assert (Eins : (if v1_acp ht then None
             else Some (map input_flag (t_ins t), map in_outpoint (t_ins t), v1_assets a, v1_values a, v1_scripts a,
                        map in_seq (t_ins t), map in_iss (t_ins t), map in_proofs (t_ins t))) =
            (if v1_acp ht then None
             else Some (map input_flag (t_ins t'), map in_outpoint (t_ins t'), v1_assets a', v1_values a', v1_scripts a',
                        map in_seq (t_ins t'), map in_iss (t_ins t'), map in_proofs (t_ins t')))).
    { destruct (v1_acp ht) eqn:ACP; [reflexivity|].
      assert (Wins : forall i, In i (t_ins t) \/ In i (t_ins t') -> wf_in i = true) by (intros i [Hi|Hi]; [apply Win | apply Win']; exact Hi).
      destruct (v1_ins_part_inj H1 H_inj H_len t t' a a' ht ip ip' ACP Wins IC AW AW' IP IP' Eip)
        as (X1 & X2 & X3 & X4 & X5 & X6 & X7 & X8).
      rewrite X1, X2, X3, X4, X5, X6, X7, X8. reflexivity. }
    rewrite Ever', Elt', Eg, Eleaf, Eannex, Eown, Eins, Eob, Eop. reflexivity.
  Qed.
End IdealHashV1Main.
