(* Proofs/SighashSens.v — the converse of the frame theorem for the segwit-v0 signature
   hash (C02): under an ideal hash (injective, 32-byte output, never the all-zero word)
   equal pre-images force equal covered views, i.e. every covered field changes the
   pre-image, hence the digest. *)
From GE Require Import Lib.Bytes Lib.Varint Lib.Sha256 Model.Tx Model.Sighash Proofs.TxCodec Proofs.Sighash.
From Coq Require Import ZifyBool ZifyN ZifyNat.
Open Scope N_scope.

(* ---------- list splitting by length ---------- *)
Lemma app_inv_len {A} (a a' b b' : list A) : length a = length a' -> a ++ b = a' ++ b' -> a = a' /\ b = b'.
Proof.
  revert a'; induction a as [|x a IH]; intros [|y a'] L E; try discriminate; [auto|].
  cbn in *. injection L as L. injection E as -> E. destruct (IH a' L E) as [-> ->]. auto.
Qed.

Lemma app_inv_len_tail {A} (a a' b b' : list A) : length b = length b' -> a ++ b = a' ++ b' -> a = a' /\ b = b'.
Proof.
  intros L E. assert (La : length a = length a').
  { apply (f_equal (@length A)) in E. rewrite !app_length in E. lia. }
  apply app_inv_len; assumption.
Qed.

(* lists of fixed-width encodings *)
Lemma enc_list_fixed_inj {A B} (e : A -> bytes) (f : A -> B) (k : nat) (l l' : list A) :
  (0 < k)%nat -> (forall a, In a l \/ In a l' -> length (e a) = k) ->
  (forall a a', (In a l \/ In a l') -> (In a' l \/ In a' l') -> e a = e a' -> f a = f a') ->
  enc_list e l = enc_list e l' -> map f l = map f l'.
Proof.
  intros Hk. revert l'; induction l as [|a l IH]; intros l' Hl Hi E.
  - destruct l' as [|a' l']; [reflexivity|]. unfold enc_list in E. cbn [map concat] in E.
    symmetry in E. apply app_eq_nil in E as [E _]. specialize (Hl a' (or_intror (or_introl eq_refl))). rewrite E in Hl. cbn in Hl. lia.
  - destruct l' as [|a' l'].
    { unfold enc_list in E. cbn [map concat] in E. apply app_eq_nil in E as [E _].
      specialize (Hl a (or_introl (or_introl eq_refl))). rewrite E in Hl. cbn in Hl. lia. }
    unfold enc_list in E. cbn [map concat] in E.
    apply app_inv_len in E as [E1 E2].
    + cbn [map]. f_equal.
      * apply Hi; [left; left; reflexivity | right; left; reflexivity | exact E1].
      * apply IH; [| | exact E2].
        -- intros x [Hx|Hx]; apply Hl; [left; right; exact Hx | right; right; exact Hx].
        -- intros x y [Hx|Hx] [Hy|Hy] Exy; apply Hi; try exact Exy;
             first [left; right; assumption | right; right; assumption].
    + rewrite (Hl a), (Hl a'); [reflexivity | right; left; reflexivity | left; left; reflexivity].
Qed.

(* lists of self-delimiting encodings *)
Lemma enc_list_parse_inj {A B} (e : A -> bytes) (f : A -> B) (p : parser B) (l l' : list A) :
  (forall a, In a l \/ In a l' -> forall r, p (e a ++ r) = Some (f a, r)) ->
  (forall a, In a l \/ In a l' -> e a <> []) ->
  enc_list e l = enc_list e l' -> map f l = map f l'.
Proof.
  revert l'; induction l as [|a l IH]; intros l' Hp Hne E.
  - destruct l' as [|a' l']; [reflexivity|]. unfold enc_list in E. cbn [map concat] in E.
    symmetry in E. apply app_eq_nil in E as [E _]. exfalso. apply (Hne a'); [right; left; reflexivity | exact E].
  - destruct l' as [|a' l'].
    { unfold enc_list in E. cbn [map concat] in E. apply app_eq_nil in E as [E _].
      exfalso. apply (Hne a); [left; left; reflexivity | exact E]. }
    unfold enc_list in E. cbn [map concat] in E.
    pose proof (Hp a (or_introl (or_introl eq_refl)) (concat (map e l))) as P1.
    pose proof (Hp a' (or_intror (or_introl eq_refl)) (concat (map e l'))) as P2.
    rewrite E in P1. rewrite P1 in P2. injection P2 as F R.
    cbn [map]. f_equal; [exact F|].
    apply IH; [| | exact R].
    + intros x [Hx|Hx]; apply Hp; [left; right; exact Hx | right; right; exact Hx].
    + intros x [Hx|Hx]; apply Hne; [left; right; exact Hx | right; right; exact Hx].
Qed.

(* ---------- issuance serialization ---------- *)
Lemma ser_iss_inj s s' : wf_iss s = true -> wf_iss s' = true -> ser_iss s = ser_iss s' -> s = s'.
Proof.
  intros W W' E. pose proof (p_issuance_app s [] W) as P. pose proof (p_issuance_app s' [] W') as P'.
  rewrite E in P. rewrite P in P'. congruence.
Qed.

Lemma ser_iss_length s : wf_iss s = true -> (66 <= length (ser_iss s))%nat.
Proof.
  unfold wf_iss. intro W. rewrite !andb_true_iff in W. destruct W as [[[A B] C] D].
  apply Nat.eqb_eq in A, B. unfold ser_iss. rewrite !app_length, A, B.
  assert (1 <= length (iss_amount s))%nat by (destruct (iss_amount s); [discriminate C | cbn; lia]).
  assert (1 <= length (iss_token s))%nat by (destruct (iss_token s); [discriminate D | cbn; lia]).
  lia.
Qed.

Definition iss_opt_bytes (o : option issuance) : bytes := match o with Some s => ser_iss s | None => [] end.
Definition wf_iss_opt (o : option issuance) : Prop := match o with Some s => wf_iss s = true | None => True end.

Lemma iss_opt_bytes_inj o o' : wf_iss_opt o -> wf_iss_opt o' -> iss_opt_bytes o = iss_opt_bytes o' -> o = o'.
Proof.
  destruct o as [s|], o' as [s'|]; cbn; intros W W' E.
  - f_equal. apply ser_iss_inj; assumption.
  - pose proof (ser_iss_length s W). rewrite E in H. cbn in H. lia.
  - pose proof (ser_iss_length s' W'). rewrite <- E in H. cbn in H. lia.
  - reflexivity.
Qed.

(* the hashed issuance list: one 0x00 for "none", the issuance otherwise.  This concatenation is not
   self-delimiting in general (an issuance may itself begin with 0x00); it is injective for lists with the
   same presence pattern, and lists of different total length never collide — which is what any
   single-field perturbation gives. *)
Definition same_iss_pattern (l l' : list txin) : Prop :=
  Forall2 (fun i i' => (in_iss i = None <-> in_iss i' = None)) l l'.

Lemma ser_issuances_inj l l' :
  (forall i, In i l \/ In i l' -> wf_iss_opt (in_iss i)) ->
  same_iss_pattern l l' -> ser_issuances l = ser_issuances l' -> map in_iss l = map in_iss l'.
Proof.
  intros W P. induction P as [|i i' l l' Hp P IH]; intro E; [reflexivity|].
  unfold ser_issuances, enc_list in E. cbn [map concat] in E.
  assert (Wi : wf_iss_opt (in_iss i)) by (apply W; left; left; reflexivity).
  assert (Wi' : wf_iss_opt (in_iss i')) by (apply W; right; left; reflexivity).
  unfold ser_iss_or_zero in E at 1 3.
  destruct (in_iss i) as [s|] eqn:Ei, (in_iss i') as [s'|] eqn:Ei'.
  - (* both present: the first issuance is self-delimiting *)
    cbn in Wi, Wi'.
    pose proof (p_issuance_app s (concat (map ser_iss_or_zero l)) Wi) as Q.
    pose proof (p_issuance_app s' (concat (map ser_iss_or_zero l')) Wi') as Q'.
    rewrite E in Q. rewrite Q in Q'. injection Q' as -> R.
    cbn [map]. rewrite Ei, Ei'. f_equal. apply IH; [|exact R].
    intros x [Hx|Hx]; apply W; [left; right; exact Hx | right; right; exact Hx].
  - exfalso. destruct Hp as [_ Hp]. specialize (Hp eq_refl). discriminate.
  - exfalso. destruct Hp as [Hp _]. specialize (Hp eq_refl). discriminate.
  - cbn [app] in E. injection E as R. cbn [map]. rewrite Ei, Ei'. f_equal. apply IH; [|exact R].
    intros x [Hx|Hx]; apply W; [left; right; exact Hx | right; right; exact Hx].
Qed.

(* ---------- outputs ---------- *)
Lemma strip_base o o' : strip_out o = strip_out o' -> out_base o = out_base o'.
Proof. unfold strip_out, out_base. intro E. injection E as A B C D. congruence. Qed.

Lemma ser_outputs_inj l l' :
  (forall o, In o l \/ In o l' -> wf_out o = true) ->
  ser_outputs l = ser_outputs l' -> map out_base l = map out_base l'.
Proof.
  intros W E.
  assert (S : map strip_out l = map strip_out l').
  { apply (enc_list_parse_inj (ser_out false false) strip_out p_out); [| |exact E].
    - intros a Ha r. apply p_out_app. apply W; exact Ha.
    - intros a Ha. apply ser_out_nonempty. apply W; exact Ha. }
  clear -S. revert l' S. induction l as [|o l IH]; intros [|o' l'] S; try discriminate; [reflexivity|].
  cbn [map] in *. assert (S1 : strip_out o = strip_out o') by congruence. assert (S2 : map strip_out l = map strip_out l') by congruence.
  rewrite (strip_base _ _ S1), (IH _ S2). reflexivity.
Qed.

Definition p_proofs : parser (bytes * bytes) := a <- p_var_slice ;; b <- p_var_slice ;; ret (a, b).

Lemma ser_rangeproofs_inj l l' :
  (forall o, In o l \/ In o l' -> wf_out o = true) ->
  ser_rangeproofs l = ser_rangeproofs l' -> map out_proofs l = map out_proofs l'.
Proof.
  intros W E. apply (enc_list_parse_inj ser_out_proofs_rs out_proofs p_proofs); [| |exact E].
  - intros o Ho r. apply W in Ho. apply wf_out_parts in Ho as (_ & _ & _ & _ & Hr & Hs).
    unfold p_proofs, ser_out_proofs_rs, bind. rewrite <- app_assoc.
    rewrite p_var_slice_app by exact Hr. rewrite p_var_slice_app by exact Hs. reflexivity.
  - intros o _. unfold ser_out_proofs_rs. pose proof (var_slice_nonempty (o_rp o)).
    destruct (var_slice (o_rp o)); [congruence | discriminate].
Qed.

Section IdealHash.
  Variable H2 : bytes -> bytes.
  Hypothesis H_inj : forall a b, H2 a = H2 b -> a = b.
  Hypothesis H_len : forall a, length (H2 a) = 32%nat.
  Hypothesis H_nonzero : forall a, H2 a <> zero32.

  Lemma zero32_len : length zero32 = 32%nat. Proof. reflexivity. Qed.

  (* what a signer may assume about the transaction it signs: it is well formed (C01), and the two
     transactions compared have the same issuance presence pattern or issuance lists of different size *)
  Definition iss_compatible (t t' : tx) : Prop :=
    same_iss_pattern (t_ins t) (t_ins t') \/ length (ser_issuances (t_ins t)) <> length (ser_issuances (t_ins t')).

  Lemma wf_in_iss i : wf_in i = true -> wf_iss_opt (in_iss i).
  Proof.
    intro W. apply wf_in_parts in W as (_ & _ & _ & C & _).
    destruct (in_iss i) as [s|] eqn:E; [|exact I]. cbn.
    destruct (in_index i =? MinusOne).
    - apply andb_true_iff in C as [_ C]. discriminate.
    - rewrite !andb_true_iff in C. destruct C as [_ C]. exact C.
  Qed.

  Local Opaque le_enc.

  Theorem v0_sensitive t t' idx script script' value value' ht p :
    wf_tx t = true -> wf_tx t' = true -> iss_compatible t t' ->
    lenN script < two64 -> lenN script' < two64 -> is_value value = true -> is_value value' = true ->
    preimage_v0 H2 t idx script value ht = Some p ->
    preimage_v0 H2 t' idx script' value' ht = Some p ->
    view_v0 t idx ht = view_v0 t' idx ht /\ script = script' /\ value = value'.
  Proof.
    intros W W' IC Ls Ls' Vv Vv'.
    apply wf_tx_parts in W as (Hver & Hlt & _ & _ & Win & Wout).
    apply wf_tx_parts in W' as (Hver' & Hlt' & _ & _ & Win' & Wout').
    unfold preimage_v0, view_v0.
    destruct (nth_error (t_ins t) idx) as [own|] eqn:N; [|discriminate].
    destruct (nth_error (t_ins t') idx) as [own'|] eqn:N'; [|discriminate].
    assert (Wo : wf_in own = true) by (apply Win; eapply nth_error_In; exact N).
    assert (Wo' : wf_in own' = true) by (apply Win'; eapply nth_error_In; exact N').
    pose proof (wf_in_parts own Wo) as (Lh & Lq & _).
    pose proof (wf_in_parts own' Wo') as (Lh' & Lq' & _).
    intros P P'. injection P as P. injection P' as P'. rewrite <- P' in P. clear P' p.
    set (hin := if ht_acp ht then zero32 else H2 (ser_prevouts (t_ins t))) in *.
    set (hin' := if ht_acp ht then zero32 else H2 (ser_prevouts (t_ins t'))) in *.
    set (hseq := if ht_acp ht || (ht_single ht || ht_none ht) then zero32 else H2 (ser_sequences (t_ins t))) in *.
    set (hseq' := if ht_acp ht || (ht_single ht || ht_none ht) then zero32 else H2 (ser_sequences (t_ins t'))) in *.
    set (hiss := if ht_acp ht then zero32 else H2 (ser_issuances (t_ins t))) in *.
    set (hiss' := if ht_acp ht then zero32 else H2 (ser_issuances (t_ins t'))) in *.
    set (hout := match covered_outs t idx ht with Some l => H2 (ser_outputs l) | None => zero32 end) in *.
    set (hout' := match covered_outs t' idx ht with Some l => H2 (ser_outputs l) | None => zero32 end) in *.
    set (hrp := match covered_outs t idx ht with Some l => H2 (ser_rangeproofs l) | None => zero32 end) in *.
    set (hrp' := match covered_outs t' idx ht with Some l => H2 (ser_rangeproofs l) | None => zero32 end) in *.
    assert (L32 : forall (b : bool) x, length (if b then zero32 else H2 x) = 32%nat) by (intros [|] x; [reflexivity | apply H_len]).
    assert (LM : forall (o : option (list txout)) g, length (match o with Some l => H2 (g l) | None => zero32 end) = 32%nat)
      by (intros [l|] g; [apply H_len | reflexivity]).
    (* peel the fixed-width head *)
    apply app_inv_len in P as [Ever P]; [|rewrite !le_enc_length; reflexivity].
    apply app_inv_len in P as [Ehin P]; [|unfold hin, hin'; rewrite !L32; reflexivity].
    apply app_inv_len in P as [Ehseq P]; [|unfold hseq, hseq'; rewrite !L32; reflexivity].
    apply app_inv_len in P as [Ehiss P]; [|unfold hiss, hiss'; rewrite !L32; reflexivity].
    unfold own_input_v0 in P. rewrite <- !app_assoc in P.
    apply app_inv_len in P as [Ehash P]; [|rewrite Lh, Lh'; reflexivity].
    apply app_inv_len in P as [Eidx P]; [|rewrite !le_enc_length; reflexivity].
    (* script code and value are self-delimiting *)
    assert (Escript : script = script' /\
       value ++ le_enc 4 (in_seq own) ++ iss_opt_bytes (in_iss own) ++ hout ++ (if ht_rp ht then hrp else []) ++ le_enc 4 (t_locktime t) ++ le_enc 4 ht =
       value' ++ le_enc 4 (in_seq own') ++ iss_opt_bytes (in_iss own') ++ hout' ++ (if ht_rp ht then hrp' else []) ++ le_enc 4 (t_locktime t') ++ le_enc 4 ht).
    { match type of P with var_slice script ++ ?r = var_slice script' ++ ?r' =>
        pose proof (p_var_slice_app script r Ls) as Q; pose proof (p_var_slice_app script' r' Ls') as Q' end.
      rewrite P in Q. rewrite Q in Q'. injection Q' as A B. split; [exact A|].
      unfold iss_opt_bytes. rewrite <- ?app_assoc in B |- *. exact B. }
    destruct Escript as [Escript P2]. clear P.
    assert (Evalue : value = value' /\
       le_enc 4 (in_seq own) ++ iss_opt_bytes (in_iss own) ++ hout ++ (if ht_rp ht then hrp else []) ++ le_enc 4 (t_locktime t) ++ le_enc 4 ht =
       le_enc 4 (in_seq own') ++ iss_opt_bytes (in_iss own') ++ hout' ++ (if ht_rp ht then hrp' else []) ++ le_enc 4 (t_locktime t') ++ le_enc 4 ht).
    { match type of P2 with value ++ ?r = value' ++ ?r' =>
        pose proof (p_value_app value r Vv) as Q; pose proof (p_value_app value' r' Vv') as Q' end.
      rewrite P2 in Q. rewrite Q in Q'. split; congruence. }
    destruct Evalue as [Evalue P3]. clear P2.
    apply app_inv_len in P3 as [Eseq P3]; [|rewrite !le_enc_length; reflexivity].
    (* the optional issuance is delimited by the fixed-width tail *)
    apply app_inv_len_tail in P3 as [Eiss P3].
    2:{ rewrite !app_length. unfold hout, hout', hrp, hrp'. rewrite !LM.
        destruct (ht_rp ht); rewrite ?LM, !le_enc_length; reflexivity. }
    apply app_inv_len in P3 as [Ehout P3]; [|unfold hout, hout'; rewrite !LM; reflexivity].
    assert (Etail : (if ht_rp ht then hrp else []) = (if ht_rp ht then hrp' else []) /\ t_locktime t = t_locktime t').
    { apply app_inv_len in P3 as [A B].
      - split; [exact A|]. apply app_inv_len in B as [B _]; [|rewrite !le_enc_length; reflexivity].
        apply (le_enc_inj 4); [cbn; unfold two32 in *; lia | cbn; unfold two32 in *; lia | exact B].
      - destruct (ht_rp ht); [unfold hrp, hrp'; rewrite !LM|]; reflexivity. }
    destruct Etail as [Ehrp Elt].
    (* fields of the signing input *)
    assert (Ever' : t_version t = t_version t') by (apply (le_enc_inj 4); [cbn; unfold two32 in *; lia | cbn; unfold two32 in *; lia | exact Ever]).
    assert (Eidx' : in_index own = in_index own').
    { apply wf_in_parts in Wo as (_ & _ & _ & C & _). apply wf_in_parts in Wo' as (_ & _ & _ & C' & _).
      assert (B : forall i, (if in_index i =? MinusOne then negb (in_pegin i) && match in_iss i with None => true | Some _ => false end
                 else (in_index i <=? OutpointIndexMask) && negb ((in_index i =? OutpointIndexMask) && in_pegin i && match in_iss i with Some _ => true | None => false end) &&
                      match in_iss i with Some s => wf_iss s | None => true end) = true -> in_index i < two32).
      { intros i Ci. destruct (N.eqb_spec (in_index i) MinusOne) as [->|_]; [reflexivity|].
        rewrite !andb_true_iff in Ci. destruct Ci as [[Ci _] _]. unfold OutpointIndexMask, two32 in *. lia. }
      apply (le_enc_inj 4); [cbn; pose proof (B own C); unfold two32 in *; lia | cbn; pose proof (B own' C'); unfold two32 in *; lia | exact Eidx]. }
    assert (Eseq' : in_seq own = in_seq own') by (apply (le_enc_inj 4); [cbn; unfold two32 in *; lia | cbn; unfold two32 in *; lia | exact Eseq]).
    assert (Eiss' : in_iss own = in_iss own') by (apply iss_opt_bytes_inj; [apply wf_in_iss; exact Wo | apply wf_in_iss; exact Wo' | exact Eiss]).
    (* the hashed lists *)
    assert (Ein : (if ht_acp ht then [] else map in_outpoint (t_ins t)) = (if ht_acp ht then [] else map in_outpoint (t_ins t'))).
    { unfold hin, hin' in Ehin. destruct (ht_acp ht); [reflexivity|]. apply H_inj in Ehin.
      apply (enc_list_fixed_inj ser_prevout in_outpoint 36); [lia | | | exact Ehin].
      - intros a [Ha|Ha]; [apply Win in Ha | apply Win' in Ha]; apply wf_in_parts in Ha as (L & _);
          unfold ser_prevout; rewrite app_length, L, le_enc_length; reflexivity.
      - intros a a' Ha Ha' E. unfold ser_prevout in E.
        assert (La : length (in_hash a) = 32%nat) by (destruct Ha as [Ha|Ha]; [apply Win in Ha | apply Win' in Ha]; apply wf_in_parts in Ha as (L & _); exact L).
        assert (La' : length (in_hash a') = 32%nat) by (destruct Ha' as [Ha'|Ha']; [apply Win in Ha' | apply Win' in Ha']; apply wf_in_parts in Ha' as (L & _); exact L).
        apply app_inv_len in E as [E1 E2]; [|rewrite La, La'; reflexivity].
        unfold in_outpoint. f_equal; [exact E1|].
        assert (Bd : forall x, (In x (t_ins t) \/ In x (t_ins t')) -> in_index x < two32).
        { intros x [Hx|Hx]; [apply Win in Hx | apply Win' in Hx]; apply wf_in_parts in Hx as (_ & _ & _ & C & _);
            (destruct (N.eqb_spec (in_index x) MinusOne) as [->|_]; [reflexivity|]);
            rewrite !andb_true_iff in C; destruct C as [[C _] _]; unfold OutpointIndexMask, two32 in *; lia. }
        apply (le_enc_inj 4); [cbn; pose proof (Bd a Ha); unfold two32 in *; lia | cbn; pose proof (Bd a' Ha'); unfold two32 in *; lia | exact E2]. }
    assert (Esq : (if ht_acp ht || (ht_single ht || ht_none ht) then [] else map in_seq (t_ins t)) =
                  (if ht_acp ht || (ht_single ht || ht_none ht) then [] else map in_seq (t_ins t'))).
    { unfold hseq, hseq' in Ehseq. destruct (ht_acp ht || (ht_single ht || ht_none ht)); [reflexivity|]. apply H_inj in Ehseq.
      apply (enc_list_fixed_inj (fun i => le_enc 4 (in_seq i)) in_seq 4); [lia | intros; apply le_enc_length | | exact Ehseq].
      intros a a' Ha Ha' E.
      assert (Bd : forall x, (In x (t_ins t) \/ In x (t_ins t')) -> in_seq x < two32)
        by (intros x [Hx|Hx]; [apply Win in Hx | apply Win' in Hx]; apply wf_in_parts in Hx as (_ & Q & _); exact Q).
      apply (le_enc_inj 4); [cbn; pose proof (Bd a Ha); unfold two32 in *; lia | cbn; pose proof (Bd a' Ha'); unfold two32 in *; lia | exact E]. }
    assert (Eis : (if ht_acp ht then [] else map in_iss (t_ins t)) = (if ht_acp ht then [] else map in_iss (t_ins t'))).
    { unfold hiss, hiss' in Ehiss. destruct (ht_acp ht); [reflexivity|]. apply H_inj in Ehiss.
      destruct IC as [IC|IC]; [|exfalso; apply IC; rewrite Ehiss; reflexivity].
      apply ser_issuances_inj; [|exact IC | exact Ehiss].
      intros i [Hi|Hi]; apply wf_in_iss; [apply Win | apply Win']; exact Hi. }
    (* outputs *)
    assert (Wc : forall l, covered_outs t idx ht = Some l -> forall o, In o l -> wf_out o = true).
    { unfold covered_outs. intros l. destruct (negb (ht_single ht || ht_none ht)).
      - intro E; injection E as <-. exact Wout.
      - destruct (ht_single ht); [|discriminate]. destruct (nth_error (t_outs t) idx) as [o|] eqn:No; [|discriminate].
        intro E; injection E as <-. intros x [<-|[]]. apply Wout. eapply nth_error_In; exact No. }
    assert (Wc' : forall l, covered_outs t' idx ht = Some l -> forall o, In o l -> wf_out o = true).
    { unfold covered_outs. intros l. destruct (negb (ht_single ht || ht_none ht)).
      - intro E; injection E as <-. exact Wout'.
      - destruct (ht_single ht); [|discriminate]. destruct (nth_error (t_outs t') idx) as [o|] eqn:No; [|discriminate].
        intro E; injection E as <-. intros x [<-|[]]. apply Wout'. eapply nth_error_In; exact No. }
    assert (Eob : option_map (map out_base) (covered_outs t idx ht) = option_map (map out_base) (covered_outs t' idx ht)).
    { unfold hout, hout' in Ehout.
      destruct (covered_outs t idx ht) as [l|] eqn:C, (covered_outs t' idx ht) as [l'|] eqn:C'; cbn [option_map].
      - apply H_inj in Ehout. f_equal. apply ser_outputs_inj; [|exact Ehout].
        intros o [Ho|Ho]; [eapply Wc | eapply Wc']; try reflexivity; exact Ho.
      - exfalso. exact (H_nonzero _ Ehout).
      - exfalso. symmetry in Ehout. exact (H_nonzero _ Ehout).
      - reflexivity. }
    assert (Eop : (if ht_rp ht then option_map (map out_proofs) (covered_outs t idx ht) else None) =
                  (if ht_rp ht then option_map (map out_proofs) (covered_outs t' idx ht) else None)).
    { destruct (ht_rp ht); [|reflexivity]. unfold hrp, hrp' in Ehrp.
      destruct (covered_outs t idx ht) as [l|] eqn:C, (covered_outs t' idx ht) as [l'|] eqn:C'; cbn [option_map].
      - apply H_inj in Ehrp. f_equal. apply ser_rangeproofs_inj; [|exact Ehrp].
        intros o [Ho|Ho]; [eapply Wc | eapply Wc']; try reflexivity; exact Ho.
      - exfalso. exact (H_nonzero _ Ehrp).
      - exfalso. symmetry in Ehrp. exact (H_nonzero _ Ehrp).
      - reflexivity. }
    split; [|split; assumption].
    rewrite Ever', Elt, Ehash, Eidx', Eseq', Eiss', Ein, Esq, Eis, Eob, Eop. reflexivity.
  Qed.

  (* digests: equal digests force equal views *)
  Corollary v0_digest_sensitive t t' idx script script' value value' ht d :
    wf_tx t = true -> wf_tx t' = true -> iss_compatible t t' ->
    lenN script < two64 -> lenN script' < two64 -> is_value value = true -> is_value value' = true ->
    digest_v0 H2 t idx script value ht = Some d -> digest_v0 H2 t' idx script' value' ht = Some d ->
    view_v0 t idx ht = view_v0 t' idx ht /\ script = script' /\ value = value'.
  Proof.
    intros W W' IC Ls Ls' Vv Vv'. unfold digest_v0.
    destruct (preimage_v0 H2 t idx script value ht) as [p|] eqn:P; [|discriminate].
    destruct (preimage_v0 H2 t' idx script' value' ht) as [p'|] eqn:P'; [|discriminate].
    intros D D'. injection D as D. injection D' as D'. rewrite <- D' in D. apply H_inj in D. subst p'.
    eapply v0_sensitive; eassumption.
  Qed.
End IdealHash.

(* non-vacuity: the hypotheses on H2 are jointly satisfiable on the inputs that occur (an injective
   32-byte-valued function on a finite domain), and two wf transactions differing in one covered field exist *)
Example v0_sensitive_applies :
  let i := mk_in (repeat x01 32) 0 5 [] [] false [] None [] [] in
  let t := mk_tx 2 0 0 [i] [] in
  let t' := mk_tx 2 0 1 [i] [] in
  wf_tx t = true /\ wf_tx t' = true /\ same_iss_pattern (t_ins t) (t_ins t') /\ view_v0 t 0 1 <> view_v0 t' 0 1.
Proof. cbn. repeat split; try reflexivity. - repeat constructor; intro; reflexivity. - discriminate. Qed.

(* ====================== legacy ====================== *)
(* The legacy pre-image is the signature form of a modified copy followed by the hash type; without the
   RANGEPROOF bit that form is the id serialization of the copy minus the marker byte, so the injectivity
   of the id serialization (C04) carries over. *)
From GE Require Import Proofs.TxId.

Lemma ser_sig_to_txid c :
  ser_txid c = firstn 4 (ser_tx false true true false c) ++ [b8 0] ++ skipn 4 (ser_tx false true true false c).
Proof.
  unfold ser_txid, ser_tx. cbn [andb negb].
  assert (L : length (le_enc 4 (t_version c)) = 4%nat) by apply le_enc_length.
  set (v := le_enc 4 (t_version c)) in *.
  do 5 (destruct v as [|? v]; try discriminate L). cbn [app firstn skipn]. reflexivity.
Qed.

Lemma same_base_sig_view c c' : same_base c c' -> sig_view false c = sig_view false c'.
Proof.
  intros (Ev & El & Ei & Eo). unfold sig_view. rewrite Ev, El.
  assert (A : map sig_in_view (t_ins c) = map sig_in_view (t_ins c')).
  { clear -Ei. revert Ei. generalize (t_ins c) (t_ins c'). induction l as [|i l IH]; intros [|i' l'] E; try discriminate; [reflexivity|].
    cbn [map] in *. assert (E1 : strip_in i = strip_in i') by congruence. assert (E2 : map strip_in l = map strip_in l') by congruence.
    rewrite (IH _ E2). f_equal. unfold strip_in in E1. unfold sig_in_view, raw_index. injection E1 as X1 X2 X3 X4 X5 X6. rewrite X1, X2, X3, X4, X5, X6. reflexivity. }
  assert (B : map out_base (t_outs c) = map out_base (t_outs c')).
  { clear -Eo. revert Eo. generalize (t_outs c) (t_outs c'). induction l as [|o l IH]; intros [|o' l'] E; try discriminate; [reflexivity|].
    cbn [map] in *. assert (E1 : strip_out o = strip_out o') by congruence. assert (E2 : map strip_out l = map strip_out l') by congruence.
    rewrite (IH _ E2), (strip_base _ _ E1). reflexivity. }
  rewrite A, B. reflexivity.
Qed.

Opaque le_enc.
Theorem legacy_sensitive t t' idx script script' ht c c' p :
  ht_rp ht = false ->
  legacy_tx t idx script ht = Some c -> legacy_tx t' idx script' ht = Some c' ->
  wf_tx c = true -> wf_tx c' = true ->
  preimage_legacy t idx script ht = Some p -> preimage_legacy t' idx script' ht = Some p ->
  sig_view false c = sig_view false c'.
Proof.
  intros RP C C' W W'. unfold preimage_legacy. rewrite C, C', RP.
  intros P P'. injection P as P. injection P' as P'. rewrite <- P' in P.
  apply app_inv_len_tail in P as [P _]; [|reflexivity].
  apply same_base_sig_view. apply txid_sensitive; [exact W | exact W'|].
  rewrite (ser_sig_to_txid c), (ser_sig_to_txid c'), P. reflexivity.
Qed.

Transparent le_enc.

(* the copy that is hashed is well formed whenever the transaction is and no earlier output is blanked *)
Lemma set_script_wf s i : wf_in i = true -> lenN s < two64 -> wf_in (set_script s i) = true.
Proof.
  intros W L. apply wf_in_parts in W as (A & B & _ & D & E & F & G & H).
  unfold wf_in, set_script, wf_slice. proj_in. rewrite A, D, G, H. cbn [Nat.eqb].
  destruct (N.ltb_spec (in_seq i) two32); [|lia]. destruct (N.ltb_spec (lenN s) two64); [|lia].
  destruct (N.ltb_spec (lenN (in_irp i)) two64); [|lia]. destruct (N.ltb_spec (lenN (in_inrp i)) two64); [|lia]. reflexivity.
Qed.
