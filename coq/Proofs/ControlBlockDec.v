(* Proofs/ControlBlockDec.v — C12 for taproot control blocks: which byte strings the parser accepts, and which strict
   prefixes of an accepted control block are accepted (exactly the cuts at a node boundary: the BIP-341 format is not
   prefix-free). The parser model is total: value or rejection, no other outcome. *)
From GE Require Import Lib.Bytes Model.Taproot.
From Coq Require Import List Arith Lia ZifyBool ZifyNat.
Import ListNotations.

Lemma parse_cb_accepts_shape liftable bs cb :
  parse_cb liftable bs = Some cb ->
  exists k, (k <= 128)%nat /\ length bs = (33 + 32 * k)%nat.
Proof.
  unfold parse_cb, cb_base_size, cb_max_size, cb_node_size.
  destruct (Nat.ltb_spec (length bs) 33) as [|Hge]; [discriminate|].
  destruct (Nat.ltb_spec (33 + 32 * 128) (length bs)) as [|Hle]; [discriminate|].
  destruct (Nat.eqb_spec ((length bs - 33) mod 32) 0) as [Hm|]; [|discriminate].
  intros _. exists ((length bs - 33) / 32)%nat.
  pose proof (Nat.div_mod (length bs - 33) 32 ltac:(lia)) as D. rewrite Hm in D.
  split; [apply Nat.div_le_upper_bound; lia | lia].
Qed.

Lemma parse_cb_rejects_short liftable bs : (length bs < 33)%nat -> parse_cb liftable bs = None.
Proof.
  intro H. unfold parse_cb, cb_base_size. destruct (Nat.ltb_spec (length bs) 33); [reflexivity | lia].
Qed.

Lemma parse_cb_rejects_misaligned liftable bs :
  ((length bs - 33) mod 32 <> 0)%nat -> parse_cb liftable bs = None.
Proof.
  intro H. unfold parse_cb, cb_base_size, cb_max_size, cb_node_size.
  destruct (Nat.ltb_spec (length bs) 33); [reflexivity|].
  destruct (Nat.ltb_spec (33 + 32 * 128) (length bs)); [reflexivity|].
  destruct (Nat.eqb_spec ((length bs - 33) mod 32) 0); [contradiction | reflexivity].
Qed.

(* a strict prefix of an accepted control block is accepted only when the cut falls on a node boundary *)
Theorem controlblock_prefix_only_at_node_boundary liftable pre suf cb cb' :
  parse_cb liftable (pre ++ suf) = Some cb -> parse_cb liftable pre = Some cb' ->
  (length suf mod 32 = 0)%nat.
Proof.
  intros A B.
  apply parse_cb_accepts_shape in A as (k & _ & Lk). apply parse_cb_accepts_shape in B as (k' & _ & Lk').
  rewrite app_length in Lk. assert (E : length suf = (32 * (k - k'))%nat) by lia.
  rewrite E. rewrite Nat.mul_comm. apply Nat.mod_mul. lia.
Qed.

(* hence every cut elsewhere is rejected *)
Corollary controlblock_prefix_rejected liftable pre suf cb :
  parse_cb liftable (pre ++ suf) = Some cb -> (length suf mod 32 <> 0)%nat -> parse_cb liftable pre = None.
Proof.
  intros A H. destruct (parse_cb liftable pre) as [cb'|] eqn:B; [|reflexivity].
  exfalso. apply H. eapply controlblock_prefix_only_at_node_boundary; eassumption.
Qed.
