(* Proofs/AddressRegroup.v — the regrouping premises of the C14 blech32 theorems are theorems
   (Proofs/Regroup.v), so the premises can be dropped. *)
From GE Require Import Lib.Bytes Model.Blech32 Proofs.Blech32 Proofs.Regroup Model.Address Proofs.Address.
Import B32 Addr.
Open Scope N_scope.

Theorem regroup_law_holds : regroup_law.
Proof. exact regroup_roundtrip. Qed.

Theorem regroup_back_law_holds : regroup_back_law.
Proof. exact regroup_back. Qed.
