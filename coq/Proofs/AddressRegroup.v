(* Proofs/AddressRegroup.v — the regrouping premises of the C14 blech32 theorems are theorems
   (Proofs/Regroup.v), so the premises can be dropped. *)
From GE Require Import Lib.Bytes Model.Blech32 Proofs.Blech32 Proofs.Regroup Model.Address Proofs.Address.
Import B32 Addr.
Open Scope N_scope.

Theorem regroup_law_holds : regroup_law.
Proof. exact regroup_roundtrip. Qed.

Theorem regroup_back_law_holds : regroup_back_law.
Proof. exact regroup_back. Qed.

(* ------------------------------------------------------------------ *)
(* network attribution is exclusive for EVERY string (fix 233bf85: the   *)
(* whole human-readable part is compared)                               *)
(* ------------------------------------------------------------------ *)
Lemma hrps_exclusive h n n' : In n nets -> In n' nets -> In h (hrps n) -> In h (hrps n') -> n = n'.
Proof.
  intros H H' I I'.
  apply in_nets in H as [-> | [-> | ->]]; apply in_nets in H' as [-> | [-> | ->]]; try reflexivity; exfalso;
    cbn in I, I'; repeat (destruct I as [I|I]; [subst h|]); try contradiction;
    repeat (destruct I' as [I'|I']; [vm_compute in I'; discriminate I'|]); contradiction.
Qed.

Theorem attribution_exclusive (b58dec : bytes -> option (bytes * byte)) s n :
  network_for_address b58dec s = Ok n ->
  In n nets /\
  ((In (segwit_prefix s) (hrps n) /\ forall n', In n' nets -> In (segwit_prefix s) (hrps n') -> n' = n) \/
   (net_by_hrp s = None /\ exists d v, b58dec s = Some (d, v) /\ In v (versions n) /\
      forall n', In n' nets -> In v (versions n') -> n' = n)).
Proof.
  unfold network_for_address. destruct (net_by_hrp s) as [m|] eqn:E.
  - intro H; inversion H; subst m. unfold net_by_hrp in E. apply find_some in E as [I B]. split; [exact I|]. left.
    assert (Ih : In (segwit_prefix s) (hrps n)).
    { unfold is_hrp in B. apply orb_true_iff in B as [B|B]; apply bytes_eqb_eq in B; rewrite B; cbn; tauto. }
    split; [exact Ih|]. intros n' I' Ih'. symmetry. eapply hrps_exclusive; eassumption.
  - destruct (b58dec s) as [[d v]|] eqn:D; [|discriminate].
    destruct (net_by_version v) as [m|] eqn:V; [|discriminate]. intro H; inversion H; subst m.
    unfold net_by_version in V. apply find_some in V as [I B]. split; [exact I|]. right. split; [reflexivity|].
    exists d, v. split; [reflexivity|].
    assert (Iv : In v (versions n)).
    { apply orb_true_iff in B as [B|B]; [apply orb_true_iff in B as [B|B]|]; apply beqb_eq in B; rewrite B; cbn; tauto. }
    split; [exact Iv|]. intros n' I' Iv'. symmetry. eapply version_bytes_disjoint; eassumption.
Qed.

(* ------------------------------------------------------------------ *)
(* a recognised confidential segwit string IS the canonical encoding of   *)
(* (its network, version, blinding key, program)                          *)
(* ------------------------------------------------------------------ *)
Lemma accepted_single_case s hrp data : decode s = DOk hrp data -> map to_lower s = s \/ map to_upper s = s.
Proof.
  unfold decode. rewrite decode_generic_unfold.
  destruct (len_bad s); [discriminate|]. destruct (negb (forallb char_ok s)); [discriminate|].
  destruct (case_bad s) eqn:C; [discriminate|]. intros _. unfold case_bad in C.
  apply andb_false_iff in C as [C|C]; apply negb_false_iff, bytes_eqb_eq in C; [left | right]; symmetry; exact C.
Qed.

Lemma hrp_not_upper n : In n nets -> map to_upper (n_blech32 n) <> n_blech32 n.
Proof. intro H. apply in_nets in H as [-> | [-> | ->]]; vm_compute; discriminate. Qed.

Lemma segwit_prefix_map (f : byte -> byte) s : (forall x, beqb (f x) sep = beqb x sep) ->
  segwit_prefix (map f s) = map f (segwit_prefix s).
Proof.
  intro Hf. unfold segwit_prefix.
  assert (L : last_index sep (map f s) = last_index sep s).
  { unfold last_index. generalize O (@None nat). induction s as [|x s IH]; intros i acc; cbn [map last_index_from]; [reflexivity|].
    rewrite Hf. apply IH. }
  rewrite L. destruct (last_index sep s); [apply firstn_map | reflexivity].
Qed.

Lemma sep_upper x : beqb (to_upper x) sep = beqb x sep.
Proof. destruct x; reflexivity. Qed.

Theorem blech32_recognised_canonical s n p v k pr : In n nets ->
  is_hrp s (n_blech32 n) = true -> from_blech32 s = Ok (p, v, k, pr) ->
  p = n_blech32 n /\ to_blech32 (n_blech32 n) v k pr = Ok s.
Proof.
  intros Hn Hh F. pose proof (blech32_recognised_reencodes s p v k pr regroup_back_law_holds F) as R.
  unfold is_hrp in Hh. apply bytes_eqb_eq in Hh.
  assert (D : exists data, decode s = DOk p data).
  { unfold Addr.from_blech32 in F. destruct (last_index sep s); [|discriminate]. destruct (_ <=? 1)%nat; [discriminate|].
    destruct (decode s) as [h data| |]; try discriminate. destruct data as [|v' rest]; [discriminate|].
    destruct (16 <? n8 v'); [discriminate|]. destruct (convert_bits rest 5 8 false); [|discriminate].
    destruct (_ || _)%bool; [discriminate|]. destruct (_ && _)%bool; [discriminate|].
    injection F as <- _ _ _. eexists; reflexivity. }
  destruct D as [data D].
  assert (Low : map to_lower s = s).
  { destruct (accepted_single_case s p data D) as [L|U]; [exact L|]. exfalso.
    apply (hrp_not_upper n Hn). rewrite <- Hh, <- (segwit_prefix_map to_upper s sep_upper), U. reflexivity. }
  destruct (accepted_shape s p data D) as (syms & cs & TC & Sh & _ & _). rewrite Low in Sh.
  assert (NS : Forall (fun c => beqb c sep = false) cs) by (apply to_chars_facts in TC; tauto).
  assert (Ep : p = n_blech32 n) by (rewrite <- Hh, Sh; symmetry; apply segwit_prefix_canon; exact NS).
  split; [exact Ep|]. rewrite <- Ep. rewrite Low in R. exact R.
Qed.

(* ------------------------------------------------------------------ *)
(* a confidential base58 address is recognised only if its inner address  *)
(* prefix belongs to the network of its outer (confidential) prefix        *)
(* ------------------------------------------------------------------ *)
Lemma segwit_type_not_conf58 a b c v p t : decode_segwit_type a b c v p = Ok t ->
  t = a \/ t = b \/ t = c.
Proof.
  unfold decode_segwit_type. destruct (n8 v =? 0).
  - destruct (lenb p 20); [intro H; inversion H; tauto|]. destruct (lenb p 32); [intro H; inversion H; tauto | discriminate].
  - destruct (n8 v =? 1); [intro H; inversion H; tauto | discriminate].
Qed.

Theorem conf_base58_inner_prefix
  (b58dec : bytes -> option (bytes * byte)) (bech_dec : bytes -> option (bytes * bytes * bool))
  (bcb : bytes -> N -> N -> bool -> option bytes) s t :
  decode_type b58dec bech_dec bcb s = Ok t -> t = ConfidentialP2Pkh \/ t = ConfidentialP2Sh ->
  exists n p rest, network_for_address b58dec s = Ok n /\ In n nets /\
    b58dec s = Some (p :: rest, n_conf n) /\ length (p :: rest) = 54%nat /\
    ((p = n_pkh n /\ t = ConfidentialP2Pkh) \/ (p = n_sh n /\ t = ConfidentialP2Sh)).
Proof.
  intros D T. unfold decode_type in D.
  destruct (network_for_address b58dec s) as [n| |] eqn:NW; try discriminate.
  destruct (attribution_exclusive b58dec s n NW) as [In_n _].
  destruct (is_hrp s (n_blech32 n)).
  { unfold decode_blech32 in D. destruct (from_blech32 s) as [[[[? v] ?] p]| |]; try discriminate.
    apply segwit_type_not_conf58 in D. exfalso.
    destruct T as [-> | ->]; destruct D as [D|[D|D]]; vm_compute in D; discriminate D. }
  destruct (is_hrp s (n_bech32 n)).
  { unfold decode_bech32 in D. destruct (from_bech32 bech_dec bcb s) as [[[? v] p]| |]; try discriminate.
    apply segwit_type_not_conf58 in D. exfalso.
    destruct T as [-> | ->]; destruct D as [D|[D|D]]; vm_compute in D; discriminate D. }
  unfold decode_base58 in D. destruct (b58dec s) as [[d id]|] eqn:B; [|discriminate].
  destruct (beqb id (n_conf n)) eqn:Ec.
  - apply beqb_eq in Ec. subst id.
    destruct (Nat.ltb_spec (length d) 34) as [|L34]; [discriminate|].
    destruct (lenb (skipn 34 d) 20) eqn:L20; [|discriminate].
    destruct d as [|p rest]; [discriminate|].
    exists n, p, rest. split; [reflexivity|]. split; [exact In_n|]. split; [reflexivity|]. split.
    + unfold lenb in L20. apply Nat.eqb_eq in L20. rewrite skipn_length in L20. lia.
    + unfold pick_type in D. destruct (beqb p (n_pkh n)) eqn:E1, (beqb p (n_sh n)) eqn:E2; cbn [andb] in D; try discriminate;
        inversion D; subst t; [left | right]; (split; [apply beqb_eq; assumption | reflexivity]).
  - exfalso. destruct (lenb d 20); [|discriminate]. unfold pick_type in D.
    destruct (beqb id (n_pkh n)), (beqb id (n_sh n)); cbn [andb] in D; try discriminate; inversion D; subst t;
      destruct T as [T|T]; vm_compute in T; discriminate T.
Qed.
