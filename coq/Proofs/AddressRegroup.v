(* Proofs/AddressRegroup.v — the regrouping premises of the C14 blech32 theorems are theorems
   (Proofs/Regroup.v), so the premises can be dropped. *)
From GE Require Import Lib.Bytes Model.Blech32 Proofs.Blech32 Proofs.Regroup Model.Address Proofs.Address.
Import B32 Addr.
Open Scope N_scope.

Theorem regroup_law_holds : regroup_law.
Proof. exact regroup_roundtrip. Qed.

Theorem regroup_back_law_holds : regroup_back_law.
Proof. exact regroup_back. Qed.

(* ------------------------------------------------------------------ *)
(* network attribution is exclusive for EVERY string (fix 233bf85: the   *)
(* whole human-readable part is compared)                               *)
(* ------------------------------------------------------------------ *)
Lemma hrps_exclusive h n n' : In n nets -> In n' nets -> In h (hrps n) -> In h (hrps n') -> n = n'.
Proof.
  intros H H' I I'.
  apply in_nets in H as [-> | [-> | ->]]; apply in_nets in H' as [-> | [-> | ->]]; try reflexivity; exfalso;
    cbn in I, I'; repeat (destruct I as [I|I]; [subst h|]); try contradiction;
    repeat (destruct I' as [I'|I']; [vm_compute in I'; discriminate I'|]); contradiction.
Qed.

Theorem attribution_exclusive (b58dec : bytes -> option (bytes * byte)) s n :
  network_for_address b58dec s = Ok n ->
  In n nets /\
  ((In (segwit_prefix s) (hrps n) /\ forall n', In n' nets -> In (segwit_prefix s) (hrps n') -> n' = n) \/
   (net_by_hrp s = None /\ exists d v, b58dec s = Some (d, v) /\ In v (versions n) /\
      forall n', In n' nets -> In v (versions n') -> n' = n)).
Proof.
  unfold network_for_address. destruct (net_by_hrp s) as [m|] eqn:E.
  - intro H; inversion H; subst m. unfold net_by_hrp in E. apply find_some in E as [I B]. split; [exact I|]. left.
    assert (Ih : In (segwit_prefix s) (hrps n)).
    { unfold is_hrp in B. apply orb_true_iff in B as [B|B]; apply bytes_eqb_eq in B; rewrite B; cbn; tauto. }
    split; [exact Ih|]. intros n' I' Ih'. symmetry. eapply hrps_exclusive; eassumption.
  - destruct (b58dec s) as [[d v]|] eqn:D; [|discriminate].
    destruct (net_by_version v) as [m|] eqn:V; [|discriminate]. intro H; inversion H; subst m.
    unfold net_by_version in V. apply find_some in V as [I B]. split; [exact I|]. right. split; [reflexivity|].
    exists d, v. split; [reflexivity|].
    assert (Iv : In v (versions n)).
    { apply orb_true_iff in B as [B|B]; [apply orb_true_iff in B as [B|B]|]; apply beqb_eq in B; rewrite B; cbn; tauto. }
    split; [exact Iv|]. intros n' I' Iv'. symmetry. eapply version_bytes_disjoint; eassumption.
Qed.

(* ------------------------------------------------------------------ *)
(* a recognised confidential segwit string IS the canonical encoding of   *)
(* (its network, version, blinding key, program)                          *)
(* ------------------------------------------------------------------ *)
Lemma accepted_single_case s hrp data : decode s = DOk hrp data -> map to_lower s = s \/ map to_upper s = s.
Proof.
  unfold decode. rewrite decode_generic_unfold.
  destruct (len_bad s); [discriminate|]. destruct (negb (forallb char_ok s)); [discriminate|].
  destruct (case_bad s) eqn:C; [discriminate|]. intros _. unfold case_bad in C.
  apply andb_false_iff in C as [C|C]; apply negb_false_iff, bytes_eqb_eq in C; [left | right]; symmetry; exact C.
Qed.

Lemma hrp_not_upper n : In n nets -> map to_upper (n_blech32 n) <> n_blech32 n.
Proof. intro H. apply in_nets in H as [-> | [-> | ->]]; vm_compute; discriminate. Qed.

Lemma segwit_prefix_map (f : byte -> byte) s : (forall x, beqb (f x) sep = beqb x sep) ->
  segwit_prefix (map f s) = map f (segwit_prefix s).
Proof.
  intro Hf. unfold segwit_prefix.
  assert (L : last_index sep (map f s) = last_index sep s).
  { unfold last_index. generalize O (@None nat). induction s as [|x s IH]; intros i acc; cbn [map last_index_from]; [reflexivity|].
    rewrite Hf. apply IH. }
  rewrite L. destruct (last_index sep s); [apply firstn_map | reflexivity].
Qed.

Lemma sep_upper x : beqb (to_upper x) sep = beqb x sep.
Proof. destruct x; reflexivity. Qed.

Theorem blech32_recognised_canonical s n p v k pr : In n nets ->
  is_hrp s (n_blech32 n) = true -> from_blech32 s = Ok (p, v, k, pr) ->
  p = n_blech32 n /\ to_blech32 (n_blech32 n) v k pr = Ok s.
Proof.
  intros Hn Hh F. pose proof (blech32_recognised_reencodes s p v k pr regroup_back_law_holds F) as R.
  unfold is_hrp in Hh. apply bytes_eqb_eq in Hh.
  assert (D : exists data, decode s = DOk p data).
  { unfold Addr.from_blech32 in F. destruct (last_index sep s); [|discriminate]. destruct (_ <=? 1)%nat; [discriminate|].
    destruct (decode s) as [h data| |]; try discriminate. destruct data as [|v' rest]; [discriminate|].
    destruct (16 <? n8 v'); [discriminate|]. destruct (convert_bits rest 5 8 false); [|discriminate].
    destruct (_ || _)%bool; [discriminate|]. destruct (_ && _)%bool; [discriminate|].
    injection F as <- _ _ _. eexists; reflexivity. }
  destruct D as [data D].
  assert (Low : map to_lower s = s).
  { destruct (accepted_single_case s p data D) as [L|U]; [exact L|]. exfalso.
    apply (hrp_not_upper n Hn). rewrite <- Hh, <- (segwit_prefix_map to_upper s sep_upper), U. reflexivity. }
  destruct (accepted_shape s p data D) as (syms & cs & TC & Sh & _ & _). rewrite Low in Sh.
  assert (NS : Forall (fun c => beqb c sep = false) cs) by (apply to_chars_facts in TC; tauto).
  assert (Ep : p = n_blech32 n) by (rewrite <- Hh, Sh; symmetry; apply segwit_prefix_canon; exact NS).
  split; [exact Ep|]. rewrite <- Ep. rewrite Low in R. exact R.
Qed.
