(* Proofs/TxCodec.v — round-trip lemmas for the transaction wire format (C01). *)
From GE Require Import Lib.Bytes Lib.Varint Model.Tx.
From Coq Require Import ZifyBool ZifyN ZifyNat.
Open Scope N_scope.

Ltac btrue :=
  repeat match goal with
  | H : _ && _ = true |- _ => apply andb_true_iff in H; destruct H
  end.

Lemma nat_eqb_true a b : (a =? b)%nat = true -> a = b.
Proof. apply Nat.eqb_eq. Qed.

(* ---------- confidential field prefixes ---------- *)
Lemma p_value_app x r : is_value x = true -> p_value (x ++ r) = Some (x, r).
Proof.
  destruct x as [|v x]; [discriminate|]. cbn [is_value app p_value].
  destruct (n8 v =? 0).
  { intro H. apply nat_eqb_true in H. destruct x; [reflexivity|discriminate]. }
  destruct (n8 v =? 1).
  { intro H. apply nat_eqb_true in H. rewrite (take_app_n 8) by exact H. reflexivity. }
  destruct ((n8 v =? 8) || (n8 v =? 9)); [|discriminate].
  intro H. apply nat_eqb_true in H. rewrite (take_app_n 32) by exact H. reflexivity.
Qed.

Lemma p_value_inv bs x r : p_value bs = Some (x, r) -> bs = x ++ r /\ is_value x = true.
Proof.
  destruct bs as [|v bs]; [discriminate|]. cbn [p_value is_value].
  destruct (n8 v =? 0) eqn:E0.
  { intro H; inversion H; subst. cbn. rewrite E0. auto. }
  destruct (n8 v =? 1) eqn:E1.
  { destruct (take 8 bs) as [[y r']|] eqn:T; [|discriminate]. intro H; inversion H; subst.
    apply take_inv in T as [-> L]. cbn [is_value app]. rewrite E0, E1, L. auto. }
  destruct ((n8 v =? 8) || (n8 v =? 9)) eqn:E8; [|discriminate].
  destruct (take 32 bs) as [[y r']|] eqn:T; [|discriminate]. intro H; inversion H; subst.
  apply take_inv in T as [-> L]. cbn [is_value app]. rewrite E0, E1, E8, L. auto.
Qed.

Lemma p_asset_app x r : is_asset x = true -> p_asset (x ++ r) = Some (x, r).
Proof.
  destruct x as [|v x]; [discriminate|]. cbn [is_asset app p_asset].
  intro H. btrue. rewrite H. apply nat_eqb_true in H0. rewrite (take_app_n 32) by exact H0. reflexivity.
Qed.

Lemma p_asset_inv bs x r : p_asset bs = Some (x, r) -> bs = x ++ r /\ is_asset x = true.
Proof.
  destruct bs as [|v bs]; [discriminate|]. cbn [p_asset].
  destruct ((n8 v =? 1) || (n8 v =? 10) || (n8 v =? 11)) eqn:E; [|discriminate].
  destruct (take 32 bs) as [[y r']|] eqn:T; [|discriminate]. intro H; inversion H; subst.
  apply take_inv in T as [-> L]. cbn [is_asset app]. rewrite E, L. auto.
Qed.

Lemma p_nonce_app x r : is_nonce x = true -> p_nonce (x ++ r) = Some (x, r).
Proof.
  destruct x as [|v x]; [discriminate|]. cbn [is_nonce app p_nonce].
  destruct ((1 <=? n8 v) && (n8 v <=? 3)).
  - intro H. apply nat_eqb_true in H. rewrite (take_app_n 32) by exact H. reflexivity.
  - intro H. apply nat_eqb_true in H. destruct x; [reflexivity|discriminate].
Qed.

Lemma p_nonce_inv bs x r : p_nonce bs = Some (x, r) -> bs = x ++ r /\ is_nonce x = true.
Proof.
  destruct bs as [|v bs]; [discriminate|]. cbn [p_nonce].
  destruct ((1 <=? n8 v) && (n8 v <=? 3)) eqn:E.
  - destruct (take 32 bs) as [[y r']|] eqn:T; [|discriminate]. intro H; inversion H; subst.
    apply take_inv in T as [-> L]. cbn [is_nonce app]. rewrite E, L. auto.
  - intro H; inversion H; subst. cbn [is_nonce app]. rewrite E. auto.
Qed.

Lemma is_value_nonempty x : is_value x = true -> x <> [].
Proof. destruct x; [discriminate|discriminate]. Qed.
Lemma is_asset_nonempty x : is_asset x = true -> x <> [].
Proof. destruct x; [discriminate|discriminate]. Qed.

(* ---------- outpoint index flag bits ---------- *)
Lemma testbit_small a n : a < 2 ^ n -> N.testbit a n = false.
Proof.
  intro H. destruct (N.eq_dec a 0) as [->|Hz]; [apply N.bits_0|].
  apply N.bits_above_log2. apply N.log2_lt_pow2; lia.
Qed.

Lemma testbit_small_le a n m : a < 2 ^ n -> n <= m -> N.testbit a m = false.
Proof.
  intros H L. apply testbit_small. eapply N.lt_le_trans; [exact H|]. apply N.pow_le_mono_r; lia.
Qed.

Definition flag_of (b : bool) (f : N) : N := if b then f else 0.

Lemma raw_index_alt i :
  raw_index i = N.lor (N.lor (in_index i) (flag_of (match in_iss i with Some _ => true | None => false end) OutpointIssuanceFlag))
                      (flag_of (in_pegin i) OutpointPeginFlag).
Proof.
  unfold raw_index, flag_of. destruct (in_iss i), (in_pegin i); rewrite ?N.lor_0_r; reflexivity.
Qed.

Lemma mask_bits n : N.testbit OutpointIndexMask n = (n <? 30).
Proof.
  change OutpointIndexMask with (N.ones 30).
  destruct (N.ltb_spec n 30); [apply N.ones_spec_low; lia | apply N.ones_spec_high; lia].
Qed.
Lemma issflag_bits n : N.testbit OutpointIssuanceFlag n = (n =? 31).
Proof. change OutpointIssuanceFlag with (2 ^ 31). rewrite N.pow2_bits_eqb. apply N.eqb_sym. Qed.
Lemma pegflag_bits n : N.testbit OutpointPeginFlag n = (n =? 30).
Proof. change OutpointPeginFlag with (2 ^ 30). rewrite N.pow2_bits_eqb. apply N.eqb_sym. Qed.

Lemma flag_of_bits b f n : N.testbit (flag_of b f) n = b && N.testbit f n.
Proof. destruct b; cbn [flag_of andb]; [reflexivity | apply N.bits_0]. Qed.

Section Flags.
  Variables (idx : N) (bi bp : bool).
  Hypothesis Hidx : idx <= OutpointIndexMask.
  Let raw := N.lor (N.lor idx (flag_of bi OutpointIssuanceFlag)) (flag_of bp OutpointPeginFlag).

  Lemma idx_bits_high n : 30 <= n -> N.testbit idx n = false.
  Proof. intro H. apply (testbit_small_le idx 30); [unfold OutpointIndexMask in Hidx; lia | exact H]. Qed.

  Lemma raw_bits n : N.testbit raw n = N.testbit idx n || (bi && (n =? 31)) || (bp && (n =? 30)).
  Proof. unfold raw. rewrite !N.lor_spec, !flag_of_bits, issflag_bits, pegflag_bits. reflexivity. Qed.

  Lemma raw_bit31 : N.testbit raw 31 = bi.
  Proof. rewrite raw_bits, idx_bits_high by lia. cbn. destruct bi, bp; reflexivity. Qed.
  Lemma raw_bit30 : N.testbit raw 30 = bp.
  Proof. rewrite raw_bits, idx_bits_high by lia. cbn. destruct bi, bp; reflexivity. Qed.

  Lemma raw_mask : N.land raw OutpointIndexMask = idx.
  Proof.
    apply N.bits_inj. intro n. rewrite N.land_spec, raw_bits, mask_bits.
    destruct (N.ltb_spec n 30) as [L|L].
    - destruct (N.eqb_spec n 31); [lia|]. destruct (N.eqb_spec n 30); [lia|].
      rewrite !andb_false_r, !orb_false_r, andb_true_r. reflexivity.
    - rewrite andb_false_r. symmetry. apply idx_bits_high; exact L.
  Qed.

  Lemma raw_lt : raw < two32.
  Proof.
    destruct (N.eq_dec raw 0) as [E|E]; [rewrite E; reflexivity|].
    change two32 with (2 ^ 32). apply N.log2_lt_pow2; [lia|].
    destruct (N.lt_ge_cases (N.log2 raw) 32) as [L|L]; [exact L|].
    exfalso. assert (B : N.testbit raw (N.log2 raw) = true) by (apply N.bit_log2; exact E).
    rewrite raw_bits, idx_bits_high in B by lia.
    destruct (N.eqb_spec (N.log2 raw) 31); [lia|]. destruct (N.eqb_spec (N.log2 raw) 30); [lia|].
    rewrite !andb_false_r in B. discriminate.
  Qed.

  Lemma raw_minus_one : raw = MinusOne -> idx = OutpointIndexMask /\ bi = true /\ bp = true.
  Proof.
    intro E. split; [|split].
    - rewrite <- raw_mask, E. reflexivity.
    - rewrite <- raw_bit31, E. reflexivity.
    - rewrite <- raw_bit30, E. reflexivity.
  Qed.
End Flags.

(* raw 32-bit index -> fields -> raw *)
Lemma raw_rebuild w : w < two32 ->
  N.lor (N.lor (N.land w OutpointIndexMask) (flag_of (N.testbit w 31) OutpointIssuanceFlag))
        (flag_of (N.testbit w 30) OutpointPeginFlag) = w.
Proof.
  intro H. apply N.bits_inj. intro n.
  rewrite !N.lor_spec, N.land_spec, !flag_of_bits, mask_bits, issflag_bits, pegflag_bits.
  destruct (N.ltb_spec n 30) as [L|L].
  - destruct (N.eqb_spec n 31); [lia|]. destruct (N.eqb_spec n 30); [lia|].
    rewrite !andb_false_r, !orb_false_r, andb_true_r. reflexivity.
  - rewrite andb_false_r. cbn [orb].
    destruct (N.eqb_spec n 31) as [->|N31].
    + destruct (N.eqb_spec 31 30); [lia|]. rewrite andb_true_r, andb_false_r, orb_false_r. reflexivity.
    + destruct (N.eqb_spec n 30) as [->|N30].
      * rewrite andb_false_r, andb_true_r. reflexivity.
      * rewrite !andb_false_r. symmetry. apply (testbit_small_le w 32); [exact H | lia].
Qed.

Lemma land_mask_le w : N.land w OutpointIndexMask <= OutpointIndexMask.
Proof.
  change OutpointIndexMask with (N.ones 30). rewrite N.land_ones.
  assert (w mod 2 ^ 30 < 2 ^ 30) by (apply N.mod_lt; lia). rewrite N.ones_equiv. lia.
Qed.

(* ---------- inputs ---------- *)
Definition strip_in (i : txin) : txin :=
  mk_in (in_hash i) (in_index i) (in_seq i) (in_script i) [] (in_pegin i) [] (in_iss i) [] [].

Lemma p_issuance_app s r : wf_iss s = true -> p_issuance (ser_iss s ++ r) = Some (s, r).
Proof.
  intro H. unfold wf_iss in H. rewrite !andb_true_iff in H. destruct H as [[[A B] C] D].
  apply nat_eqb_true in A, B.
  unfold p_issuance, ser_iss, bind. rewrite <- !app_assoc.
  rewrite (take_app_n 32) by exact A. rewrite (take_app_n 32) by exact B.
  rewrite p_value_app by exact C. rewrite p_value_app by exact D.
  destruct s; reflexivity.
Qed.

Lemma p_issuance_inv bs s r : p_issuance bs = Some (s, r) -> bs = ser_iss s ++ r /\ wf_iss s = true.
Proof.
  unfold p_issuance, bind.
  destruct (take 32 bs) as [[a r1]|] eqn:A; [|discriminate].
  destruct (take 32 r1) as [[b r2]|] eqn:B; [|discriminate].
  destruct (p_value r2) as [[c r3]|] eqn:C; [|discriminate].
  destruct (p_value r3) as [[d r4]|] eqn:D; [|discriminate].
  intro H; inversion H; subst.
  apply take_inv in A as [-> La]. apply take_inv in B as [-> Lb].
  apply p_value_inv in C as [-> Vc]. apply p_value_inv in D as [-> Vd].
  unfold ser_iss, wf_iss; cbn. rewrite <- !app_assoc, La, Lb, Vc, Vd. auto.
Qed.

Lemma wf_in_parts i : wf_in i = true ->
  length (in_hash i) = 32%nat /\ in_seq i < two32 /\ lenN (in_script i) < two64 /\
  (if in_index i =? MinusOne
   then negb (in_pegin i) && match in_iss i with None => true | Some _ => false end
   else (in_index i <=? OutpointIndexMask) &&
        negb ((in_index i =? OutpointIndexMask) && in_pegin i && match in_iss i with Some _ => true | None => false end) &&
        match in_iss i with Some s => wf_iss s | None => true end) = true /\
  lenN (in_irp i) < two64 /\ lenN (in_inrp i) < two64 /\ wf_vec (in_witness i) = true /\ wf_vec (in_pegwit i) = true.
Proof.
  unfold wf_in, wf_slice. intro H. rewrite !andb_true_iff in H.
  destruct H as [[[[[[[A B] C] D] E] F] G] I]. apply nat_eqb_true in A.
  repeat split; try assumption; lia.
Qed.

Lemma p_in_app i r : wf_in i = true -> p_in (ser_in i ++ r) = Some (strip_in i, r).
Proof.
  intro H. apply wf_in_parts in H as (Hh & Hq & Hs & Hc & _).
  unfold p_in, ser_in, bind. rewrite <- !app_assoc.
  rewrite (take_app_n 32) by exact Hh.
  destruct (N.eqb_spec (in_index i) MinusOne) as [E|E].
  - apply andb_true_iff in Hc as [Hc1 Hc2].
    destruct (in_iss i) eqn:EI; [discriminate|]. destruct (in_pegin i) eqn:EP; [discriminate|].
    assert (R : raw_index i = MinusOne) by (unfold raw_index; rewrite EI, EP; exact E).
    rewrite R. rewrite p_le_app by reflexivity.
    rewrite p_var_slice_app by lia. rewrite p_le_app by (cbn; unfold two32 in *; lia).
    cbn [N.eqb MinusOne Pos.eqb]. unfold ret, strip_in. cbn [app]. rewrite EI, EP, E. reflexivity.
  - rewrite !andb_true_iff in Hc. destruct Hc as [[Hc1 Hc2] Hc3]. apply negb_true_iff in Hc2.
    assert (Hidx : in_index i <= OutpointIndexMask) by lia.
    rewrite raw_index_alt.
    set (bi := match in_iss i with Some _ => true | None => false end) in *.
    pose proof (raw_lt (in_index i) bi (in_pegin i) Hidx) as RL.
    rewrite p_le_app by (cbn; unfold two32 in RL; lia).
    rewrite p_var_slice_app by lia. rewrite p_le_app by (cbn; unfold two32 in *; lia).
    destruct (N.eqb_spec (N.lor (N.lor (in_index i) (flag_of bi OutpointIssuanceFlag)) (flag_of (in_pegin i) OutpointPeginFlag)) MinusOne) as [EM|EM].
    { apply raw_minus_one in EM as [A [B C]]; [|exact Hidx]. rewrite A, B, C in Hc2.
      cbn in Hc2. discriminate. }
    rewrite raw_bit31, raw_bit30, raw_mask by exact Hidx.
    unfold bi. destruct (in_iss i) as [s|] eqn:EI.
    + rewrite p_issuance_app by exact Hc3. unfold ret, strip_in. rewrite EI. reflexivity.
    + unfold ret, strip_in. rewrite EI. reflexivity.
Qed.

Ltac proj_in := cbn [in_hash in_index in_seq in_script in_witness in_pegin in_pegwit in_iss in_irp in_inrp].

Definition wf_in_parsed (i : txin) : Prop := wf_in i = true /\ strip_in i = i.

Lemma strip_in_wf i : wf_in i = true -> wf_in (strip_in i) = true.
Proof.
  unfold wf_in, strip_in; cbn. intro H. rewrite !andb_true_iff in H.
  destruct H as [[[[[[[A B] C] D] E] F] G] I]. rewrite A, B, C, D. reflexivity.
Qed.

Lemma ser_in_strip i : ser_in (strip_in i) = ser_in i.
Proof. reflexivity. Qed.

Lemma p_in_inv bs i r : p_in bs = Some (i, r) -> bs = ser_in i ++ r /\ wf_in_parsed i.
Proof.
  unfold p_in, bind.
  destruct (take 32 bs) as [[h r1]|] eqn:A; [|discriminate].
  destruct (p_le 4 r1) as [[w r2]|] eqn:B; [|discriminate].
  destruct (p_var_slice r2) as [[scr r3]|] eqn:C; [|discriminate].
  destruct (p_le 4 r3) as [[sq r4]|] eqn:D; [|discriminate].
  apply take_inv in A as [-> Lh]. apply p_le_inv in B as [-> Hw].
  apply p_var_slice_inv in C as [-> Hs]. apply p_le_inv in D as [-> Hq].
  change (256 ^ N.of_nat 4) with two32 in *.
  destruct (N.eqb_spec w MinusOne) as [E|E].
  - unfold ret. intro H; inversion H; subst. split.
    + unfold ser_in, raw_index. proj_in. rewrite <- !app_assoc. reflexivity.
    + split; [|reflexivity]. unfold wf_in, wf_slice, wf_vec. proj_in. rewrite Lh.
      destruct (N.ltb_spec sq two32); [|lia]. destruct (N.ltb_spec (lenN scr) two64); [|lia]. reflexivity.
  - destruct (N.testbit w 31) eqn:B31.
    + destruct (p_issuance r4) as [[s r5]|] eqn:PI; [|discriminate].
      apply p_issuance_inv in PI as [-> Ws].
      unfold ret. intro H; inversion H; subst.
      split.
      * unfold ser_in. rewrite raw_index_alt. cbn [in_hash in_index in_iss in_pegin in_script in_seq].
        rewrite <- B31 at 1. rewrite raw_rebuild by exact Hw. rewrite <- !app_assoc. reflexivity.
      * split; [|reflexivity]. unfold wf_in, wf_slice, wf_vec; proj_in.
        rewrite Lh, Ws.
        pose proof (land_mask_le w) as LM.
        destruct (N.ltb_spec sq two32); [|lia]. destruct (N.ltb_spec (lenN scr) two64); [|lia]. cbn.
        destruct (N.eqb_spec (N.land w OutpointIndexMask) MinusOne) as [X|X]; [unfold MinusOne, OutpointIndexMask in *; lia|].
        destruct (N.leb_spec (N.land w OutpointIndexMask) OutpointIndexMask); [|lia]. cbn.
        destruct (N.eqb_spec (N.land w OutpointIndexMask) OutpointIndexMask) as [Y|Y]; [|reflexivity].
        destruct (N.testbit w 30) eqn:B30; [|reflexivity]. exfalso. apply E.
        rewrite <- (raw_rebuild w Hw), Y, B31, B30. reflexivity.
    + unfold ret. intro H; inversion H; subst.
      split.
      * unfold ser_in. rewrite raw_index_alt. cbn [in_hash in_index in_iss in_pegin in_script in_seq].
        rewrite <- B31 at 1. rewrite raw_rebuild by exact Hw. rewrite <- !app_assoc. reflexivity.
      * split; [|reflexivity]. unfold wf_in, wf_slice, wf_vec; proj_in. rewrite Lh.
        pose proof (land_mask_le w) as LM.
        destruct (N.ltb_spec sq two32); [|lia]. destruct (N.ltb_spec (lenN scr) two64); [|lia]. cbn.
        destruct (N.eqb_spec (N.land w OutpointIndexMask) MinusOne) as [X|X]; [unfold MinusOne, OutpointIndexMask in *; lia|].
        destruct (N.leb_spec (N.land w OutpointIndexMask) OutpointIndexMask); [|lia].
        rewrite !andb_false_r. reflexivity.
Qed.

Lemma ser_in_nonempty i : wf_in i = true -> ser_in i <> [].
Proof.
  intro H. apply wf_in_parts in H as (Hh & _). unfold ser_in.
  destruct (in_hash i); [discriminate Hh | discriminate].
Qed.

(* ---------- outputs ---------- *)
Definition strip_out (o : txout) : txout :=
  mk_out (o_asset o) (o_value o) (o_script o) (o_nonce o) [] [].

Lemma wf_out_parts o : wf_out o = true ->
  is_asset (o_asset o) = true /\ is_value (o_value o) = true /\ is_nonce (o_nonce o) = true /\
  lenN (o_script o) < two64 /\ lenN (o_rp o) < two64 /\ lenN (o_sp o) < two64.
Proof.
  unfold wf_out, wf_slice. intro H. rewrite !andb_true_iff in H.
  destruct H as [[[[[A B] C] D] E] F]. repeat split; try assumption; lia.
Qed.

Lemma p_out_app o r : wf_out o = true -> p_out (ser_out false false o ++ r) = Some (strip_out o, r).
Proof.
  intro H. apply wf_out_parts in H as (Ha & Hv & Hn & Hs & _).
  unfold p_out, ser_out, bind. cbn [app]. rewrite <- !app_assoc.
  rewrite p_asset_app by exact Ha. rewrite p_value_app by exact Hv. rewrite p_nonce_app by exact Hn.
  rewrite p_var_slice_app by lia. reflexivity.
Qed.

Lemma p_out_inv bs o r : p_out bs = Some (o, r) ->
  bs = ser_out false false o ++ r /\ wf_out o = true /\ strip_out o = o.
Proof.
  unfold p_out, bind.
  destruct (p_asset bs) as [[a r1]|] eqn:A; [|discriminate].
  destruct (p_value r1) as [[v r2]|] eqn:B; [|discriminate].
  destruct (p_nonce r2) as [[n r3]|] eqn:C; [|discriminate].
  destruct (p_var_slice r3) as [[s r4]|] eqn:D; [|discriminate].
  unfold ret. intro H; inversion H; subst.
  apply p_asset_inv in A as [-> Wa]. apply p_value_inv in B as [-> Wv].
  apply p_nonce_inv in C as [-> Wn]. apply p_var_slice_inv in D as [-> Ws].
  unfold ser_out, wf_out, wf_slice; cbn [o_asset o_value o_script o_nonce o_rp o_sp]. rewrite <- !app_assoc, Wa, Wv, Wn.
  split; [reflexivity|]. split; [|reflexivity]. cbn [andb].
  destruct (N.ltb_spec (lenN s) two64); [reflexivity|lia].
Qed.

Lemma ser_out_nonempty a b o : wf_out o = true -> ser_out a b o <> [].
Proof.
  intro H. apply wf_out_parts in H as (Ha & _). unfold ser_out.
  destruct (o_asset o); [discriminate Ha | discriminate].
Qed.

(* ---------- witness sections ---------- *)
Definition in_wit_of (i : txin) : in_wit := mk_inw (in_irp i) (in_inrp i) (in_witness i) (in_pegwit i).
Definition out_wit_of (o : txout) : bytes * bytes := (o_sp o, o_rp o).

Lemma wf_vec_prop v : wf_vec v = true -> wf_vector v.
Proof.
  unfold wf_vec, wf_vector, wf_slice. intro H. btrue. split; [lia|].
  rewrite forallb_forall in H0. apply Forall_forall. intros x Hx. apply H0 in Hx. lia.
Qed.

Lemma wf_vector_bool v : wf_vector v -> wf_vec v = true.
Proof.
  unfold wf_vec, wf_vector, wf_slice. intros [A B]. apply andb_true_iff; split; [lia|].
  apply forallb_forall. intros x Hx. rewrite Forall_forall in B. apply B in Hx. lia.
Qed.

Lemma p_in_wit_app i r : wf_in i = true -> p_in_wit (ser_in_wit i ++ r) = Some (in_wit_of i, r).
Proof.
  intro H. apply wf_in_parts in H as (_ & _ & _ & _ & H1 & H2 & H3 & H4).
  unfold p_in_wit, ser_in_wit, bind. rewrite <- !app_assoc.
  rewrite p_var_slice_app by lia. rewrite p_var_slice_app by lia.
  rewrite p_vector_app by (apply wf_vec_prop; assumption).
  rewrite p_vector_app by (apply wf_vec_prop; assumption). reflexivity.
Qed.

Definition enc_in_wit (w : in_wit) : bytes :=
  var_slice (w_irp w) ++ var_slice (w_inrp w) ++ vector (w_wit w) ++ vector (w_peg w).
Definition wf_in_wit (w : in_wit) : Prop :=
  lenN (w_irp w) < two64 /\ lenN (w_inrp w) < two64 /\ wf_vector (w_wit w) /\ wf_vector (w_peg w).

Lemma p_in_wit_inv bs w r : p_in_wit bs = Some (w, r) -> bs = enc_in_wit w ++ r /\ wf_in_wit w.
Proof.
  unfold p_in_wit, bind.
  destruct (p_var_slice bs) as [[a r1]|] eqn:A; [|discriminate].
  destruct (p_var_slice r1) as [[b r2]|] eqn:B; [|discriminate].
  destruct (p_vector r2) as [[c r3]|] eqn:C; [|discriminate].
  destruct (p_vector r3) as [[d r4]|] eqn:D; [|discriminate].
  unfold ret. intro H; inversion H; subst.
  apply p_var_slice_inv in A as [-> Wa]. apply p_var_slice_inv in B as [-> Wb].
  apply p_vector_inv in C as [-> Wc]. apply p_vector_inv in D as [-> Wd].
  unfold enc_in_wit, wf_in_wit; cbn. rewrite <- !app_assoc. auto.
Qed.

Lemma p_out_wit_app o r : wf_out o = true -> p_out_wit (ser_out_wit o ++ r) = Some (out_wit_of o, r).
Proof.
  intro H. apply wf_out_parts in H as (_ & _ & _ & _ & H1 & H2).
  unfold p_out_wit, ser_out_wit, bind. rewrite <- !app_assoc.
  rewrite p_var_slice_app by lia. rewrite p_var_slice_app by lia. reflexivity.
Qed.

Definition enc_out_wit (w : bytes * bytes) : bytes := var_slice (fst w) ++ var_slice (snd w).

Lemma p_out_wit_inv bs w r : p_out_wit bs = Some (w, r) ->
  bs = enc_out_wit w ++ r /\ (lenN (fst w) < two64 /\ lenN (snd w) < two64).
Proof.
  unfold p_out_wit, bind.
  destruct (p_var_slice bs) as [[a r1]|] eqn:A; [|discriminate].
  destruct (p_var_slice r1) as [[b r2]|] eqn:B; [|discriminate].
  unfold ret. intro H; inversion H; subst.
  apply p_var_slice_inv in A as [-> Wa]. apply p_var_slice_inv in B as [-> Wb].
  unfold enc_out_wit; cbn. rewrite <- !app_assoc. auto.
Qed.

Lemma ser_in_wit_nonempty i : ser_in_wit i <> [].
Proof.
  unfold ser_in_wit. pose proof (var_slice_nonempty (in_irp i)).
  destruct (var_slice (in_irp i)); [congruence|discriminate].
Qed.
Lemma ser_out_wit_nonempty o : ser_out_wit o <> [].
Proof.
  unfold ser_out_wit. pose proof (var_slice_nonempty (o_sp o)).
  destruct (var_slice (o_sp o)); [congruence|discriminate].
Qed.

(* ---------- zip lemmas ---------- *)
Lemma zip_in_wit l : Forall (fun i => True) l ->
  zip_with set_in_wit (map strip_in l) (map in_wit_of l) = l.
Proof.
  intros _. induction l as [|i l IH]; [reflexivity|]. cbn [map zip_with]. rewrite IH.
  f_equal. destruct i; reflexivity.
Qed.

Lemma zip_out_wit l : zip_with set_out_wit (map strip_out l) (map out_wit_of l) = l.
Proof.
  induction l as [|o l IH]; [reflexivity|]. cbn [map zip_with]. rewrite IH.
  f_equal. destruct o; reflexivity.
Qed.

Lemma enc_list_map {A B} (e : B -> bytes) (f : A -> B) l : enc_list e (map f l) = enc_list (fun a => e (f a)) l.
Proof. unfold enc_list. rewrite map_map. reflexivity. Qed.

Lemma enc_list_ext {A} (e1 e2 : A -> bytes) l : (forall a, In a l -> e1 a = e2 a) -> enc_list e1 l = enc_list e2 l.
Proof. intro H. unfold enc_list. f_equal. apply map_ext_in. exact H. Qed.

Lemma lenL_map {A B} (f : A -> B) l : lenL (map f l) = lenL l.
Proof. unfold lenL. rewrite map_length. reflexivity. Qed.

(* p_list over encodings produced through a projection *)
Lemma p_list_app_map {A B} (e : A -> bytes) (f : A -> B) (p : parser B) (l : list A) r :
  (forall a, In a l -> forall r, p (e a ++ r) = Some (f a, r)) ->
  (forall a, In a l -> e a <> []) ->
  p_list p (lenL l) (enc_list e l ++ r) = Some (map f l, r).
Proof.
  intros Hp Hne. unfold p_list.
  assert (G : forall fuel r, (length l <= fuel)%nat ->
              p_count p fuel (lenL l) (enc_list e l ++ r) = Some (map f l, r)).
  { clear r Hne. induction l as [|a l IH]; intros fuel r Hf.
    - destruct fuel; reflexivity.
    - cbn [length] in Hf. destruct fuel as [|fu]; [lia|].
      unfold lenL; cbn [length p_count]. destruct (N.eqb_spec (N.of_nat (S (length l))) 0); [lia|].
      unfold enc_list; cbn [map concat]. rewrite <- app_assoc. rewrite Hp by (left; reflexivity).
      replace (N.pred (N.of_nat (S (length l)))) with (lenL l) by (unfold lenL; lia).
      fold (enc_list e l). rewrite IH; [reflexivity | intros; apply Hp; right; assumption | lia]. }
  apply G. rewrite app_length. pose proof (enc_list_length_ge e l Hne). lia.
Qed.

(* ---------- the transaction ---------- *)
Lemma wf_tx_parts t : wf_tx t = true ->
  t_version t < two32 /\ t_locktime t < two32 /\ lenL (t_ins t) < two64 /\ lenL (t_outs t) < two64 /\
  (forall i, In i (t_ins t) -> wf_in i = true) /\ (forall o, In o (t_outs t) -> wf_out o = true).
Proof.
  unfold wf_tx. intro H. rewrite !andb_true_iff in H.
  destruct H as [[[[[A B] C] D] E] F]. rewrite forallb_forall in E, F.
  repeat split; try assumption; lia.
Qed.

Lemma existsb_false {A} (f : A -> bool) l : existsb f l = false -> forall x, In x l -> f x = false.
Proof.
  induction l as [|a l IH]; intros H x Hx; [destruct Hx|]. cbn [existsb] in H.
  apply orb_false_iff in H as [H1 H2]. destruct Hx as [<-|Hx]; [exact H1 | apply IH; assumption].
Qed.

Lemma has_witness_false_no_wit t :
  has_witness t = false ->
  map strip_in (t_ins t) = t_ins t /\ map strip_out (t_outs t) = t_outs t.
Proof.
  intro H. unfold has_witness in H. apply orb_false_iff in H as [H G2]. apply orb_false_iff in H as [_ G1].
  unfold any_witness_input in G1. unfold any_conf_output in G2.
  split.
  - rewrite <- (map_id (t_ins t)) at 2. apply map_ext_in. intros i Hi.
    pose proof (existsb_false _ _ G1 i Hi) as Hi'. cbn beta in Hi'.
    destruct i as [h ix sq sc w pg pw iss irp inrp]; cbn in *.
    destruct w, pw, irp, inrp; try discriminate. reflexivity.
  - rewrite <- (map_id (t_outs t)) at 2. apply map_ext_in. intros o Ho.
    pose proof (existsb_false _ _ G2 o Ho) as Ho'. cbn beta in Ho'.
    destruct o as [a v s n rp sp]; cbn in *. destruct rp, sp; try discriminate. reflexivity.
Qed.

Theorem tx_parse_ser t rest :
  wf_tx t = true -> parse_tx (ser_full t ++ rest) = Some (norm_tx t, rest).
Proof.
  intro W. pose proof W as W0. apply wf_tx_parts in W as (Hv & Hl & Hni & Hno & H1 & H2).
  unfold parse_tx, ser_full, ser_tx, bind. cbn [andb negb]. rewrite <- !app_assoc.
  rewrite p_le_app by (cbn; unfold two32 in *; lia).
  cbn [app].
  assert (FB : forall b : bool, p_u8 ((if b then b8 1 else b8 0) :: varint (lenL (t_ins t)) ++
      enc_list ser_in (t_ins t) ++ varint (lenL (t_outs t)) ++ enc_list (ser_out false false) (t_outs t) ++
      le_enc 4 (t_locktime t) ++ (if b then enc_list ser_in_wit (t_ins t) ++ enc_list ser_out_wit (t_outs t) else []) ++ rest)
      = Some ((if b then 1 else 0), varint (lenL (t_ins t)) ++
      enc_list ser_in (t_ins t) ++ varint (lenL (t_outs t)) ++ enc_list (ser_out false false) (t_outs t) ++
      le_enc 4 (t_locktime t) ++ (if b then enc_list ser_in_wit (t_ins t) ++ enc_list ser_out_wit (t_outs t) else []) ++ rest)).
  { intros [|]; apply p_u8_app; lia. }
  rewrite andb_true_r. rewrite FB.
  rewrite p_varint_app by lia.
  rewrite (p_list_app_map ser_in strip_in p_in);
    [| intros; apply p_in_app; apply H1; assumption | intros; apply ser_in_nonempty; apply H1; assumption].
  rewrite p_varint_app by lia.
  rewrite (p_list_app_map (ser_out false false) strip_out p_out);
    [| intros; apply p_out_app; apply H2; assumption | intros; apply ser_out_nonempty; apply H2; assumption].
  rewrite p_le_app by (cbn; unfold two32 in *; lia).
  destruct (has_witness t) eqn:HW.
  - cbn [N.eqb Pos.eqb]. rewrite <- !app_assoc. rewrite !lenL_map.
    rewrite (p_list_app_map ser_in_wit in_wit_of p_in_wit);
      [| intros; apply p_in_wit_app; apply H1; assumption | intros; apply ser_in_wit_nonempty].
    rewrite (p_list_app_map ser_out_wit out_wit_of p_out_wit);
      [| intros; apply p_out_wit_app; apply H2; assumption | intros; apply ser_out_wit_nonempty].
    unfold ret, norm_tx. rewrite HW. rewrite zip_in_wit by (apply Forall_forall; auto). rewrite zip_out_wit. reflexivity.
  - cbn [N.eqb app]. unfold ret, norm_tx. rewrite HW.
    destruct (has_witness_false_no_wit t HW) as [-> ->]. reflexivity.
Qed.

(* ---------- the converse: accepted bytes re-serialize to themselves ---------- *)
Lemma zip_in_ser ins iw : length ins = length iw ->
  enc_list ser_in (zip_with set_in_wit ins iw) = enc_list ser_in ins /\
  enc_list ser_in_wit (zip_with set_in_wit ins iw) = enc_list enc_in_wit iw /\
  length (zip_with set_in_wit ins iw) = length ins.
Proof.
  revert iw; induction ins as [|i ins IH]; intros [|w iw] L; try discriminate; [repeat split|].
  cbn [length] in L. injection L as L. destruct (IH iw L) as [A [B C]].
  unfold enc_list in *. cbn [zip_with map concat length]. rewrite A, B, C. repeat split.
Qed.

Lemma zip_out_ser outs ow : length outs = length ow ->
  enc_list (ser_out false false) (zip_with set_out_wit outs ow) = enc_list (ser_out false false) outs /\
  enc_list ser_out_wit (zip_with set_out_wit outs ow) = enc_list enc_out_wit ow /\
  length (zip_with set_out_wit outs ow) = length outs.
Proof.
  revert ow; induction outs as [|o outs IH]; intros [|w ow] L; try discriminate; [repeat split|].
  cbn [length] in L. injection L as L. destruct (IH ow L) as [A [B C]].
  unfold enc_list in *. cbn [zip_with map concat length]. rewrite A, B, C. repeat split.
Qed.

Lemma stripped_no_witness ins outs :
  Forall wf_in_parsed ins -> Forall (fun o => wf_out o = true /\ strip_out o = o) outs ->
  forall v f l, has_witness (mk_tx v f l ins outs) = (f =? 1).
Proof.
  intros Hi Ho v f l. unfold has_witness, any_witness_input, any_conf_output. cbn [t_flag t_ins t_outs].
  assert (A : existsb (fun i => nonempty (in_witness i) || nonempty (in_pegwit i) || nonempty (in_irp i) || nonempty (in_inrp i)) ins = false).
  { induction Hi as [|i ins [_ S] _ IH]; [reflexivity|]. cbn [existsb]. rewrite IH, <- S. reflexivity. }
  assert (B : existsb (fun o => nonempty (o_rp o) || nonempty (o_sp o)) outs = false).
  { induction Ho as [|o outs [_ S] _ IH]; [reflexivity|]. cbn [existsb]. rewrite IH, <- S. reflexivity. }
  rewrite A, B, !orb_false_r. reflexivity.
Qed.

Theorem tx_ser_parse bs t rest :
  parse_tx bs = Some (t, rest) -> canonical_flag t = true -> ser_full t ++ rest = bs.
Proof.
  unfold parse_tx, bind.
  destruct (p_le 4 bs) as [[ver r1]|] eqn:P1; [|discriminate].
  destruct (p_u8 r1) as [[flag r2]|] eqn:P2; [|discriminate].
  destruct (p_varint r2) as [[nin r3]|] eqn:P3; [|discriminate].
  destruct (p_list p_in nin r3) as [[ins r4]|] eqn:P4; [|discriminate].
  destruct (p_varint r4) as [[nout r5]|] eqn:P5; [|discriminate].
  destruct (p_list p_out nout r5) as [[outs r6]|] eqn:P6; [|discriminate].
  destruct (p_le 4 r6) as [[lt r7]|] eqn:P7; [|discriminate].
  apply p_le_inv in P1 as [-> Hver]. apply p_u8_inv in P2 as [-> Hflag].
  apply p_varint_inv in P3 as [-> Hnin].
  apply (p_list_inv ser_in p_in wf_in_parsed p_in_inv) in P4 as [-> [Lin Fin]].
  apply p_varint_inv in P5 as [-> Hnout].
  apply (p_list_inv (ser_out false false) p_out (fun o => wf_out o = true /\ strip_out o = o) p_out_inv) in P6 as [-> [Lout Fout]].
  apply p_le_inv in P7 as [-> Hlt].
  destruct (N.eqb_spec flag 1) as [F1|F1].
  - destruct (p_list p_in_wit (lenL ins) r7) as [[iw r8]|] eqn:P8; [|discriminate].
    destruct (p_list p_out_wit (lenL outs) r8) as [[ow r9]|] eqn:P9; [|discriminate].
    apply (p_list_inv enc_in_wit p_in_wit wf_in_wit p_in_wit_inv) in P8 as [-> [Liw _]].
    apply (p_list_inv enc_out_wit p_out_wit _ p_out_wit_inv) in P9 as [-> [Low _]].
    unfold ret. intro H; inversion H; subst. intros _.
    assert (LI : length ins = length iw) by (unfold lenL in Liw; lia).
    assert (LO : length outs = length ow) by (unfold lenL in Low; lia).
    destruct (zip_in_ser ins iw LI) as [A1 [A2 A3]]. destruct (zip_out_ser outs ow LO) as [B1 [B2 B3]].
    unfold ser_full, ser_tx. cbn [t_version t_flag t_locktime t_ins t_outs andb negb].
    assert (HW : has_witness (mk_tx ver 1 lt (zip_with set_in_wit ins iw) (zip_with set_out_wit outs ow)) = true) by reflexivity.
    rewrite HW. cbn [andb]. rewrite A1, A2, B1, B2.
    unfold lenL. rewrite A3, B3. rewrite <- ?app_assoc. cbn [app]. rewrite <- ?app_assoc. reflexivity.
  - unfold ret. intro H; inversion H; subst. unfold canonical_flag. cbn [t_flag]. intro CF.
    destruct (N.eqb_spec flag 0) as [F0|F0]; [|destruct (N.eqb_spec flag 1); [lia|discriminate]].
    subst flag. unfold ser_full, ser_tx. cbn [t_version t_flag t_locktime t_ins t_outs andb negb].
    rewrite (stripped_no_witness ins outs Fin Fout). cbn [N.eqb andb app].
    rewrite <- ?app_assoc. cbn [app]. rewrite <- ?app_assoc. reflexivity.
Qed.

(* what the parser accepts is well formed *)
Theorem parse_tx_wf bs t rest : parse_tx bs = Some (t, rest) -> canonical_flag t = true -> wf_tx t = true.
Proof.
  unfold parse_tx, bind.
  destruct (p_le 4 bs) as [[ver r1]|] eqn:P1; [|discriminate].
  destruct (p_u8 r1) as [[flag r2]|] eqn:P2; [|discriminate].
  destruct (p_varint r2) as [[nin r3]|] eqn:P3; [|discriminate].
  destruct (p_list p_in nin r3) as [[ins r4]|] eqn:P4; [|discriminate].
  destruct (p_varint r4) as [[nout r5]|] eqn:P5; [|discriminate].
  destruct (p_list p_out nout r5) as [[outs r6]|] eqn:P6; [|discriminate].
  destruct (p_le 4 r6) as [[lt r7]|] eqn:P7; [|discriminate].
  apply p_le_inv in P1 as [-> Hver]. apply p_u8_inv in P2 as [-> Hflag].
  apply p_varint_inv in P3 as [-> Hnin].
  apply (p_list_inv ser_in p_in wf_in_parsed p_in_inv) in P4 as [-> [Lin Fin]].
  apply p_varint_inv in P5 as [-> Hnout].
  apply (p_list_inv (ser_out false false) p_out (fun o => wf_out o = true /\ strip_out o = o) p_out_inv) in P6 as [-> [Lout Fout]].
  apply p_le_inv in P7 as [-> Hlt].
  change (256 ^ N.of_nat 4) with two32 in *.
  destruct (N.eqb_spec flag 1) as [F1|F1].
  - destruct (p_list p_in_wit (lenL ins) r7) as [[iw r8]|] eqn:P8; [|discriminate].
    destruct (p_list p_out_wit (lenL outs) r8) as [[ow r9]|] eqn:P9; [|discriminate].
    apply (p_list_inv enc_in_wit p_in_wit wf_in_wit p_in_wit_inv) in P8 as [-> [Liw Fiw]].
    apply (p_list_inv enc_out_wit p_out_wit _ p_out_wit_inv) in P9 as [-> [Low Fow]].
    unfold ret. intro H; inversion H; subst. intros _.
    assert (LI : length ins = length iw) by (unfold lenL in Liw; lia).
    assert (LO : length outs = length ow) by (unfold lenL in Low; lia).
    destruct (zip_in_ser ins iw LI) as [_ [_ A3]]. destruct (zip_out_ser outs ow LO) as [_ [_ B3]].
    unfold wf_tx. cbn [t_version t_flag t_locktime t_ins t_outs].
    assert (HW : has_witness (mk_tx ver 1 lt (zip_with set_in_wit ins iw) (zip_with set_out_wit outs ow)) = true) by reflexivity.
    unfold lenL. rewrite A3, B3. fold (lenL ins) (lenL outs).
    rewrite !andb_true_iff. repeat split; try lia.
    + apply forallb_forall. clear -Fin Fiw LI. revert iw Fiw LI.
      induction Fin as [|i ins [Wi Si] _ IH]; intros [|w iw] Fiw LI x Hx; try discriminate; [destruct Hx|].
      inversion Fiw as [|? ? [Wa [Wb [Wc Wd]]] Fiw']; subst. cbn [zip_with] in Hx. destruct Hx as [<-|Hx].
      * apply wf_in_parts in Wi as (P1 & P2 & P3 & P4 & _).
        unfold wf_in, set_in_wit, wf_slice. proj_in. rewrite P4.
        rewrite (wf_vector_bool _ Wc), (wf_vector_bool _ Wd).
        rewrite P1. destruct (N.ltb_spec (in_seq i) two32); [|lia].
        destruct (N.ltb_spec (lenN (in_script i)) two64); [|lia].
        destruct (N.ltb_spec (lenN (w_irp w)) two64); [|lia].
        destruct (N.ltb_spec (lenN (w_inrp w)) two64); [|lia]. reflexivity.
      * cbn [length] in LI. injection LI as LI. apply (IH iw Fiw' LI x Hx).
    + apply forallb_forall. clear -Fout Fow LO. revert ow Fow LO.
      induction Fout as [|o outs [Wo So] _ IH]; intros [|w ow] Fow LO x Hx; try discriminate; [destruct Hx|].
      inversion Fow as [|? ? [Wa Wb] Fow']; subst. cbn [zip_with] in Hx. destruct Hx as [<-|Hx].
      * apply wf_out_parts in Wo as (P1 & P2 & P3 & P4 & _).
        unfold wf_out, set_out_wit, wf_slice. cbn [o_asset o_value o_script o_nonce o_rp o_sp].
        rewrite P1, P2, P3.
        destruct (N.ltb_spec (lenN (o_script o)) two64); [|lia].
        destruct (N.ltb_spec (lenN (snd w)) two64); [|lia].
        destruct (N.ltb_spec (lenN (fst w)) two64); [|lia]. reflexivity.
      * cbn [length] in LO. injection LO as LO. apply (IH ow Fow' LO x Hx).
  - unfold ret. intro H; inversion H; subst. unfold canonical_flag. cbn [t_flag]. intro CF.
    destruct (N.eqb_spec flag 0) as [F0|F0]; [|destruct (N.eqb_spec flag 1); [lia|discriminate]].
    subst flag. unfold wf_tx. cbn [t_version t_flag t_locktime t_ins t_outs].
    rewrite !andb_true_iff. repeat split; try lia.
    + apply forallb_forall. intros x Hx. rewrite Forall_forall in Fin. apply Fin in Hx as [Hx _]. exact Hx.
    + apply forallb_forall. intros x Hx. rewrite Forall_forall in Fout. apply Fout in Hx as [Hx _]. exact Hx.
Qed.
