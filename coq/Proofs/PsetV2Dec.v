(* Proofs/PsetV2Dec.v — decoder-level facts of the PSET v2 parser model for C12:
   acceptance is stable under extension of the input; what NewPsetFromBuffer does with bytes after the
   last output section (it never looks at them); no prefix shorter than what was consumed is accepted;
   how the bytes consumed relate to the re-serialization. *)
From GE Require Import Lib.Bytes Lib.Varint Model.Tx Model.PsetV2 Proofs.TxCodec Proofs.PsetV2 Proofs.PsetV2Ex Proofs.PsetV2Inv.
From Coq Require Import ZifyBool ZifyN ZifyNat.
Open Scope N_scope.

Section Dec.
Variable pk_ok der_ok xonly_ok : bytes -> bool.
Variable msgtx_canon : bytes -> option bytes.

Notation parse_kps := (parse_kps pk_ok der_ok xonly_ok msgtx_canon).
Notation parse_section := (parse_section pk_ok der_ok xonly_ok msgtx_canon).
Notation parse_secs := (parse_secs pk_ok der_ok xonly_ok msgtx_canon).
Notation parse_pset := (parse_pset pk_ok der_ok xonly_ok msgtx_canon).
Notation parse_pset_rest := (parse_pset_rest pk_ok der_ok xonly_ok msgtx_canon).
Notation wf_pset := (wf_pset pk_ok der_ok xonly_ok msgtx_canon).

(* parse_pset is parse_pset_rest with the unread bytes dropped *)
Lemma parse_pset_of_rest bs : parse_pset bs = cbind (parse_pset_rest bs) (fun pr => ROk (fst pr)).
Proof.
  unfold PsetV2.parse_pset, PsetV2.parse_pset_rest. destruct (take 5 bs) as [[m r]|]; [|reflexivity].
  destruct (bytes_eqb m magic_sep); [|reflexivity].
  destruct (parse_section global_tbl global_sanity r) as [[g r1]| |]; cbn [cbind fst snd]; try reflexivity.
  destruct (parse_secs input_tbl input_sanity (S (length r1)) (num_val gInputCount g) r1) as [[i r2]| |]; cbn [cbind fst snd]; try reflexivity.
  destruct (parse_secs output_tbl output_sanity (S (length r2)) (num_val gOutputCount g) r2) as [[o r3]| |]; cbn [cbind fst snd]; try reflexivity.
  destruct (pset_sanity (mk_pset g i o)); reflexivity.
Qed.

Lemma parse_pset_accepts bs p : parse_pset bs = ROk p <-> exists rest, parse_pset_rest bs = ROk (p, rest).
Proof.
  rewrite parse_pset_of_rest. split.
  - intro H. apply cbind_ok in H as ([p' r] & H1 & H2). cbn in H2. inversion H2; subst. exists r. exact H1.
  - intros [r H]. rewrite H. reflexivity.
Qed.

(* ================= (a) extension stability ================= *)
Lemma read_kp_ext bs s :
  match read_kp bs with
  | KGot k r => read_kp (bs ++ s) = KGot k (r ++ s)
  | KEnd r => read_kp (bs ++ s) = KEnd (r ++ s)
  | KErr => True
  end.
Proof.
  destruct (read_kp bs) as [r|k r|] eqn:R; [| |exact I].
  - apply read_kp_end in R. subst bs. cbn [app]. apply read_kp_sep.
  - apply read_kp_got in R as [-> F]. rewrite <- app_assoc. apply read_kp_app. exact F.
Qed.

(* the deserialize loop; its fuel (bytes left + 1) only grows when the input is extended *)
Lemma parse_kps_ext tbl : forall fuel fuel' s bs s' r ext, (fuel <= fuel')%nat ->
  parse_kps tbl fuel s bs = ROk (s', r) -> parse_kps tbl fuel' s (bs ++ ext) = ROk (s', r ++ ext).
Proof.
  induction fuel as [|f IH]; intros fuel' s bs s' r ext Hf H; [discriminate|].
  destruct fuel' as [|f']; [lia|]. cbn [PsetV2.parse_kps] in *.
  pose proof (read_kp_ext bs ext) as E. destruct (read_kp bs) as [r0|k r0|]; [| |discriminate].
  - rewrite E. inversion H; subst. reflexivity.
  - rewrite E. apply cbind_ok in H as (s1 & H1 & H2). rewrite H1. cbn [cbind]. apply (IH f'); [lia | exact H2].
Qed.

Lemma parse_section_ext tbl sanity bs s r ext :
  parse_section tbl sanity bs = ROk (s, r) -> parse_section tbl sanity (bs ++ ext) = ROk (s, r ++ ext).
Proof.
  unfold PsetV2.parse_section. intro H. apply cbind_ok in H as ([s0 r0] & H1 & H2).
  rewrite (parse_kps_ext tbl (S (length bs)) (S (length (bs ++ ext))) _ bs s0 r0 ext) by (try exact H1; rewrite app_length; lia).
  cbn [cbind fst] in *. destruct (sanity s0); [|discriminate]. inversion H2; subst. reflexivity.
Qed.

Lemma parse_secs_ext tbl sanity : forall fuel fuel' n bs l r ext, (fuel <= fuel')%nat ->
  parse_secs tbl sanity fuel n bs = ROk (l, r) -> parse_secs tbl sanity fuel' n (bs ++ ext) = ROk (l, r ++ ext).
Proof.
  induction fuel as [|f IH]; intros fuel' n bs l r ext Hf H; cbn [PsetV2.parse_secs] in H.
  - destruct (N.eqb_spec n 0) as [Z|]; [|discriminate]. inversion H; subst.
    destruct fuel'; cbn [PsetV2.parse_secs]; rewrite N.eqb_refl; reflexivity.
  - destruct fuel' as [|f']; [lia|]. cbn [PsetV2.parse_secs]. destruct (N.eqb_spec n 0) as [Z|NZ].
    + inversion H; subst. reflexivity.
    + apply cbind_ok in H as ([s0 r0] & H1 & H2). cbn [fst snd] in H2.
      apply cbind_ok in H2 as ([l1 r1] & H2 & H3). cbn [fst snd] in H3. inversion H3; subst l r; clear H3.
      rewrite (parse_section_ext tbl sanity bs s0 r0 ext H1). cbn [cbind fst snd].
      rewrite (IH f' (N.pred n) r0 l1 r1 ext) by (try exact H2; lia). reflexivity.
Qed.

(* acceptance of a packet is stable under extension of the input: same packet, remainder extended *)
Theorem psetv2_parse_stable bs p r ext :
  parse_pset_rest bs = ROk (p, r) -> parse_pset_rest (bs ++ ext) = ROk (p, r ++ ext).
Proof.
  unfold PsetV2.parse_pset_rest. intro H.
  destruct (take 5 bs) as [[m r0]|] eqn:T; [|discriminate].
  apply take_inv in T as [-> Lm]. rewrite <- app_assoc. rewrite (take_app_n 5 m) by exact Lm.
  destruct (bytes_eqb m magic_sep); [|discriminate].
  apply cbind_ok in H as ([g r1] & Hg & H). cbn [fst snd] in H.
  apply cbind_ok in H as ([i r2] & Hi & H). cbn [fst snd] in H.
  apply cbind_ok in H as ([o r3] & Ho & H). cbn [fst snd] in H.
  rewrite (parse_section_ext _ _ r0 g r1 ext Hg). cbn [cbind fst snd].
  rewrite (parse_secs_ext _ _ (S (length r1)) (S (length (r1 ++ ext))) _ r1 i r2 ext) by (try exact Hi; rewrite app_length; lia).
  cbn [cbind fst snd].
  rewrite (parse_secs_ext _ _ (S (length r2)) (S (length (r2 ++ ext))) _ r2 o r3 ext) by (try exact Ho; rewrite app_length; lia).
  cbn [cbind fst snd]. destruct (pset_sanity (mk_pset g i o)); [|discriminate]. inversion H; subst. reflexivity.
Qed.

(* ================= (b) what the whole-input decoder does ================= *)
(* NewPsetFromBuffer / NewPsetFromBase64 never look at what follows the last output section: an
   accepted input stays accepted, with the same packet, whatever is appended *)
Theorem psetv2_trailing_ignored bs p ext : parse_pset bs = ROk p -> parse_pset (bs ++ ext) = ROk p.
Proof.
  intro H. apply parse_pset_accepts in H as [r H]. apply parse_pset_accepts. exists (r ++ ext).
  apply psetv2_parse_stable. exact H.
Qed.

(* no prefix that stops short of what the decoder consumed is accepted: if bs is accepted leaving
   `rest` unread, every prefix of bs that cuts into the consumed part is rejected *)
Theorem psetv2_short_prefix_rejected bs p rest pre suf :
  parse_pset_rest bs = ROk (p, rest) -> bs = pre ++ suf -> (length rest < length suf)%nat ->
  parse_pset pre = RErr.
Proof.
  intros H -> L. destruct (parse_pset pre) as [p'| |] eqn:P; [|reflexivity|].
  - exfalso. apply parse_pset_accepts in P as [r' P]. apply (psetv2_parse_stable _ _ _ suf) in P.
    rewrite H in P. inversion P; subst. rewrite app_length in L. lia.
  - exfalso. apply (parse_pset_no_panic pk_ok der_ok xonly_ok msgtx_canon pre). exact P.
Qed.

(* in particular: an input that is consumed completely (a valid encoding with nothing after it) has
   no accepted strict prefix *)
Theorem psetv2_strict_prefix_rejected bs p pre suf :
  parse_pset_rest bs = ROk (p, []) -> bs = pre ++ suf -> suf <> [] -> parse_pset pre = RErr.
Proof.
  intros H E Hs. apply (psetv2_short_prefix_rejected bs p [] pre suf H E).
  destruct suf; [congruence | cbn; lia].
Qed.

(* the serialization of a well-formed packet is consumed exactly, so none of its strict prefixes is accepted *)
Theorem pset_parse_ser_rest p : wf_pset p = true ->
  exists bs, ser_pset p = ROk bs /\ forall rest, parse_pset_rest (bs ++ rest) = ROk (norm_pset p, rest).
Proof.
  intro W. unfold PsetV2.wf_pset in W. rewrite !andb_true_iff in W.
  destruct W as [[[[[Wg Wi] Wo] Ci] Co] San]. apply N.eqb_eq in Ci. apply N.eqb_eq in Co.
  destruct (section_roundtrip pk_ok der_ok xonly_ok msgtx_canon global_tbl global_sanity (p_global p) global_tbl_ok Wg) as (bg & Sg & _ & Pg).
  destruct (secs_roundtrip pk_ok der_ok xonly_ok msgtx_canon input_tbl input_sanity input_tbl_ok (p_ins p) Wi) as (bi & Si & Li & Pi).
  destruct (secs_roundtrip pk_ok der_ok xonly_ok msgtx_canon output_tbl output_sanity output_tbl_ok (p_outs p) Wo) as (bo & So & Lo & Po).
  exists (magic_sep ++ bg ++ bi ++ bo). unfold ser_pset. rewrite Sg, Si, So. cbn [cbind]. split; [reflexivity|].
  intro rest. unfold PsetV2.parse_pset_rest. rewrite <- !app_assoc.
  rewrite (take_app_n 5 magic_sep) by reflexivity. rewrite bytes_eqb_refl.
  rewrite Pg. cbn [cbind fst snd]. rewrite num_norm_incount, num_norm_outcount, Ci, Co.
  rewrite Pi by (rewrite app_length; lia). cbn [cbind fst snd].
  rewrite Po by (rewrite app_length; lia). cbn [cbind fst snd].
  unfold norm_pset in San. rewrite San. reflexivity.
Qed.

Theorem psetv2_ser_strict_prefix_rejected p bs pre suf :
  wf_pset p = true -> ser_pset p = ROk bs -> bs = pre ++ suf -> suf <> [] -> parse_pset pre = RErr.
Proof.
  intros W S E Hs. destruct (pset_parse_ser_rest p W) as (bs' & S' & P). rewrite S in S'. inversion S'; subst bs'.
  specialize (P []). rewrite app_nil_r in P. apply (psetv2_strict_prefix_rejected bs (norm_pset p) pre suf P E Hs).
Qed.


(* ================= (c) what was consumed ================= *)
(* acceptance depends on the consumed bytes only: the input splits into a consumed part c and the
   unread rest, and c followed by anything gives the same packet *)
Lemma parse_section_consumed tbl sanity bs s r : parse_section tbl sanity bs = ROk (s, r) ->
  exists c, bs = c ++ r /\ c <> [] /\ forall r', parse_section tbl sanity (c ++ r') = ROk (s, r').
Proof.
  unfold PsetV2.parse_section. intro H. apply cbind_ok in H as ([s0 r0] & Hk & Hs). cbn [fst] in Hs.
  destruct (sanity s0) eqn:San; [|discriminate]. inversion Hs; subst s0 r0; clear Hs.
  apply parse_kps_inv in Hk as (kps & -> & F & Fo).
  exists (enc_kps kps ++ [pset_sep]). split; [rewrite <- app_assoc; reflexivity|].
  split; [destruct (enc_kps kps); discriminate|].
  intro r'. rewrite <- app_assoc. cbn [app]. rewrite parse_kps_app.
  - rewrite Fo. cbn [cbind fst]. rewrite San. reflexivity.
  - exact F.
  - rewrite app_length. pose proof (enc_kps_length kps). cbn [length]. lia.
Qed.

Lemma parse_secs_consumed tbl sanity : forall fuel n bs l r, parse_secs tbl sanity fuel n bs = ROk (l, r) ->
  exists c, bs = c ++ r /\ (length l <= length c)%nat /\
    forall fuel' r', (length l <= fuel')%nat -> parse_secs tbl sanity fuel' n (c ++ r') = ROk (l, r').
Proof.
  induction fuel as [|f IH]; intros n bs l r H; cbn [PsetV2.parse_secs] in H.
  - destruct (N.eqb_spec n 0) as [Z|]; [|discriminate]. inversion H; subst. exists []. split; [reflexivity|].
    split; [cbn; lia|]. intros fuel' r' _. destruct fuel'; cbn [PsetV2.parse_secs app]; rewrite N.eqb_refl; reflexivity.
  - destruct (N.eqb_spec n 0) as [Z|NZ].
    + inversion H; subst. exists []. split; [reflexivity|]. split; [cbn; lia|].
      intros fuel' r' _. destruct fuel'; cbn [PsetV2.parse_secs app]; reflexivity.
    + apply cbind_ok in H as ([s0 r0] & H1 & H2). cbn [fst snd] in H2.
      apply cbind_ok in H2 as ([l1 r1] & H2 & H3). cbn [fst snd] in H3. inversion H3; subst l r; clear H3.
      apply parse_section_consumed in H1 as (c1 & -> & N1 & P1). apply IH in H2 as (c2 & -> & L2 & P2).
      exists (c1 ++ c2). split; [rewrite <- app_assoc; reflexivity|].
      split; [rewrite app_length; cbn [length]; destruct c1; [congruence | cbn [length]; lia]|].
      intros fuel' r' Lf. destruct fuel' as [|f']; [cbn [length] in Lf; lia|]. cbn [PsetV2.parse_secs].
      destruct (N.eqb_spec n 0); [contradiction|]. rewrite <- app_assoc. rewrite P1. cbn [cbind fst snd].
      rewrite P2 by (cbn [length] in Lf; lia). reflexivity.
Qed.

Theorem psetv2_consumed_exact bs p rest : parse_pset_rest bs = ROk (p, rest) ->
  exists c, bs = c ++ rest /\ forall r', parse_pset_rest (c ++ r') = ROk (p, r').
Proof.
  unfold PsetV2.parse_pset_rest. intro H.
  destruct (take 5 bs) as [[m r0]|] eqn:T; [|discriminate]. apply take_inv in T as [-> Lm].
  destruct (bytes_eqb m magic_sep) eqn:Em; [|discriminate].
  apply cbind_ok in H as ([g r1] & Hg & H). cbn [fst snd] in H.
  apply cbind_ok in H as ([i r2] & Hi & H). cbn [fst snd] in H.
  apply cbind_ok in H as ([o r3] & Ho & H). cbn [fst snd] in H.
  destruct (pset_sanity (mk_pset g i o)) eqn:PS; [|discriminate]. inversion H; subst p rest; clear H.
  apply parse_section_consumed in Hg as (cg & -> & _ & Pg).
  apply parse_secs_consumed in Hi as (ci & -> & Li & Pi).
  apply parse_secs_consumed in Ho as (co & -> & Lo & Po).
  exists (m ++ cg ++ ci ++ co). split; [rewrite <- !app_assoc; reflexivity|].
  intro r'. rewrite <- !app_assoc. rewrite (take_app_n 5 m) by exact Lm. rewrite Em.
  rewrite Pg. cbn [cbind fst snd]. rewrite Pi by (rewrite app_length; lia). cbn [cbind fst snd].
  rewrite Po by (rewrite app_length; lia). cbn [cbind fst snd]. rewrite PS. reflexivity.
Qed.

(* the bytes consumed are exactly the serialization when the input is one: for a well-formed packet
   the decoder consumes length (ser p) bytes, no more and no less *)
Theorem psetv2_accepted_size p bs rest : wf_pset p = true -> ser_pset p = ROk bs ->
  parse_pset_rest (bs ++ rest) = ROk (norm_pset p, rest).
Proof.
  intros W S. destruct (pset_parse_ser_rest p W) as (bs' & S' & P). rewrite S in S'. inversion S'; subst. apply P.
Qed.

(* for an arbitrary accepted input the re-serialization of the packet is consumed exactly *)
Theorem psetv2_reser_size bs p rest : parse_pset_rest bs = ROk (p, rest) -> pset_ext pk_ok msgtx_canon p ->
  exists bs', ser_pset p = ROk bs' /\ forall r', parse_pset_rest (bs' ++ r') = ROk (norm_pset p, r').
Proof.
  intros H X. assert (Hp : parse_pset bs = ROk p) by (apply parse_pset_accepts; exists rest; exact H).
  pose proof (parsed_wf pk_ok der_ok xonly_ok msgtx_canon bs p Hp X) as W.
  destruct (pset_parse_ser_rest p W) as (bs' & S & P). exists bs'. split; assumption.
Qed.

End Dec.

(* ----- closed witnesses ----- *)
Notation parse_ex_rest := (parse_pset_rest o_true o_true o_true o_id).

(* the literal reading "an accepted input has no accepted strict prefix" is false of the whole-input
   decoder, because it ignores what follows the last section: a valid encoding followed by one byte is
   accepted, and so is its strict prefix, the encoding itself *)
Theorem psetv2_strict_prefix_literal_refuted :
  exists bs pre suf p, parse_pset o_true o_true o_true o_id bs = ROk p /\ bs = pre ++ suf /\ suf <> [] /\
                       parse_pset o_true o_true o_true o_id pre = ROk p.
Proof.
  destruct (pset_parse_ser o_true o_true o_true o_id ex_pset ex_pset_wf) as (b & S & P).
  exists (b ++ [x00]), b, [x00], (norm_pset ex_pset). split; [apply P|]. split; [reflexivity|]. split; [discriminate|].
  rewrite <- (app_nil_r b). apply P.
Qed.

(* bytes consumed and length of the re-serialization differ in general, in both directions: an output
   section that omits the always-written amount, script and blinder index is accepted and re-serialized
   longer; a field written with a zero value or with key data the decoder ignores is re-serialized shorter *)
Definition ex_stream_sparse (extra : list kpair) : bytes :=
  magic_sep ++ enc_kps [mk_kpair 2 [] (le_enc 4 2); mk_kpair 4 [] [x00]; mk_kpair 5 [] [x01]; mk_kpair 251 [] (le_enc 4 2)] ++ [pset_sep]
            ++ enc_kps ([mk_kpair 252 (prop_key 2 []) (repeat x22 32)] ++ extra) ++ [pset_sep].
Definition size_check (bs : bytes) (longer : bool) : bool :=
  match parse_ex_rest bs with
  | ROk (p, []) => match ser_pset p with
                   | ROk bs' => if longer then (length bs <? length bs')%nat else (length bs' <? length bs)%nat
                   | _ => false end
  | _ => false end.
Example ex_reser_longer : size_check (ex_stream_sparse []) true = true. Proof. vm_compute. reflexivity. Qed.
Example ex_reser_shorter :
  size_check (ex_stream_sparse [mk_kpair 3 [xaa; xbb] (le_enc 8 0); mk_kpair 4 [x01] []; mk_kpair 252 (prop_key 8 [x07]) (le_enc 4 0);
                                mk_kpair 0 [x09] [x51]; mk_kpair 1 [x09; x09; x09; x09; x09; x09; x09; x09; x09; x09; x09; x09; x09; x09; x09; x09; x09; x09; x09; x09; x09; x09; x09; x09; x09; x09; x09; x09; x09; x09] [x51]]) false = true.
Proof. vm_compute. reflexivity. Qed.
