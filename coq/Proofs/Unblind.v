(* Proofs/Unblind.v — C06: unblinding returns exactly what was ub_blinded, only to the right key.
   The theorems are about the wrappers of Model/Unblind.v for ANY primitives [P] that satisfy
   the laws stated below as Section hypotheses (ECDH symmetry, canonical generator /
   commitment serialisation, H(a)+0*G = H(a), range-proof rewind completeness and
   exclusiveness, Pedersen binding).  The last part instantiates the laws (non-vacuity). *)
From Coq Require Import ZifyBool ZifyN ZifyNat.
From GE Require Import Lib.Bytes Lib.Varint Lib.Sha256 Model.Tx Model.Unblind.
Open Scope N_scope.

(* ---------- small list facts ---------- *)
Lemma fit_length n bs : length (ub_fit n bs) = n.
Proof. unfold ub_fit. rewrite firstn_length, app_length, repeat_length. lia. Qed.

Lemma fit_id n bs : length bs = n -> ub_fit n bs = bs.
Proof.
  intro Hl. unfold ub_fit. rewrite firstn_app, Hl, Nat.sub_diag. cbn [firstn].
  rewrite app_nil_r. rewrite <- Hl. apply firstn_all.
Qed.

Lemma firstn_app_exact {A} (x y : list A) n : length x = n -> firstn n (x ++ y) = x.
Proof.
  intro Hl. rewrite firstn_app, Hl, Nat.sub_diag. cbn [firstn]. rewrite app_nil_r.
  rewrite <- Hl. apply firstn_all.
Qed.

Lemma skipn_app_exact {A} (x y : list A) n : length x = n -> skipn n (x ++ y) = y.
Proof.
  intro Hl. rewrite skipn_app, Hl, Nat.sub_diag. cbn [skipn].
  rewrite <- Hl, skipn_all. reflexivity.
Qed.

Lemma app_eq_len {A} (a a' b b' : list A) :
  length a = length a' -> a ++ b = a' ++ b' -> a = a' /\ b = b'.
Proof.
  revert a'; induction a as [|x a IH]; intros [|y a'] Hl He; cbn in Hl; try discriminate.
  - split; [reflexivity | exact He].
  - cbn in He. inversion He as [[Hx Ht]]. injection Hl as Hl.
    destruct (IH a' Hl Ht) as [H1 H2]. subst. split; reflexivity.
Qed.

Lemma zero32_length : length ub_zero32 = 32%nat.
Proof. reflexivity. Qed.

(* ---------- the SHA-256 chaining value is 32 bytes ---------- *)
Lemma round_length st kw : length st = 8%nat -> length (round st kw) = 8%nat.
Proof.
  intro Hl.
  destruct st as [|a [|b [|c [|d [|e [|f [|g [|h [|z st]]]]]]]]]; cbn in Hl; try discriminate.
  reflexivity.
Qed.

Lemma fold_round_length l st : length st = 8%nat -> length (fold_left round l st) = 8%nat.
Proof.
  revert st; induction l as [|kw l IH]; intros st Hl; cbn [fold_left]; [exact Hl|].
  apply IH. apply round_length. exact Hl.
Qed.

Lemma compress_length st blk : length st = 8%nat -> length (compress st blk) = 8%nat.
Proof.
  intro Hl. unfold compress. rewrite map_length, combine_length.
  rewrite fold_round_length by exact Hl. rewrite Hl. reflexivity.
Qed.

Lemma midstate256_length m : length (midstate256 m) = 32%nat.
Proof.
  unfold midstate256. destruct (length m <? 64)%nat.
  - apply digest_of_length. reflexivity.
  - apply digest_of_length. apply compress_length. reflexivity.
Qed.

Lemma compute_asset_length e a : ub_compute_asset e = Some a -> length a = 32%nat.
Proof.
  unfold ub_compute_asset. destruct (length e =? 32)%nat; [|discriminate].
  intro H; inversion H; subst. apply midstate256_length.
Qed.

Lemma compute_token_length e f a : ub_compute_token e f = Some a -> length a = 32%nat.
Proof.
  unfold ub_compute_token. destruct (length e =? 32)%nat; [|discriminate].
  intro H; inversion H; subst. apply midstate256_length.
Qed.

Lemma calc_asset_hash_length i s a : calc_asset_hash i s = Some a -> length a = 32%nat.
Proof.
  unfold calc_asset_hash, ub_obind. destruct (issuance_entropy i s) as [e|]; [|discriminate].
  apply compute_asset_length.
Qed.

Lemma calc_token_hash_length i s a : calc_token_hash i s = Some a -> length a = 32%nat.
Proof.
  unfold calc_token_hash, ub_obind. destruct (issuance_entropy i s) as [e|]; [|discriminate].
  apply compute_token_length.
Qed.

(* ================================================================== *)
(* --- laws of the primitives (idealised cryptography; a hypothesis of every theorem, never
   an axiom).  [pk] is the public key of a private key (btcec PubKey().SerializeCompressed();
   not a function of the library under study). *)
Record laws {G C : Type} (P : prims G C) (pk : bytes -> option bytes) : Prop := mk_laws {
  law_hash_len : forall x, length (p_hash P x) = 32%nat;
  law_pk_conf : forall a A, pk a = Some A -> (1 < length A)%nat;
  (* ECDH symmetry *)
  law_ecdh_sym : forall a b A B,
    pk a = Some A -> pk b = Some B -> p_ecdh P A b = p_ecdh P B a;
  (* distinct private keys give distinct nonces (prime-order group + ideal hash) *)
  law_nonce_inj : forall A a b s s',
    p_ecdh P A a = Some s -> p_ecdh P A b = Some s' -> p_hash P s = p_hash P s' -> a = b;
  (* generators and commitments have a canonical 33-byte serialisation *)
  law_gen_ser_len : forall g, length (p_gen_ser P g) = 33%nat;
  law_gen_parse_ser : forall g, p_gen_parse P (p_gen_ser P g) = Some g;
  law_gen_ser_parse : forall b g, p_gen_parse P b = Some g -> p_gen_ser P g = b;
  (* H(a) + 0*G = H(a) *)
  law_gen_blinded_zero : forall a, p_gen_blinded P a ub_zero32 = p_gen_generate P a;
  law_commit_ser_len : forall c, length (p_commit_ser P c) = 33%nat;
  law_commit_parse_ser : forall c, p_commit_parse P (p_commit_ser P c) = Some c;
  law_commit_ser_parse : forall b c, p_commit_parse P b = Some c -> p_commit_ser P c = b;
  law_sign_nonempty : forall mn c vbf n e mb v msg s g,
    p_sign P mn c vbf n e mb v msg s g <> Some [];
  (* rewinding a proof signed for a commitment to (value, blind) with what it was signed
     with returns what was signed (the binding hands back the first 64 bytes of the
     zero-padded message) ... *)
  law_rewind_sign : forall mn c vbf n e mb v msg s g p,
    p_commit P vbf v g = Some c ->
    p_sign P mn c vbf n e mb v msg s g = Some p ->
    p_rewind P c p n s g = Some (vbf, v, ub_fit 64 msg);
  (* ... and with any other commitment, nonce, extra commitment or generator it fails *)
  law_rewind_only : forall mn c vbf n e mb v msg s g p c' n' s' g' r,
    p_sign P mn c vbf n e mb v msg s g = Some p ->
    p_rewind P c' p n' s' g' = Some r -> c' = c /\ n' = n /\ s' = s /\ g' = g;
  law_verify_sign : forall mn c vbf n e mb v msg s g p,
    p_commit P vbf v g = Some c ->
    p_sign P mn c vbf n e mb v msg s g = Some p -> p_verify P c p s g = true;
  (* a successful rewind (of any byte string) re-creates the commitment; Pedersen binding *)
  law_rewind_binds : forall c p n s g vbf v m,
    p_rewind P c p n s g = Some (vbf, v, m) -> p_commit P vbf v g = Some c;
  law_commit_inj : forall vbf v vbf' v' g c,
    p_commit P vbf v g = Some c -> p_commit P vbf' v' g = Some c -> vbf = vbf' /\ v = v'
}.

Section Laws.
Context {G C : Type} (P : prims G C).
Variable pk : bytes -> option bytes.
Hypothesis L : laws P pk.

Let hash_len := law_hash_len P pk L.
Let pk_conf := law_pk_conf P pk L.
Let ecdh_sym := law_ecdh_sym P pk L.
Let nonce_inj := law_nonce_inj P pk L.
Let gen_ser_len := law_gen_ser_len P pk L.
Let gen_parse_ser := law_gen_parse_ser P pk L.
Let gen_ser_parse := law_gen_ser_parse P pk L.
Let gen_blinded_zero := law_gen_blinded_zero P pk L.
Let commit_ser_len := law_commit_ser_len P pk L.
Let commit_parse_ser := law_commit_parse_ser P pk L.
Let commit_ser_parse := law_commit_ser_parse P pk L.
Let sign_nonempty := law_sign_nonempty P pk L.
Let rewind_sign := law_rewind_sign P pk L.
Let rewind_only := law_rewind_only P pk L.
Let verify_sign := law_verify_sign P pk L.
Let rewind_binds := law_rewind_binds P pk L.
Let commit_inj := law_commit_inj P pk L.

(* ---------- what a successful unblindOutput went through ---------- *)
Lemma unblind_output_inv o nonce r :
  unblind_output P o nonce = r -> r <> UErr ->
  exists c g vbf v m,
    o_rp o <> [] /\
    p_commit_parse P (o_value o) = Some c /\
    (if (length (o_asset o) =? 33)%nat then p_gen_parse P (o_asset o)
     else p_gen_generate P (o_asset o)) = Some g /\
    p_rewind P c (o_rp o) nonce (o_script o) g = Some (vbf, v, m) /\
    r = (if (length m <? 32)%nat then UPanic
         else UOk (mk_unb v (firstn 32 m) vbf (skipn 32 m))).
Proof.
  unfold unblind_output. intros Hr Hne.
  destruct (length (o_rp o) =? 0)%nat eqn:Elen; [congruence|].
  destruct (p_commit_parse P (o_value o)) as [c|] eqn:Ec; [|congruence].
  destruct (if (length (o_asset o) =? 33)%nat then p_gen_parse P (o_asset o)
            else p_gen_generate P (o_asset o)) as [g|] eqn:Eg; [|congruence].
  destruct (p_rewind P c (o_rp o) nonce (o_script o) g) as [[[vbf v] m]|] eqn:Erw; [|congruence].
  exists c, g, vbf, v, m. repeat split; try reflexivity; try assumption.
  - intro Hnil. rewrite Hnil in Elen. cbn in Elen. discriminate.
  - symmetry. exact Hr.
Qed.

(* ---------- one honestly ub_blinded amount: what the wrappers hand to the primitives ---------- *)
(* [signed_amount value asset abf vbf32 script nonce bl]: bl's commitments are the
   library's commitments to (asset, abf) and (value, vbf) and bl's proof was signed over
   exactly message = asset || abf, extra commitment = script, that nonce and the ub_blinded
   generator, whatever minimum value / exponent / bit count were chosen *)
Definition signed_amount (value : N) (asset abf vbf script nonce : bytes) (bl : ub_blinded) : Prop :=
  exists g c mn e mb,
    p_gen_blinded P asset abf = Some g /\ bl_asset bl = p_gen_ser P g /\
    p_commit P vbf value g = Some c /\ bl_value bl = p_commit_ser P c /\
    bl_nonce bl = nonce /\
    p_sign P mn c vbf nonce e mb value (asset ++ abf) script g = Some (bl_proof bl).

Lemma blind_output_signed value asset abf vbf script bpub epriv exp mb bl :
  length vbf = 32%nat ->
  blind_output P value asset abf vbf script bpub epriv exp mb = Some bl ->
  nonce_hash P bpub epriv = Some (bl_nonce bl) /\
  signed_amount value asset abf vbf script (bl_nonce bl) bl.
Proof.
  unfold blind_output, asset_commitment, value_commitment, range_proof, ub_obind, option_map.
  intros Hlv Hb. rewrite (fit_id 32 vbf Hlv) in Hb.
  destruct (p_gen_blinded P asset abf) as [g|] eqn:Eg; [|discriminate].
  rewrite gen_parse_ser in Hb.
  destruct (p_commit P vbf value g) as [c|] eqn:Ec; [|discriminate].
  destruct (nonce_hash P bpub epriv) as [nonce|] eqn:En; [|discriminate].
  cbn [ra_asset ra_abf ra_vcommit ra_vbf ra_nonce ra_value ra_script] in Hb.
  rewrite Eg, commit_parse_ser in Hb.
  match type of Hb with
  | match ?s with Some _ => _ | None => _ end = _ => destruct s as [p|] eqn:Es; [|discriminate]
  end.
  inversion Hb; subst bl; clear Hb. cbn [bl_nonce bl_asset bl_value bl_proof].
  split; [reflexivity|].
  eexists g, c, _, _, _. repeat split; try reflexivity; try eassumption.
Qed.

Lemma blind_issuance_amount_signed value asset vbf key bl :
  length vbf = 32%nat ->
  blind_issuance_amount P value asset vbf key = Some bl ->
  signed_amount value asset ub_zero32 vbf [] (ub_fit 32 key) bl.
Proof.
  unfold blind_issuance_amount, asset_commitment, value_commitment, range_proof, ub_obind, option_map.
  intros Hlv Hb. rewrite (fit_id 32 vbf Hlv) in Hb.
  destruct (p_gen_blinded P asset ub_zero32) as [g|] eqn:Eg; [|discriminate].
  rewrite gen_parse_ser in Hb.
  destruct (p_commit P vbf value g) as [c|] eqn:Ec; [|discriminate].
  cbn [ra_asset ra_abf ra_vcommit ra_vbf ra_nonce ra_value ra_script] in Hb.
  rewrite Eg, commit_parse_ser in Hb.
  match type of Hb with
  | match ?s with Some _ => _ | None => _ end = _ => destruct s as [p|] eqn:Es; [|discriminate]
  end.
  inversion Hb; subst bl; clear Hb. cbn [bl_nonce bl_asset bl_value bl_proof].
  eexists g, c, _, _, _. repeat split; try reflexivity; try eassumption.
Qed.

(* ---------- core: unblindOutput on an output carrying a signed amount ---------- *)
Section Signed.
Variables (value : N) (asset abf vbf script nonce : bytes) (bl : ub_blinded).
Hypothesis Hasset : length asset = 32%nat.
Hypothesis Habf : length abf = 32%nat.
Hypothesis Hsigned : signed_amount value asset abf vbf script nonce bl.

Let u0 := mk_unb value asset vbf abf.

Lemma msg_facts :
  ub_fit 64 (asset ++ abf) = asset ++ abf /\ (length (asset ++ abf) <? 32)%nat = false /\
  firstn 32 (asset ++ abf) = asset /\ skipn 32 (asset ++ abf) = abf.
Proof.
  repeat split.
  - apply fit_id. rewrite app_length. lia.
  - rewrite app_length. apply Nat.ltb_ge. lia.
  - apply firstn_app_exact. exact Hasset.
  - apply skipn_app_exact. exact Hasset.
Qed.

(* the output as the blinder writes it: 33-byte asset commitment *)
Lemma unblind_output_signed o :
  o_asset o = bl_asset bl -> o_value o = bl_value bl -> o_script o = script ->
  o_rp o = bl_proof bl ->
  unblind_output P o nonce = UOk u0.
Proof.
  intros Ha Hv Hs Hp.
  destruct Hsigned as (g & c & mn & e & mb & Eg & Eba & Ec & Ebv & En & Esig).
  unfold unblind_output. rewrite Hp, Ha, Hv, Hs, Eba, Ebv.
  destruct (length (bl_proof bl) =? 0)%nat eqn:El.
  { exfalso. destruct (bl_proof bl) as [|x p'] eqn:Ep; [|cbn in El; discriminate].
    exact (sign_nonempty _ _ _ _ _ _ _ _ _ _ Esig). }
  rewrite commit_parse_ser, gen_ser_len. cbn [Nat.eqb]. rewrite gen_parse_ser.
  rewrite (rewind_sign _ _ _ _ _ _ _ _ _ _ _ Ec Esig).
  destruct msg_facts as (F1 & F2 & F3 & F4). rewrite F1, F2, F3, F4.
  reflexivity.
Qed.

(* the same amount presented with the raw 32-byte asset id (issuances: zero asset blinder) *)
Lemma unblind_output_signed_raw o :
  abf = ub_zero32 ->
  o_asset o = asset -> o_value o = bl_value bl -> o_script o = script ->
  o_rp o = bl_proof bl ->
  unblind_output P o nonce = UOk u0.
Proof.
  intros Hz Ha Hv Hs Hp.
  destruct Hsigned as (g & c & mn & e & mb & Eg & Eba & Ec & Ebv & En & Esig).
  unfold unblind_output. rewrite Hp, Ha, Hv, Hs, Ebv.
  destruct (length (bl_proof bl) =? 0)%nat eqn:El.
  { exfalso. destruct (bl_proof bl) as [|x p'] eqn:Ep; [|cbn in El; discriminate].
    exact (sign_nonempty _ _ _ _ _ _ _ _ _ _ Esig). }
  rewrite commit_parse_ser, Hasset. cbn [Nat.eqb].
  rewrite <- gen_blinded_zero, <- Hz, Eg.
  rewrite (rewind_sign _ _ _ _ _ _ _ _ _ _ _ Ec Esig).
  destruct msg_facts as (F1 & F2 & F3 & F4). rewrite F1, F2, F3, F4.
  reflexivity.
Qed.

(* any output carrying this proof that rewinds at all (to a result or to the slice panic)
   was presented with the original nonce, script, value commitment and generator, and
   yields exactly the original amounts *)
Lemma carrier_only_original o nonce' r :
  o_rp o = bl_proof bl ->
  unblind_output P o nonce' = r -> r <> UErr ->
  r = UOk u0 /\ nonce' = nonce /\ o_script o = script /\ o_value o = bl_value bl /\
  ((length (o_asset o) = 33)%nat -> o_asset o = bl_asset bl).
Proof.
  intros Hp Hr Hne.
  destruct Hsigned as (g & c & mn & e & mb & Eg & Eba & Ec & Ebv & En & Esig).
  destruct (unblind_output_inv o nonce' r Hr Hne) as (c' & g' & vbf' & v' & m' & Hnil & Ecp & Egp & Erw & Hres).
  rewrite Hp in Erw.
  destruct (rewind_only _ _ _ _ _ _ _ _ _ _ _ _ _ _ _ _ Esig Erw) as (Hc & Hn & Hs & Hg).
  subst c' nonce' g'. rewrite Hs in Erw.
  rewrite (rewind_sign _ _ _ _ _ _ _ _ _ _ _ Ec Esig) in Erw.
  inversion Erw; subst vbf' v' m'; clear Erw.
  destruct msg_facts as (F1 & F2 & F3 & F4). rewrite F1, F2, F3, F4 in Hres.
  repeat split; try assumption; try reflexivity.
  - rewrite Ebv. symmetry. apply commit_ser_parse. exact Ecp.
  - intro H33. rewrite H33 in Egp. cbn [Nat.eqb] in Egp.
    rewrite Eba. symmetry. apply gen_ser_parse. exact Egp.
Qed.

Lemma carrier_wrong_nonce_fails o nonce' :
  o_rp o = bl_proof bl -> nonce' <> nonce -> unblind_output P o nonce' = UErr.
Proof.
  intros Hp Hn.
  destruct (unblind_output P o nonce') as [u| |] eqn:Er; [exfalso|reflexivity|exfalso].
  - destruct (carrier_only_original o nonce' _ Hp Er) as (_ & Hn' & _); [discriminate|]. exact (Hn Hn').
  - destruct (carrier_only_original o nonce' _ Hp Er) as (_ & Hn' & _); [discriminate|]. exact (Hn Hn').
Qed.

Lemma carrier_wrong_script_fails o nonce' :
  o_rp o = bl_proof bl -> o_script o <> script -> unblind_output P o nonce' = UErr.
Proof.
  intros Hp Hs.
  destruct (unblind_output P o nonce') as [u| |] eqn:Er; [exfalso|reflexivity|exfalso].
  - destruct (carrier_only_original o nonce' _ Hp Er) as (_ & _ & Hs' & _); [discriminate|]. exact (Hs Hs').
  - destruct (carrier_only_original o nonce' _ Hp Er) as (_ & _ & Hs' & _); [discriminate|]. exact (Hs Hs').
Qed.

Lemma carrier_wrong_value_commitment_fails o nonce' :
  o_rp o = bl_proof bl -> o_value o <> bl_value bl -> unblind_output P o nonce' = UErr.
Proof.
  intros Hp Hv.
  destruct (unblind_output P o nonce') as [u| |] eqn:Er; [exfalso|reflexivity|exfalso].
  - destruct (carrier_only_original o nonce' _ Hp Er) as (_ & _ & _ & Hv' & _); [discriminate|]. exact (Hv Hv').
  - destruct (carrier_only_original o nonce' _ Hp Er) as (_ & _ & _ & Hv' & _); [discriminate|]. exact (Hv Hv').
Qed.

Lemma carrier_wrong_asset_commitment_fails o nonce' :
  o_rp o = bl_proof bl -> length (o_asset o) = 33%nat -> o_asset o <> bl_asset bl ->
  unblind_output P o nonce' = UErr.
Proof.
  intros Hp Hl Ha.
  destruct (unblind_output P o nonce') as [u| |] eqn:Er; [exfalso|reflexivity|exfalso].
  - destruct (carrier_only_original o nonce' _ Hp Er) as (_ & _ & _ & _ & Ha'); [discriminate|]. exact (Ha (Ha' Hl)).
  - destruct (carrier_only_original o nonce' _ Hp Er) as (_ & _ & _ & _ & Ha'); [discriminate|]. exact (Ha (Ha' Hl)).
Qed.

(* whatever byte string is put in place of the proof: if the output (with the original
   commitments) still unblinds, the value and its blinding factor are the original ones *)
Lemma any_proof_same_value o nonce' u :
  o_asset o = bl_asset bl -> o_value o = bl_value bl ->
  unblind_output P o nonce' = UOk u -> u_value u = value /\ u_vbf u = vbf.
Proof.
  intros Ha Hv Hr.
  destruct Hsigned as (g & c & mn & e & mb & Eg & Eba & Ec & Ebv & En & Esig).
  destruct (unblind_output_inv o nonce' _ Hr) as (c' & g' & vbf' & v' & m' & Hnil & Ecp & Egp & Erw & Hres);
    [discriminate|].
  rewrite Hv, Ebv, commit_parse_ser in Ecp. inversion Ecp; subst c'; clear Ecp.
  rewrite Ha, Eba, gen_ser_len in Egp. cbn [Nat.eqb] in Egp. rewrite gen_parse_ser in Egp.
  inversion Egp; subst g'; clear Egp.
  apply rewind_binds in Erw.
  destruct (commit_inj _ _ _ _ _ _ Erw Ec) as (Hb & Hval). subst vbf' v'.
  destruct (length m' <? 32)%nat; [discriminate|].
  inversion Hres; subst u. cbn [u_value u_vbf]. split; reflexivity.
Qed.

(* the revealed data re-creates the commitments *)
Lemma signed_recreates :
  asset_commitment P (u_asset u0) (u_abf u0) = Some (bl_asset bl) /\
  value_commitment P (u_value u0) (bl_asset bl) (u_vbf u0) = Some (bl_value bl).
Proof.
  destruct Hsigned as (g & c & mn & e & mb & Eg & Eba & Ec & Ebv & En & Esig).
  unfold asset_commitment, value_commitment, ub_obind, option_map, u0. cbn [u_asset u_abf u_value u_vbf].
  rewrite Eg, Eba, gen_parse_ser, Ec, Ebv. split; reflexivity.
Qed.

Lemma signed_verifies :
  verify_range_proof P (bl_value bl) (bl_asset bl) script (bl_proof bl) = true.
Proof.
  destruct Hsigned as (g & c & mn & e & mb & Eg & Eba & Ec & Ebv & En & Esig).
  unfold verify_range_proof. rewrite Ebv, Eba, commit_parse_ser, gen_parse_ser.
  exact (verify_sign _ _ _ _ _ _ _ _ _ _ _ Ec Esig).
Qed.

End Signed.

(* ================================================================== *)
(* Outputs: BlindOutputs then UnblindOutputWithKey / UnblindOutputWithNonce *)
Section Outputs.
Variables (value : N) (asset abf vbf script rsk esk R E sp : bytes) (exp mb : Z) (bl : ub_blinded).
Hypothesis Hasset : length asset = 32%nat.
Hypothesis Habf : length abf = 32%nat.
Hypothesis Hvbf : length vbf = 32%nat.
Hypothesis HR : pk rsk = Some R.       (* recipient's blinding key pair *)
Hypothesis HE : pk esk = Some E.       (* sender's ephemeral key pair *)
Hypothesis Hblind : blind_output P value asset abf vbf script R esk exp mb = Some bl.

Let out := out_of_blinded bl script E sp.
Let u0 := mk_unb value asset vbf abf.

Lemma out_conf : forall a v s r p, is_conf_out (mk_out a v s E r p) = true.
Proof.
  intros. unfold is_conf_out. cbn [o_nonce]. pose proof (pk_conf _ _ HE). apply Nat.ltb_lt. lia.
Qed.

Lemma recipient_nonce : nonce_hash P E rsk = Some (bl_nonce bl).
Proof.
  destruct (blind_output_signed _ _ _ _ _ _ _ _ _ _ Hvbf Hblind) as (Hn & _).
  unfold nonce_hash in *. rewrite (ecdh_sym _ _ _ _ HR HE) in Hn. exact Hn.
Qed.

Lemma bl_nonce_length : length (bl_nonce bl) = 32%nat.
Proof.
  destruct (blind_output_signed _ _ _ _ _ _ _ _ _ _ Hvbf Hblind) as (Hn & _).
  unfold nonce_hash, option_map in Hn. destruct (p_ecdh P R esk) as [s|]; [|discriminate].
  inversion Hn as [Hn']. apply hash_len.
Qed.

Theorem unblind_blind_key : unblind_with_key P out rsk = UOk u0.
Proof.
  destruct (blind_output_signed _ _ _ _ _ _ _ _ _ _ Hvbf Hblind) as (_ & Hs).
  unfold unblind_with_key, out, out_of_blinded. rewrite out_conf. cbn [negb o_nonce].
  rewrite recipient_nonce.
  apply (unblind_output_signed value asset abf vbf script (bl_nonce bl) bl Hasset Habf Hs); reflexivity.
Qed.

Theorem unblind_blind_nonce : unblind_with_nonce P out (bl_nonce bl) = UOk u0.
Proof.
  destruct (blind_output_signed _ _ _ _ _ _ _ _ _ _ Hvbf Hblind) as (_ & Hs).
  unfold unblind_with_nonce, out, out_of_blinded. rewrite out_conf. cbn [negb].
  rewrite (fit_id 32 _ bl_nonce_length).
  apply (unblind_output_signed value asset abf vbf script (bl_nonce bl) bl Hasset Habf Hs); reflexivity.
Qed.

Theorem revealed_recreates_commitments : forall u,
  unblind_with_key P out rsk = UOk u ->
  u = u0 /\
  asset_commitment P (u_asset u) (u_abf u) = Some (o_asset out) /\
  value_commitment P (u_value u) (o_asset out) (u_vbf u) = Some (o_value out).
Proof.
  intros u Hu. rewrite unblind_blind_key in Hu. inversion Hu; subst u. split; [reflexivity|].
  destruct (blind_output_signed _ _ _ _ _ _ _ _ _ _ Hvbf Hblind) as (_ & Hs).
  exact (signed_recreates value asset abf vbf script (bl_nonce bl) bl Hs).
Qed.

Theorem fresh_proof_verifies :
  verify_range_proof P (o_value out) (o_asset out) (o_script out) (o_rp out) = true.
Proof.
  destruct (blind_output_signed _ _ _ _ _ _ _ _ _ _ Hvbf Hblind) as (_ & Hs).
  exact (signed_verifies value asset abf vbf script (bl_nonce bl) bl Hs).
Qed.

(* a key whose ECDH nonce is not the blinder's nonce fails (never other amounts, never a panic) *)
Theorem wrong_nonce_fails : forall k,
  nonce_hash P E k <> Some (bl_nonce bl) -> unblind_with_key P out k = UErr.
Proof.
  intros k Hk.
  destruct (blind_output_signed _ _ _ _ _ _ _ _ _ _ Hvbf Hblind) as (_ & Hs).
  unfold unblind_with_key, out, out_of_blinded. rewrite out_conf. cbn [negb o_nonce].
  destruct (nonce_hash P E k) as [n'|] eqn:En; [|reflexivity].
  apply (carrier_wrong_nonce_fails value asset abf vbf script (bl_nonce bl) bl Hasset Habf Hs); [reflexivity|].
  intro Heq. apply Hk. rewrite Heq. reflexivity.
Qed.

(* ... in particular every private key other than the recipient's *)
Theorem wrong_key_fails : forall k, k <> rsk -> unblind_with_key P out k = UErr.
Proof.
  intros k Hk. apply wrong_nonce_fails. intro Hn.
  pose proof recipient_nonce as Hr. unfold nonce_hash, option_map in Hn, Hr.
  destruct (p_ecdh P E k) as [s|] eqn:Es; [|discriminate].
  destruct (p_ecdh P E rsk) as [s'|] eqn:Es'; [|discriminate].
  inversion Hn as [Hh]. inversion Hr as [Hh']. rewrite <- Hh' in Hh.
  apply Hk. exact (nonce_inj _ _ _ _ _ Es Es' Hh).
Qed.

Theorem wrong_nonce_fails_with_nonce : forall n,
  ub_fit 32 n <> bl_nonce bl -> unblind_with_nonce P out n = UErr.
Proof.
  intros n Hn.
  destruct (blind_output_signed _ _ _ _ _ _ _ _ _ _ Hvbf Hblind) as (_ & Hs).
  unfold unblind_with_nonce, out, out_of_blinded. rewrite out_conf. cbn [negb].
  apply (carrier_wrong_nonce_fails value asset abf vbf script (bl_nonce bl) bl Hasset Habf Hs); [reflexivity|exact Hn].
Qed.

(* altered script / value commitment / asset commitment: every key and every nonce fails *)
Theorem tampered_script_fails : forall script' sp' k n,
  script' <> script ->
  let o' := mk_out (bl_asset bl) (bl_value bl) script' E (bl_proof bl) sp' in
  unblind_with_key P o' k = UErr /\ unblind_with_nonce P o' n = UErr.
Proof.
  intros script' sp' k n Hne o'.
  destruct (blind_output_signed _ _ _ _ _ _ _ _ _ _ Hvbf Hblind) as (_ & Hs).
  unfold unblind_with_key, unblind_with_nonce, o'. rewrite out_conf. cbn [negb o_nonce].
  split.
  - destruct (nonce_hash P E k) as [n'|]; [|reflexivity].
    apply (carrier_wrong_script_fails value asset abf vbf script (bl_nonce bl) bl Hasset Habf Hs); [reflexivity|exact Hne].
  - apply (carrier_wrong_script_fails value asset abf vbf script (bl_nonce bl) bl Hasset Habf Hs); [reflexivity|exact Hne].
Qed.

Theorem tampered_value_commitment_fails : forall vc' sp' k n,
  vc' <> bl_value bl ->
  let o' := mk_out (bl_asset bl) vc' script E (bl_proof bl) sp' in
  unblind_with_key P o' k = UErr /\ unblind_with_nonce P o' n = UErr.
Proof.
  intros vc' sp' k n Hne o'.
  destruct (blind_output_signed _ _ _ _ _ _ _ _ _ _ Hvbf Hblind) as (_ & Hs).
  unfold unblind_with_key, unblind_with_nonce, o'. rewrite out_conf. cbn [negb o_nonce].
  split.
  - destruct (nonce_hash P E k) as [n'|]; [|reflexivity].
    apply (carrier_wrong_value_commitment_fails value asset abf vbf script (bl_nonce bl) bl Hasset Habf Hs); [reflexivity|exact Hne].
  - apply (carrier_wrong_value_commitment_fails value asset abf vbf script (bl_nonce bl) bl Hasset Habf Hs); [reflexivity|exact Hne].
Qed.

Theorem tampered_asset_commitment_fails : forall ac' sp' k n,
  length ac' = 33%nat -> ac' <> bl_asset bl ->
  let o' := mk_out ac' (bl_value bl) script E (bl_proof bl) sp' in
  unblind_with_key P o' k = UErr /\ unblind_with_nonce P o' n = UErr.
Proof.
  intros ac' sp' k n Hl Hne o'.
  destruct (blind_output_signed _ _ _ _ _ _ _ _ _ _ Hvbf Hblind) as (_ & Hs).
  unfold unblind_with_key, unblind_with_nonce, o'. rewrite out_conf. cbn [negb o_nonce].
  split.
  - destruct (nonce_hash P E k) as [n'|]; [|reflexivity].
    apply (carrier_wrong_asset_commitment_fails value asset abf vbf script (bl_nonce bl) bl Hasset Habf Hs); [reflexivity|exact Hl|exact Hne].
  - apply (carrier_wrong_asset_commitment_fails value asset abf vbf script (bl_nonce bl) bl Hasset Habf Hs); [reflexivity|exact Hl|exact Hne].
Qed.

(* the general form: ANY output that carries this range proof (every other field arbitrary)
   and is confidential either fails or returns exactly the original amounts *)
Theorem never_other_amounts : forall o' k u,
  o_rp o' = bl_proof bl -> is_conf_out o' = true ->
  unblind_with_key P o' k = UOk u -> u = u0.
Proof.
  intros o' k u Hp Hc Hu.
  destruct (blind_output_signed _ _ _ _ _ _ _ _ _ _ Hvbf Hblind) as (_ & Hs).
  unfold unblind_with_key in Hu. rewrite Hc in Hu. cbn [negb] in Hu.
  destruct (nonce_hash P (o_nonce o') k) as [n'|]; [|discriminate].
  destruct (carrier_only_original value asset abf vbf script (bl_nonce bl) bl Hasset Habf Hs o' n' _ Hp Hu) as (Hr & _);
    [discriminate|].
  inversion Hr. reflexivity.
Qed.

(* and whatever replaces the proof itself, a result still carries the committed value *)
Theorem tampered_proof_never_other_value : forall p' sp' k u,
  unblind_with_key P (mk_out (bl_asset bl) (bl_value bl) script E p' sp') k = UOk u ->
  u_value u = value /\ u_vbf u = vbf.
Proof.
  intros p' sp' k u Hu.
  destruct (blind_output_signed _ _ _ _ _ _ _ _ _ _ Hvbf Hblind) as (_ & Hs).
  unfold unblind_with_key in Hu. rewrite out_conf in Hu. cbn [negb o_nonce] in Hu.
  destruct (nonce_hash P E k) as [n'|]; [|discriminate].
  apply (any_proof_same_value value asset abf vbf script (bl_nonce bl) bl Hs (mk_out (bl_asset bl) (bl_value bl) script E p' sp') n' u); [reflexivity|reflexivity|exact Hu].
Qed.

End Outputs.

(* ================================================================== *)
(* Issuances: BlindIssuances then UnblindIssuance *)
Section Issuances.
Variables (i : txin) (s : issuance).
Variables (aid : bytes) (va : N) (vbfa ka : bytes) (ba : ub_blinded).
Hypothesis Hiss : in_iss i = Some s.
Hypothesis Haid : calc_asset_hash i s = Some aid.
Hypothesis Hvbfa : length vbfa = 32%nat.
Hypothesis Hba : blind_issuance_amount P va aid vbfa ka = Some ba.
Hypothesis Hamount : iss_amount s = bl_value ba.
Hypothesis Hirp : in_irp i = bl_proof ba.

Let ua := mk_unb va aid vbfa ub_zero32.

Lemma issuance_amount_roundtrip : forall asset value vbf key b o,
  length asset = 32%nat -> length vbf = 32%nat ->
  blind_issuance_amount P value asset vbf key = Some b ->
  o_asset o = asset -> o_value o = bl_value b -> o_script o = [] -> o_rp o = bl_proof b ->
  unblind_issuance_amount P o key = UOk (mk_unb value asset vbf ub_zero32).
Proof.
  intros asset value vbf key b o Hla Hlv Hb Ha Hv Hs Hp.
  apply (blind_issuance_amount_signed _ _ _ _ _ Hlv) in Hb.
  unfold unblind_issuance_amount.
  rewrite (unblind_output_signed_raw value asset ub_zero32 vbf [] (ub_fit 32 key) b Hla zero32_length Hb o eq_refl Ha Hv Hs Hp).
  cbn [u_value u_vbf]. rewrite Ha. reflexivity.
Qed.

Lemma issuance_amount_wrong_key : forall asset value vbf key b o key',
  length asset = 32%nat -> length vbf = 32%nat ->
  blind_issuance_amount P value asset vbf key = Some b ->
  o_rp o = bl_proof b -> ub_fit 32 key' <> ub_fit 32 key ->
  unblind_issuance_amount P o key' = UErr.
Proof.
  intros asset value vbf key b o key' Hla Hlv Hb Hp Hk.
  apply (blind_issuance_amount_signed _ _ _ _ _ Hlv) in Hb.
  unfold unblind_issuance_amount.
  rewrite (carrier_wrong_nonce_fails value asset ub_zero32 vbf [] (ub_fit 32 key) b Hla zero32_length Hb o (ub_fit 32 key') Hp Hk).
  reflexivity.
Qed.

Lemma issuance_amount_wrong_commitment : forall asset value vbf key b o key',
  length asset = 32%nat -> length vbf = 32%nat ->
  blind_issuance_amount P value asset vbf key = Some b ->
  o_rp o = bl_proof b -> o_value o <> bl_value b ->
  unblind_issuance_amount P o key' = UErr.
Proof.
  intros asset value vbf key b o key' Hla Hlv Hb Hp Hv.
  apply (blind_issuance_amount_signed _ _ _ _ _ Hlv) in Hb.
  unfold unblind_issuance_amount.
  rewrite (carrier_wrong_value_commitment_fails value asset ub_zero32 vbf [] (ub_fit 32 key) b Hla zero32_length Hb o (ub_fit 32 key') Hp Hv).
  reflexivity.
Qed.

Lemma issuance_amount_only_original : forall asset value vbf key b o key' u,
  length asset = 32%nat -> length vbf = 32%nat ->
  blind_issuance_amount P value asset vbf key = Some b ->
  o_rp o = bl_proof b ->
  unblind_issuance_amount P o key' = UOk u -> u_value u = value /\ u_vbf u = vbf.
Proof.
  intros asset value vbf key b o key' u Hla Hlv Hb Hp Hu.
  apply (blind_issuance_amount_signed _ _ _ _ _ Hlv) in Hb.
  unfold unblind_issuance_amount in Hu.
  destruct (unblind_output P o (ub_fit 32 key')) as [u'| |] eqn:Er; try discriminate.
  destruct (carrier_only_original value asset ub_zero32 vbf [] (ub_fit 32 key) b Hla zero32_length Hb o _ _ Hp Er) as (Hr & _);
    [discriminate|].
  inversion Hr; subst u'. inversion Hu; subst u. cbn [u_value u_vbf]. split; reflexivity.
Qed.

Lemma aid_len : length aid = 32%nat.
Proof. exact (calc_asset_hash_length _ _ _ Haid). Qed.

Lemma irp_nonempty : (length (in_irp i) =? 0)%nat = false.
Proof.
  pose proof (blind_issuance_amount_signed _ _ _ _ _ Hvbfa Hba) as (g & c & mn & e & mb & _ & _ & _ & _ & _ & Esig).
  rewrite Hirp. destruct (bl_proof ba) as [|x p'] eqn:Ep; [|reflexivity].
  exfalso. exact (sign_nonempty _ _ _ _ _ _ _ _ _ _ Esig).
Qed.

(* asset amount only (no token amount): any second key *)
Theorem unblind_issuance_blind_asset_only : forall k1 rest,
  has_token_amount s = false ->
  unblind_issuance P i (ka :: k1 :: rest) = UOk (ua, None).
Proof.
  intros k1 rest Hnt. unfold unblind_issuance. rewrite Hiss, irp_nonempty, Hnt, Haid. cbn [andb].
  rewrite (issuance_amount_roundtrip aid va vbfa ka ba (mk_out aid (iss_amount s) [] [] (in_irp i) []) aid_len Hvbfa Hba eq_refl Hamount eq_refl Hirp).
  reflexivity.
Qed.

Section WithToken.
Variables (tid : bytes) (vt : N) (vbft kt : bytes) (bt : ub_blinded).
Hypothesis Htid : calc_token_hash i s = Some tid.
Hypothesis Hvbft : length vbft = 32%nat.
Hypothesis Hbt : blind_issuance_amount P vt tid vbft kt = Some bt.
Hypothesis Htoken : iss_token s = bl_value bt.
Hypothesis Hinrp : in_inrp i = bl_proof bt.

Let ut := mk_unb vt tid vbft ub_zero32.

Lemma tid_len : length tid = 32%nat.
Proof. exact (calc_token_hash_length _ _ _ Htid). Qed.

Lemma has_token : has_token_amount s = true.
Proof.
  pose proof (blind_issuance_amount_signed _ _ _ _ _ Hvbft Hbt) as (g & c & mn & e & mb & _ & _ & _ & Ebv & _).
  unfold has_token_amount. rewrite Htoken, Ebv, commit_ser_len. reflexivity.
Qed.

Lemma inrp_nonempty : (length (in_inrp i) =? 0)%nat = false.
Proof.
  pose proof (blind_issuance_amount_signed _ _ _ _ _ Hvbft Hbt) as (g & c & mn & e & mb & _ & _ & _ & _ & _ & Esig).
  rewrite Hinrp. destruct (bl_proof bt) as [|x p'] eqn:Ep; [|reflexivity].
  exfalso. exact (sign_nonempty _ _ _ _ _ _ _ _ _ _ Esig).
Qed.

Theorem unblind_issuance_blind : forall rest,
  unblind_issuance P i (ka :: kt :: rest) = UOk (ua, Some ut).
Proof.
  intro rest. unfold unblind_issuance.
  rewrite Hiss, irp_nonempty, has_token, inrp_nonempty, Haid, Htid. cbn [andb].
  rewrite (issuance_amount_roundtrip aid va vbfa ka ba (mk_out aid (iss_amount s) [] [] (in_irp i) []) aid_len Hvbfa Hba eq_refl Hamount eq_refl Hirp).
  rewrite (issuance_amount_roundtrip tid vt vbft kt bt (mk_out tid (iss_token s) [] [] (in_inrp i) []) tid_len Hvbft Hbt eq_refl Htoken eq_refl Hinrp).
  reflexivity.
Qed.

Theorem issuance_wrong_token_key_fails : forall k1 rest,
  ub_fit 32 k1 <> ub_fit 32 kt -> unblind_issuance P i (ka :: k1 :: rest) = UErr.
Proof.
  intros k1 rest Hk. unfold unblind_issuance.
  rewrite Hiss, irp_nonempty, has_token, inrp_nonempty, Haid, Htid. cbn [andb].
  rewrite (issuance_amount_roundtrip aid va vbfa ka ba (mk_out aid (iss_amount s) [] [] (in_irp i) []) aid_len Hvbfa Hba eq_refl Hamount eq_refl Hirp).
  rewrite (issuance_amount_wrong_key tid vt vbft kt bt (mk_out tid (iss_token s) [] [] (in_inrp i) []) k1 tid_len Hvbft Hbt Hinrp Hk).
  reflexivity.
Qed.

End WithToken.

(* wrong asset key: fails whatever the token part is *)
Theorem issuance_wrong_asset_key_fails : forall k0 keys,
  ub_fit 32 k0 <> ub_fit 32 ka -> unblind_issuance P i (k0 :: keys) = UErr.
Proof.
  intros k0 keys Hk. unfold unblind_issuance.
  destruct keys as [|k1 rest]; [reflexivity|].
  rewrite Hiss, irp_nonempty, Haid.
  destruct (has_token_amount s && (length (in_inrp i) =? 0)%nat); [reflexivity|].
  rewrite (issuance_amount_wrong_key aid va vbfa ka ba (mk_out aid (iss_amount s) [] [] (in_irp i) []) k0 aid_len Hvbfa Hba Hirp Hk).
  destruct (has_token_amount s); [|reflexivity].
  destruct (calc_token_hash i s); reflexivity.
Qed.

(* altered amount commitment: fails for every key list *)
Theorem issuance_tampered_amount_fails : forall i' s' keys,
  in_iss i' = Some s' -> in_irp i' = bl_proof ba -> iss_amount s' <> bl_value ba ->
  unblind_issuance P i' keys = UErr.
Proof.
  intros i' s' keys Hi' Hp Hne. unfold unblind_issuance.
  destruct keys as [|k0 [|k1 rest]]; try reflexivity.
  rewrite Hi'.
  destruct (length (in_irp i') =? 0)%nat; [reflexivity|].
  destruct (has_token_amount s' && (length (in_inrp i') =? 0)%nat); [reflexivity|].
  destruct (calc_asset_hash i' s') as [aid'|]; [|reflexivity].
  rewrite (issuance_amount_wrong_commitment aid va vbfa ka ba (mk_out aid' (iss_amount s') [] [] (in_irp i') []) k0 aid_len Hvbfa Hba Hp Hne).
  destruct (has_token_amount s'); [|reflexivity].
  destruct (calc_token_hash i' s'); reflexivity.
Qed.

(* the revealed issuance amount re-creates the amount commitment (zero asset blinder) *)
Theorem issuance_recreates_commitment :
  asset_commitment P (u_asset ua) (u_abf ua) = Some (bl_asset ba) /\
  value_commitment P (u_value ua) (bl_asset ba) (u_vbf ua) = Some (iss_amount s).
Proof.
  rewrite Hamount.
  exact (signed_recreates va aid ub_zero32 vbfa [] (ub_fit 32 ka) ba (blind_issuance_amount_signed _ _ _ _ _ Hvbfa Hba)).
Qed.

End Issuances.

(* an input whose issuance differs arbitrarily (other prevout, entropy, amount commitment,
   token part) but still carries this issuance range proof: failure or the original value *)
Theorem issuance_never_other_amount : forall aid va vbfa ka ba i' keys ua' ut',
  length aid = 32%nat -> length vbfa = 32%nat ->
  blind_issuance_amount P va aid vbfa ka = Some ba ->
  in_irp i' = bl_proof ba ->
  unblind_issuance P i' keys = UOk (ua', ut') -> u_value ua' = va /\ u_vbf ua' = vbfa.
Proof.
  intros aid va vbfa ka ba i' keys ua' ut' Hla Hlv Hba Hp Hu.
  unfold unblind_issuance in Hu.
  destruct keys as [|k0 [|k1 rest]]; try discriminate.
  destruct (in_iss i') as [s'|]; [|discriminate].
  destruct (length (in_irp i') =? 0)%nat; [discriminate|].
  destruct (has_token_amount s' && (length (in_inrp i') =? 0)%nat); [discriminate|].
  destruct (calc_asset_hash i' s') as [aid'|]; [|discriminate].
  remember (mk_out aid' (iss_amount s') [] [] (in_irp i') []) as oa' eqn:Eoa.
  assert (Hp' : o_rp oa' = bl_proof ba) by (rewrite Eoa; exact Hp).
  destruct (unblind_issuance_amount P oa' k0) as [u| |] eqn:Eu.
  - assert (Hval : u_value u = va /\ u_vbf u = vbfa).
    { exact (issuance_amount_only_original aid va vbfa ka ba oa' k0 u Hla Hlv Hba Hp' Eu). }
    destruct (has_token_amount s').
    + destruct (calc_token_hash i' s'); [|discriminate].
      match type of Hu with
      | context [unblind_issuance_amount P ?o k1] => destruct (unblind_issuance_amount P o k1); try discriminate
      end.
      inversion Hu; subst. exact Hval.
    + inversion Hu; subst. exact Hval.
  - destruct (has_token_amount s'); [destruct (calc_token_hash i' s')|]; discriminate.
  - destruct (has_token_amount s'); [destruct (calc_token_hash i' s')|]; discriminate.
Qed.

(* the explicit-output shortcut: no key needed, zero blinders *)
Theorem unblind_explicit_output : forall a s n sp k value,
  (length n <= 1)%nat -> (value < two64) ->
  let o := mk_out (b8 1 :: a) (b8 1 :: be_enc 8 value) s n [] sp in
  unblind_with_key P o k = UOk (mk_unb value a ub_zero32 ub_zero32) /\
  unblind_with_nonce P o k = UOk (mk_unb value a ub_zero32 ub_zero32).
Proof.
  intros a s n sp k value Hn Hv o.
  assert (Hc : is_conf_out o = false).
  { unfold is_conf_out, o. cbn [o_nonce]. apply Nat.ltb_ge. exact Hn. }
  assert (Hval : value_from_bytes (o_value o) = Some value).
  { unfold o. cbn [o_value]. unfold value_from_bytes.
    cbn [length]. unfold be_enc. rewrite rev_length, le_enc_length. cbn [Nat.eqb].
    rewrite n8_b8. cbn [andb N.eqb N.modulo N.div_eucl].
    change (1 mod 256 =? 1) with true. cbn [andb].
    f_equal. apply be_dec_enc. exact Hv. }
  unfold unblind_with_key, unblind_with_nonce. rewrite Hc. cbn [negb].
  unfold unblind_explicit. rewrite Hval. unfold o. cbn [o_asset]. split; reflexivity.
Qed.

End Laws.

(* ================================================================== *)
(* Non-vacuity: a (cryptographically worthless, functionally correct) instance of the
   primitives that satisfies every law.  Generators and commitments are 32-byte strings
   behind a one-byte prefix, a range proof is the record of what was signed, rewind
   compares.  Pedersen binding holds on the instance's domain because it only commits
   with blinding factors whose last 8 bytes are zero (24 + 8 bytes ub_fit in 32). *)
Definition b32 : Type := { b : bytes | (length b =? 32)%nat = true }.

Lemma b32_eq (x y : b32) : proj1_sig x = proj1_sig y -> x = y.
Proof.
  destruct x as [x px], y as [y py]; cbn [proj1_sig]; intro Hxy; subst y. f_equal.
  apply (Eqdep_dec.UIP_dec Bool.bool_dec).
Qed.

Lemma fit32_ok b : (length (ub_fit 32 b) =? 32)%nat = true.
Proof. rewrite fit_length. reflexivity. Qed.

Definition mk_b32 (b : bytes) : b32 := exist _ (ub_fit 32 b) (fit32_ok b).

Definition parse_b32 (p q : N) (b : bytes) : option b32 :=
  match b with
  | x :: r =>
      if (n8 x =? p) || (n8 x =? q) then
        match Bool.bool_dec (length r =? 32)%nat true with
        | left H => Some (exist _ r H)
        | right _ => None
        end
      else None
  | [] => None
  end.
Definition ser_b32 (p : N) (g : b32) : bytes := b8 p :: proj1_sig g.

Lemma ser_b32_len p g : length (ser_b32 p g) = 33%nat.
Proof.
  destruct g as [b Hb]. unfold ser_b32. cbn [proj1_sig length]. apply Nat.eqb_eq in Hb. lia.
Qed.

Lemma parse_ser_b32 p q g : p < 256 -> parse_b32 p q (ser_b32 p g) = Some g.
Proof.
  intro Hp. destruct g as [b Hb]. unfold parse_b32, ser_b32. cbn [proj1_sig].
  rewrite n8_b8, N.mod_small by exact Hp. rewrite N.eqb_refl. cbn [orb].
  destruct (Bool.bool_dec (length b =? 32)%nat true) as [H|H]; [|contradiction].
  apply f_equal. apply b32_eq. reflexivity.
Qed.

(* the instance serialises with the first of the two accepted prefixes only when parsing
   accepts a single prefix: use p = q *)
Lemma ser_parse_b32 p b g : parse_b32 p p b = Some g -> ser_b32 p g = b.
Proof.
  unfold parse_b32, ser_b32. destruct b as [|x r]; [discriminate|].
  destruct ((n8 x =? p) || (n8 x =? p)) eqn:Ex; [|discriminate].
  destruct (Bool.bool_dec (length r =? 32)%nat true) as [H|H]; [|discriminate].
  intro Hs; inversion Hs; subst g. cbn [proj1_sig].
  assert (Hx : n8 x = p) by lia. rewrite <- Hx, b8_n8. reflexivity.
Qed.

Definition toy_pk (a : bytes) : option bytes :=
  if (length a =? 16)%nat then Some (b8 2 :: a) else None.

Definition toy_ecdh (pub priv : bytes) : option bytes :=
  match pub with
  | x :: a => if (n8 x =? 2) && (length a =? 16)%nat && (length priv =? 16)%nat
              then Some (le_enc 32 (le_dec a + le_dec priv)) else None
  | [] => None
  end.

Definition toy_gen_blinded (a b : bytes) : option b32 :=
  if bytes_eqb b ub_zero32 then Some (mk_b32 a) else Some (mk_b32 (b ++ a)).

Definition zero8 : bytes := repeat x00 8.
Definition toy_commit (vbf : bytes) (v : N) (g : b32) : option b32 :=
  if (length vbf =? 32)%nat && bytes_eqb (skipn 24 vbf) zero8 && (v <? two64)
  then Some (mk_b32 (firstn 24 vbf ++ le_enc 8 v)) else None.

Definition toy_commit_is (vbf : bytes) (v : N) (g c : b32) : bool :=
  match toy_commit vbf v g with
  | Some c1 => bytes_eqb (proj1_sig c1) (proj1_sig c)
  | None => false
  end.

Definition toy_fields (c : b32) (vbf n : bytes) (v : N) (msg s : bytes) (g : b32) : list bytes :=
  [ser_b32 8 c; n; ser_b32 10 g; vbf; le_enc 8 v; msg; s].

Definition toy_sign (mn : N) (c : b32) (vbf n : bytes) (e mb : Z) (v : N) (msg s : bytes) (g : b32) : option bytes :=
  let f := toy_fields c vbf n v msg s g in
  if forallb (fun x => lenN x <? two64) f && (v <? two64) then Some (vector f) else None.

Definition toy_parse_proof (p : bytes) : option (bytes * bytes * bytes * bytes * bytes * bytes * bytes) :=
  match p_vector p with
  | Some ([c0; n0; g0; vbf; vb; msg; s0], []) => Some (c0, n0, g0, vbf, vb, msg, s0)
  | _ => None
  end.

Definition toy_rewind (c : b32) (p n s : bytes) (g : b32) : option (bytes * N * bytes) :=
  match toy_parse_proof p with
  | Some (c0, n0, g0, vbf, vb, msg, s0) =>
      if bytes_eqb c0 (ser_b32 8 c) && bytes_eqb n0 n && bytes_eqb g0 (ser_b32 10 g) &&
         bytes_eqb s0 s && toy_commit_is vbf (le_dec vb) g c
      then Some (vbf, le_dec vb, ub_fit 64 msg) else None
  | None => None
  end.

Definition toy_verify (c : b32) (p s : bytes) (g : b32) : bool :=
  match toy_parse_proof p with
  | Some (c0, n0, g0, vbf, vb, msg, s0) =>
      bytes_eqb c0 (ser_b32 8 c) && bytes_eqb g0 (ser_b32 10 g) && bytes_eqb s0 s &&
      toy_commit_is vbf (le_dec vb) g c
  | None => false
  end.

Definition toy : prims b32 b32 :=
  mk_prims b32 b32
    (ub_fit 32) toy_ecdh
    (parse_b32 10 10) (ser_b32 10) (fun a => Some (mk_b32 a)) toy_gen_blinded
    (parse_b32 8 8) (ser_b32 8) toy_commit
    toy_sign toy_rewind toy_verify.

Lemma bytes_eqb_refl a : bytes_eqb a a = true.
Proof. apply bytes_eqb_eq. reflexivity. Qed.

Lemma toy_parse_sign mn c vbf n e mb v msg s g p :
  toy_sign mn c vbf n e mb v msg s g = Some p ->
  toy_parse_proof p = Some (ser_b32 8 c, n, ser_b32 10 g, vbf, le_enc 8 v, msg, s) /\ v < two64.
Proof.
  unfold toy_sign. destruct (forallb _ _ && (v <? two64)) eqn:Ew; [|discriminate].
  intro Hp; inversion Hp; subst p; clear Hp.
  apply andb_true_iff in Ew as [Hf Hv].
  unfold toy_parse_proof. rewrite <- (app_nil_r (vector _)), p_vector_app.
  - split; [reflexivity | lia].
  - split; [unfold toy_fields, lenL; cbn [length]; unfold two64; lia|]. apply Forall_forall. intros x Hx.
    rewrite forallb_forall in Hf. specialize (Hf x Hx). lia.
Qed.

Lemma ser_b32_inj p x y : ser_b32 p x = ser_b32 p y -> x = y.
Proof. unfold ser_b32. intro H; inversion H. apply b32_eq. assumption. Qed.

Lemma toy_commit_is_spec vbf v g c : toy_commit_is vbf v g c = true <-> toy_commit vbf v g = Some c.
Proof.
  unfold toy_commit_is. destruct (toy_commit vbf v g) as [c1|]; split; intro H; try discriminate.
  - apply bytes_eqb_eq in H. f_equal. apply b32_eq. exact H.
  - inversion H; subst. apply bytes_eqb_refl.
Qed.

Lemma le_dec_le_enc8 v : v < two64 -> le_dec (le_enc 8 v) = v.
Proof. intro H. apply le_dec_enc. exact H. Qed.

Lemma toy_laws : laws toy toy_pk.
Proof.
  constructor; cbn [toy p_hash p_ecdh p_gen_parse p_gen_ser p_gen_generate p_gen_blinded
                    p_commit_parse p_commit_ser p_commit p_sign p_rewind p_verify].
  - intro x. apply fit_length.
  - intros a A. unfold toy_pk. destruct (length a =? 16)%nat eqn:El; [|discriminate].
    intro H; inversion H; subst A. cbn [length]. lia.
  - intros a b A B. unfold toy_pk.
    destruct (length a =? 16)%nat eqn:Ea; [|discriminate].
    destruct (length b =? 16)%nat eqn:Eb; [|discriminate].
    intros HA HB; inversion HA; inversion HB; subst A B. unfold toy_ecdh.
    rewrite n8_b8, Ea, Eb. cbn [andb]. rewrite N.add_comm. reflexivity.
  - intros A a b s s'. unfold toy_ecdh. destruct A as [|x a0]; [discriminate|].
    destruct ((n8 x =? 2) && (length a0 =? 16)%nat) eqn:E0; cbn [andb]; [|discriminate].
    destruct (length a =? 16)%nat eqn:Ea; [|discriminate].
    destruct (length b =? 16)%nat eqn:Eb; [|discriminate].
    intros Hs Hs' Hh.
    assert (Es : s = le_enc 32 (le_dec a0 + le_dec a)) by congruence.
    assert (Es' : s' = le_enc 32 (le_dec a0 + le_dec b)) by congruence.
    rewrite Es, Es' in Hh. clear Hs Hs' Es Es'.
    rewrite (fit_id 32 (le_enc 32 (le_dec a0 + le_dec a))), (fit_id 32 (le_enc 32 (le_dec a0 + le_dec b))) in Hh by apply le_enc_length.
    apply Nat.eqb_eq in Ea, Eb.
    apply andb_true_iff in E0 as [_ E0]. apply Nat.eqb_eq in E0.
    pose proof (le_dec_bound a0) as B0. pose proof (le_dec_bound a) as Ba. pose proof (le_dec_bound b) as Bb.
    rewrite E0 in B0. rewrite Ea in Ba. rewrite Eb in Bb.
    change (256 ^ N.of_nat 16) with 340282366920938463463374607431768211456 in B0, Ba, Bb.
    apply le_enc_inj in Hh.
    + assert (Hab : le_dec a = le_dec b) by lia.
      rewrite <- (le_enc_dec a), <- (le_enc_dec b), Ea, Eb, Hab. reflexivity.
    + change (256 ^ N.of_nat 32) with 115792089237316195423570985008687907853269984665640564039457584007913129639936. lia.
    + change (256 ^ N.of_nat 32) with 115792089237316195423570985008687907853269984665640564039457584007913129639936. lia.
  - intro g. apply ser_b32_len.
  - intro g. apply parse_ser_b32. lia.
  - intros b g. apply ser_parse_b32.
  - intro a. unfold toy_gen_blinded. rewrite bytes_eqb_refl. reflexivity.
  - intro c. apply ser_b32_len.
  - intro c. apply parse_ser_b32. lia.
  - intros b c. apply ser_parse_b32.
  - intros mn c vbf n e mb v msg s g. unfold toy_sign.
    destruct (forallb _ _ && (v <? two64)); [|discriminate].
    intro H. injection H as Hv. unfold vector in Hv.
    apply app_eq_nil in Hv as [Hv _]. exact (varint_nonempty _ Hv).
  - intros mn c vbf n e mb v msg s g p Hc Hs.
    destruct (toy_parse_sign _ _ _ _ _ _ _ _ _ _ _ Hs) as (Hp & Hv).
    unfold toy_rewind. rewrite Hp, !bytes_eqb_refl, le_dec_le_enc8 by exact Hv. cbn [andb].
    apply toy_commit_is_spec in Hc. rewrite Hc. reflexivity.
  - intros mn c vbf n e mb v msg s g p c' n' s' g' r Hs Hr.
    destruct (toy_parse_sign _ _ _ _ _ _ _ _ _ _ _ Hs) as (Hp & Hv).
    unfold toy_rewind in Hr. rewrite Hp in Hr.
    match type of Hr with (if ?b then _ else _) = _ => destruct b eqn:Eb; [|discriminate] end.
    apply andb_true_iff in Eb as [Eb _]. apply andb_true_iff in Eb as [Eb E4].
    apply andb_true_iff in Eb as [Eb E3]. apply andb_true_iff in Eb as [E1 E2].
    apply bytes_eqb_eq in E1, E2, E3, E4.
    repeat split.
    + symmetry. exact (ser_b32_inj _ _ _ E1).
    + symmetry. exact E2.
    + symmetry. exact E4.
    + symmetry. exact (ser_b32_inj _ _ _ E3).
  - intros mn c vbf n e mb v msg s g p Hc Hs.
    destruct (toy_parse_sign _ _ _ _ _ _ _ _ _ _ _ Hs) as (Hp & Hv).
    unfold toy_verify. rewrite Hp, !bytes_eqb_refl, le_dec_le_enc8 by exact Hv. cbn [andb].
    apply toy_commit_is_spec. exact Hc.
  - intros c p n s g vbf v m. unfold toy_rewind.
    destruct (toy_parse_proof p) as [[[[[[[c0 n0] g0] vbf0] vb] msg] s0]|]; [|discriminate].
    match goal with |- (if ?b then _ else _) = _ -> _ => destruct b eqn:Eb; [|discriminate] end.
    intro H; inversion H; subst vbf v m; clear H.
    apply andb_true_iff in Eb as [_ Eb]. apply toy_commit_is_spec. exact Eb.
  - intros vbf v vbf' v' g c. unfold toy_commit.
    destruct ((length vbf =? 32)%nat && bytes_eqb (skipn 24 vbf) zero8 && (v <? two64)) eqn:E1; [|discriminate].
    destruct ((length vbf' =? 32)%nat && bytes_eqb (skipn 24 vbf') zero8 && (v' <? two64)) eqn:E2; [|discriminate].
    intros H1 H2. rewrite <- H2 in H1.
    assert (Hf : ub_fit 32 (firstn 24 vbf ++ le_enc 8 v) = ub_fit 32 (firstn 24 vbf' ++ le_enc 8 v')).
    { apply (f_equal (fun o : option b32 => match o with Some c1 => proj1_sig c1 | None => [] end)) in H1. exact H1. }
    clear H1 H2.
    apply andb_true_iff in E1 as [E1 Hv]. apply andb_true_iff in E1 as [Hl Hz].
    apply andb_true_iff in E2 as [E2 Hv']. apply andb_true_iff in E2 as [Hl' Hz'].
    apply Nat.eqb_eq in Hl, Hl'. apply bytes_eqb_eq in Hz, Hz'.
    assert (L1 : length (firstn 24 vbf ++ le_enc 8 v) = 32%nat).
    { rewrite app_length, firstn_length, le_enc_length. lia. }
    assert (L2 : length (firstn 24 vbf' ++ le_enc 8 v') = 32%nat).
    { rewrite app_length, firstn_length, le_enc_length. lia. }
    rewrite !fit_id in Hf by assumption.
    apply app_eq_len in Hf.
    + destruct Hf as [Hfa Hfb]. split.
      * transitivity (firstn 24 vbf ++ skipn 24 vbf); [symmetry; apply firstn_skipn|].
        rewrite Hfa, Hz, <- Hz'. apply firstn_skipn.
      * apply (le_enc_inj 8); [change (256 ^ N.of_nat 8) with two64; lia | change (256 ^ N.of_nat 8) with two64; lia | exact Hfb].
    + rewrite !firstn_length. lia.
Qed.

(* ---------- the hypotheses of the main theorems are satisfiable (concrete instances) ---------- *)
Definition ex_asset : bytes := repeat x11 32.
Definition ex_abf : bytes := repeat x22 32.
Definition ex_vbf : bytes := repeat x33 24 ++ zero8.
Definition ex_script : bytes := [x00; x14; xaa].
Definition ex_rsk : bytes := repeat x07 16.
Definition ex_esk : bytes := repeat x09 16.
Definition ex_R : bytes := b8 2 :: ex_rsk.
Definition ex_E : bytes := b8 2 :: ex_esk.
Definition dummy_bl : ub_blinded := mk_bl [] [] [] [].
Definition ex_bl : ub_blinded :=
  match blind_output toy 1000 ex_asset ex_abf ex_vbf ex_script ex_R ex_esk 0 52 with
  | Some b => b | None => dummy_bl end.

Example ex_output_hypotheses :
  length ex_asset = 32%nat /\ length ex_abf = 32%nat /\ length ex_vbf = 32%nat /\
  toy_pk ex_rsk = Some ex_R /\ toy_pk ex_esk = Some ex_E /\
  blind_output toy 1000 ex_asset ex_abf ex_vbf ex_script ex_R ex_esk 0 52 = Some ex_bl /\
  unblind_with_key toy (out_of_blinded ex_bl ex_script ex_E []) ex_rsk =
    UOk (mk_unb 1000 ex_asset ex_vbf ex_abf) /\
  unblind_with_key toy (out_of_blinded ex_bl ex_script ex_E []) ex_esk = UErr /\
  unblind_with_key toy (out_of_blinded ex_bl [x00; x14; xab] ex_E []) ex_rsk = UErr.
Proof. repeat (apply conj; [vm_compute; reflexivity|]). vm_compute; reflexivity. Qed.

Definition ex_ka : bytes := repeat x41 32.
Definition ex_kt : bytes := repeat x42 32.
Definition ex_iss0 : issuance := mk_iss ub_zero32 (repeat x05 32) [x00] [x00].
Definition ex_in0 : txin := mk_in (repeat x01 32) 3 0 [] [] false [] (Some ex_iss0) [] [].
Definition ex_aid : bytes := match calc_asset_hash ex_in0 ex_iss0 with Some a => a | None => [] end.
Definition ex_tid : bytes := match calc_token_hash ex_in0 ex_iss0 with Some a => a | None => [] end.
Definition ex_ba : ub_blinded :=
  match blind_issuance_amount toy 7 ex_aid ex_vbf ex_ka with Some b => b | None => dummy_bl end.
Definition ex_bt : ub_blinded :=
  match blind_issuance_amount toy 1 ex_tid ex_vbf ex_kt with Some b => b | None => dummy_bl end.
Definition ex_iss : issuance := mk_iss ub_zero32 (repeat x05 32) (bl_value ex_ba) (bl_value ex_bt).
Definition ex_in : txin :=
  mk_in (repeat x01 32) 3 0 [] [] false [] (Some ex_iss) (bl_proof ex_ba) (bl_proof ex_bt).

Example ex_issuance_hypotheses :
  in_iss ex_in = Some ex_iss /\ calc_asset_hash ex_in ex_iss = Some ex_aid /\
  calc_token_hash ex_in ex_iss = Some ex_tid /\
  blind_issuance_amount toy 7 ex_aid ex_vbf ex_ka = Some ex_ba /\
  blind_issuance_amount toy 1 ex_tid ex_vbf ex_kt = Some ex_bt /\
  iss_amount ex_iss = bl_value ex_ba /\ in_irp ex_in = bl_proof ex_ba /\
  iss_token ex_iss = bl_value ex_bt /\ in_inrp ex_in = bl_proof ex_bt /\
  unblind_issuance toy ex_in [ex_ka; ex_kt] =
    UOk (mk_unb 7 ex_aid ex_vbf ub_zero32, Some (mk_unb 1 ex_tid ex_vbf ub_zero32)) /\
  unblind_issuance toy ex_in [ex_kt; ex_kt] = UErr.
Proof. repeat (apply conj; [vm_compute; reflexivity|]). vm_compute; reflexivity. Qed.

(* the theorems apply to the instance *)
Example ex_theorem_applies :
  unblind_with_key toy (out_of_blinded ex_bl ex_script ex_E []) ex_rsk =
    UOk (mk_unb 1000 ex_asset ex_vbf ex_abf).
Proof.
  destruct ex_output_hypotheses as (H1 & H2 & H3 & H4 & H5 & H6 & _).
  exact (unblind_blind_key toy toy_pk toy_laws 1000 ex_asset ex_abf ex_vbf ex_script ex_rsk ex_esk
           ex_R ex_E [] 0%Z 52%Z ex_bl H1 H2 H3 H4 H5 H6).
Qed.

(* ---------- statements as exported to Props/C06.v (no unused parameters) ---------- *)
Section Exported.
Context {G C : Type} (P : prims G C) (pk : bytes -> option bytes) (L : laws P pk).

(* an output ub_blinded by the library for recipient key pair (rsk, R) with ephemeral pair (esk, E) *)
Definition blinded_for (value : N) (asset abf vbf script rsk esk R E : bytes) (exp mb : Z) (bl : ub_blinded) : Prop :=
  length asset = 32%nat /\ length abf = 32%nat /\ length vbf = 32%nat /\
  pk rsk = Some R /\ pk esk = Some E /\
  blind_output P value asset abf vbf script R esk exp mb = Some bl.

Variables (value : N) (asset abf vbf script rsk esk R E : bytes) (exp mb : Z) (bl : ub_blinded).
Hypothesis B : blinded_for value asset abf vbf script rsk esk R E exp mb bl.

Let u0 := mk_unb value asset vbf abf.

Theorem x_unblind_blind_key : forall sp,
  unblind_with_key P (out_of_blinded bl script E sp) rsk = UOk u0.
Proof. destruct B as (H1 & H2 & H3 & H4 & H5 & H6). intro sp.
  eapply unblind_blind_key with (asset := asset) (abf := abf) (vbf := vbf) (esk := esk) (R := R) (E := E); eassumption. Qed.

Theorem x_unblind_blind_nonce : forall sp,
  unblind_with_nonce P (out_of_blinded bl script E sp) (bl_nonce bl) = UOk u0.
Proof. destruct B as (H1 & H2 & H3 & H4 & H5 & H6). intro sp.
  eapply unblind_blind_nonce with (asset := asset) (abf := abf) (vbf := vbf) (esk := esk) (R := R) (E := E); eassumption. Qed.

Theorem x_revealed_recreates_commitments : forall sp u,
  unblind_with_key P (out_of_blinded bl script E sp) rsk = UOk u ->
  u = u0 /\
  asset_commitment P (u_asset u) (u_abf u) = Some (bl_asset bl) /\
  value_commitment P (u_value u) (bl_asset bl) (u_vbf u) = Some (bl_value bl).
Proof.
  destruct B as (H1 & H2 & H3 & H4 & H5 & H6). intros sp u Hu.
  eapply revealed_recreates_commitments with (asset := asset) (abf := abf) (vbf := vbf) (esk := esk) (R := R) (E := E); eassumption.
Qed.

Theorem x_fresh_proof_verifies :
  verify_range_proof P (bl_value bl) (bl_asset bl) script (bl_proof bl) = true.
Proof.
  destruct B as (H1 & H2 & H3 & H4 & H5 & H6).
  eapply fresh_proof_verifies with (asset := asset) (abf := abf) (vbf := vbf) (esk := esk) (R := R) (E := E) (sp := []); eassumption.
Qed.

Theorem x_wrong_key_fails : forall sp k,
  k <> rsk -> unblind_with_key P (out_of_blinded bl script E sp) k = UErr.
Proof. destruct B as (H1 & H2 & H3 & H4 & H5 & H6). intros sp k Hk.
  eapply wrong_key_fails with (asset := asset) (abf := abf) (vbf := vbf) (rsk := rsk) (esk := esk) (R := R) (E := E); eassumption. Qed.

Theorem x_wrong_nonce_fails : forall sp n,
  ub_fit 32 n <> bl_nonce bl -> unblind_with_nonce P (out_of_blinded bl script E sp) n = UErr.
Proof. destruct B as (H1 & H2 & H3 & H4 & H5 & H6). intros sp n Hn.
  eapply wrong_nonce_fails_with_nonce with (asset := asset) (abf := abf) (vbf := vbf) (esk := esk) (R := R) (E := E); eassumption. Qed.

Theorem x_tampered_script_fails : forall script' sp k n,
  script' <> script ->
  let o' := mk_out (bl_asset bl) (bl_value bl) script' E (bl_proof bl) sp in
  unblind_with_key P o' k = UErr /\ unblind_with_nonce P o' n = UErr.
Proof.
  destruct B as (H1 & H2 & H3 & H4 & H5 & H6). intros script' sp k n Hne.
  eapply tampered_script_fails with (asset := asset) (abf := abf) (vbf := vbf) (esk := esk) (R := R) (E := E); eassumption.
Qed.

Theorem x_tampered_value_commitment_fails : forall vc' sp k n,
  vc' <> bl_value bl ->
  let o' := mk_out (bl_asset bl) vc' script E (bl_proof bl) sp in
  unblind_with_key P o' k = UErr /\ unblind_with_nonce P o' n = UErr.
Proof.
  destruct B as (H1 & H2 & H3 & H4 & H5 & H6). intros vc' sp k n Hne.
  eapply tampered_value_commitment_fails with (asset := asset) (abf := abf) (vbf := vbf) (esk := esk) (R := R) (E := E); eassumption.
Qed.

Theorem x_tampered_asset_commitment_fails : forall ac' sp k n,
  length ac' = 33%nat -> ac' <> bl_asset bl ->
  let o' := mk_out ac' (bl_value bl) script E (bl_proof bl) sp in
  unblind_with_key P o' k = UErr /\ unblind_with_nonce P o' n = UErr.
Proof.
  destruct B as (H1 & H2 & H3 & H4 & H5 & H6). intros ac' sp k n Hl Hne.
  eapply tampered_asset_commitment_fails with (asset := asset) (abf := abf) (vbf := vbf) (esk := esk) (R := R) (E := E); eassumption.
Qed.

Theorem x_never_other_amounts : forall o' k u,
  o_rp o' = bl_proof bl -> is_conf_out o' = true ->
  unblind_with_key P o' k = UOk u -> u = u0.
Proof. destruct B as (H1 & H2 & H3 & H4 & H5 & H6). intros o' k u.
  eapply never_other_amounts with (asset := asset) (abf := abf) (vbf := vbf) (esk := esk) (R := R); eassumption. Qed.

Theorem x_tampered_proof_never_other_value : forall p' sp k u,
  unblind_with_key P (mk_out (bl_asset bl) (bl_value bl) script E p' sp) k = UOk u ->
  u_value u = value /\ u_vbf u = vbf.
Proof.
  destruct B as (H1 & H2 & H3 & H4 & H5 & H6). intros p' sp k u Hu.
  eapply tampered_proof_never_other_value with (asset := asset) (abf := abf) (vbf := vbf) (esk := esk) (R := R) (E := E); eassumption.
Qed.

End Exported.

(* ================================================================== *)
(* zkpGenerator.UnblindInputs over a history of calls on one generator instance *)
Section History.
Context {G C : Type} (P : prims G C) (pk : bytes -> option bytes) (L : laws P pk).

(* a generator has no memory: the k-th answer is the pure function of the k-th packet *)
Theorem gen_run_pointwise : forall st h,
  gen_run P st h = (st, map (fun p => unblind_inputs P st (fst p) (snd p)) h).
Proof.
  intros st h. induction h as [|p r IH]; cbn [gen_run map]; [reflexivity|].
  unfold gen_step. rewrite IH. reflexivity.
Qed.

Theorem gen_after_history : forall st h p,
  snd (gen_step P (fst (gen_run P st h)) p) = unblind_inputs P st (fst p) (snd p).
Proof. intros st h p. rewrite gen_run_pointwise. reflexivity. Qed.

Lemma try_keys_all_fail : forall ks o,
  (forall k, unblind_with_key P o k = UErr) -> try_keys P ks o = UErr.
Proof.
  intros ks o Hall. induction ks as [|k r IH]; cbn [try_keys]; [reflexivity|].
  rewrite Hall. exact IH.
Qed.

Lemma try_keys_first_ok : forall pre k post o u,
  (forall k', In k' pre -> unblind_with_key P o k' = UErr) ->
  unblind_with_key P o k = UOk u -> try_keys P (pre ++ k :: post) o = UOk u.
Proof.
  intros pre k post o u Hpre Hk. induction pre as [|k' r IH]; cbn [try_keys app].
  - rewrite Hk. reflexivity.
  - rewrite (Hpre k' (or_introl eq_refl)). apply IH. intros k2 Hin. apply Hpre. right. exact Hin.
Qed.

Variables (value : N) (asset abf vbf script rsk esk R E : bytes) (exp mb : Z) (bl : ub_blinded).
Hypothesis B : blinded_for P pk value asset abf vbf script rsk esk R E exp mb bl.

(* generator keys under which the recipient's key is the one that is reached *)
Definition reaches (gk : gen_keys) (scr key : bytes) : Prop :=
  match gk with
  | GKeys ks => exists pre post, ks = pre ++ key :: post /\ ~ In key pre
  | GMaster d => d scr = key
  end.

Lemma one_input_packet : forall gk o idxs,
  idxs = [] \/ idxs = [0] ->
  unblind_inputs P gk [o] idxs =
    match gen_unblind_output P gk o with
    | UOk u => UOk [mk_owned 0 (u_value u) (u_asset u) (u_vbf u) (u_abf u)]
    | UErr => UErr
    | UPanic => UPanic
    end.
Proof.
  intros gk o idxs [Hi|Hi]; subst idxs; unfold unblind_inputs; cbn;
    destruct (gen_unblind_output P gk o); reflexivity.
Qed.

(* after ANY history of calls, a packet whose prevout is the honestly blinded output is
   unblinded to exactly what was blinded *)
Theorem history_then_honest : forall gk h sp idxs,
  reaches gk script rsk -> idxs = [] \/ idxs = [0] ->
  snd (gen_step P (fst (gen_run P gk h)) ([out_of_blinded bl script E sp], idxs)) =
    UOk [mk_owned 0 value asset vbf abf].
Proof.
  intros gk h sp idxs Hr Hi. rewrite gen_after_history. cbn [fst snd].
  rewrite (one_input_packet gk _ idxs Hi).
  assert (Hc : is_conf_out (out_of_blinded bl script E sp) = true).
  { destruct B as (_ & _ & _ & _ & HE & _). unfold is_conf_out, out_of_blinded. cbn [o_nonce].
    pose proof (law_pk_conf P pk L _ _ HE). apply Nat.ltb_lt. lia. }
  unfold gen_unblind_output. rewrite Hc. cbn [negb].
  assert (Hok : try_keys P (keys_for gk (out_of_blinded bl script E sp)) (out_of_blinded bl script E sp)
                = UOk (mk_unb value asset vbf abf)).
  { destruct gk as [ks|d]; cbn [keys_for reaches] in *.
    - destruct Hr as (pre & post & -> & Hnin). apply try_keys_first_ok.
      + intros k' Hin. apply (x_wrong_key_fails P pk L _ _ _ _ _ _ _ _ _ _ _ _ B).
        intro Heq. subst k'. exact (Hnin Hin).
      + apply (x_unblind_blind_key P pk L _ _ _ _ _ _ _ _ _ _ _ _ B).
    - unfold out_of_blinded at 1. cbn [o_script]. rewrite Hr. cbn [try_keys].
      rewrite (x_unblind_blind_key P pk L _ _ _ _ _ _ _ _ _ _ _ _ B). reflexivity. }
  rewrite Hok. reflexivity.
Qed.

(* after ANY history (in particular after the honest prevout was unblinded for the same
   outpoint), a packet whose prevout has an altered script / value commitment fails, for every
   kind of generator keys *)
Theorem history_then_tampered_script : forall gk h script' sp idxs,
  script' <> script -> idxs = [] \/ idxs = [0] ->
  snd (gen_step P (fst (gen_run P gk h))
         ([mk_out (bl_asset bl) (bl_value bl) script' E (bl_proof bl) sp], idxs)) = UErr.
Proof.
  intros gk h script' sp idxs Hne Hi. rewrite gen_after_history. cbn [fst snd].
  rewrite (one_input_packet gk _ idxs Hi).
  assert (Hc : is_conf_out (mk_out (bl_asset bl) (bl_value bl) script' E (bl_proof bl) sp) = true).
  { destruct B as (_ & _ & _ & _ & HE & _). unfold is_conf_out. cbn [o_nonce].
    pose proof (law_pk_conf P pk L _ _ HE). apply Nat.ltb_lt. lia. }
  unfold gen_unblind_output. rewrite Hc. cbn [negb].
  rewrite try_keys_all_fail; [reflexivity|].
  intro k. exact (proj1 (x_tampered_script_fails P pk L _ _ _ _ _ _ _ _ _ _ _ _ B script' sp k [] Hne)).
Qed.

Theorem history_then_tampered_value_commitment : forall gk h vc' sp idxs,
  vc' <> bl_value bl -> idxs = [] \/ idxs = [0] ->
  snd (gen_step P (fst (gen_run P gk h))
         ([mk_out (bl_asset bl) vc' script E (bl_proof bl) sp], idxs)) = UErr.
Proof.
  intros gk h vc' sp idxs Hne Hi. rewrite gen_after_history. cbn [fst snd].
  rewrite (one_input_packet gk _ idxs Hi).
  assert (Hc : is_conf_out (mk_out (bl_asset bl) vc' script E (bl_proof bl) sp) = true).
  { destruct B as (_ & _ & _ & _ & HE & _). unfold is_conf_out. cbn [o_nonce].
    pose proof (law_pk_conf P pk L _ _ HE). apply Nat.ltb_lt. lia. }
  unfold gen_unblind_output. rewrite Hc. cbn [negb].
  rewrite try_keys_all_fail; [reflexivity|].
  intro k. exact (proj1 (x_tampered_value_commitment_fails P pk L _ _ _ _ _ _ _ _ _ _ _ _ B vc' sp k [] Hne)).
Qed.

End History.
